from multiprops import run_c13 as run, replay
