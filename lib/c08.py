from multiprops import run_c08 as run, replay
