from codec import run_c01 as run, replay
