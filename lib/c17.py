"""C17 — key patterns match as Redis globs."""
import json, random
import vlib
from vlib import Check, log

ALPHA = b"ab*?.+(|$\n"          # the property's alphabet plus newline ('?' must take it)
ALPHA5 = b"ab*?.+(|$"

def hx(b):
    return b.hex() if b else "-"

def unhx(s):
    return b"" if s == "-" else bytes.fromhex(s)

def enum_strings(alpha, maxlen):
    res, level = [b""], [b""]
    for _ in range(maxlen):
        level = [s + bytes([a]) for s in level for a in alpha]
        res += level
    return res

def bits_to_list(bits, n):
    out = []
    for ch in bits:
        v = int(ch, 16)
        out += [(v >> 3) & 1, (v >> 2) & 1, (v >> 1) & 1, v & 1]
    return out[:n]

def instantiate(rng, p):
    k = bytearray()
    for c in p:
        if c == ord("*"):
            k += bytes(rng.choice(ALPHA + b"xyz") for _ in range(rng.randint(0, 3)))
        elif c == ord("?"):
            k.append(rng.choice(ALPHA + b"xyz\r\x00"))
        else:
            k.append(c)
    return bytes(k)

def mutate(rng, k):
    k = bytearray(k)
    op = rng.randint(0, 3)
    if op == 0 and k:
        del k[rng.randrange(len(k))]
    elif op == 1:
        k.insert(rng.randint(0, len(k)), rng.choice(ALPHA + b"xyz"))
    elif op == 2 and k:
        k[rng.randrange(len(k))] = rng.choice(ALPHA + b"xyz")
    return bytes(k)

def compare(chk, mode_args, lines_in, keys_of, stats):
    inp = "\n".join(lines_in) + "\n"
    rc1, o1, t1 = vlib.run_harness(["glob"] + mode_args, inp)
    rc2, o2, t2 = vlib.run_model(["glob"] + mode_args, inp)
    if rc1 != 0 or rc2 != 0:
        chk.violation("harness-failure", "harness rc=%d model rc=%d: %s %s" % (rc1, rc2, o1[-300:], o2[-300:]),
                      dict(stage="run"), no_failing_input=True)
        return
    impl = [l.split(" ") for l in o1.splitlines() if l.strip()]
    mod = [l.split(" ") for l in o2.splitlines() if l.strip()]
    # the same patterns compiled and matched by 8 goroutines at once: a compiled pattern belongs to the caller that compiled it
    import os
    rc3, o3, _ = vlib.run_harness(["glob"] + mode_args, inp, env=dict(os.environ, VERIF_GLOB_PAR="8"))
    impl_par = [l.split(" ") for l in o3.splitlines() if l.strip()]
    if rc3 != 0 or len(impl_par) != len(impl):
        chk.violation("harness-failure", "glob harness with 8 concurrent callers: rc=%d, %d lines for %d cases: %s" % (rc3, len(impl_par), len(impl), o3[-300:]),
                      dict(stage="run"), no_failing_input="panic" not in o3 and "fatal error" not in o3)
        return
    stats["concurrent_rows"] = stats.get("concurrent_rows", 0) + len(impl_par)
    for li, (a, b) in enumerate(zip(impl, impl_par)):
        if a != b and a[1] == "1":
            p = unhx(a[0]); keys = keys_of(li)
            if b[1] != "1":
                chk.violation("concurrent-compile", "glob.Compile(%r) %s when 8 goroutines compile patterns at the same time (alone it succeeds)" % (p, "panics" if b[1] == "P" else "returns an error"),
                              dict(pattern_hex=hx(p), pattern=repr(p), concurrent_callers=8, neighbours=[l.split(" ")[0] for l in lines_in[max(0, li - 8):li + 9]]))
            else:
                il, jl = bits_to_list(a[3], len(keys)), bits_to_list(b[3], len(keys))
                j = next((i for i in range(len(keys)) if il[i] != jl[i]), None)
                chk.violation("concurrent-match", "pattern %r compiled while 7 other goroutines compile other patterns: expression %r%s (compiled alone: %r)" % (
                                  p, unhx(b[2]), "" if j is None else ", key %r matches=%s" % (keys[j], bool(jl[j])), unhx(a[2])),
                              dict(pattern_hex=hx(p), pattern=repr(p), concurrent_callers=8, regexp_source=unhx(b[2]).decode("latin1"), neighbours=[l.split(" ")[0] for l in lines_in[max(0, li - 8):li + 9]]))
            break
    if len(impl) != len(lines_in) or len(mod) != len(lines_in):
        chk.violation("harness-failure", "line count mismatch impl=%d model=%d cases=%d" % (len(impl), len(mod), len(lines_in)),
                      dict(stage="run"), no_failing_input=True)
        return
    for li, (a, m) in enumerate(zip(impl, mod)):
        p = unhx(a[0])
        keys = keys_of(li)
        stats["evaluations"] += len(keys)
        compiled, src, ibits, dbits = a[1], a[2], a[3], a[4]
        mtxt, mok, mgbits, mrbits = m[1], m[2], m[3], (m[4] if len(m) > 4 else "")
        if compiled != "1":
            chk.violation("compile-fails", "glob.Compile(%r) %s" % (p, "panics" if compiled == "P" else "returns an error"),
                          dict(pattern_hex=hx(p), pattern=repr(p)))
            continue
        dl = bits_to_list(dbits, len(keys))
        il = bits_to_list(ibits, len(keys))
        if any(dl) and not all(dl) and any(c in b"*?.+(|$\n" for c in p):
            stats["nontrivial"].add(p)
        # monitor: implementation vs the direct recursive matcher (independent of the model)
        if il != dl:
            j = next(i for i in range(len(keys)) if il[i] != dl[i])
            chk.violation("match-differs", "pattern %r key %r: implementation says %s, glob semantics say %s" %
                          (p, keys[j], bool(il[j]), bool(dl[j])),
                          dict(pattern_hex=hx(p), key_hex=hx(keys[j]), pattern=repr(p), key=repr(keys[j]),
                               impl=bool(il[j]), expected=bool(dl[j]), regexp_source=unhx(src).decode("latin1")))
            continue
        # correspondence: model = implementation (text of the expression, and every match result)
        ml = bits_to_list(mgbits, len(keys))
        if mok != "1" or mrbits != mgbits:
            chk.violation("model-inconsistent", "model: re_parse/re_match disagree with glob_match on %r (theorem C17 would be false)" % p,
                          dict(pattern_hex=hx(p)), no_failing_input=True)
        if ml != il:
            j = next(i for i in range(len(keys)) if il[i] != ml[i])
            chk.violation("corr-match", "correspondence: pattern %r key %r model=%s impl=%s" % (p, keys[j], ml[j], il[j]),
                          dict(pattern_hex=hx(p), key_hex=hx(keys[j])))
        if src != mtxt:
            stats["text_mismatch"].append((p, unhx(src), unhx(mtxt)))
        stats["validated"] += 1

# ---- characters beyond ASCII: the code ranges over runes, the model over abstract characters (N); each non-ASCII rune of the
# test alphabet is given one model character >= 0x80 (injective), the implementation gets its UTF-8 encoding
URUNES = {"\u00e9": 0xE9, "\u30e6": 0xF0, "\u0080": 0x80, "\u00c3": 0xC3, "\u00a9": 0xA9, "\U0001f600": 0xFE}
UALPHA = list(URUNES) + list("ab*?.+(")

def u_model(s_):
    return bytes(URUNES.get(ch, ord(ch)) for ch in s_)

def u_text_back(b):
    inv = {v: k for k, v in URUNES.items()}
    return "".join(inv[c] if c in inv else chr(c) for c in b).encode("utf-8")

def direct_glob_seq(p, k):
    if not p:
        return not k
    if p[0] == "*":
        return any(direct_glob_seq(p[1:], k[i:]) for i in range(len(k) + 1))
    if not k:
        return False
    if p[0] == "?" or p[0] == k[0]:
        return direct_glob_seq(p[1:], k[1:])
    return False

def compare_unicode(chk, rng, tier, stats):
    pats, keysets = [], []
    def rs(n):
        return "".join(rng.choice(UALPHA) for _ in range(n))
    for ch in URUNES:
        for p_ in (ch, ch + "*", "*" + ch, "?" + ch, ch + "?", "a" + ch + "b", ch + ch, "?", "??", "*"):
            pats.append(p_)
    for _ in range(400 if tier == "quick" else 6000):
        pats.append(rs(rng.randint(1, 6)))
    base_keys = list(URUNES) + ["\u00c3\u00a9", "\u00c3\u00a9:1", "\u00e9:1", "a", "", "a\u00e9b", "\u00e9\u00e9", "\u30e6\u30e6"]
    for p_ in pats:
        ks = list(base_keys)
        for _ in range(6):
            k = "".join((rs(rng.randint(0, 2)) if c == "*" else (rng.choice(UALPHA) if c == "?" else c)) for c in p_)
            ks.append(k)
            if k:
                i = rng.randrange(len(k)); ks.append(k[:i] + rng.choice(UALPHA) + k[i + 1:])
        keysets.append(ks)
    il = "\n".join(hx(p_.encode("utf-8")) + " " + " ".join(hx(k.encode("utf-8")) for k in ks) for p_, ks in zip(pats, keysets)) + "\n"
    ml = "\n".join(hx(u_model(p_)) + " " + " ".join(hx(u_model(k)) for k in ks) for p_, ks in zip(pats, keysets)) + "\n"
    rc1, o1, _ = vlib.run_harness(["glob", hx(ALPHA), "-1"], il)
    rc2, o2, _ = vlib.run_model(["glob", hx(ALPHA), "-1"], ml)
    impl = [l.split(" ") for l in o1.splitlines() if l.strip()]
    mod = [l.split(" ") for l in o2.splitlines() if l.strip()]
    if rc1 != 0 or rc2 != 0 or len(impl) != len(pats) or len(mod) != len(pats):
        chk.violation("harness-failure", "non-ASCII run failed: rc %d/%d, lines %d/%d of %d" % (rc1, rc2, len(impl), len(mod), len(pats)), dict(stage="unicode"), True)
        return 0
    n = 0
    for p_, ks, a, m in zip(pats, keysets, impl, mod):
        if a[1] != "1":
            chk.violation("compile-fails", "glob.Compile(%r) %s" % (p_, "panics" if a[1] == "P" else "returns an error"), dict(pattern_hex=hx(p_.encode("utf-8")), pattern=repr(p_)))
            continue
        ibits = bits_to_list(a[3], len(ks)); mbits = bits_to_list(m[3], len(ks))
        want = [1 if direct_glob_seq(p_, k) else 0 for k in ks]
        stats["evaluations"] += len(ks)
        if ibits != want:
            j = next(i for i in range(len(ks)) if ibits[i] != want[i])
            chk.violation("match-differs", "pattern %r key %r: implementation says %s, glob semantics over characters say %s" % (p_, ks[j], bool(ibits[j]), bool(want[j])),
                          dict(pattern_hex=hx(p_.encode("utf-8")), key_hex=hx(ks[j].encode("utf-8")), pattern=repr(p_), key=repr(ks[j]), regexp_source=unhx(a[2]).decode("utf-8", "replace")))
            continue
        if mbits != ibits:
            chk.violation("corr-match", "correspondence (non-ASCII): pattern %r model and implementation differ" % p_, dict(pattern_hex=hx(p_.encode("utf-8"))))
            continue
        if u_text_back(unhx(m[1])) != unhx(a[2]):
            stats["text_mismatch"].append((p_.encode("utf-8"), unhx(a[2]), u_text_back(unhx(m[1]))))
        n += 1
        stats["validated"] += 1
    return n

def direct_glob(p, k):
    """the glob relation, written directly (independent of the model and of the implementation)"""
    if not p:
        return not k
    if p[0:1] == b"*":
        return any(direct_glob(p[1:], k[i:]) for i in range(len(k) + 1))
    if not k:
        return False
    if p[0:1] == b"?" or p[0] == k[0]:
        return direct_glob(p[1:], k[1:])
    return False

def store_level(chk, rng, tier):
    import connlib as L, cmdgen as G, storeprops as S
    keys = [b"a", b"ab", b"ab?", b"aba", b"abab", b"abb", b"b", b"a.c", b"abc", b"a+b", b"(", b"a|b", b"$", b"user:", b"user:1", b"user:10", b"*", b"?", b"", b"a\nb", b"xabcx"]
    pats = [b"*", b"?", b"a?", b"ab?", b"a*", b"*b", b"a.c", b"a+b", b"(", b"a|b", b"$", b"user:?", b"user:*", b"??", b"???", b"a??", b"*a*", b"ab", b"abc", b"?*", b"*?", b"a?b", b"", b"\\*", b"\\?", b"x*x"]
    pats += [bytes(rng.choice(ALPHA5) for _ in range(rng.randint(1, 4))) for _ in range(40 if tier == "quick" else 400)]
    # a pattern is data, whatever it spells: every word that means something elsewhere in the source under test (option words such
    # as MATCH / COUNT / TYPE, command names, configuration keys - mined on every run), in both cases, is a literal pattern here
    import thresholds as T
    words = sorted({w for w in T.mined_strings() if w.isalpha() and len(w) <= 12})
    keys += [b"match", b"count", b"TYPE", b"Count"]
    pats += [w.lower().encode() for w in words] + [w.upper().encode() for w in words] + [b"Count", b"mAtCh"]
    cases = []
    setup = [("MSET", [x for k in keys for x in (k, b"v")])]
    for i in range(0, len(pats), 8):
        part = pats[i:i + 8]
        reqs = setup + [r for p in part for r in (("KEYS", [p]), ("SCAN", [b"0", b"MATCH", p, b"COUNT", b"100000"]))]
        data = b"".join(G.request_bytes(n, a) for n, a in reqs)
        cases.append(dict(reqs=reqs, pats=part, line=L.mkcase([(0, "f" + L.hx(data)), (0, "e")], handler="example", trace=False), desc="KEYS / SCAN MATCH for %s" % [p.decode("latin1") for p in part]))
    lines = [c["line"] for c in cases]
    rc, o, _ = vlib.run_harness(["conn"], "\n".join(lines) + "\n", timeout=600)
    outs = [l.split(" ", 1)[1] for l in o.splitlines() if " " in l and l.split(" ", 1)[0].isdigit()]
    if rc != 0 or len(outs) != len(cases):
        chk.violation("harness-failure", "store-level run failed rc=%d: %s" % (rc, o[-300:]), dict(stage="store"), True)
        return 0
    n = 0
    for c, a in zip(cases, outs):
        obs = L.Obs(a)
        reps = S.replies_of(obs)
        if len(reps) != len(c["reqs"]):
            chk.violation("store-replies", "expected %d replies, got %d :: %s" % (len(c["reqs"]), len(reps), c["desc"]), dict(case=c["line"]))
            continue
        for j, p in enumerate(c["pats"]):
            want = sorted(k for k in keys if direct_glob(p, k))
            kr, sr = reps[1 + 2 * j], reps[2 + 2 * j]
            got_keys = sorted(x[1] for x in kr[1]) if kr[0] == "*" else None
            got_scan = sorted(x[1] for x in sr[1][1][1]) if sr[0] == "*" and len(sr[1]) == 2 and sr[1][1][0] == "*" else None
            n += 1
            if got_keys != want:
                chk.violation("keys-differs", "KEYS %r returned %s, the glob relation selects %s" % (p, got_keys, want), dict(case=c["line"], pattern=repr(p), pattern_hex=hx(p), got=repr(got_keys), expected=repr(want)))
            elif got_scan != want:
                chk.violation("scan-differs", "SCAN 0 MATCH %r returned %s, KEYS and the glob relation select %s" % (p, got_scan, want), dict(case=c["line"], pattern=repr(p), pattern_hex=hx(p), got=repr(got_scan), expected=repr(want)))
    # the pattern sent as a SIMPLE STRING (the server takes the text of any string-typed element as an argument), the request arriving
    # in three segments with the pattern in the middle one: the pattern the command sees is the one the client sent
    lcases = []
    for p in [b"a*", b"ab?", b"user:*", b"*b", b"??", b"a.c", b"k?", b"x*x", b"abab", b"*"] + [q for q in pats[26:46] if b"\r" not in q and b"\n" not in q and q]:
        for cmdname in ("SCAN", "KEYS"):
            if cmdname == "SCAN":
                segs = [b"*6\r\n$4\r\nSCAN\r\n$1\r\n0\r\n$5\r\nMATCH\r\n", b"+" + p + b"\r\n", b"$5\r\nCOUNT\r\n$6\r\n100000\r\n"]
            else:
                segs = [b"*2\r\n", b"$4\r\nKEYS\r\n+" + p, b"\r\n"]
            pre = b"".join(G.request_bytes(n_, a_) for n_, a_ in setup)
            steps = [(0, "f" + L.hx(pre))] + [(0, "g" + L.hx(sg)) for sg in segs[:-1]] + [(0, "f" + L.hx(segs[-1])), (0, "e")]
            lcases.append(dict(pat=p, cmd=cmdname, line=L.mkcase(steps, handler="example", trace=False)))
    rc, o, _ = vlib.run_harness(["conn"], "\n".join(c["line"] for c in lcases) + "\n", timeout=600)
    outs = [l.split(" ", 1)[1] for l in o.splitlines() if " " in l and l.split(" ", 1)[0].isdigit()]
    if rc != 0 or len(outs) != len(lcases):
        chk.violation("harness-failure", "store-level run (simple-string patterns) failed rc=%d: %s" % (rc, o[-300:]), dict(stage="store"), "panic" not in o)
    else:
        for c, a in zip(lcases, outs):
            reps = S.replies_of(L.Obs(a))
            want = sorted(k for k in keys if direct_glob(c["pat"], k))
            r_ = reps[-1] if len(reps) == 2 else None
            got = None
            if r_ and c["cmd"] == "KEYS" and r_[0] == "*":
                got = sorted(x[1] for x in r_[1])
            elif r_ and c["cmd"] == "SCAN" and r_[0] == "*" and len(r_[1]) == 2 and r_[1][1][0] == "*":
                got = sorted(x[1] for x in r_[1][1][1])
            n += 1
            if got != want:
                chk.violation("simple-string-pattern", "%s with the pattern %r sent as a simple string, the request arriving in three segments: returned %s, the glob relation selects %s" % (
                    c["cmd"], c["pat"], got, want), dict(case=c["line"], pattern=repr(c["pat"]), pattern_hex=hx(c["pat"]), got=repr(got), expected=repr(want)))
                break
    # SCAN the way a client uses it: SCAN 0, then SCAN <returned cursor> until the cursor comes back as 0.  For every
    # pattern and COUNT the iteration must end, and the keys collected are exactly the keys KEYS selects, each once
    # (theorem StoreScan.scan_iteration_agrees_with_keys on the store model; here the example server is run beside the
    # store model on the same requests, and the collected keys are compared with the directly written glob relation).
    # The requests are fixed in advance, so the cursors sent are the ones a correct server returns (number of sorted keys
    # visited so far); a server that returns another cursor, or the wrong keys, differs from the model on that reply.
    skeys = sorted(keys)
    def walk(pat, count):
        """[(cursor sent, keys expected, cursor expected back)] of the complete iteration"""
        out, cur = [], 0
        while True:
            got, nxt = [], 0
            for i in range(cur, len(skeys)):
                if direct_glob(pat, skeys[i]):
                    got.append(skeys[i])
                    if max(count, 1) <= len(got):
                        nxt = i + 1
                        break
            if nxt >= len(skeys):
                nxt = 0
            out.append((cur, got, nxt))
            if nxt == 0:
                return out
            cur = nxt
    its = []
    ipats = [b"*", b"a*", b"?", b"user:*", b"a.c", b"nomatch*", b"*b", b"??", b""] + [rng.choice(pats) for _ in range(6 if tier == "quick" else 120)]
    for pat in ipats:
        for count in (1, 2, 3, 5, 10, len(keys) - 1, len(keys), len(keys) + 1):
            w = walk(pat, count)
            reqs = setup + [("SCAN", [str(cur).encode(), b"MATCH", pat, b"COUNT", str(count).encode()]) for (cur, _, _) in w] + [("KEYS", [pat])]
            data = b"".join(G.request_bytes(n_, a_) for n_, a_ in reqs)
            its.append(dict(reqs=reqs, pat=pat, count=count, walk=w, line=L.mkcase([(0, "f" + L.hx(data)), (0, "e")], handler="example", trace=False)))
    # second pattern from a non-zero cursor on the same connection: the pattern of THIS call decides
    pairs = [(b"a*", b"b*"), (b"user:*", b"a?"), (b"*", b"a.c"), (b"a*", b"*"), (b"?", b"user:1*"), (b"nomatch*", b"a*")]
    pairs += [(rng.choice(pats), rng.choice(pats)) for _ in range(10 if tier == "quick" else 200)]
    for p1, p2 in pairs:
        for cur in (1, 3, 7):
            tail = [k for k in skeys[cur:] if direct_glob(p2, k)]
            reqs = setup + [("SCAN", [b"0", b"MATCH", p1, b"COUNT", b"2"]), ("SCAN", [str(cur).encode(), b"MATCH", p2, b"COUNT", b"100000"]), ("KEYS", [p2])]
            data = b"".join(G.request_bytes(n_, a_) for n_, a_ in reqs)
            its.append(dict(reqs=reqs, pat=p2, count=100000, walk=[(0, None, None), (cur, tail, 0)], first=p1, line=L.mkcase([(0, "f" + L.hx(data)), (0, "e")], handler="example", trace=False)))
    impl, model, fails = vlib.run_pair("conn", [], [c["line"] for c in its], shards=8, timeout=900)
    for which, lo, hi, rc, tail in fails:
        chk.violation("%s-run-failure" % which, "SCAN iteration: the %s run over cases %d..%d ended with status %d: %s" % (which, lo, hi, rc, tail[-300:]), dict(stage="store", case=its[lo]["line"]), True)
    def scan_parts(rep):
        if rep[0] == "*" and len(rep[1]) == 2 and rep[1][0][0] == "$" and rep[1][1][0] == "*":
            try:
                return int(rep[1][0][1]), [x[1] for x in rep[1][1][1]]
            except ValueError:
                return None
        return None
    n_it = 0
    for c, a, mo in zip(its, impl, model):
        if a is None or mo is None:
            continue
        ri, rm = S.replies_of(L.Obs(a)), S.replies_of(L.Obs(mo))
        if len(ri) != len(c["reqs"]):
            chk.violation("store-replies", "expected %d replies, got %d (SCAN iteration, MATCH %r COUNT %d)" % (len(c["reqs"]), len(ri), c["pat"], c["count"]), dict(case=c["line"]))
            continue
        bad = None
        collected = []
        for j, (cur, want, nxt) in enumerate(c["walk"]):
            if want is None:
                continue
            parts = scan_parts(ri[1 + j])
            if parts is None:
                bad = "SCAN %d MATCH %r COUNT %d was answered %r" % (cur, c["pat"], c["count"], ri[1 + j])
                break
            collected += parts[1]
            if parts[1] != want or parts[0] != nxt:
                what = ("the iteration is reported complete (cursor 0) after %d of %d matching keys" % (len(collected), sum(len(w_[1]) for w_ in c["walk"] if w_[1] is not None))) if parts[0] == 0 and nxt != 0 else \
                       ("the cursor does not come back to 0 when every key was visited (a client's loop does not end)" if nxt == 0 and parts[0] != 0 else "keys / cursor differ")
                bad = "SCAN %d MATCH %r COUNT %d returned cursor %d keys %s, expected cursor %d keys %s: %s" % (cur, c["pat"], c["count"], parts[0], parts[1], nxt, want, what)
                break
        if bad is None and "first" not in c:
            kr = ri[-1]
            got_keys = sorted(x[1] for x in kr[1]) if kr[0] == "*" else None
            if got_keys != sorted(collected) or len(set(collected)) != len(collected):
                bad = "the SCAN iteration with MATCH %r COUNT %d collected %s, KEYS returns %s" % (c["pat"], c["count"], collected, got_keys)
        if bad is None and [S.canon(q[0], t) for q, t in zip(c["reqs"], ri)] != [S.canon(q[0], t) for q, t in zip(c["reqs"], rm)]:
            k = next(i for i, (x, y) in enumerate(zip(ri, rm)) if S.canon(c["reqs"][i][0], x) != S.canon(c["reqs"][i][0], y)) if len(ri) == len(rm) else -1
            bad = "correspondence (Store.sprim vs example server): reply %d differs: impl %r model %r" % (k, ri[k] if k >= 0 else len(ri), rm[k] if k >= 0 else len(rm))
        if bad:
            chk.violation("scan-iteration", bad, dict(case=c["line"], pattern=repr(c["pat"]), pattern_hex=hx(c["pat"]), count=c["count"],
                          requests=[" ".join([q[0]] + [x.decode("latin1") for x in q[1]]) for q in c["reqs"][1:]]))
        else:
            n_it += 1
    chk.coverage["scan_iterations"] = n_it
    n += n_it
    chk.coverage["store_level_patterns"] = n
    return n

def run(tier, seed):
    chk = Check("C17", tier, seed)
    broken = vlib.standard_proof_stage(chk, "C17")
    ok, o = vlib.build_model()
    if not ok:
        broken = (broken or "") + " model build failed: " + o[-400:]
    ok, o = vlib.build_harness()
    if not ok:
        chk.violation("harness-build", "harness does not build against the tree: " + o[-600:], dict(stage="build"), True)
        chk.finish()
    rng = random.Random(seed)
    stats = dict(evaluations=0, nontrivial=set(), validated=0, text_mismatch=[])
    maxlen = 3 if tier == "quick" else 4
    pats = enum_strings(ALPHA, maxlen)
    keys = enum_strings(ALPHA, maxlen)
    compare(chk, [hx(ALPHA), str(maxlen)], [hx(p) for p in pats], lambda i: keys, stats)
    # random longer patterns, keys derived from the pattern (instantiations and their mutations) + unrelated
    nrand = 3000 if tier == "quick" else 40000
    lines, keysets = [], []
    for it in range(nrand):
        L = rng.randint(4, 12)
        # (letters that name regular-expression escapes - \\Q \\E \\d \\w \\b \\A \\z - matter once they follow a backslash)
        p = bytes(rng.choice(ALPHA + b"xyz{}[]^\\)-" + (b"\\\\EQdwbAzsSpP" if it % 2 else b"")) for _ in range(L))
        ks = []
        for _ in range(6):
            k = instantiate(rng, p)
            ks.append(k)
            ks.append(mutate(rng, k))
        ks.append(bytes(rng.choice(ALPHA) for _ in range(rng.randint(0, 6))))
        lines.append(hx(p) + " " + " ".join(hx(k) for k in ks))
        keysets.append(ks)
    compare(chk, [hx(ALPHA), "-1"], lines, lambda i: keysets[i], stats)
    # characters beyond ASCII (valid UTF-8; the code ranges over runes, '?' is one character)
    n_uni = compare_unicode(chk, rng, tier, stats)
    chk.coverage["non_ascii_patterns"] = n_uni
    # KEYS and SCAN MATCH on a populated store (the bundled example server through the real connection loop) select
    # exactly the keys the glob relation selects
    store_cases = store_level(chk, rng, tier)
    if stats["text_mismatch"] and not chk.violations:
        p, a, m = stats["text_mismatch"][0]
        chk.violation("corr-text", "correspondence: regexp source for %r is %r, model regexp_from_glob gives %r; "
                      "no pattern/key on which matching differs was found in %d evaluations" % (p, a, m, stats["evaluations"]),
                      dict(pattern_hex=hx(p), impl_source=a.decode("latin1"), model_source=m.decode("latin1"),
                           broken="correspondence Glob.regexp_from_glob vs glob.Compile(p).String()"), True)
    if broken and not chk.violations:
        chk.violation("proof-broken", broken, dict(broken=broken, theorem="GRP.C17"), True)
    chk.coverage.update(
        evaluations=stats["evaluations"], distinct_nontrivial=len(stats["nontrivial"]),
        rule="every pattern over the alphabet %r up to length %d x every key over it up to length %d (complete enumeration), "
             "plus %d random patterns of length 4..12 with 13 keys each derived from the pattern; non-trivial = distinct pattern "
             "containing a wildcard or metacharacter that both matches and rejects at least one explored key" % (ALPHA.decode(), maxlen, maxlen, nrand),
        exhaustive=True, traces_validated_against_impl=stats["validated"],
        samples=[dict(pattern=repr(p), keys=[repr(k) for k in ks[:4]]) for p, ks in zip([unhx(l.split(" ")[0]) for l in lines[:3]], keysets[:3])]
                + [dict(pattern=repr(pats[500]), keys="all %d enumerated keys" % len(keys))],
        input_distribution=dict(enumerated_patterns=len(pats), enumerated_keys=len(keys), random_patterns=nrand))
    chk.coverage["trusted_base"] += [
        "modelled, not verified: Go regexp (RE2) semantics on the fragment {escaped literal, literal, '.', '.*', (?s), ^ $} — Glob.re_parse/re_match; "
        "tied by this run: glob.Compile(p).String() == regexp_from_glob p and MatchString == glob_match on all explored pairs",
        "domain: patterns and keys are sequences of characters = valid UTF-8 (the code ranges over runes; model characters are abstract N values); "
        "byte strings that are not valid UTF-8 are outside the model (Go decodes every invalid byte as U+FFFD, so such bytes are not told apart)"]
    chk.assumptions = ["patterns and keys are valid UTF-8 (character = code point)", "Go regexp implements RE2 on the targeted fragment"]
    chk.finish()

def replay(path):
    r = json.load(open(path))["replay"]
    vlib.build_model(); vlib.build_harness()
    line = r["pattern_hex"] + " " + r.get("key_hex", "-")
    print("impl :", vlib.run_harness(["glob", hx(ALPHA), "-1"], line + "\n")[1].strip())
    print("model:", vlib.run_model(["glob", hx(ALPHA), "-1"], line + "\n")[1].strip())
