from storeprops import run_c18 as run, replay
