"""cmdgen — an independent grammar of the command surface (Python side): for every command that maps onto one
handler operation, generate well-formed argument vectors together with the handler call they must produce, and
the systematic malformations of C10.  Coverage generator and model-free oracle; untrusted beyond that."""
from fractions import Fraction

def hx(b):
    return bytes(b).hex() if len(b) else "-"

def hxs(l):
    return "[" + ",".join(hx(x) for x in l) + "]"

def b01(x):
    return "1" if x else "0"

KEYS = [b"k", b"key:1", b"", b"a b", b"k\r\n+OK\r\n", b"\x00\xff", b"K"]
def g_key(rng):
    return rng.choice(KEYS) if rng.random() < 0.8 else bytes(rng.randrange(256) for _ in range(rng.randint(1, 12)))
BIG_SIZES = [4095, 4096, 4097, 5000, 8192, 12000, 16384, 65536, 70000]      # around the usual I/O buffer sizes
try:
    import thresholds as _T
    BIG_SIZES = _T.extend(BIG_SIZES, 64, 1 << 20, limit=9)      # ... and around every size constant of the source under test
except Exception:
    pass
def g_str(rng):
    r = rng.random()
    if r < 0.02:
        n = rng.choice(BIG_SIZES)
        return bytes((i * 31 + n) % 253 for i in range(n))
    if r < 0.3: return rng.choice([b"v", b"", b"hello world", b"\r\n", b"$-1\r\n", b"\r\n:1\r\n", b"NX", b"10", b"-1"])
    return bytes(rng.randrange(256) for _ in range(rng.randint(0, 20)))
INTS = [0, 1, -1, 2, 10, -10, 100, 2**31 - 1, 2**31, -2**31, 2**63 - 1, -2**63, 2**63 - 2, -2**63 + 1]
def g_int(rng):
    return rng.choice(INTS) if rng.random() < 0.6 else rng.randint(-10**6, 10**6)
def int_tok(rng, z):
    s = str(z)
    r = rng.random()
    if r < 0.1 and z >= 0: s = "+" + s
    elif r < 0.15: s = ("-" if z < 0 else "") + "00" + str(abs(z))
    return s.encode()
# floats: tokens whose exact decimal value is representable in binary64 (so exact rationals agree with float64)
FLOATS = ["0", "1", "-1", "2.5", "-0.5", "3", "10", "1.25", "100", "0.125", "-3.75", "1048576", "4503599627370496", "0.0", "-0", "+7", "007.50", "5.", ".5"]
def g_float(rng):
    r = rng.random()
    if r < 0.12: return rng.choice(["inf", "+inf", "-inf", "Inf", "-INF", "infinity", "+Infinity"])
    if r < 0.7: return rng.choice(FLOATS)
    n = rng.randint(-2**20, 2**20); j = rng.choice([0, 1, 2, 3, 4])
    f = Fraction(n, 2**j)
    s = "%d" % (f.numerator // f.denominator) if f.denominator == 1 else ("%.*f" % (j, n / 2**j))
    return s
def rat_of(tok):
    t = tok.lower().lstrip("+")
    neg = t.startswith("-")
    if t.lstrip("-") in ("inf", "infinity"):
        return "-inf" if neg else "+inf"
    f = Fraction(tok.replace("+", "")) if tok not in ("5.", ".5") else Fraction(tok + "0" if tok.endswith(".") else "0" + tok)
    return "%d/%d" % (f.numerator, f.denominator)

def casing(rng, s):
    m = rng.randint(0, 2)
    if m == 0: return s.upper()
    if m == 1: return s.lower()
    return "".join(c.upper() if rng.random() < 0.5 else c.lower() for c in s)

SEC_MAX = 9223372036
MSEC_MAX = 9223372036854
UNIX_MAX = 9223372036854775

def zropt_text(o):
    return "byscore=%s,bylex=%s,rev=%s,withscores=%s,minex=%s,maxex=%s,offset=%d,count=%d" % (
        b01(o.get("byscore")), b01(o.get("bylex")), b01(o.get("rev")), b01(o.get("withscores")), b01(o.get("minex")), b01(o.get("maxex")),
        o.get("offset", 0), o.get("count", -1))

def g_range_opts(rng, allow=("BYSCORE", "BYLEX", "REV", "WITHSCORES", "LIMIT")):
    toks, o = [], {}
    words = [w for w in allow if rng.random() < 0.35]
    rng.shuffle(words)
    for w in words:
        toks.append(casing(rng, w).encode())
        if w == "LIMIT":
            off, cnt = g_int(rng), g_int(rng)
            toks += [str(off).encode(), str(cnt).encode()]
            o["offset"], o["count"] = off, cnt
        else:
            o[w.lower()] = True
    return toks, o

def g_rscore(rng):
    tok = g_float(rng)
    ex = rng.random() < 0.3
    return (("(" if ex else "") + tok).encode(), rat_of(tok), ex

# each generator returns (name, [arg bytes...], expected_call_text or None for non-handler commands, info dict)
def gen_direct(rng, name=None):
    name = name or rng.choice(DIRECT)
    k = g_key(rng)
    K = hx(k)
    if name in ("DEL", "EXISTS"):
        ks = [g_key(rng) for _ in range(rng.randint(1, 4))]
        return name, ks, "%s(%s)" % ({"DEL": "Del", "EXISTS": "Exists"}[name], hxs(ks))
    if name in ("KEYS", "TYPE", "TTL", "GET", "HGETALL", "LLEN", "SMEMBERS"):
        m = {"KEYS": "Keys", "TYPE": "Type", "TTL": "TTL", "GET": "Get", "HGETALL": "HGetAll", "LLEN": "LLen", "SMEMBERS": "SMembers"}[name]
        return name, [k], "%s(%s)" % (m, K)
    if name in ("RENAME", "RENAMENX"):
        n = g_key(rng) if rng.random() < 0.7 else k      # renaming a key onto itself is a legal request
        return name, [k, n], "Rename(%s,%s,nx=%s)" % (K, hx(n), b01(name == "RENAMENX"))
    if name in ("EXPIRE", "EXPIREAT"):
        lim = SEC_MAX if name == "EXPIRE" else UNIX_MAX
        ttl = rng.choice([0, 1, -1, 100, lim, -lim, rng.randint(-10**6, 10**6)])
        args = [k, str(ttl).encode()]
        fl = {"nx": 0, "xx": 0, "gt": 0, "lt": 0}
        if rng.random() < 0.6:
            w = rng.choice(["NX", "XX", "GT", "LT"])
            args.append(casing(rng, w).encode()); fl[w.lower()] = 1
        t = ("rel=%d" if name == "EXPIRE" else "abs=%d") % ttl
        return name, args, "Expire(%s,%s,nx=%d,xx=%d,gt=%d,lt=%d)" % (K, t, fl["nx"], fl["xx"], fl["gt"], fl["lt"])
    if name == "SCAN":
        cur = abs(g_int(rng)) % 1000
        args = [str(cur).encode()]
        pat, cnt, ty = b"*", 10, 0
        words = [w for w in ("MATCH", "COUNT", "TYPE") if rng.random() < 0.5]
        rng.shuffle(words)
        for w in words:
            args.append(casing(rng, w).encode())
            if w == "MATCH":
                pat = rng.choice([b"*", b"a*", b"?", b"a.c", b"user:*", b"(", b"a|b", b"x+", b""]); args.append(pat)
            elif w == "COUNT":
                cnt = g_int(rng); args.append(str(cnt).encode())
            else:
                tn = rng.choice(["", "SSCAN", "HSCAN", "ZSCAN"]); ty = ["", "SSCAN", "HSCAN", "ZSCAN"].index(tn); args.append(tn.encode())
        return name, args, ("Scan", cur, pat, cnt, ty)
    if name in ("SET", "SETNX", "GETSET", "SETEX"):
        v = g_str(rng)
        o = dict(ex=0, px=0, exat="-", pxat="-", nx=0, xx=0, keepttl=0, get=0)
        args = [k, v]
        if name == "SETNX": o["nx"] = 1
        elif name == "GETSET": o["get"] = 1
        elif name == "SETEX":
            sec = rng.choice([1, 2, 60, SEC_MAX, rng.randint(1, 10**6)])
            args = [k, str(sec).encode(), v]; o["ex"] = sec * 10**9
        else:
            words = []
            if rng.random() < 0.4: words.append(rng.choice(["NX", "XX"]))
            if rng.random() < 0.5: words.append(rng.choice(["EX", "PX", "EXAT", "PXAT"]))
            if rng.random() < 0.3: words.append("KEEPTTL")
            if rng.random() < 0.3: words.append("GET")
            rng.shuffle(words)
            for w in words:
                args.append(casing(rng, w).encode())
                if w in ("EX", "PX", "EXAT", "PXAT"):
                    lim = {"EX": SEC_MAX, "PX": MSEC_MAX, "EXAT": UNIX_MAX, "PXAT": 2**63 - 1}[w]
                    n = rng.choice([1, 2, 1000, lim, rng.randint(1, 10**9)])
                    args.append(str(n).encode())
                    if w == "EX": o["ex"] = n * 10**9
                    elif w == "PX": o["px"] = n * 10**6
                    elif w == "EXAT": o["exat"] = str(n * 1000)
                    else: o["pxat"] = str(n)
                else:
                    o[w.lower()] = 1
        return name, args, "Set(%s,%s,ex=%d,px=%d,exat=%s,pxat=%s,nx=%d,xx=%d,keepttl=%d,get=%d)" % (
            K, hx(v), o["ex"], o["px"], o["exat"], o["pxat"], o["nx"], o["xx"], o["keepttl"], o["get"])
    if name in ("HDEL", "SADD", "SREM", "ZREM", "LPUSH", "LPUSHX", "RPUSH", "RPUSHX"):
        l = [g_str(rng) for _ in range(rng.randint(1, 4))]
        if name in ("LPUSH", "LPUSHX", "RPUSH", "RPUSHX"):
            return name, [k] + l, "%s(%s,%s,x=%s)" % ("LPush" if name[0] == "L" else "RPush", K, hxs(l), b01(name.endswith("X")))
        m = {"HDEL": "HDel", "SADD": "SAdd", "SREM": "SRem", "ZREM": "ZRem"}[name]
        return name, [k] + l, "%s(%s,%s)" % (m, K, hxs(l))
    if name in ("HGET", "ZSCORE"):
        f = g_str(rng) if rng.random() < 0.85 else k
        return name, [k, f], "%s(%s,%s)" % ({"HGET": "HGet", "ZSCORE": "ZScore"}[name], K, hx(f))
    if name in ("HSET", "HSETNX"):
        f, v = g_str(rng), g_str(rng)
        if rng.random() < 0.15: f = k
        if rng.random() < 0.15: v = f
        return name, [k, f, v], "HSet(%s,%s,%s,nx=%s)" % (K, hx(f), hx(v), b01(name == "HSETNX"))
    if name == "LINDEX":
        i = g_int(rng)
        return name, [k, int_tok(rng, i)], "LIndex(%s,%d)" % (K, i)
    if name in ("LPOP", "RPOP"):
        m = "LPop" if name == "LPOP" else "RPop"
        if rng.random() < 0.5:
            return name, [k], "%s(%s,1)" % (m, K)
        n = g_int(rng)
        return name, [k, int_tok(rng, n)], "%s(%s,%d)" % (m, K, n)
    if name == "LRANGE":
        a, b = g_int(rng), g_int(rng)
        return name, [k, int_tok(rng, a), int_tok(rng, b)], "LRange(%s,%d,%d)" % (K, a, b)
    if name == "ZADD":
        o = dict(xx=0, nx=0, lt=0, gt=0, ch=0, incr=0)
        args = [k]
        words = [w for w in ("NX", "XX", "GT", "LT", "CH", "INCR") if rng.random() < 0.25]
        rng.shuffle(words)
        for w in words:
            args.append(casing(rng, w).encode()); o[w.lower()] = 1
        ms = []
        for _ in range(rng.randint(1, 3)):
            tok = g_float(rng); m = g_str(rng)
            if not ms and m.upper() in (b"NX", b"XX", b"GT", b"LT", b"CH", b"INCR"):
                pass
            args += [tok.encode(), m]; ms.append(rat_of(tok) + ":" + hx(m))
        return name, args, "ZAdd(%s,[%s],xx=%d,nx=%d,lt=%d,gt=%d,ch=%d,incr=%d)" % (K, ",".join(ms), o["xx"], o["nx"], o["lt"], o["gt"], o["ch"], o["incr"])
    if name == "ZINCRBY":
        tok = g_float(rng); m = g_str(rng)
        return name, [k, tok.encode(), m], "ZIncBy(%s,%s,%s)" % (K, rat_of(tok), hx(m))
    if name == "ZRANGE":
        toks, o = g_range_opts(rng)
        if o.get("byscore"):
            a, ar, ax = g_rscore(rng); b, br, bx = g_rscore(rng)
            o["minex"], o["maxex"] = ax, bx
            return name, [k, a, b] + toks, "ZRangeByScore(%s,%s,%s,%s)" % (K, ar, br, zropt_text(o))
        a, b = g_int(rng), g_int(rng)
        return name, [k, int_tok(rng, a), int_tok(rng, b)] + toks, "ZRange(%s,%d,%d,%s)" % (K, a, b, zropt_text(o))
    if name == "ZRANGEBYSCORE":
        toks, o = g_range_opts(rng, ("WITHSCORES", "LIMIT"))
        a, ar, ax = g_rscore(rng); b, br, bx = g_rscore(rng)
        o["minex"], o["maxex"] = ax, bx
        return name, [k, a, b] + toks, "ZRangeByScore(%s,%s,%s,%s)" % (K, ar, br, zropt_text(o))
    raise KeyError(name)

DIRECT = ["DEL", "EXISTS", "KEYS", "TYPE", "TTL", "GET", "HGETALL", "LLEN", "SMEMBERS", "RENAME", "RENAMENX", "EXPIRE", "EXPIREAT", "SCAN",
          "SET", "SETNX", "GETSET", "SETEX", "HDEL", "SADD", "SREM", "ZREM", "LPUSH", "LPUSHX", "RPUSH", "RPUSHX", "HGET", "ZSCORE", "HSET",
          "HSETNX", "LINDEX", "LPOP", "RPOP", "LRANGE", "ZADD", "ZINCRBY", "ZRANGE", "ZRANGEBYSCORE"]
DERIVED = ["MSET", "MSETNX", "MGET", "APPEND", "INCR", "DECR", "INCRBY", "DECRBY", "STRLEN", "GETRANGE", "SUBSTR", "HMSET", "HMGET", "HEXISTS",
           "HKEYS", "HVALS", "HLEN", "HSTRLEN", "SCARD", "SISMEMBER", "ZCARD", "ZREVRANGE", "ZREVRANGEBYSCORE"]
SYSTEM = ["PING", "ECHO", "SELECT", "QUIT", "CONFIG", "AUTH"]

def gen_derived(rng, name=None):
    """well-formed requests of the derived commands (no expected call here: C12 judges them)"""
    name = name or rng.choice(DERIVED)
    k = g_key(rng)
    if name in ("MSET", "MSETNX"):
        n = rng.randint(1, 3); a = []
        for _ in range(n): a += [g_key(rng), g_str(rng)]
        return name, a
    if name == "MGET": return name, [g_key(rng) for _ in range(rng.randint(1, 3))]
    if name == "APPEND": return name, [k, g_str(rng)]
    if name in ("INCR", "DECR", "STRLEN", "HKEYS", "HVALS", "HLEN", "SCARD", "ZCARD"): return name, [k]
    if name in ("INCRBY", "DECRBY"): return name, [k, str(g_int(rng)).encode()]
    if name in ("GETRANGE", "SUBSTR"): return name, [k, str(rng.randint(-9, 9)).encode(), str(rng.randint(-9, 9)).encode()]
    if name == "HMSET":
        a = [k]
        for _ in range(rng.randint(1, 3)): a += [g_str(rng), g_str(rng)]
        return name, a
    if name == "HMGET": return name, [k] + [g_str(rng) for _ in range(rng.randint(1, 3))]
    if name in ("HEXISTS", "HSTRLEN", "SISMEMBER"): return name, [k, g_str(rng)]
    if name == "ZREVRANGE":
        a = [k, str(rng.randint(-7, 7)).encode(), str(rng.randint(-7, 7)).encode()]
        if rng.random() < 0.5: a.append(casing(rng, "WITHSCORES").encode())
        return name, a
    if name == "ZREVRANGEBYSCORE":
        a = [k, g_rscore(rng)[0], g_rscore(rng)[0]]
        if rng.random() < 0.5: a.append(b"WITHSCORES")
        if rng.random() < 0.5: a += [b"LIMIT", str(rng.randint(-1, 3)).encode(), str(rng.randint(-1, 3)).encode()]
        return name, a
    raise KeyError(name)

def gen_system(rng, name=None):
    name = name or rng.choice(["PING", "ECHO", "SELECT", "CONFIG"])
    if name == "PING": return name, ([] if rng.random() < 0.5 else [g_str(rng)])
    if name == "ECHO": return name, [g_str(rng)]
    if name == "SELECT": return name, [str(rng.choice([0, 1, 2, 15, -1, 2**31])).encode()]
    if name == "CONFIG":
        if rng.random() < 0.5:
            return name, [casing(rng, "SET").encode(), rng.choice([b"maxmemory", b"x", b"loglevel"]), g_str(rng)]
        return name, [casing(rng, "GET").encode()] + [rng.choice([b"maxmemory", b"x", b"loglevel", b"nope"]) for _ in range(rng.randint(1, 3))]
    if name == "QUIT": return name, []
    raise KeyError(name)

def request_bytes(name, args):
    """RESP encoding of a client request: array of bulk strings"""
    parts = [name if isinstance(name, bytes) else name.encode()] + list(args)
    return b"*%d\r\n" % len(parts) + b"".join(b"$%d\r\n" % len(p) + p + b"\r\n" for p in parts)

def request_with_nulls(name, args):
    """like request_bytes but an argument given as None is sent as a null bulk"""
    parts = [name.encode()] + list(args)
    return b"*%d\r\n" % len(parts) + b"".join((b"$-1\r\n" if p is None else b"$%d\r\n" % len(p) + p + b"\r\n") for p in parts)

# ---------------------------------------------------------------- C10: systematic malformations
# positional signature of each command: K key/string, I integer, F float, R range score (float with optional '('),
# then the tail: S1 one-or-more strings, P1 one-or-more key/value pairs, Z1 score/member pairs, O options, - nothing
SIGS = {
    "DEL": ("", "S1"), "EXISTS": ("", "S1"), "KEYS": ("K", "-"), "TYPE": ("K", "-"), "TTL": ("K", "-"), "GET": ("K", "-"),
    "HGETALL": ("K", "-"), "LLEN": ("K", "-"), "SMEMBERS": ("K", "-"), "RENAME": ("KK", "-"), "RENAMENX": ("KK", "-"),
    "EXPIRE": ("KI", "O"), "EXPIREAT": ("KI", "O"), "SCAN": ("I", "O"), "SET": ("KK", "O"), "SETNX": ("KK", "-"), "GETSET": ("KK", "-"),
    "SETEX": ("KIK", "-"), "HDEL": ("K", "S1"), "SADD": ("K", "S1"), "SREM": ("K", "S1"), "ZREM": ("K", "S1"), "LPUSH": ("K", "S1"),
    "LPUSHX": ("K", "S1"), "RPUSH": ("K", "S1"), "RPUSHX": ("K", "S1"), "HGET": ("KK", "-"), "ZSCORE": ("KK", "-"), "HSET": ("KKK", "-"),
    "HSETNX": ("KKK", "-"), "LINDEX": ("KI", "-"), "LPOP": ("K", "O"), "RPOP": ("K", "O"), "LRANGE": ("KII", "-"), "ZADD": ("K", "Z1"),
    "ZINCRBY": ("KFK", "-"), "ZRANGE": ("KII", "O"), "ZRANGEBYSCORE": ("KRR", "O"),
    "MSET": ("", "P1"), "MSETNX": ("", "P1"), "MGET": ("", "S1"), "APPEND": ("KK", "-"), "INCR": ("K", "-"), "DECR": ("K", "-"),
    "INCRBY": ("KI", "-"), "DECRBY": ("KI", "-"), "STRLEN": ("K", "-"), "GETRANGE": ("KII", "-"), "SUBSTR": ("KII", "-"), "HMSET": ("K", "P1"),
    "HMGET": ("K", "S1"), "HEXISTS": ("KK", "-"), "HKEYS": ("K", "-"), "HVALS": ("K", "-"), "HLEN": ("K", "-"), "HSTRLEN": ("KK", "-"),
    "SCARD": ("K", "-"), "SISMEMBER": ("KK", "-"), "ZCARD": ("K", "-"), "ZREVRANGE": ("KII", "O"), "ZREVRANGEBYSCORE": ("KRR", "O"),
    "ECHO": ("K", "-"), "SELECT": ("I", "-"),
}
NON_NUMERIC = [b"abc", b"", b"1x", b"--1", b"1 2", b"0x10", b"9223372036854775808", b"-9223372036854775809", b"99999999999999999999999", b"1.5", b"1e3"]
NON_FLOAT = [b"abc", b"", b"1x", b"--1", b"1 2", b"nan", b"NaN", b"(", b"1.2.3", b"-",
             b"((1", b"(((2.5", b"( 1", b"(-", b"(1(", b"1(", b")1", b"((inf", b"(+(1", b" 1", b"1 ", b"\t1", b"+-1", b"1e", b"0x", b"_1", b"1_0", b"(nan"]

def out_of_range(rng, lim):
    """in-int64 values above lim: the boundary, powers of ten and two (products that wrap to positive as well as negative), random"""
    vals = [lim + 1, lim + 2, 2 * lim, 2**63 - 1, 2**63 - 2, 2**62, 2**62 + 1]
    vals += [10**e for e in range(10, 19) if 10**e > lim]
    vals += [2**e for e in range(34, 63) if 2**e > lim][::3]
    vals += [rng.randint(lim + 1, 2**63 - 1) for _ in range(12)]
    return sorted(set(v for v in vals if lim < v <= 2**63 - 1))

def base_args(rng, name):
    """a minimal valid argument vector following the signature"""
    pos, tail = SIGS[name]
    a = []
    for p in pos:
        a.append({"K": b"k", "I": b"1", "F": b"1.5", "R": b"1"}[p])
    if tail == "S1": a += [b"a", b"b"]
    elif tail == "P1": a += [b"f1", b"v1", b"f2", b"v2"]
    elif tail == "Z1": a += [b"1", b"m1", b"2", b"m2"]
    return a

def malformations(rng, name):
    """yield (kind, args-with-None-for-null) that C10 says must be refused"""
    pos, tail = SIGS[name]
    base = base_args(rng, name)
    npos = len(pos)
    out = []
    for i in range(npos):                       # each required position omitted (cut there)
        out.append(("omit@%d" % i, base[:i]))
    if tail in ("S1", "P1", "Z1"):
        out.append(("omit-tail", base[:npos]))
    for i in range(len(base)):                  # each position replaced by a null bulk
        b = list(base); b[i] = None
        out.append(("null@%d" % i, b))
    for i, p in enumerate(pos):
        if p == "I":
            for tok in NON_NUMERIC:
                b = list(base); b[i] = tok
                out.append(("nonnum@%d" % i, b))
        elif p in ("F", "R"):
            for tok in NON_FLOAT:
                b = list(base); b[i] = tok
                out.append(("nonfloat@%d" % i, b))
    if tail == "P1":
        out.append(("dangling", base[:npos + 1]))
        out.append(("dangling", base[:npos + 3]))
    if tail == "Z1":
        out.append(("dangling", base[:npos + 1]))
        out.append(("dangling", base[:npos + 3]))
        for tok in NON_FLOAT:
            out.append(("nonfloat-score", base[:npos] + [tok, b"m"]))
            out.append(("nonfloat-score2", base[:npos] + [b"1", b"m", tok, b"m2"]))
    if name == "SET":
        for a, b in [("NX", "XX"), ("XX", "NX"), ("NX", "NX"), ("XX", "XX")]:
            out.append(("set-clash", [b"k", b"v", a.encode(), b.encode()]))
        for a in ("EX", "PX", "EXAT", "PXAT"):
            for b in ("EX", "PX", "EXAT", "PXAT"):
                out.append(("set-clash", [b"k", b"v", a.encode(), b"10", b.lower().encode(), b"20"]))
            for bad in (b"0", b"-1", b"-100", b"abc", b"1.5", b""):
                out.append(("set-expiry", [b"k", b"v", a.encode(), bad]))
            out.append(("set-expiry-missing", [b"k", b"v", a.encode()]))
            out.append(("set-expiry-null", [b"k", b"v", a.encode(), None]))
        for w, lim in (("EX", SEC_MAX), ("PX", MSEC_MAX), ("EXAT", UNIX_MAX)):
            for n in out_of_range(rng, lim):
                out.append(("set-expiry-range", [b"k", b"v", w.encode(), str(n).encode()]))
        out.append(("set-repeat", [b"k", b"v", b"KEEPTTL", b"keepttl"]))
        out.append(("set-repeat", [b"k", b"v", b"GET", b"GET"]))
        out.append(("set-unknown", [b"k", b"v", b"BOGUS"]))
    if name == "SETEX":
        for bad in [b"0", b"-1"] + [str(n).encode() for n in out_of_range(rng, SEC_MAX)]:
            out.append(("setex-range", [b"k", bad, b"v"]))
    if name in ("EXPIRE", "EXPIREAT"):
        lim = SEC_MAX if name == "EXPIRE" else UNIX_MAX
        for n in out_of_range(rng, lim):
            out.append(("expire-range", [b"k", str(n).encode()]))
            out.append(("expire-range", [b"k", str(-n).encode()]))
    if name in ("LPOP", "RPOP"):
        for tok in NON_NUMERIC:
            out.append(("nonnum-count", [b"k", tok]))
        out.append(("null-count", [b"k", None]))
    if name in ("ZRANGE", "ZRANGEBYSCORE", "ZREVRANGE", "ZREVRANGEBYSCORE"):
        for tok in NON_NUMERIC:
            out.append(("limit-nonnum", base[:3] + [b"LIMIT", tok, b"1"]))
            out.append(("limit-nonnum", base[:3] + [b"LIMIT", b"0", tok]))
        out.append(("limit-missing", base[:3] + [b"LIMIT", b"0"]))
        out.append(("limit-missing", base[:3] + [b"LIMIT"]))
    if name == "ZRANGE":
        for tok in (b"0.5", b"(1", b"1e1", b"inf"):
            out.append(("fractional-index", [b"k", tok, b"2"]))
            out.append(("fractional-index", [b"k", b"0", tok]))
    if name == "SCAN":
        out.append(("scan-missing", [b"0", b"MATCH"]))
        out.append(("scan-missing", [b"0", b"COUNT"]))
        for tok in NON_NUMERIC:
            out.append(("scan-nonnum", [b"0", b"COUNT", tok]))
    if name == "DECRBY":
        out.append(("decrby-min", [b"k", b"-9223372036854775808"]))
    return out
