from connprops import run_c03 as run, replay
