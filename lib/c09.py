from lifeprops import run_c09 as run, replay
