from codec import run_c02 as run, replay
