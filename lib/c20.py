from connprops import run_c20 as run, replay
