from connprops import run_c05 as run, replay
