from lockprops import run_c14 as run, replay
