"""Generators for the codec properties (C01 C02 C06): RESP value trees, streams, chunkings, hostile mutations.
Untrusted: they only affect coverage. Every random choice comes from the rng passed in."""
import itertools

CR, LF = 13, 10

def hx(b):
    return bytes(b).hex() if len(b) else "-"

# tree = ('s'|'e'|'i', bytes) | ('b', bytes|None) | ('a', [tree])
def tree_text(t):
    k = t[0]
    if k == 'na':
        return "a[]"                     # a null array (*-1) is read as an empty array
    if k == 'a':
        return "a[" + ",".join(tree_text(e) for e in t[1]) + "]"
    if k == 'b' and t[1] is None:
        return "n"
    return "%s(%s)" % (k, hx(t[1]))

def encode(t):
    """reference encoder written from the RESP2 specification (used only to build input streams and as a
    model-free oracle for C01/C02)."""
    k = t[0]
    if k == 'na': return b"*-1\r\n"
    if k == 's': return b"+" + t[1] + b"\r\n"
    if k == 'e': return b"-" + t[1] + b"\r\n"
    if k == 'i': return b":" + t[1] + b"\r\n"
    if k == 'b':
        if t[1] is None: return b"$-1\r\n"
        return b"$%d\r\n" % len(t[1]) + t[1] + b"\r\n"
    return b"*%d\r\n" % len(t[1]) + b"".join(encode(e) for e in t[1])

def strings_over(alpha, maxlen):
    out = []
    for l in range(maxlen + 1):
        for tup in itertools.product(alpha, repeat=l):
            out.append(bytes(tup))
    return out

def small_leaves():
    line_pl = strings_over(b"a$\x00 ", 2)       # (a blank at either edge of a line payload is payload)
    bulk_pl = strings_over(b"a\r\n$\x00", 2)
    leaves = [(k, p) for k in "sei" for p in line_pl] + [('b', p) for p in bulk_pl] + [('b', None)]
    return leaves

def small_trees(rng, sample_depth2=3000):
    leaves = small_leaves()
    trees = list(leaves)
    d1 = [('a', [])] + [('a', [x]) for x in leaves] + [('a', [x, y]) for x in leaves for y in leaves]
    trees += d1
    pool = leaves + d1
    for _ in range(sample_depth2):
        ar = rng.randint(0, 2)
        trees.append(('a', [rng.choice(pool) for _ in range(ar)]))
    return trees

def rand_payload(rng, binary, big=False):
    r = rng.random()
    if big and r < 0.002:
        n = rng.choice([65535, 65536, 40000, 70000])
    elif r < 0.5:
        n = rng.randint(0, 8)
    elif r < 0.93:
        n = rng.randint(0, 120)
    else:
        n = rng.randint(120, 1500)
    if binary:
        special = b"\r\n\x00$*+-:"
        raw = bytearray(rng.randbytes(n))
        for i in range(0, n, 3):
            if raw[i] < 90:
                raw[i] = special[raw[i] % len(special)]
        return bytes(raw)
    raw = rng.randbytes(min(n, 300))
    return bytes(b if b not in (CR, LF) else 0x41 for b in raw)

def rand_tree(rng, depth, big=False):
    r = rng.random()
    if depth <= 0 or r < 0.55:
        k = rng.choice("seibbbb")
        if k == 'b':
            return ('b', None) if rng.random() < 0.1 else ('b', rand_payload(rng, True, big))
        if k == 'i' and rng.random() < 0.7:
            return ('i', str(rng.choice([0, 1, -1, 2**63 - 1, -2**63, rng.randint(-10**6, 10**6)])).encode())
        return (k, rand_payload(rng, False))
    ar = rng.choice([0, 1, 1, 2, 2, 3, 5, 9]) if rng.random() < 0.95 else rng.randint(10, 40)
    return ('a', [rand_tree(rng, depth - 1, big) for _ in range(ar)])

ARITY_EDGES = [1023, 1024, 1025, 1030, 1500, 2048, 2049, 4096]          # around proto.maxArrayPrealloc and its doublings
BULK_EDGES = [4095, 4096, 4097, 16382, 16383, 16384, 16385, 32768, 65535, 65536, 65537, 100000]   # buffer-size edges (bufio 4096, 16 KiB, 64 KiB)

# the smallest values of each kind: an array of n of them is a value with n empty arrays, n null bulks, ...
TINY_KINDS = [('a', []), ('na',), ('b', None), ('b', b""), ('s', b""), ('a', [('a', [])])]

def boundary_trees(rng, arities=ARITY_EDGES, bulks=BULK_EDGES, null_arrays=False):
    """values sitting on implementation thresholds: element counts around the array pre-allocation cap, bulk lengths around
    common buffer sizes; elements are short so the streams stay small.  Thresholds mined from the source of the tree under
    test (thresholds.py) are added to both lists."""
    import thresholds as T
    arities = T.extend(arities, 3, 70000, limit=6)
    bulks = T.extend(bulks, 32, 1 << 21, limit=6)
    out = []
    for n in arities:
        out.append(('a', [('b', b"v%d" % i) for i in range(n)]))
        out.append(('a', [('i', b"%d" % (i % 10)) for i in range(n)]))
        out.append(('a', [('b', b"x"), ('a', [('b', b"e%d" % (i % 7)) for i in range(n)]), ('b', b"y")]))
        # n elements that are themselves empty / null / nested-empty: whatever a parser keeps per array (depth, counters) adds up
        # (a null array cannot be built with the constructors, only parsed: it is used where the bytes come from this encoder)
        tiny = TINY_KINDS if null_arrays else [k for k in TINY_KINDS if k != ('na',)]
        out.append(('a', [tiny[(i + n) % len(tiny)] for i in range(n)]))
        out.append(('a', [tiny[n % 2] for i in range(n)]))
    for n in bulks:
        out.append(('b', bytes((i * 7 + 3) % 251 for i in range(n))))
        out.append(('a', [('b', b"SET"), ('b', b"k"), ('b', bytes(rng.randrange(256) for _ in range(n)))]))
    return out

def request_tree(rng):
    """a client request: non-empty array of bulk strings"""
    n = rng.randint(1, 5)
    return ('a', [('b', rand_payload(rng, True)) for _ in range(n)])

def chunkings(rng, n, kind_counts):
    """yield chunk-size lists for a stream of n bytes: all 2-way splits (capped), all-1-byte, random k-way"""
    out = []
    splits = list(range(1, n))
    if len(splits) > kind_counts.get("two_way_cap", 10**9):
        splits = rng.sample(splits, kind_counts["two_way_cap"])
    for s in splits:
        out.append(("2way", [s, n - s]))
    if n > 0:
        out.append(("1byte", [1] * n))
    for _ in range(kind_counts.get("kway", 3)):
        sizes, left = [], n
        while left > 0:
            k = min(left, rng.choice([1, 1, 2, 3, 5, 8, 13, 64, 512]))
            sizes.append(k); left -= k
        out.append(("kway", sizes))
    return out

BOUNDARY_INTS = [2**31 - 1, 2**31, 2**63 - 2, 2**63 - 1, 2**63, 10**13, -1, -2, -2**63, -2**63 - 1, 0, 1, 512 * 1024 * 1024, 512 * 1024 * 1024 + 1,
                 1024, 1025, 2**26, 2**26 + 1, 4611686018427387904, 10**30]
ODD_NUMS = [b"+5", b"007", b"", b"-", b"+", b"1a", b" 1", b"1 ", b"0x10", b"-0", b"1_0", b"1e3", b"9" * 25]

def digit_runs(data):
    """positions of (start,end) of the number following a '*' or '$' type byte at a plausible frame start"""
    runs = []
    i = 0
    n = len(data)
    while i < n:
        if data[i] in b"*$" and (i == 0 or data[i - 1] == LF):
            j = i + 1
            while j < n and (data[j] in b"0123456789-+"):
                j += 1
            runs.append((i + 1, j))
            i = j
        else:
            i += 1
    return runs

def mutate_stream(rng, data, other):
    """one structure-aware mutation; returns (kind, bytes)"""
    data = bytearray(data)
    kind = rng.choice(["truncate", "truncate", "splice", "flip", "dup", "len_boundary", "len_boundary", "len_boundary", "len_odd", "del", "crlf"])
    n = len(data)
    if kind == "truncate" and n > 0:
        return kind, bytes(data[:rng.randrange(n)])
    if kind == "splice" and n > 0 and len(other) > 0:
        return kind, bytes(data[:rng.randrange(n)]) + bytes(other[rng.randrange(len(other)):])
    if kind == "flip" and n > 0:
        i = rng.randrange(n)
        data[i] = rng.choice([data[i] ^ (1 << rng.randrange(8)), rng.choice(b"*$+-:\r\n0129")])
        return kind, bytes(data)
    if kind == "dup" and n > 0:
        i = rng.randrange(n); j = min(n, i + rng.randint(1, 12))
        return kind, bytes(data[:j] + data[i:j] + data[j:])
    if kind in ("len_boundary", "len_odd"):
        runs = digit_runs(data)
        if runs:
            a, b = rng.choice(runs)
            rep = str(rng.choice(BOUNDARY_INTS)).encode() if kind == "len_boundary" else rng.choice(ODD_NUMS)
            out = bytes(data[:a]) + rep + bytes(data[b:])
            if rng.random() < 0.5:
                out = out[:a + len(rep) + 2 + rng.randint(0, 6)]   # hostile: declare much, send little
            return kind, out
    if kind == "del" and n > 0:
        i = rng.randrange(n); j = min(n, i + rng.randint(1, 4))
        return kind, bytes(data[:i] + data[j:])
    if kind == "crlf":
        # damage a line ending: drop LF, drop CR, or replace by LF only
        idx = [i for i in range(n - 1) if data[i] == CR and data[i + 1] == LF]
        if idx:
            i = rng.choice(idx)
            how = rng.randint(0, 2)
            if how == 0: del data[i + 1]
            elif how == 1: del data[i]
            else: data[i + 1] = rng.choice(b"X\r")
            return kind, bytes(data)
    return "none", bytes(data)

def near_valid(rng):
    """grammar-based near-valid frames"""
    parts = []
    for _ in range(rng.randint(1, 4)):
        t = rng.choice(["bulk_short", "bulk_long", "arr_short", "arr_long", "line_nocrlf", "unknown_type", "nested_deep", "neg_len", "ok"])
        if t == "bulk_short":
            p = rand_payload(rng, True)[:20]; parts.append(b"$%d\r\n" % (len(p) + rng.randint(1, 5)) + p + b"\r\n")
        elif t == "bulk_long":
            p = rand_payload(rng, True)[:20] + b"xx"; parts.append(b"$%d\r\n" % max(0, len(p) - rng.randint(1, 2)) + p + b"\r\n")
        elif t == "arr_short":
            k = rng.randint(1, 3); parts.append(b"*%d\r\n" % (k + rng.randint(1, 3)) + b"".join(b"$1\r\na\r\n" for _ in range(k)))
        elif t == "arr_long":
            k = rng.randint(1, 3); parts.append(b"*%d\r\n" % max(0, k - 1) + b"".join(b"$1\r\na\r\n" for _ in range(k)))
        elif t == "line_nocrlf":
            parts.append(rng.choice([b"+OK", b"+OK\r", b"+OK\n", b":12", b"-ERR x\rY", b"+"]))
        elif t == "unknown_type":
            parts.append(bytes([rng.choice(b"!=%~#(,_>|ab\x00\xff")]) + b"1\r\n")
        elif t == "nested_deep":
            d = rng.randint(2, 60); parts.append(b"*1\r\n" * d + rng.choice([b"$1\r\na\r\n", b"", b"*0\r\n"]))
        elif t == "neg_len":
            parts.append(rng.choice([b"$-1\r\n", b"$-5\r\n", b"*-1\r\n", b"*-7\r\n", b"$-0\r\n\r\n", b"*-0\r\n"]))
        else:
            parts.append(encode(rand_tree(rng, 2)))
    return b"".join(parts)
