"""C16 — commands are atomic with respect to concurrent clients: concurrent histories recorded from the real server
(free interleaving of 2..8 scripted connections) are judged by the extracted, verified checker Linear.lin."""
import json, os, random, re
import vlib, connlib as L, cmdgen as G
from vlib import Check
from connprops import prep, req_desc, replay  # noqa: F401

RB = G.request_bytes

def c16_request(rng, keys):
    k = rng.choice(keys)
    r = rng.random()
    if r < 0.18: return ("GET", [k])
    if r < 0.30: return ("SET", [k, rng.choice([b"0", b"5", b"x", b""])])
    if r < 0.40: return ("SETNX", [k, rng.choice([b"1", b"2", b"3"])])
    if r < 0.50: return ("GETSET", [k, rng.choice([b"10", b"20", b"30", b"40", b""])])
    if r < 0.70: return ("INCR", [k])
    if r < 0.78: return ("DECRBY", [k, rng.choice([b"1", b"3"])])
    if r < 0.88: return ("APPEND", [k, rng.choice([b"a", b"b", b"1"])])
    if r < 0.94:
        k2 = rng.choice(keys)
        return ("MSETNX", [k, b"m1", k2, b"m2"] if k != k2 else [k, b"m1"])
    return ("DEL", [k])

def history_of(obs, sent, skip=0):
    """[(conn, req-bytes, reply-bytes, inv, resp)] from the per-connection logs; the first `skip` requests of every connection
    (connection set-up: a refused command, AUTH) are not part of the judged history"""
    ops = []
    for ci, (res, evs) in enumerate(obs.conns):
        reqs = sent[ci]
        i, inv = 0, None
        pend_reply = None
        for e in evs:
            if e.startswith("I:"):
                inv = int(e[2:])
            elif e.startswith("W@"):
                pend_reply = L.unhx(e.split(":", 1)[1])
            elif e.startswith("T:") and pend_reply is not None:
                if skip <= i < len(reqs) and inv is not None:
                    ops.append((ci, reqs[i], pend_reply, inv, int(e[2:])))
                i += 1; pend_reply = None; inv = None
    return ops

def kinds_of(sent):
    return "+".join(sorted({n for sq in sent for n, _ in sq}))

def run_c16(tier, seed):
    chk = Check("C16", tier, seed)
    broken = prep(chk, "C16")
    race = False
    if tier != "quick":
        ok, o = vlib.build_harness(race=True)
        race = ok
    rng = random.Random(seed)
    cases = []
    def add(sent, desc, pw=None):
        if pw is not None:
            # a server with a password: every client first sends a command (refused), then authenticates, then works
            sent = [[("PING", []), ("AUTH", [pw])] + sq for sq in sent]
        steps = []
        order = [ci for ci, sq in enumerate(sent) for _ in sq]
        pos = [0] * len(sent)
        for ci in order:
            nm, a = sent[ci][pos[ci]]; pos[ci] += 1
            steps.append((ci, "f" + L.hx(RB(nm, a))))
        for ci in range(len(sent)):
            steps.append((ci, "e"))
        cases.append(dict(line="par=1 " + L.mkcase(steps, conns=len(sent), handler="example", trace=False, pw=pw), sent=sent, desc=("[password; PING before AUTH] " if pw else "") + desc,
                          skip=2 if pw is not None else 0))
    # systematic contention shapes named by the property
    for n in (2, 4, 8):
        add([[("INCR", [b"c"])] * 2 for _ in range(n)], "%d clients x 2 INCR on one key" % n)
        add([[("SETNX", [b"w", b"%d" % i]), ("GET", [b"w"])] for i in range(n)], "%d clients SETNX on an absent key then GET" % n)
        add([[("APPEND", [b"a", b"%d" % i])] * 2 for i in range(n)], "%d clients x 2 APPEND" % n)
        add([[("MSETNX", [b"p", b"%d" % i, b"q", b"%d" % i]), ("MGET", [b"p", b"q"])] for i in range(n)], "%d clients MSETNX all-or-nothing then MGET" % n)
        add([[("GETSET", [b"g", b"%d" % i])] * 2 for i in range(n)], "%d clients x 2 GETSET chain" % n)
        add([[("DECRBY", [b"c", b"1"]), ("INCR", [b"c"]), ("GET", [b"c"])] for _ in range(n)], "%d clients DECRBY / INCR / GET" % n)
        add([[("INCR", [b"c"])] * 3 for _ in range(n)], "%d clients x 3 INCR on one key" % n, pw=b"secret")
        add([[("APPEND", [b"a", b"%d" % i])] * 2 for i in range(n)], "%d clients x 2 APPEND" % n, pw=b"secret")
        # the empty string is a value like any other (a key that holds it exists, and reads return it - not nil)
        if n <= 4:      # (many identical operations of many clients make the search for an order expensive: small groups)
            add([[("SET", [b"e", b""]), ("GET", [b"e"]), ("SETNX", [b"e", b"%d" % i])] for i in range(n)], "%d clients SET the empty value / GET / SETNX" % n)
            add([[("GETSET", [b"ge", b"" if i % 2 else b"%d" % i])] * 2 for i in range(n)], "%d clients x 2 GETSET chain with empty values" % n)
            add([[("MSET", [b"p", b"", b"q", b"%d" % i]), ("MGET", [b"p", b"q"])] for i in range(n)], "%d clients MSET an empty and a non-empty value, MGET" % n)
        if n <= 4:
            # the same write twice in a row by one client while others write the key: the second one counts like the first
            add([[("SET", [b"r", b"%d" % i]), ("SET", [b"r", b"%d" % i]), ("GET", [b"r"])] for i in range(n)], "%d clients x (SET r v ; SET r v ; GET r)" % n)
            add([[("SET", [b"rc", b"10"]), ("SET", [b"rc", b"10"]), ("INCR", [b"rc"])] for i in range(n)], "%d clients x (SET rc 10 ; SET rc 10 ; INCR rc)" % n)
    reps = 40 if tier == "quick" else 400
    cases = cases * reps
    # arguments larger than the usual I/O buffers (parsed outside the command lock): what a GET returns was written by somebody
    import thresholds as T
    sizes = [8192] + [v + 1 for v in T.new_constants() if 256 <= v <= (1 << 20)][:3]      # ... and just above every size constant of the source under test
    for _ in range(8 if tier == "quick" else 80):
      for size in sizes:
        for n in (2, 4, 8):
            add([[("SET", [b"big%d" % i, bytes([65 + i]) * size + b"#%d" % i]), ("GET", [b"big%d" % i])] for i in range(n)], "%d clients SET / GET their own key with a %d-byte value" % (n, size))
            if n <= 4:
                add([[("SET", [b"shared", bytes([97 + i]) * 5000]), ("GET", [b"shared"])] for i in range(n)], "%d clients SET / GET a shared key with 5 KB values" % n)
    # many increments of one key by many clients: the replies fix the linearization order (the search is linear), and a reply that is
    # built or rewritten outside the command lock shows as two equal or out-of-order replies
    for _ in range(3 if tier == "quick" else 30):
        add([[("INCR", [b"hot"])] * 40 for _ in range(8)], "8 clients x 40 INCR on one key")
        add([[("INCRBY", [b"hot2", b"3"]), ("DECR", [b"hot2"])] * 15 for _ in range(6)], "6 clients x 15 (INCRBY 3 ; DECR) on one key")
    # a command that touches MANY keys is atomic like any other: while one client deletes (or sets) a long list of keys, another reads
    # and writes keys late in that list; whatever is observed fits an order in which the long command happened at one point
    for _ in range(2 if tier == "quick" else 20):
        for nk in T.extend([70, 300], 8, 5000, limit=3):
            keys = [b"m%04d" % i for i in range(nk)]
            late = keys[-3:]
            a = [("MSET", [x for k in keys for x in (k, b"old")]), ("DEL", keys), ("MGET", late)]
            b = [("GET", [late[0]]), ("SET", [late[1], b"new"]), ("GET", [late[1]]), ("GET", [late[2]])]
            add([a, b, [("GET", [late[1]]), ("EXISTS", late)]], "one client MSETs and DELs %d keys while two others read and write the last of them" % nk)
    # random short histories over 1..3 keys by 2..8 clients
    for _ in range(1500 if tier == "quick" else 30000):
        keys = [b"k1", b"k2", b"k3"][:rng.randint(1, 3)]
        n = rng.randint(2, 8)
        per = max(1, min(4, 14 // n))
        sent = [[c16_request(rng, keys) for _ in range(rng.randint(1, per))] for _ in range(n)]
        add(sent, "random: " + " | ".join(" ; ".join(req_desc(nm, a) for nm, a in sq) for sq in sent)[:300])
    lines = [c["line"] for c in cases]
    # implementation only (the model side of this check is the checker below)
    from concurrent.futures import ThreadPoolExecutor
    shards = 12
    n = len(lines)
    bounds = [(i * n // shards, (i + 1) * n // shards) for i in range(shards)]
    outs = [None] * n
    races = []
    def work(lo, hi):
        rc, o, _ = vlib.run_harness(["conn"], "\n".join(lines[lo:hi]) + "\n", timeout=1200, race=race)
        return lo, hi, rc, o
    with ThreadPoolExecutor(max_workers=shards) as ex:
        for lo, hi, rc, o in ex.map(lambda b: work(*b), bounds):
            for l in o.splitlines():
                sp = l.split(" ", 1)
                if len(sp) == 2 and sp[0].isdigit() and lo + int(sp[0]) < hi:
                    outs[lo + int(sp[0])] = sp[1]
            if "DATA RACE" in o:
                races.append(o[o.index("DATA RACE") - 20:][:1500])
            elif rc != 0:
                chk.violation("harness-failure", "harness shard failed rc=%s: %s" % (rc, o[-400:]), dict(stage="run"), True)
    hist_lines, idx = [], []
    overlap = 0
    for i, (c, a) in enumerate(zip(cases, outs)):
        if a is None:
            continue
        obs = L.Obs(a)
        bad = [r for r, evs in obs.conns if r != "ret" or "!HANG" in evs]
        if bad:
            chk.violation("hang-or-panic", "connection result %s during the concurrent run :: %s" % (bad[0], c["desc"]), dict(case=c["line"], desc=c["desc"]))
            continue
        ops = history_of(obs, c["sent"], c.get("skip", 0))
        nsent = sum(len(sq) - c.get("skip", 0) for sq in c["sent"])
        if len(ops) != nsent:
            chk.violation("history-incomplete", "%d operations sent, %d observed :: %s" % (nsent, len(ops), c["desc"]), dict(case=c["line"], desc=c["desc"]))
            continue
        c["ops"] = ops
        # a read never observes a value nobody wrote (cheap necessary condition, decided before the search): for keys that are only SET and
        # read in this history, every bulk reply to GET is the argument of some SET of that key
        written, touched_otherwise = {}, set()
        for (_, (nm, a_), _, _, _) in ops:
            if nm == "SET":
                written.setdefault(a_[0], set()).add(a_[1])
            elif nm != "GET":
                touched_otherwise.update(a_)      # (every argument: over-approximates the keys the command touches)
        ghost = None
        for (ci_, (nm, a_), rep, _, _) in ops:
            if nm == "GET" and a_[0] not in touched_otherwise and rep.startswith(b"$") and not rep.startswith(b"$-1"):
                val = rep.split(b"\r\n", 1)[1][:-2]
                if val not in written.get(a_[0], set()):
                    ghost = (ci_, a_[0], val)
                    break
        if ghost:
            chk.violation("read-of-unwritten-value", "client %d read from key %r a value (%d bytes, %r...) that no client wrote to that key :: %s" % (ghost[0], ghost[1], len(ghost[2]), ghost[2][:24], c["desc"]),
                          dict(case=c["line"], desc=c["desc"]))
            continue
        if any(a_[3] < b_[4] and b_[3] < a_[4] for x, a_ in enumerate(ops) for b_ in ops[x + 1:] if a_[0] != b_[0]):
            overlap += 1
        hist_lines.append(";".join("%s|%s|%d|%d" % (L.hx(RB(*rq)), L.hx(rep), inv, resp) for (_, rq, rep, inv, resp) in ops))
        idx.append(i)
    rc, o, _ = vlib.run_model(["lin"], "\n".join(hist_lines) + "\n", timeout=1500)
    verdicts = {}
    for l in o.splitlines():
        sp = l.split(" ")
        if len(sp) == 2 and sp[0].isdigit():
            verdicts[int(sp[0])] = sp[1]
    if rc != 0 or len(verdicts) != len(hist_lines):
        chk.violation("model-run-failure", "the linearizability checker failed rc=%s (%d of %d verdicts): %s" % (rc, len(verdicts), len(hist_lines), o[-300:]), dict(stage="lin"), True)
    validated, distinct, bykind = 0, set(), {}
    for j, i in enumerate(idx):
        c = cases[i]
        if verdicts.get(j) == "0":
            ops = c["ops"]
            text = " ; ".join("c%d %s -> %r [%d,%d]" % (ci, req_desc(*rq), rep, inv, resp) for (ci, rq, rep, inv, resp) in sorted(ops, key=lambda x: x[3]))
            chk.violation("not-linearizable:" + kinds_of(c["sent"]), "no sequential order of these commands that respects real time gives the observed replies: %s" % text[:900],
                          dict(case=c["line"], desc=c["desc"], history=text, history_line=hist_lines[j]))
            continue
        if verdicts.get(j) == "1":
            validated += 1
            distinct.add(hist_lines[j])
            k = kinds_of(c["sent"])
            bykind[k] = bykind.get(k, 0) + 1
    # nothing but commands changes the store: a key that got a TTL (EXPIRE) and was then written again (SET / GETSET / INCR / APPEND
    # store a value without a TTL) is still there, with its last acknowledged value, after the old TTL has run out - whatever the
    # server does about expiry happens as part of a command, not behind the commands' back (wall-clock wait of 1.4 s, three
    # connections in one case; monitor only: the checker's command set has no time)
    import storeprops as S
    def prog(tag):
        k, n, a = b"ttl" + tag, b"cnt" + tag, b"app" + tag
        reqs = [("SET", [k, b"v1"]), ("EXPIRE", [k, b"1"]), ("SET", [k, b"v2"]), ("SET", [n, b"5"]), ("EXPIRE", [n, b"1"]), ("INCR", [n]), ("SET", [a, b"x"]), ("EXPIRE", [a, b"1"]), ("GETSET", [a, b"y"])]
        after = [("GET", [k]), ("GET", [n]), ("INCR", [n]), ("SETNX", [k, b"other"]), ("GET", [a])]
        want = [("$", b"v2"), ("$", b"6"), (":", b"7"), (":", b"0"), ("$", b"y")]
        return reqs, after, want
    tlines, tmeta = [], []
    for rep_ in range(2 if tier == "quick" else 6):
        steps, metas = [], []
        for ci, tag in enumerate((b"A", b"B", b"C")):
            reqs, after, want = prog(tag + b"%d" % rep_)
            steps += [(ci, "f" + L.hx(RB(nm, a_))) for nm, a_ in reqs]
            metas.append((len(reqs), after, want))
        steps.append((0, "z1400"))
        for ci, (_, after, _) in enumerate(metas):
            steps += [(ci, "f" + L.hx(RB(nm, a_))) for nm, a_ in after]
        steps += [(ci, "e") for ci in range(3)]
        tlines.append(L.mkcase(steps, conns=3, handler="example", trace=False)); tmeta.append(metas)
    rc_t, o_t, _ = vlib.run_harness(["conn"], "\n".join(tlines) + "\n", timeout=300)
    outs_t = [l.split(" ", 1)[1] for l in o_t.splitlines() if " " in l and l.split(" ", 1)[0].isdigit()]
    if rc_t != 0 or len(outs_t) != len(tlines):
        chk.violation("ttl-run", "the run with expiring keys failed (status %d): %s" % (rc_t, o_t[-300:]), dict(stage="ttl"), "panic" not in o_t)
    ttl_ok = 0
    for line_t, metas, a_t in zip(tlines, tmeta, outs_t):
        obs = L.Obs(a_t)
        for ci, (npre, after, want) in enumerate(metas):
            if ci >= len(obs.conns):
                continue
            reps_t = []
            for off, payload, failed in L.writes_of(obs.conns[ci][1]):
                try:
                    reps_t.append(S.parse_reply(payload)[0])
                except Exception:
                    reps_t.append(("?", payload))
            got = [(r[0], r[1]) for r in reps_t[npre:npre + len(after)]]
            if got != want:
                j = next((i for i in range(len(want)) if i >= len(got) or got[i] != want[i]), 0)
                chk.violation("write-undone-by-timer", "connection %d: SET / EXPIRE 1 / overwrite (the new value has no TTL), 1.4 s later %s is answered %r, the last acknowledged write makes it %r "
                              "(something other than a command changed the store)" % (ci, req_desc(*after[j]), got[j] if j < len(got) else None, want[j]), dict(case=line_t, connection=ci, got=repr(got), expected=repr(want)))
                break
            ttl_ok += 1
    chk.coverage["overwritten_ttl_keys_checked"] = ttl_ok
    # static tie: every call into the application's handler is made under one exclusive lock (access table regenerated
    # from the source by the lockset translator; the same table C14 checks)
    import lockprops
    rows, coq_ok, co = lockprops.regenerate_table(chk, "HandlerAccess")
    hrows = [r for r in (rows or []) if r["loc"] == "handler-state"]
    common = None
    for r in hrows:
        ex = {k for k, v in r["locks"].items() if v}
        common = ex if common is None else (common & ex)
    static_ok = bool(hrows) and bool(common) and coq_ok
    if not static_ok and not chk.violations:
        bad = [r for r in hrows if not any(r["locks"].values())][:3]
        chk.violation("handler-calls-not-serialized", "the access table regenerated from the source shows calls into the command handler that are not all made under one exclusive lock "
                      "(%d handler call sites, common exclusive locks: %s; e.g. %s); no non-linearizable history was recorded in %d histories" % (
                          len(hrows), sorted(common or []), [(r["where"], r["locks"]) for r in bad], len(hist_lines)),
                      dict(broken="GRG.HandlerAccess.handler_table_ok: handler-state rows of coq/gen/HandlerAccess.v under one exclusive lock", rows=hrows[:20]), True)
    chk.coverage["handler_call_sites_under_command_lock"] = len(hrows) if static_ok else 0
    if races and not chk.violations:
        chk.violation("data-race", "race detector report during concurrent commands: " + races[0][:600].replace("\n", " | "), dict(report=races[0]))
    if broken and not chk.violations:
        chk.violation("proof-broken", broken, dict(broken=broken, theorem="GRP.C16"), True)
    top = dict(sorted(bykind.items(), key=lambda x: -x[1])[:25])
    chk.coverage.update(
        evaluations=len(cases), distinct_nontrivial=len(distinct),
        rule="2..8 scripted connections play their commands concurrently (free interleaving, one goroutine per connection) against the bundled example store through the real connection "
             "loop; invocation and response of every command are stamped from one logical clock; the history is accepted iff the extracted checker Linear.lin (proved sound: an accepted "
             "history has a sequential order respecting real time that reproduces every reply under the Redis reference semantics) finds a linearization: systematic contention shapes "
             "(INCR, SETNX winner, APPEND, MSETNX all-or-nothing, GETSET chains, DECRBY/INCR/GET) x 2/4/8 clients x %d repetitions, and random histories of GET/SET/SETNX/GETSET/INCR/DECRBY/"
             "APPEND/MSETNX/DEL over 1..3 keys; non-trivial = distinct recorded history (identical recordings counted once)" % reps,
        traces_validated_against_impl=validated, input_distribution=dict(histories_with_overlapping_operations=overlap, by_operation_kinds=top, race_detector=race),
        samples=[hist_lines[0][:300] if hist_lines else "", cases[-1]["desc"][:300]])
    chk.assumptions = ["the logical clock is read before a request is fed and when its reply is written, so recorded intervals contain the real ones (sound for rejecting, conservative)",
                       "histories are short enough for a complete search; the reference store of the property is the Redis reference model (Redis.prim)"]
    chk.finish()
