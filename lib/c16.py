from linprops import run_c16 as run, replay
