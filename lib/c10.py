from connprops import run_c10 as run, replay
