"""C12 C18 — the framework + the bundled example store against the Redis reference model (Coq: Redis.prim under Conn.serve)."""
import itertools, json, random, re
from fractions import Fraction
import vlib, connlib as L, cmdgen as G
from vlib import Check
from connprops import prep, run_cases, basic_monitors, req_desc, replay  # noqa: F401

RB = G.request_bytes
RAT = re.compile(rb"^-?\d+/\d+$|^[+-]inf$")
UNORDERED = {"KEYS", "SMEMBERS", "HKEYS", "HVALS"}
PAIRS = {"HGETALL"}

def parse_reply(data, pos=0):
    """RESP value -> python tree: ('+',b) ('-',b) (':',b) ('$',b|None) ('*',[...])"""
    t = data[pos:pos + 1]
    end = data.index(b"\r\n", pos)
    line = data[pos + 1:end]
    if t in (b"+", b"-", b":"):
        return (t.decode(), line), end + 2
    if t == b"$":
        n = int(line)
        if n < 0:
            return ("$", None), end + 2
        return ("$", data[end + 2:end + 2 + n]), end + 4 + n
    n = int(line)
    p, items = end + 2, []
    for _ in range(max(n, 0)):
        v, p = parse_reply(data, p)
        items.append(v)
    return ("*", items), p

def num_of(b):
    """exact value of a score text: model 'p/q' | '+inf'; implementation: Go 'g' float text"""
    try:
        s = b.decode()
        if s in ("+inf", "inf", "+Inf", "Inf"): return "+inf"
        if s in ("-inf", "-Inf"): return "-inf"
        if "/" in s: return Fraction(s)
        return Fraction(float(s)) if re.fullmatch(r"[+-]?(\d+\.?\d*|\.\d+)([eE][+-]?\d+)?", s) else None
    except Exception:
        return None

def norm_tree(t, mt):
    """normalise an implementation reply against the model's: score texts compared as exact numbers"""
    if t[0] == "$" and mt[0] == "$" and t[1] is not None and mt[1] is not None and RAT.match(mt[1]):
        a, b = num_of(t[1]), num_of(mt[1])
        if a is not None and a == b:
            return mt
    if t[0] == "*" and mt[0] == "*" and len(t[1]) == len(mt[1]):
        return ("*", [norm_tree(x, y) for x, y in zip(t[1], mt[1])])
    return t

def canon(cmd, t):
    if t[0] == "-":
        return ("-", b"<error>")                      # error texts are not compared
    if t[0] == "*" and cmd in UNORDERED:
        return ("*", sorted(t[1], key=repr))
    if t[0] == "*" and cmd in PAIRS:
        it = t[1]
        return ("*", sorted([tuple(it[i:i + 2]) for i in range(0, len(it), 2)], key=repr))
    return t

def replies_of(obs):
    out = []
    for off, payload, failed in L.writes_of(obs.conns[0][1]):
        try:
            out.append(parse_reply(payload)[0])
        except Exception:
            out.append(("?", payload))
    return out

def compare_program(chk, pid, c, sigprefix="reply"):
    """compare the reply of every request of a program; returns True if all agree"""
    ir, mr = replies_of(c["iobs"]), replies_of(c["mobs"])
    reqs = c["reqs"]
    if len(ir) != len(reqs) or len(mr) != len(reqs):
        chk.violation("reply-count", "program of %d requests: implementation wrote %d replies, model %d :: %s" % (len(reqs), len(ir), len(mr), c["desc"]),
                      dict(case=c["line"], desc=c["desc"], impl=c["iobs"].raw[:3000], model=c["mobs"].raw[:3000]))
        return False
    for i, ((name, args), a, m) in enumerate(zip(reqs, ir, mr)):
        u = name.upper()
        a2 = canon(u, norm_tree(a, m)); m2 = canon(u, m)
        if a2 != m2:
            where = "final-state probe" if i >= c.get("nprog", len(reqs)) else "request %d" % i
            chk.violation("%s:%s" % (sigprefix, u), "%s %s: the server replied %s, the Redis reference model gives %s :: program: %s" % (
                where, req_desc(name, args), show(a), show(m), c["desc"]), dict(case=c["line"], desc=c["desc"], request=req_desc(name, args), impl=show(a), model=show(m)))
            return False
    return True

def show(t):
    if t[0] == "*":
        return "[" + ", ".join(show(x) for x in t[1]) + "]"
    if t[0] == "$":
        return "nil" if t[1] is None else repr(t[1])[1:]
    return t[0] + (t[1].decode("latin1") if isinstance(t[1], bytes) else str(t[1]))

# ------------------------------------------------------------------------------------------ programs
VALS = [b"a", b"b", b"", b"x\r\ny"]
SCORES = [b"1", b"2", b"1.5", b"-1", b"0", b"2"]
KEYS = {"string": [b"s1", b"s2"], "hash": [b"h1", b"h2"], "list": [b"l1", b"l2"], "set": [b"t1", b"t2"], "zset": [b"z1", b"z2"]}
PROBE = {"string": lambda k: [("GET", [k])], "hash": lambda k: [("HGETALL", [k])], "list": lambda k: [("LRANGE", [k, b"0", b"-1"])],
         "set": lambda k: [("SMEMBERS", [k])], "zset": lambda k: [("ZRANGE", [k, b"0", b"-1", b"WITHSCORES"])]}

def commands_for(ty, small):
    """command instances over the pool of the type (small: the reduced set used for exhaustive enumeration)"""
    K = KEYS[ty]; k, k2 = K
    V = VALS[:2] if small else VALS
    out = []
    gen = [("DEL", [k]), ("EXISTS", [k, k2]), ("TYPE", [k]), ("RENAME", [k, k2]), ("RENAME", [k, k]), ("RENAMENX", [k, k2]), ("KEYS", [b"*"])]
    if not small:
        gen += [("DEL", [k, k2, k]), ("EXISTS", [k, k, b"nokey"]), ("RENAME", [k2, k]), ("RENAMENX", [k, k]), ("RENAMENX", [k2, k]), ("KEYS", [k[:1] + b"*"]), ("KEYS", [b"?1"]),
                ("TYPE", [b"nokey"]), ("RENAME", [b"nokey", k]), ("TTL", [k])]
    if ty == "string":
        for v in V:
            out += [("SET", [k, v]), ("SETNX", [k, v]), ("GETSET", [k, v]), ("APPEND", [k, v])]
        out += [("GET", [k]), ("STRLEN", [k]), ("MSET", [k, V[0], k2, V[1]]), ("MGET", [k, k2, b"nokey"]), ("MSETNX", [k, V[1], k2, V[0]])]
        if not small:
            out += [("SET", [k2, b"10"]), ("INCR", [k2]), ("DECR", [k2]), ("INCRBY", [k2, b"5"]), ("DECRBY", [k2, b"7"]), ("GETRANGE", [k, b"0", b"-1"]), ("GETRANGE", [k, b"1", b"2"]),
                    ("SET", [k, b"v", b"XX"]), ("GET", [k2]), ("MSET", [k, b"1", k, b"2"])]
    elif ty == "hash":
        for f in V:
            out += [("HSET", [k, f, V[0]]), ("HSETNX", [k, f, V[1]]), ("HGET", [k, f]), ("HDEL", [k, f])]
        out += [("HGETALL", [k]), ("HLEN", [k]), ("HKEYS", [k]), ("HVALS", [k]), ("HDEL", [k, V[0], V[1], V[0]])]
        if not small:
            out += [("HMSET", [k, b"a", b"1", b"b", b"2"]), ("HMGET", [k, b"a", b"nof", b"b"]), ("HEXISTS", [k, b"a"]), ("HSTRLEN", [k, b"a"]), ("HSET", [k2, b"f", b"v"]), ("HGETALL", [k2])]
    elif ty == "list":
        for v in V:
            out += [("LPUSH", [k, v]), ("RPUSH", [k, v])]
        out += [("LPUSH", [k, b"a", b"b", b"c"]), ("RPUSH", [k, b"a", b"b", b"c"]), ("LPOP", [k]), ("RPOP", [k]), ("LPOP", [k, b"2"]), ("RPOP", [k, b"5"]), ("LRANGE", [k, b"0", b"-1"]), ("LLEN", [k]),
                ("LPUSHX", [k, b"x"]), ("RPUSHX", [k, b"y"]), ("LINDEX", [k, b"0"]), ("LINDEX", [k, b"-1"])]
        if not small:
            out += [("LRANGE", [k, b"1", b"1"]), ("LRANGE", [k, b"-2", b"5"]), ("LRANGE", [k, b"2", b"0"]), ("LINDEX", [k, b"7"]), ("LINDEX", [k, b"-9"]), ("LPOP", [k, b"3"]), ("RPOP", [k, b"2"]),
                    ("RPUSH", [k2, b"z"]), ("LLEN", [k2]), ("LPOP", [k2])]
    elif ty == "set":
        for v in V:
            out += [("SADD", [k, v]), ("SREM", [k, v]), ("SISMEMBER", [k, v])]
        out += [("SADD", [k, b"a", b"b", b"a"]), ("SREM", [k, b"a", b"a", b"nom"]), ("SMEMBERS", [k]), ("SCARD", [k])]
        if not small:
            out += [("SADD", [k, b"c", b"c"]), ("SADD", [k2, b"m"]), ("SMEMBERS", [k2]), ("SREM", [k2, b"m"])]
    elif ty == "zset":
        for sc, m in [(b"1", b"a"), (b"2", b"b"), (b"2", b"a"), (b"1", b"b"), (b"1", b"c")]:
            out.append(("ZADD", [k, sc, m]))
        out += [("ZADD", [k, b"3", b"a", b"0", b"d"]), ("ZREM", [k, b"a"]), ("ZREM", [k, b"b", b"nom", b"b"]), ("ZSCORE", [k, b"a"]), ("ZINCRBY", [k, b"1.5", b"a"]), ("ZINCRBY", [k, b"-2", b"e"]),
                ("ZRANGE", [k, b"0", b"-1", b"WITHSCORES"]), ("ZRANGE", [k, b"0", b"0"]), ("ZCARD", [k]), ("ZRANGEBYSCORE", [k, b"-inf", b"+inf"]), ("ZREVRANGE", [k, b"0", b"-1"])]
        if not small:
            out += [("ZRANGE", [k, b"1", b"-1"]), ("ZRANGE", [k, b"-2", b"-1", b"WITHSCORES"]), ("ZRANGEBYSCORE", [k, b"(1", b"2", b"WITHSCORES"]), ("ZRANGEBYSCORE", [k, b"1", b"(2"]),
                    ("ZRANGEBYSCORE", [k, b"-inf", b"+inf", b"LIMIT", b"1", b"2"]), ("ZRANGEBYSCORE", [k, b"0", b"5", b"LIMIT", b"0", b"1", b"WITHSCORES"]), ("ZREVRANGE", [k, b"0", b"0", b"WITHSCORES"]),
                    ("ZREVRANGE", [k, b"1", b"2"]), ("ZREVRANGEBYSCORE", [k, b"+inf", b"-inf", b"LIMIT", b"0", b"2"]), ("ZREVRANGEBYSCORE", [k, b"2", b"(1"]), ("ZADD", [k2, b"1", b"m"]),
                    ("ZRANGE", [k2, b"0", b"-1"]), ("ZADD", [k, b"2", b""]), ("ZADD", [k, b"1", b"a", b"1", b"a"]), ("ZRANGE", [k, b"0", b"-1", b"REV"]), ("ZRANGE", [k, b"0", b"0", b"REV", b"WITHSCORES"]),
                    # infinite scores, and increments that move a score to / between the infinities (inf + -inf is not a number)
                    ("ZADD", [k, b"inf", b"a"]), ("ZADD", [k, b"-inf", b"b"]), ("ZINCRBY", [k, b"-inf", b"a"]), ("ZINCRBY", [k, b"+inf", b"a"]), ("ZINCRBY", [k, b"inf", b"b"]),
                    ("ZRANGEBYSCORE", [k, b"-inf", b"(+inf", b"WITHSCORES"])]
    return out + gen

def probes(ty):
    out = []
    for k in KEYS[ty]:
        out += [("EXISTS", [k]), ("TYPE", [k])] + PROBE[ty](k)
    return out + [("KEYS", [b"*"])]

def mkprog(ty, prog):
    reqs = list(prog) + probes(ty)
    data = b"".join(RB(n, a) for n, a in reqs)
    return dict(reqs=reqs, nprog=len(prog), ty=ty, line=L.mkcase([(0, "f" + L.hx(data)), (0, "e")], handler="example", trace=False),
                desc=" ; ".join(req_desc(n, a) for n, a in prog)[:400])

# Redis behaviour the handler interface cannot express: reported as findings, by request shape (model and implementation agree with each other here)
def interface_findings(chk, c):
    ir = replies_of(c["iobs"])
    for (name, args), a in zip(c["reqs"][:c["nprog"]], ir):
        u = name.upper()
        if u in ("LPOP", "RPOP") and len(args) == 2 and args[1] == b"1" and a[0] == "$" and a[1] is not None:
            chk.violation("pop-explicit-count-1-bulk-reply", "%s with an explicit count of 1 is answered with a bulk string, Redis answers with a one-element array" % u,
                          dict(case=c["line"], desc=c["desc"]))
        if u == "SET" and any(x.upper() == b"NX" for x in args[2:]) and a[0] == ":":
            chk.violation("set-nx-integer-reply", "SET ... NX is answered with an integer (the SETNX reply), Redis answers OK or nil", dict(case=c["line"], desc=c["desc"]))

def run_c18(tier, seed):
    chk = Check("C18", tier, seed)
    broken = prep(chk, "C18")
    rng = random.Random(seed)
    cases = []
    per_type = {}
    for ty in KEYS:
        small = commands_for(ty, True)
        full = commands_for(ty, False)
        n0 = len(cases)
        for c1 in full:
            cases.append(mkprog(ty, [c1]))
        for c1 in small:
            for c2 in small:
                cases.append(mkprog(ty, [c1, c2]))
        tri = list(itertools.product(small, repeat=3))
        if tier == "quick":
            tri = rng.sample(tri, min(len(tri), 1500))
        for p in tri:
            cases.append(mkprog(ty, list(p)))
        for _ in range(120 if tier == "quick" else 3000):
            cases.append(mkprog(ty, [rng.choice(full) for _ in range(rng.randint(4, 40))]))
        per_type[ty] = len(cases) - n0
    # mixed-type programs (each key still keeps one type)
    allfull = [c for ty in KEYS for c in commands_for(ty, False)]
    for _ in range(150 if tier == "quick" else 3000):
        prog = [rng.choice(allfull) for _ in range(rng.randint(5, 40))]
        reqs = prog + [p for ty in KEYS for p in probes(ty)]
        data = b"".join(RB(n, a) for n, a in reqs)
        cases.append(dict(reqs=reqs, nprog=len(prog), ty="mixed", line=L.mkcase([(0, "f" + L.hx(data)), (0, "e")], handler="example", trace=False),
                          desc=" ; ".join(req_desc(n, a) for n, a in prog)[:400]))
    # explicit pop counts of 1 and SET NX (interface findings)
    for extra in ([("RPUSH", [b"l1", b"a", b"b"]), ("LPOP", [b"l1", b"1"])], [("RPUSH", [b"l1", b"a", b"b"]), ("RPOP", [b"l1", b"1"])], [("SET", [b"s1", b"v", b"NX"])]):
        cases.append(mkprog("list" if extra[0][0] == "RPUSH" else "string", extra))
    good = run_cases(chk, cases)
    validated, distinct = 0, set()
    for c in good:
        if not basic_monitors(chk, "C18", c):
            continue
        interface_findings(chk, c)
        if not compare_program(chk, "C18", c):
            continue
        validated += 1
        distinct.add((c["ty"], c["desc"]))
    if broken and not chk.violations:
        chk.violation("proof-broken", broken, dict(broken=broken, theorem="GRP.C18"), True)
    chk.coverage.update(
        evaluations=len(cases), distinct_nontrivial=len(distinct), exhaustive=(tier != "quick"),
        rule="single-client programs against the bundled example server (through the real connection loop) and the Redis reference model (Redis.prim under Conn.serve): per data type "
             "(string, hash, list, set, sorted set) every program of length 1 over the full command-instance set, every program of length 2 and %s of length 3 over a reduced set "
             "(pool: 2 keys x 2..4 values/members incl. empty and CRLF-carrying, re-adds, renames onto existing and identical keys, pops beyond the end), random programs of length 4..40, "
             "and mixed-type programs; every program is followed by a final-state probe (EXISTS, TYPE, full read of every pool key, KEYS *); replies compared byte for byte after sorting "
             "replies Redis leaves unordered and comparing scores as exact numbers; non-trivial = distinct program" % ("every program" if tier != "quick" else "1500 sampled programs"),
        traces_validated_against_impl=validated, input_distribution=dict(programs_per_type=per_type),
        samples=[c["desc"][:200] for c in cases[::max(1, len(cases) // 6)]][:6])
    chk.assumptions = ["each key is used with one data type; no expiry; SET is used without NX/XX/GET options except where listed; ZADD without option flags",
                       "scores are decimal literals exactly representable in binary64"]
    chk.finish()

# ------------------------------------------------------------------------------------------ C12
DERIVED_CMDS = ["PING", "ECHO", "MSET", "MSETNX", "MGET", "APPEND", "INCR", "DECR", "INCRBY", "DECRBY", "STRLEN", "GETRANGE", "SUBSTR", "HMSET", "HMGET", "HEXISTS", "HKEYS", "HVALS",
                "HLEN", "HSTRLEN", "SCARD", "SISMEMBER", "ZCARD", "ZREVRANGE", "ZREVRANGEBYSCORE", "CONFIG"]

def prog_case(prog, probe_reqs, desc):
    reqs = list(prog) + list(probe_reqs)
    data = b"".join(RB(n, a) for n, a in reqs)
    return dict(reqs=reqs, nprog=len(prog), ty="derived", line=L.mkcase([(0, "f" + L.hx(data)), (0, "e")], handler="example", trace=False), desc=desc[:400])

def c12_random_request(rng):
    name = rng.choice(DERIVED_CMDS + ["SET", "HSET", "SADD", "ZADD", "DEL", "RPUSH"])
    sk = lambda: rng.choice([b"s1", b"s2", b"n1"]); v = lambda: rng.choice([b"a", b"", b"10", b"-3", b"x\r\ny", b"9223372036854775807", b"abc", b"007"])
    if name == "PING": return name, ([] if rng.random() < 0.5 else [v()])
    if name == "ECHO": return name, [v()]
    if name in ("MSET", "MSETNX"):
        a = []
        for _ in range(rng.randint(1, 3)): a += [sk(), v()]
        return name, a
    if name == "MGET": return name, [rng.choice([b"s1", b"s2", b"n1", b"nokey"]) for _ in range(rng.randint(1, 4))]
    if name in ("APPEND", "SET"): return name, [sk(), v()]
    if name in ("INCR", "DECR", "STRLEN"): return name, [sk()]
    if name in ("INCRBY", "DECRBY"): return name, [sk(), rng.choice([b"1", b"-1", b"5", b"9223372036854775807", b"-9223372036854775808", b"9223372036854775806", b"0"])]
    if name in ("GETRANGE", "SUBSTR"): return name, [sk(), str(rng.randint(-9, 9)).encode(), str(rng.randint(-9, 9)).encode()]
    f = lambda: rng.choice([b"f1", b"f2", b"", b"f3"])
    if name == "HMSET":
        a = [b"h1"]
        for _ in range(rng.randint(1, 3)): a += [f(), v()]
        return name, a
    if name == "HSET": return name, [b"h1", f(), v()]
    if name == "HMGET": return name, [b"h1"] + [f() for _ in range(rng.randint(1, 4))]
    if name in ("HEXISTS", "HSTRLEN"): return name, [rng.choice([b"h1", b"nokey"]), f()]
    if name in ("HKEYS", "HVALS", "HLEN"): return name, [rng.choice([b"h1", b"nokey"])]
    m = lambda: rng.choice([b"a", b"b", b"c", b""])
    if name == "SADD": return name, [b"t1"] + [m() for _ in range(rng.randint(1, 3))]
    if name == "SCARD": return name, [rng.choice([b"t1", b"nokey"])]
    if name == "SISMEMBER": return name, [rng.choice([b"t1", b"nokey"]), m()]
    if name == "ZADD":
        a = [b"z1"]
        for _ in range(rng.randint(1, 3)): a += [rng.choice([b"1", b"2", b"1.5", b"-1", b"3"]), m()]
        return name, a
    if name == "ZCARD": return name, [rng.choice([b"z1", b"nokey"])]
    if name == "ZREVRANGE":
        a = [b"z1", str(rng.randint(-7, 7)).encode(), str(rng.randint(-7, 7)).encode()]
        return name, a + ([b"WITHSCORES"] if rng.random() < 0.5 else [])
    if name == "ZREVRANGEBYSCORE":
        a = [b"z1", rng.choice([b"+inf", b"3", b"(2", b"2"]), rng.choice([b"-inf", b"1", b"(1", b"0"])]
        if rng.random() < 0.5: a.append(b"WITHSCORES")
        if rng.random() < 0.6: a += [b"LIMIT", str(rng.randint(-1, 5)).encode(), str(rng.randint(-1, 5)).encode()]
        return name, a
    if name == "CONFIG":
        # (parameter names in mixed case too: what was stored under a name is what is read back under that name)
        if rng.random() < 0.5: return name, [b"SET", rng.choice([b"maxmemory", b"x", b"y", b"MAXMEMORY", b"Max-Clients", b"X"]), v()]
        return name, [b"GET"] + [rng.choice([b"maxmemory", b"x", b"y", b"nope", b"MAXMEMORY", b"Max-Clients", b"X"]) for _ in range(rng.randint(1, 3))]
    if name == "DEL": return name, [rng.choice([b"s1", b"h1", b"t1", b"z1", b"n1"])]
    if name == "RPUSH": return name, [b"l1", v()]
    return "PING", []

C12_PROBES = [("GET", [b"s1"]), ("GET", [b"s2"]), ("GET", [b"n1"]), ("HGETALL", [b"h1"]), ("SMEMBERS", [b"t1"]), ("ZRANGE", [b"z1", b"0", b"-1", b"WITHSCORES"]), ("KEYS", [b"*"])]

def run_c12(tier, seed):
    chk = Check("C12", tier, seed)
    broken = prep(chk, "C12")
    rng = random.Random(seed)
    cases = []
    grid = dict(getrange=0, zrevrange=0, zrevrangebyscore=0, counters=0, random=0)
    # GETRANGE / SUBSTR: lengths 0..6 x start, end in -9..9 — exhaustive; and on a missing key
    for ln in list(range(0, 7)) + [None]:
        val = bytes(b"abcdef"[:ln]) if ln is not None else None
        for cmd in ("GETRANGE", "SUBSTR"):
            prog = ([("SET", [b"s1", val])] if val is not None else []) + [(cmd, [b"s1", str(a).encode(), str(b).encode()]) for a in range(-9, 10) for b in range(-9, 10)]
            cases.append(prog_case(prog, [("GET", [b"s1"])], "%s on a value of length %s, start,end in -9..9 (361 requests)" % (cmd, ln)))
            grid["getrange"] += 361
    # ZREVRANGE: sizes 0..5 x start, stop in -7..7, with and without scores — exhaustive
    for n in range(0, 6):
        setup = [("ZADD", [b"z1"] + [x for i in range(n) for x in (str(i + 1).encode(), b"m%d" % i)])] if n else []
        for ws in ([], [b"WITHSCORES"]):
            prog = setup + [("ZREVRANGE", [b"z1", str(a).encode(), str(b).encode()] + ws) for a in range(-7, 8) for b in range(-7, 8)]
            cases.append(prog_case(prog, [("ZRANGE", [b"z1", b"0", b"-1", b"WITHSCORES"])], "ZREVRANGE on %d members, start,stop in -7..7 %s (225 requests)" % (n, "WITHSCORES" if ws else "")))
            grid["zrevrange"] += 225
        # ZREVRANGEBYSCORE: ranges x LIMIT offset 0..n+2 x count -1..n+1 x scores
        for ws in ([], [b"WITHSCORES"]):
            prog = list(setup)
            for mx, mn in [(b"+inf", b"-inf"), (b"3", b"2"), (b"(3", b"(1"), (b"1", b"5")]:
                prog.append(("ZREVRANGEBYSCORE", [b"z1", mx, mn] + ws))
                for off in range(-1, n + 3):
                    for cnt in range(-1, n + 2):
                        prog.append(("ZREVRANGEBYSCORE", [b"z1", mx, mn] + ws + [b"LIMIT", str(off).encode(), str(cnt).encode()]))
            grid["zrevrangebyscore"] += len(prog) - len(setup)
            cases.append(prog_case(prog, [], "ZREVRANGEBYSCORE on %d members, 4 ranges x LIMIT grid %s" % (n, "WITHSCORES" if ws else "")))
    # GETRANGE / SUBSTR with offsets at the limits of int64 (the "to the end" spellings clients use)
    LIM = [b"0", b"1", b"-1", b"2", b"9223372036854775807", b"9223372036854775806", b"-9223372036854775808", b"-9223372036854775807", b"4611686018427387904", b"2147483647", b"2147483648", b"-2147483649"]
    for val in (b"abcdef", b"", b"x"):
        prog = [("SET", [b"s1", val])] + [(cmd, [b"s1", a, b]) for cmd in ("GETRANGE", "SUBSTR") for a in LIM for b in LIM]
        cases.append(prog_case(prog, [("GET", [b"s1"])], "GETRANGE / SUBSTR on %r with start,end at the int64 limits (%d requests)" % (val, len(prog) - 1)))
        grid["getrange"] += len(prog) - 1
    # replies with many elements (the element counts the parser pre-allocates for, 1024, and beyond): derived commands that
    # rebuild or reverse an array must keep every element
    import thresholds as T
    for nbig in T.extend([513, 1025] if tier == "quick" else [513, 1024, 1025, 1500, 2049], 3, 20000, limit=3):
        zsetup = [("ZADD", [b"zb"] + [x for i in range(lo, min(lo + 200, nbig)) for x in (str(i).encode(), b"m%05d" % i)]) for lo in range(0, nbig, 200)]
        prog = zsetup + [("ZCARD", [b"zb"]), ("ZREVRANGE", [b"zb", b"0", b"-1"]), ("ZREVRANGE", [b"zb", b"0", b"-1", b"WITHSCORES"]), ("ZREVRANGEBYSCORE", [b"zb", b"+inf", b"-inf"]),
                         ("ZREVRANGEBYSCORE", [b"zb", b"+inf", b"-inf", b"WITHSCORES"]), ("ZREVRANGEBYSCORE", [b"zb", b"+inf", b"-inf", b"LIMIT", b"3", str(nbig - 5).encode()])]
        cases.append(prog_case(prog, [], "ZREVRANGE / ZREVRANGEBYSCORE over %d members (replies of up to %d elements)" % (nbig, 2 * nbig)))
        hsetup = [("HMSET", [b"hb"] + [x for i in range(lo, min(lo + 200, nbig)) for x in (b"f%05d" % i, b"v%d" % i)]) for lo in range(0, nbig, 200)]
        prog = hsetup + [("HLEN", [b"hb"]), ("HKEYS", [b"hb"]), ("HVALS", [b"hb"]), ("HMGET", [b"hb"] + [b"f%05d" % i for i in range(nbig)])]
        cases.append(prog_case(prog, [], "HKEYS / HVALS / HMGET over %d fields" % nbig))
        ssetup = [("MSET", [x for i in range(lo, min(lo + 200, nbig)) for x in (b"k%05d" % i, b"v%d" % i)]) for lo in range(0, nbig, 200)]
        prog = ssetup + [("MGET", [b"k%05d" % i for i in range(nbig)])]
        cases.append(prog_case(prog, [], "MSET / MGET over %d keys" % nbig))
        grid["random"] += 3
    # counters at the int64 boundaries and on non-integers
    STARTS = [None, b"0", b"10", b"-1", b"9223372036854775807", b"-9223372036854775808", b"9223372036854775806", b"-9223372036854775807", b"abc", b"", b" 1", b"1.0", b"+5", b"007", b"-0", b"1e3",
              b"9223372036854775808", b"-9223372036854775809"]
    DELTAS = [b"1", b"-1", b"0", b"2", b"9223372036854775807", b"-9223372036854775808", b"-9223372036854775807", b"9223372036854775806"]
    for st in STARTS:
        prog = []
        for op in [("INCR", []), ("DECR", [])] + [("INCRBY", [d]) for d in DELTAS] + [("DECRBY", [d]) for d in DELTAS]:
            prog += ([("SET", [b"n1", st])] if st is not None else [("DEL", [b"n1"])]) + [(op[0], [b"n1"] + op[1]), ("GET", [b"n1"])]
        cases.append(prog_case(prog, [], "counters from %r: INCR DECR INCRBY/DECRBY x %d deltas" % (st, len(DELTAS))))
        grid["counters"] += len(prog) // 3
    # every derived command on a MISSING key and with EMPTY operands, each followed by what shows whether the key exists now
    # (Redis creates the key on APPEND "" / INCRBY 0 / MSETNX; a command that only reads must not create it), and the same
    # derived read twice in a row on an unchanged key
    seen_probe = [("EXISTS", [b"e1"]), ("TYPE", [b"e1"]), ("GET", [b"e1"]), ("STRLEN", [b"e1"])]
    for op in [("APPEND", [b"e1", b""]), ("APPEND", [b"e1", b"x"]), ("INCRBY", [b"e1", b"0"]), ("DECRBY", [b"e1", b"0"]), ("INCR", [b"e1"]), ("MSETNX", [b"e1", b""]), ("MSET", [b"e1", b""]),
               ("GETRANGE", [b"e1", b"0", b"-1"]), ("SUBSTR", [b"e1", b"0", b"0"]), ("STRLEN", [b"e1"]), ("MGET", [b"e1"]), ("HLEN", [b"e1"]), ("HKEYS", [b"e1"]), ("HVALS", [b"e1"]),
               ("HMGET", [b"e1", b"f"]), ("HEXISTS", [b"e1", b"f"]), ("HSTRLEN", [b"e1", b"f"]), ("SCARD", [b"e1"]), ("SISMEMBER", [b"e1", b"m"]), ("ZCARD", [b"e1"]),
               ("ZREVRANGE", [b"e1", b"0", b"-1"]), ("ZREVRANGEBYSCORE", [b"e1", b"+inf", b"-inf"]), ("HMSET", [b"e1", b"", b""])]:
        for pre in ([], [("SET", [b"e1", b""])]):
            if pre and op[0][0] in "HSZ":
                continue
            prog = [("DEL", [b"e1"])] + pre + [op] + seen_probe + [op, op] + seen_probe[:2]
            cases.append(prog_case(prog, [], "%s%s on a %s key, then EXISTS / TYPE / GET / STRLEN, then twice more" % ("SET e1 '' ; " if pre else "", req_desc(*op), "just created empty" if pre else "missing")))
            grid["random"] += 1
    for setup, reads in [([("HSET", [b"h9", b"f1", b"a"]), ("HSET", [b"h9", b"f2", b"b"])], [("HLEN", [b"h9"]), ("HKEYS", [b"h9"]), ("HVALS", [b"h9"]), ("HMGET", [b"h9", b"f1", b"f2"]), ("HEXISTS", [b"h9", b"f1"])]),
                         ([("SADD", [b"s9", b"a", b"b"])], [("SCARD", [b"s9"]), ("SISMEMBER", [b"s9", b"a"])]),
                         ([("ZADD", [b"z9", b"1", b"a", b"2", b"b"])], [("ZCARD", [b"z9"]), ("ZREVRANGE", [b"z9", b"0", b"-1"]), ("ZREVRANGEBYSCORE", [b"z9", b"+inf", b"-inf", b"WITHSCORES"])]),
                         ([("SET", [b"k9", b"abc"])], [("STRLEN", [b"k9"]), ("GETRANGE", [b"k9", b"0", b"-1"]), ("MGET", [b"k9", b"nokey"])])]:
        key = setup[0][1][0]
        prog = setup + [r for r in reads for _ in range(3)] + [("RENAME", [key, key + b"r"])] + [(n_, [key + b"r"] + a_[1:]) for n_, a_ in reads for _ in range(2)]
        cases.append(prog_case(prog, [], "derived reads repeated on an unchanged key, then after RENAME: " + " ; ".join(req_desc(n, a) for n, a in reads)))
        grid["random"] += 1
    # random programs over all derived commands, with a final-state probe
    for _ in range(400 if tier == "quick" else 8000):
        prog = [c12_random_request(rng) for _ in range(rng.randint(1, 25))]
        cases.append(prog_case(prog, C12_PROBES, " ; ".join(req_desc(n, a) for n, a in prog)))
        grid["random"] += 1
    good = run_cases(chk, cases)
    validated, distinct = 0, set()
    for c in good:
        if not basic_monitors(chk, "C12", c):
            continue
        if not compare_program(chk, "C12", c):
            continue
        validated += 1
        distinct.add(c["desc"])
    if broken and not chk.violations:
        chk.violation("proof-broken", broken, dict(broken=broken, theorem="GRP.C12"), True)
    chk.coverage.update(
        evaluations=sum(len(c["reqs"]) for c in cases), distinct_nontrivial=len(distinct), exhaustive=True,
        rule="the framework's own and derived commands run on the bundled example store (primitive operations) through the real connection loop, against the same executors over the Redis "
             "reference primitives in the model: GETRANGE and SUBSTR for value lengths 0..6 and a missing key x start,end in -9..9 (exhaustive); ZREVRANGE for 0..5 members x start,stop in "
             "-7..7 with and without scores (exhaustive); ZREVRANGEBYSCORE for 4 ranges x LIMIT offset -1..n+2 x count -1..n+1; INCR/DECR/INCRBY/DECRBY from %d starting values (int64 "
             "limits, non-integers, non-canonical numerals, missing key) x %d deltas, each followed by GET; random programs of 1..25 requests over all %d derived commands with a final-state "
             "probe; evaluations = requests; non-trivial = distinct program" % (len(STARTS), len(DELTAS), len(DERIVED_CMDS)),
        traces_validated_against_impl=validated, input_distribution=grid,
        samples=[c["desc"][:200] for c in cases[::max(1, len(cases) // 6)]][:6])
    chk.assumptions = ["the primitive operations are the bundled example store's, shown by C18 to behave like the reference on this domain"]
    chk.finish()
