from codec import run_c06 as run, replay
