"""vlib — shared driver code for ./check: builds (Coq, extracted model, Go harness), proof-obligation
status, hygiene, evidence / replay / verdict output.  Decides nothing property-specific."""
import glob as _glob
import hashlib, json, os, re, subprocess, sys, time

ROOT = os.path.dirname(os.path.dirname(os.path.abspath(__file__)))
COQ = os.path.join(ROOT, "coq")
BUILD = os.path.join(ROOT, "build")
REPO = os.environ.get("VERIF_REPO", "/repo")
GOENV = dict(os.environ, GOFLAGS="-mod=mod", GOPROXY="off", GOSUMDB="off", GOTOOLCHAIN="local",
             CGO_ENABLED=os.environ.get("CGO_ENABLED", "1"))
ALLOWED_AXIOMS = {  # axioms the standard library itself declares; named in the trusted base when they appear
    "Coq.Logic.FunctionalExtensionality.functional_extensionality_dep",
    "Coq.Logic.Classical_Prop.classic", "Coq.Logic.ProofIrrelevance.proof_irrelevance",
    "Coq.Logic.JMeq.JMeq_eq", "Coq.Logic.Eqdep.Eq_rect_eq.eq_rect_eq",
}
HYGIENE_RE = re.compile(r"\b(Admitted|admit|Axiom|Axioms|Parameter|Parameters|Conjecture|Abort All)\b|Unset Guard|bypass_check|type-in-type|impredicative-set|Admit Obligations|Unset Positivity|Unset Universe")


def sh(cmd, cwd=None, timeout=1800, env=None, inp=None):
    t0 = time.time()
    try:
        p = subprocess.run(cmd, cwd=cwd, env=env, input=inp, shell=isinstance(cmd, str),
                           stdout=subprocess.PIPE, stderr=subprocess.STDOUT, text=True, errors="replace", timeout=timeout)
        return p.returncode, p.stdout, time.time() - t0
    except subprocess.TimeoutExpired as e:
        o = e.stdout or ""
        if isinstance(o, bytes):
            o = o.decode("utf-8", "replace")
        return 124, o + "\n[timeout]", time.time() - t0


def log(*a):
    print(*a, file=sys.stderr, flush=True)


# ---------------------------------------------------------------- builds
import contextlib, fcntl

@contextlib.contextmanager
def build_lock():
    """checks may run at the same time: everything that WRITES shared build products (the .vo files, the extracted model, the harness
    module files and binaries, coq/gen) is done by one process at a time"""
    os.makedirs(BUILD, exist_ok=True)
    with open(os.path.join(BUILD, ".buildlock"), "w") as f:
        fcntl.flock(f, fcntl.LOCK_EX)
        try:
            yield
        finally:
            fcntl.flock(f, fcntl.LOCK_UN)


def _locked(fn):
    import functools
    @functools.wraps(fn)
    def w(*a, **k):
        with build_lock():
            return fn(*a, **k)
    return w


@_locked
def build_coq():
    """full .vo build (no quick modes). Returns (ok, output)."""
    mk = os.path.join(COQ, "Makefile")
    cp = os.path.join(COQ, "_CoqProject")
    if not os.path.exists(mk) or os.path.getmtime(mk) < os.path.getmtime(cp):
        rc, o, _ = sh(["coq_makefile", "-f", "_CoqProject", "-o", "Makefile"], cwd=COQ)
        if rc != 0:
            return False, o
    rc, o, dt = sh(["make", "-j16"], cwd=COQ, timeout=3000)
    return rc == 0, o


@_locked
def build_coq_targets(targets):
    """build only the given .vo targets (and their dependencies)."""
    mk = os.path.join(COQ, "Makefile")
    cp = os.path.join(COQ, "_CoqProject")
    if not os.path.exists(mk) or os.path.getmtime(mk) < os.path.getmtime(cp):
        rc, o, _ = sh(["coq_makefile", "-f", "_CoqProject", "-o", "Makefile"], cwd=COQ)
        if rc != 0:
            return False, o
    rc, o, dt = sh(["make", "-j16"] + targets, cwd=COQ, timeout=3000)
    return rc == 0, o


@_locked
def build_model():
    """extract the model and build build/modelrun (only when a theory is newer than the binary)."""
    os.makedirs(BUILD, exist_ok=True)
    exe = os.path.join(BUILD, "modelrun")
    oc = os.path.join(ROOT, "ocaml")
    srcs = _glob.glob(os.path.join(COQ, "theories", "*.vo")) + [os.path.join(oc, f) for f in ("Extract.v", "util.ml", "main.ml")]
    srcs += _glob.glob(os.path.join(oc, "m_*.ml"))
    if os.path.exists(exe) and all(os.path.getmtime(s) <= os.path.getmtime(exe) for s in srcs):
        return True, ""
    rc, o, _ = sh(["coqc", "-Q", "../coq/theories", "GR", "Extract.v"], cwd=oc, timeout=900)
    if rc != 0:
        return False, o
    mods = sorted(os.path.basename(f) for f in _glob.glob(os.path.join(oc, "m_*.ml")))
    rc, o2, _ = sh(["ocamlfind", "ocamlopt", "-O2", "-w", "-a", "-package", "unix", "-linkpkg", "-o", exe,
                    "model.mli", "model.ml", "util.ml"] + mods + ["main.ml"], cwd=oc, timeout=900)
    for junk in _glob.glob(os.path.join(oc, "*.cm[iox]")) + _glob.glob(os.path.join(oc, "*.o")):
        os.remove(junk)
    return rc == 0, o + o2


@_locked
def build_harness(race=False):
    """(re)build the Go harness against the CURRENT working tree of the repository under test."""
    os.makedirs(BUILD, exist_ok=True)
    hd = os.path.join(ROOT, "harness")
    gomod = ("module verifharness\n\ngo 1.22\n\nrequire github.com/cybergarage/go-redis v0.0.0\n\n"
             "replace github.com/cybergarage/go-redis => %s\n" % REPO)
    def put(path, text):
        try:
            if open(path).read() == text:
                return
        except OSError:
            pass
        tmp = path + ".tmp%d" % os.getpid()
        with open(tmp, "w") as f:
            f.write(text)
        os.replace(tmp, path)
    put(os.path.join(hd, "go.mod"), gomod)
    put(os.path.join(hd, "go.sum"), open(os.path.join(REPO, "go.sum")).read())
    exe = os.path.join(BUILD, "harness_race" if race else "harness")
    cmd = ["go", "build", "-tags", "verif"] + (["-race"] if race else []) + ["-o", exe, "."]
    rc, o, _ = sh(cmd, cwd=hd, env=GOENV, timeout=900)
    return rc == 0, o


MODEL_PREFIX = ["bash", "-c", 'ulimit -s unlimited 2>/dev/null || ulimit -s 4000000; exec "$@"', "--"]  # deep non-tail recursion on long lists


def run_model(args, inp, timeout=1800):
    return sh(MODEL_PREFIX + [os.path.join(BUILD, "modelrun")] + args, inp=inp, timeout=timeout)


def run_harness(args, inp, timeout=1800, race=False, env=None):
    return sh([os.path.join(BUILD, "harness_race" if race else "harness")] + args, inp=inp, timeout=timeout, env=env)


# ---------------------------------------------------------------- proof obligations
def hygiene():
    bad = []
    for f in _glob.glob(os.path.join(COQ, "**", "*.v"), recursive=True) + [os.path.join(ROOT, "ocaml", "Extract.v")]:
        for i, line in enumerate(open(f, encoding="utf-8", errors="replace"), 1):
            code = re.sub(r"\(\*.*?\*\)", "", line)
            if HYGIENE_RE.search(code):
                bad.append("%s:%d: %s" % (os.path.relpath(f, ROOT), i, line.strip()))
    return bad


@_locked
def props_status(pid):
    """compile props/<pid>.v (its dependencies must be built) and read back what it proves.
    returns dict(obligations, discharged, theorems, axioms, ok, output)"""
    src = os.path.join(COQ, "props", pid + ".v")
    text = open(src).read()
    code = re.sub(r"\(\*.*?\*\)", "", text, flags=re.S)
    theorems = re.findall(r"^\s*(?:Theorem|Corollary)\s+(\w+)", code, flags=re.M)
    rc, o, _ = sh(["coqc", "-Q", "theories", "GR", "-Q", "props", "GRP", "-w", "-all", os.path.join("props", pid + ".v")],
                  cwd=COQ, timeout=1200)
    closed = o.count("Closed under the global context")
    axioms = sorted(set(re.findall(r"^([A-Za-z_][\w.]*)\s*:", o, flags=re.M)) - set(theorems))
    # Print Assumptions lists axioms as "name : type" lines after "Axioms:"
    ax_named = []
    if "Axioms:" in o:
        for blk in o.split("Axioms:")[1:]:
            for line in blk.splitlines():
                m = re.match(r"^([A-Za-z_][\w.]*)\s*$|^([A-Za-z_][\w.]*)\s*:", line)
                if m:
                    ax_named.append(m.group(1) or m.group(2))
    bad_ax = [a for a in ax_named if a not in ALLOWED_AXIOMS and not any(a.endswith("." + b.split(".")[-1]) for b in ALLOWED_AXIOMS)]
    n_pa = len(re.findall(r"Print Assumptions", code))
    ok = (rc == 0) and not bad_ax and n_pa >= len(theorems)
    discharged = len(theorems) if ok else 0
    return dict(obligations=len(theorems), discharged=discharged, theorems=theorems, axioms=sorted(set(ax_named)),
                closed=closed, ok=ok, output=o[-4000:], rc=rc)


# ---------------------------------------------------------------- known findings
def known_findings():
    p = os.path.join(ROOT, "known_findings.json")
    if not os.path.exists(p):
        return []
    return json.load(open(p)).get("findings", [])


# ---------------------------------------------------------------- verdict / evidence
class Check:
    def __init__(self, pid, tier, seed):
        self.pid, self.tier, self.seed = pid, tier, seed
        self.t0 = time.time()
        self.violations = []      # (signature, description, replay-dict, no_input_flag)
        self.known_hits = []
        self.coverage = {}
        self.assumptions = []
        self.notes = []

    def violation(self, signature, what, replay, no_failing_input=False):
        """record a violation; known findings (by signature) are reported but do not fail the check."""
        for kf in known_findings():
            if kf.get("property") == self.pid and kf.get("signature") == signature:
                if signature not in [k[0] for k in self.known_hits]:
                    self.known_hits.append((signature, kf.get("what", what)))
                return
        if len(self.violations) < 50:
            self.violations.append((signature, what, replay, no_failing_input))

    def write_replay(self, signature, what, replay, no_input):
        os.makedirs(os.path.join(ROOT, "replays"), exist_ok=True)
        h = hashlib.sha1((signature + json.dumps(replay, sort_keys=True, default=str)).encode()).hexdigest()[:10]
        path = os.path.join(ROOT, "replays", "%s-%s.json" % (self.pid, h))
        with open(path, "w") as f:
            json.dump(dict(property=self.pid, signature=signature, what=what, no_failing_input_found=no_input,
                           replay=replay, tier=self.tier, seed=self.seed, repo=REPO), f, indent=1, default=str)
        return path

    def finish(self, level="proof"):
        wall = time.time() - self.t0
        ev = dict(property_id=self.pid, tier=self.tier, seed=self.seed, level=level, coverage=self.coverage,
                  assumptions=self.assumptions, wall_s=round(wall, 2), violations=len(self.violations),
                  known_findings=[k[0] for k in self.known_hits], notes=self.notes, repo=REPO)
        os.makedirs(os.path.join(ROOT, "evidence"), exist_ok=True)
        with open(os.path.join(ROOT, "evidence", self.pid + ".json"), "w") as f:
            json.dump(ev, f, indent=1, default=str)
        for sig, what in self.known_hits:
            print("KNOWN-FINDING: property=%s %s" % (self.pid, what))
        seen = set()
        for sig, what, replay, noinp in self.violations:
            if sig in seen:
                continue
            seen.add(sig)
            path = self.write_replay(sig, what, replay, noinp)
            print("VIOLATION property=%s replay=%s %s%s" % (self.pid, path, what.replace("\n", " ")[:300],
                                                            " no-failing-input-found" if noinp else ""))
        sys.stdout.flush()
        if self.violations:
            sys.exit(1)
        print("OK property=%s tier=%s wall=%.1fs" % (self.pid, self.tier, wall))
        sys.exit(0)


TRUSTED_BASE_COMMON = [
    "Coq 8.16.1 kernel (coqc; vm_compute used in reflexive steps; no native_compute)",
    "no axioms declared by the development; Print Assumptions output parsed on every run",
    "the hand-written Gallina model is tied to /repo by differential execution (this run): extraction with ExtrOcamlBasic only (no Extract Constant), OCaml 4.13.1, ocaml/util.ml + main.ml glue, Go harness, python compare",
]


def standard_proof_stage(chk, pid, vo_targets=None):
    """build Coq + model, check hygiene and the property's proof obligations. Fills chk.coverage proof keys.
    A broken obligation is recorded as a pending 'proof-broken' fact; the caller decides how to report it
    after its own search for a failing input."""
    ok, o = build_coq() if vo_targets is None else build_coq_targets(vo_targets)
    broken = None
    if not ok:
        m = re.findall(r'File "([^"]+)", line (\d+)', o)
        broken = "coq build failed: " + (", ".join("%s:%s" % x for x in m[-3:]) or o[-300:])
    bad = hygiene()
    if bad:
        broken = (broken or "") + " hygiene: " + "; ".join(bad[:5])
    st = dict(obligations=0, discharged=0, theorems=[], axioms=[], ok=False, output="")
    if ok:
        st = props_status(pid)
        if not st["ok"]:
            broken = (broken or "") + " proof obligations of props/%s.v not discharged: %s" % (pid, st["output"][-400:])
    coqchk_note = None
    if ok and st["ok"] and chk.tier == "thorough":
        # independent re-check of the compiled property file and everything it depends on, with the axioms it relies on
        rc, co, _ = sh(["coqchk", "-silent", "-o", "-Q", "theories", "GR", "-Q", "props", "GRP", "GRP." + pid], cwd=COQ, timeout=3600)
        axioms_none = re.search(r"\* Axioms:\s*<none>", co) is not None
        unsafe = [k for k in ("type-in-type", "unsafe (co)fixpoints", "positivity is assumed") if re.search(re.escape(k) + r":\s*(?!<none>)\S", co)]
        coqchk_note = "coqchk -o GRP.%s: rc=%d, axioms %s%s" % (pid, rc, "<none>" if axioms_none else "LISTED", (", flags: " + ",".join(unsafe)) if unsafe else "")
        if rc != 0 or not axioms_none or unsafe:
            broken = (broken or "") + " coqchk does not accept props/%s.vo without axioms: %s" % (pid, co[-600:])
    chk.coverage.update(obligations=max(st["obligations"], 1), discharged=st["discharged"],
                        theorems=st["theorems"], axioms_reported=st["axioms"],
                        checker_cmd="make -C coq (coqc 8.16.1, full .vo build) && coqc props/%s.v (Print Assumptions parsed)" % pid,
                        trusted_base=list(TRUSTED_BASE_COMMON))
    if coqchk_note:
        chk.coverage["coqchk"] = coqchk_note
    return broken


# ---------------------------------------------------------------- sharded differential runs
def _run_shard(exe, args, lines, timeout, prefix=None, env=None):
    cmd = (prefix or []) + [exe] + args
    return sh(cmd, inp="\n".join(lines) + "\n", timeout=timeout, env=env)


def run_pair(mode, args, lines, shards=12, timeout=900, harness_prefix=None, race=False, henv=None, model_too=True):
    """run harness and modelrun on the same case lines (sharded over processes).
    Output lines are '<local-idx> <payload>'; returns (impl_payloads, model_payloads, failures)
    where payload lists are aligned with `lines` (None where a process died) and failures is a list of
    (which, shard_lines, rc, output_tail)."""
    from concurrent.futures import ThreadPoolExecutor
    n = len(lines)
    if n == 0:
        return [], [], []
    shards = max(1, min(shards, n))
    bounds = [(i * n // shards, (i + 1) * n // shards) for i in range(shards)]
    hexe = os.path.join(BUILD, "harness_race" if race else "harness")
    mexe = os.path.join(BUILD, "modelrun")
    impl = [None] * n
    model = [None] * n
    failures = []
    def work(which, lo, hi):
        exe = hexe if which == "impl" else mexe
        rc, o, _ = _run_shard(exe, [mode] + args, lines[lo:hi], timeout,
                              prefix=harness_prefix if which == "impl" else MODEL_PREFIX, env=henv if which == "impl" else None)
        return which, lo, hi, rc, o
    with ThreadPoolExecutor(max_workers=16) as ex:
        futs = [ex.submit(work, w, lo, hi) for (lo, hi) in bounds for w in (("impl", "model") if model_too else ("impl",))]
        for fu in futs:
            which, lo, hi, rc, o = fu.result()
            tgt = impl if which == "impl" else model
            got = 0
            for l in o.splitlines():
                sp = l.split(" ", 1)
                if len(sp) == 2 and sp[0].isdigit() and lo + int(sp[0]) < hi:
                    tgt[lo + int(sp[0])] = sp[1]
                    got += 1
            if rc != 0 or got != hi - lo:
                failures.append((which, lo, hi, rc, o[-1500:]))
    return impl, model, failures
