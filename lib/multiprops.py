"""C07 C08 C13 C19 — properties over several connections / the password gate / release, over the connection harness."""
import itertools, json, random, re
import vlib, connlib as L, cmdgen as G
from vlib import Check
from connprops import prep, run_cases, basic_monitors, corr, req_desc, HRES_POOL, HRES_NOERR, any_request, rand_table, has_mapcmd, outcome_cases, replay  # noqa: F401

RB = G.request_bytes

def swapcase(b):
    return bytes((c ^ 0x20) if (65 <= c <= 90 or 97 <= c <= 122) else c for c in b)

# ------------------------------------------------------------------------------------------ C08
def candidates(pw):
    """passwords 'built around' the real one"""
    c = [b"", pw[:1], pw[:-1], pw + b"1", pw + b" ", pw + pw, swapcase(pw), pw + b"\x00", pw + b"\r\n", b"\x00" + pw, pw.upper(), b"wrong", pw]
    c += [pw[:i] for i in range(1, len(pw))]
    # other spellings of the same NUMBER, when the password happens to read as one (a password is compared as bytes)
    try:
        v = int(pw.decode("ascii").strip())
        c += [b"%d" % v, b"+%d" % v, b"0%d" % v, b"%d.0" % v, b" %d" % v]
    except (ValueError, UnicodeDecodeError):
        pass
    try:
        v = float(pw.decode("ascii"))
        if v == int(v):
            c += [b"%d" % int(v)]
    except (ValueError, UnicodeDecodeError, OverflowError):
        pass
    seen, out = set(), []
    for x in c:
        if x not in seen:
            seen.add(x); out.append(x)
    return out

def auth_req(rng, args):
    """AUTH request bytes; an argument given as None is a null bulk"""
    name = G.casing(rng, "AUTH")
    return G.request_with_nulls(name, args)

def auth_expected(pw, args):
    """does this AUTH carry exactly the configured password (under the default user)?  independent oracle"""
    if len(args) == 0 or any(a is None for a in args[:2]):
        return False
    if len(args) == 1:
        return args[0] == pw
    return args[0] == b"" and args[1] == pw

def c08_symbols(rng, pw, reduced=False):
    """(label, request bytes, kind, exact?)  kind: auth | other"""
    syms = []
    cands = candidates(pw)
    if reduced:
        cands = [pw, pw[:-1], pw + b"1", b"", swapcase(pw)]
    for c in cands:
        syms.append(("AUTH %r" % c, lambda c=c: auth_req(rng, [c]), "auth", auth_expected(pw, [c])))
    if not reduced:
        for u in (b"", b"default", b"admin", pw):
            for c in (pw, pw + b"x", b""):
                syms.append(("AUTH %r %r" % (u, c), lambda u=u, c=c: auth_req(rng, [u, c]), "auth", auth_expected(pw, [u, c])))
        syms.append(("AUTH <null>", lambda: auth_req(rng, [None]), "auth", False))
        syms.append(("AUTH %r <null>" % pw, lambda: auth_req(rng, [pw, None]), "auth", False))
        syms.append(("AUTH <null> %r" % pw, lambda: auth_req(rng, [None, pw]), "auth", False))
        syms.append(("AUTH", lambda: auth_req(rng, []), "auth", False))
        syms.append(("AUTH %r extra extra" % pw, lambda: auth_req(rng, [b"", pw, b"extra"]), "auth", True))
    else:
        syms.append(("AUTH <null>", lambda: auth_req(rng, [None]), "auth", False))
        syms.append(("AUTH '' pw", lambda: auth_req(rng, [b"", pw]), "auth", True))
    syms.append(("PING", lambda: RB("PING", []), "other", False))
    syms.append(("GET k", lambda: RB("get", [b"k"]), "other", False))
    syms.append(("SET k v", lambda: RB("SET", [b"k", b"v"]), "other", False))
    # a command name the server has no executor for (what newer clients send first: HELLO 3, CLIENT SETINFO): refused like any
    # other command before AUTH, and leaves nothing behind on the connection
    syms.append(("HELLO 3 (no executor)", lambda: RB("HELLO", [b"3"]), "other", False))
    if not reduced:
        syms.append(("CLIENT SETINFO lib-name x (no executor)", lambda: RB("CLIENT", [b"SETINFO", b"lib-name", b"x"]), "other", False))
    if not reduced:
        syms.append(("ECHO x", lambda: RB("ECHO", [b"x"]), "other", False))
        syms.append(("SELECT 1", lambda: RB("SELECT", [b"1"]), "other", False))
        syms.append(("CONFIG GET requirepass", lambda: RB("CONFIG", [b"GET", b"requirepass"]), "other", False))
        syms.append(("MYAPP a", lambda: RB("myapp", [b"a"]), "other", False))
        syms.append(("STRLEN k", lambda: RB("STRLEN", [b"k"]), "other", False))
        syms.append(("*1 *2 GET k (nested)", lambda: b"*1\r\n" + RB("GET", [b"k"]), "other", False))
    return syms

def interleavings(lens):
    """all merge orders of sequences of the given lengths, as lists of connection indices"""
    if sum(lens) == 0:
        return [[]]
    out = []
    for i, n in enumerate(lens):
        if n > 0:
            rest = list(lens); rest[i] -= 1
            out += [[i] + t for t in interleavings(rest)]
    return out

def monitor_gate(pw, hist_by_conn, obs):
    """model-free: on each connection no handler / application call before an exact AUTH; AUTH replies as the oracle says"""
    for ci, (res, evs) in enumerate(obs.conns):
        hist = hist_by_conn[ci]
        ws = L.writes_of(evs)
        # walk events; replies are in request order
        authed, widx = False, 0
        calls_before = 0
        req_i = 0
        for e in evs:
            if e.startswith("C:") or e.startswith("APP:"):
                if not authed_at(hist, req_i):
                    return "connection %d: %s was invoked while processing request %d (%s) although no AUTH with the exact password had succeeded on this connection" % (
                        ci, e[:80], req_i, hist[req_i][0] if req_i < len(hist) else "?")
            elif e.startswith("W@") or e.startswith("WX@"):
                if req_i < len(hist):
                    label, kind, exact = hist[req_i]
                    payload = L.unhx(e.split(":", 1)[1])
                    if kind == "auth":
                        if exact and payload != b"+OK\r\n":
                            return "connection %d: %s with the exact password was refused (%r)" % (ci, label, payload[:60])
                        if not exact and not payload.startswith(b"-"):
                            return "connection %d: %s was accepted (%r)" % (ci, label, payload[:60])
                    elif not authed_at(hist, req_i) and not payload.startswith(b"-"):
                        return "connection %d: %s was answered %r before authentication" % (ci, label, payload[:60])
                req_i += 1
    return None

def authed_at(hist, i):
    """an exact AUTH occurred among requests 0..i-1 (an AUTH request itself never reaches a handler)"""
    return any(kind == "auth" and exact for (_, kind, exact) in hist[:i])

def run_c08(tier, seed):
    chk = Check("C08", tier, seed)
    broken = prep(chk, "C08")
    rng = random.Random(seed)
    cases = []
    def add(pw, seqs, order, reduced, desc_extra="", tls=None, rule=None, prep=None):
        """seqs: per connection list of symbols; order: list of connection indices"""
        pos = [0] * len(seqs)
        steps, hist = [], [[] for _ in seqs]
        for ci in order:
            label, mk, kind, exact = seqs[ci][pos[ci]]; pos[ci] += 1
            steps.append((ci, "f" + L.hx(mk())))
            hist[ci].append((label, kind, exact))
        for ci in range(len(seqs)):
            steps.append((ci, "e"))
        desc = "pw=%r " % pw + " | ".join("c%d: %s" % (ci, " ; ".join(h[0] for h in hs)) for ci, hs in enumerate(hist)) + " order=" + "".join(map(str, order)) + desc_extra
        if tls:
            desc = "[TLS connection%s] " % (", certificate rule" if rule else "") + desc
        if prep:
            desc = "[authenticators cleared and server restarted before the first connection] " + desc
        # who implements AUTH: the built-in executor; an application's own AUTH executor on top of the public Server.Auth (same
        # argument forms - used where every AUTH request has a non-null first argument, so that the argument errors are the
        # built-in ones); an application's AuthCommandHandler that reports a rejection as an error REPLY with a nil Go error.
        # The gate and the replies are the same in all three (the model knows one AUTH).
        via = (None, "exec", "msg")[len(cases) % 3]
        if via == "exec":
            import re as _re
            for ci2, sq in enumerate(seqs):
                for (label2, mk2, kind2, _x) in sq:
                    if kind2 == "auth" and not _re.match(rb"^\*[2-9]\r\n\$4\r\n[Aa][Uu][Tt][Hh]\r\n\$\d", mk2()):
                        via = "msg"
        if via:
            desc = "[AUTH implemented by %s] " % ("an application executor calling Server.Auth" if via == "exec" else "an application AuthCommandHandler replying errors as messages") + desc
        cases.append(dict(line=L.mkcase(steps, pw=pw, conns=len(seqs), app=[b"myapp"], default="mb(76)", tls=tls, rule=rule, prep=prep, authvia=via), pw=pw, hist=hist, desc=desc[:400]))
    # (passwords that look like numbers are passwords all the same: "0042" is not "42")
    pws = [b"secret", b"pw", b"P\r\nw\x00d!", b"0042"] if tier == "quick" else [b"secret", b"pw", b"P\r\nw\x00d!", b"a", b"correct horse battery staple", b"0042", b"+42", b"-0", b"007", b"1e3", b" 7"]
    for pw in pws:
        full = c08_symbols(rng, pw)
        red = c08_symbols(rng, pw, reduced=True)
        # one connection: every history of length <= 2 over the full alphabet, length 3 over the reduced one
        for s in full:
            add(pw, [[s]], [0], False)
        for a in full:
            for b in full:
                add(pw, [[a, b]], [0, 0], False)
        for a in red:
            for b in red:
                for c in red:
                    add(pw, [[a, b, c]], [0, 0, 0], True)
        # the same gate on a TLS connection (the state `receive` gets after the handshake): without and with a client-certificate
        # rule that the connection satisfies - a verified certificate is not a password
        for tls, rule in (["n"], None), (["c" + L.hx(b"trusted-client")], b"trusted-client"):
            for a in red:
                add(pw, [[a]], [0], True, tls=tls, rule=rule)
                for b in red:
                    add(pw, [[a, b]], [0, 0], True, tls=tls, rule=rule)
        # the application reloads its authenticators (ClearAuthenticators) and restarts: the configured password is still the gate
        for a in red:
            add(pw, [[a]], [0], True, prep="reauth")
            for b in red:
                add(pw, [[a, b]], [0, 0], True, prep="reauth")
        # two connections: histories of length <= 2 each over the reduced alphabet x ALL interleavings
        small = [s for s in red if s[0] in ("AUTH %r" % pw, "AUTH %r" % (pw + b"1"), "AUTH %r" % b"", "GET k", "PING")]
        for h0 in itertools.product(small, repeat=2):
            for h1 in itertools.product(small, repeat=2):
                orders = interleavings([2, 2])
                for order in (orders if tier != "quick" else rng.sample(orders, 2)):
                    add(pw, [list(h0), list(h1)], order, True)
    # three connections, random longer histories
    for _ in range(300 if tier == "quick" else 6000):
        pw = rng.choice(pws)
        full = c08_symbols(rng, pw)
        n = rng.randint(2, 3)
        seqs = [[rng.choice(full) for _ in range(rng.randint(1, 5))] for _ in range(n)]
        order = [ci for ci, sq in enumerate(seqs) for _ in sq]
        rng.shuffle(order)
        add(pw, seqs, order, False)
    good = run_cases(chk, cases)
    validated, distinct = 0, set()
    kinds = {"auth_exact": 0, "auth_wrong": 0, "other": 0}
    for c in good:
        if not basic_monitors(chk, "C08", c):
            continue
        err = monitor_gate(c["pw"], c["hist"], c["iobs"])
        if err:
            chk.violation("gate:" + re.sub(r"[^A-Za-z ]", "", err)[:40], "%s :: %s" % (err, c["desc"]), dict(case=c["line"], desc=c["desc"], impl=c["iobs"].raw[:3000]))
            continue
        if not corr(chk, c):
            continue
        validated += 1
        distinct.add(c["desc"])
        for hs in c["hist"]:
            for (_, kind, exact) in hs:
                kinds["auth_exact" if kind == "auth" and exact else "auth_wrong" if kind == "auth" else "other"] += 1
    # requests that are not command arrays - a bare simple string / bulk string / integer / error line, an inline line, an array
    # whose first element is not a bulk string - on an unauthenticated connection, before and after a refused AUTH: nothing of
    # that is a way around the gate (no handler call, no reply other than an error); then the exact AUTH still opens it
    raw = []
    forms = [b"+PING\r\n", b"+ping\r\n", b"$4\r\nPING\r\n", b"$4\r\nping\r\n", b":1\r\n", b"-ERR x\r\n", b"PING\r\n", b"*1\r\n+PING\r\n", b"*1\r\n*1\r\n$4\r\nPING\r\n",
             b"*2\r\n+GET\r\n$1\r\nk\r\n", b"+GET k\r\n", b"$7\r\nCOMMAND\r\n", b"+AUTH\r\n", b"+QUIT\r\n", b"$4\r\nECHO\r\n", b"*1\r\n:1\r\n"]
    for fr in forms:
        for pre in (b"", G.request_bytes("AUTH", [b"wrong"])):
            steps = ([(0, "f" + L.hx(pre))] if pre else []) + [(0, "f" + L.hx(fr)), (0, "f" + L.hx(G.request_bytes("GET", [b"k"]))), (0, "f" + L.hx(G.request_bytes("AUTH", [b"secret"]))),
                                                              (0, "f" + L.hx(G.request_bytes("GET", [b"k"]))), (0, "e")]
            raw.append(dict(line=L.mkcase(steps, pw=b"secret", conns=1, app=[b"myapp"], default="mb(76)"), fr=fr, pre=bool(pre),
                            desc="pw=b'secret' c0: %s%r ; GET k ; AUTH secret ; GET k" % ("AUTH wrong ; " if pre else "", fr)))
    for c in run_cases(chk, raw):
        res, evs = c["iobs"].conns[0]
        calls = [x[4] for x in L.calls_of(evs)]
        ws = [w[1] for w in L.writes_of(evs)]
        # before the exact AUTH: no handler call at all; every reply written before the +OK of AUTH is an error line
        ok_at = next((i for i, w in enumerate(ws) if w == b"+OK\r\n"), None)
        early = ws[:ok_at] if ok_at is not None else ws
        bad = None
        if any(not w.startswith(b"-") for w in early):
            bad = "a reply other than an error was written before any AUTH with the exact password: %r" % [w for w in early if not w.startswith(b"-")][0][:60]
        elif ok_at is not None and len(calls) != 1:
            bad = "handler calls %s (expected exactly the GET after the exact AUTH)" % calls
        elif ok_at is None and calls:
            bad = "handler calls %s although no AUTH succeeded" % calls
        if bad:
            chk.violation("gate-non-array-request", "%s :: %s" % (bad, c["desc"]), dict(case=c["line"], desc=c["desc"], impl=c["iobs"].raw[:3000]))
        elif corr(chk, c):
            validated += 1
    if broken and not chk.violations:
        chk.violation("proof-broken", broken, dict(broken=broken, theorem="GRP.C08"), True)
    chk.coverage.update(
        evaluations=len(cases), distinct_nontrivial=len(distinct), exhaustive=True,
        rule="for each of %d passwords (incl. one with CR LF NUL): on ONE connection every history of length <= 2 over the full alphabet {AUTH x each candidate built around the password "
             "('', every strict prefix, +suffix, doubled, case-swapped, NUL/CRLF variants), two-argument forms with user ''/default/admin/password, null and missing arguments, PING, GET, SET, "
             "ECHO, SELECT, CONFIG GET, an application executor, a derived command, a nested command array} and every history of length 3 over a reduced alphabet; on TWO connections all pairs "
             "of length-2 histories over a reduced alphabet x %s interleavings; random histories on 2-3 connections; model-free oracle: exact-password predicate written in Python; "
             "non-trivial = distinct history" % (len(pws), "ALL" if tier != "quick" else "2 sampled"),
        traces_validated_against_impl=validated, input_distribution=kinds,
        samples=[c["desc"][:200] for c in cases[::max(1, len(cases) // 6)]][:6])
    chk.assumptions = ["the password is the one given to SetRequirePass before Start (the authenticator list Start installs); run-time CONFIG SET requirepass is outside this check's alphabet (DESIGN 4/C08)"]
    chk.finish()

# ------------------------------------------------------------------------------------------ C13
def fold_own(pw, reqs_sent):
    """expected (db, auth) BEFORE each request of one connection, from its own history (independent oracle)"""
    db, auth = 0, pw is None
    out = []
    for name, args in reqs_sent:
        out.append((db, auth))
        u = name.upper()
        if u == "AUTH":
            if auth_expected(pw, args) if pw is not None else (len(args) >= 1 and all(a is not None for a in args[:2])):
                auth = True
        elif u == "SELECT" and auth and len(args) >= 1 and args[0] is not None and re.fullmatch(rb"[+-]?\d+", args[0]) and -2**63 <= int(args[0]) < 2**63:
            db = int(args[0])
    return out

def c13_request(rng, pw):
    r = rng.random()
    if r < 0.3:
        return ("SELECT", [rng.choice([b"0", b"1", b"2", b"7", b"15", b"-1", b"abc", b"", b"9223372036854775807", b"+3", b"007"])])
    if r < 0.5 and r >= 0.45 and pw is not None:
        # changing the configured password at run time says nothing about the OTHER connections' authorization
        return ("CONFIG", [b"SET", b"requirepass", rng.choice([b"newpw", pw, b""])])
    if r < 0.45 and pw is not None:
        if rng.random() < 0.3:      # the two-argument form: its user name must stay with the connection that sent it
            return ("AUTH", rng.choice([[b"alice", b"wrong"], [b"alice", pw], [b"", pw], [b"default", pw], [b"bob", b""]]))
        return ("AUTH", [rng.choice([pw, pw, b"wrong", pw[:-1], b""])])
    if r < 0.75:
        return ("SET", [rng.choice([b"a", b"b", b"c", b"d"]), rng.choice([b"1", b"2", b"xyz"])])
    if r < 0.9:
        return ("GET", [rng.choice([b"a", b"b"])])
    return (rng.choice(["STRLEN", "MGET", "HLEN"]), [b"a"])

def monitor_scoped(pw, sent_by_conn, obs):
    """every handler call of connection i carries db / auth / user data that follow from connection i's OWN history"""
    for ci, (res, evs) in enumerate(obs.conns):
        sent = sent_by_conn[ci]
        exp = fold_own(pw, sent)
        req_i = 0
        ud = {}
        for e in evs:
            if e.startswith("C:"):
                p = e.split(":", 5)
                db, auth, tok, text = int(p[1]), p[2] == "1", p[3], p[5]
                if req_i >= len(exp):
                    return "connection %d: handler call %s after its last request" % (ci, text[:60])
                edb, eauth = exp[req_i]
                if db != edb or auth != eauth:
                    return "connection %d, request %d (%s): the handler saw database %d / authorized %s, the connection's own history gives database %d / authorized %s" % (
                        ci, req_i, req_desc(*sent[req_i]), db, auth, edb, eauth)
                want = "-" if not ud else ",".join(sorted("%s=%s" % kv for kv in ud.items()))
                if tok != want:
                    return "connection %d, request %d (%s): the handler saw per-connection user data {%s}, the connection's own earlier calls stored {%s}" % (
                        ci, req_i, req_desc(*sent[req_i]), tok, want)
                m = re.match(r"Set\(([0-9a-f-]+),", text)
                if m:
                    ud["ud" + m.group(1)] = L.hx(text[3:].encode())[:8]
            elif e.startswith("W@") or e.startswith("WX@"):
                req_i += 1
    return None

def run_c13(tier, seed):
    chk = Check("C13", tier, seed)
    broken = prep(chk, "C13")
    race = True
    ok, o = vlib.build_harness(race=True)
    if not ok:
        chk.notes.append("race build failed: " + o[-200:]); race = False
    rng = random.Random(seed)
    cases = []
    def add(pw, sent, order, par, seq_reuse=False, desc=""):
        pos = [0] * len(sent)
        steps = []
        for ci in order:
            nm, a = sent[ci][pos[ci]]; pos[ci] += 1
            steps.append((ci, "f" + L.hx(G.request_with_nulls(nm, a))))
            if seq_reuse and pos[ci] == len(sent[ci]):
                steps.append((ci, "e"))
        if not seq_reuse:
            for ci in range(len(sent)):
                steps.append((ci, "e"))
        # who implements AUTH (see C08): built-in / application executor on Server.Auth / application AuthCommandHandler that rejects
        # with an error reply and a nil Go error; the connection's authorization is the same in all three
        via = None
        if pw is not None:
            via = (None, "msg", "exec")[len(cases) % 3]
            if via == "exec" and any(nm.upper() == "AUTH" and (not a or a[0] is None) for sq in sent for nm, a in sq if isinstance(nm, str)):
                via = "msg"
            if via:
                desc = "[AUTH via %s] " % ("application executor" if via == "exec" else "application AuthCommandHandler (error replies)") + desc
        line = L.mkcase(steps, pw=pw, conns=len(sent), default="mb(76)", trace=False, authvia=via)
        if par:
            line = "par=1 " + line
        cases.append(dict(line=line, pw=pw, sent=sent, par=par,
                          desc=("pw " if pw else "") + desc + " | ".join("c%d: %s" % (ci, " ; ".join(req_desc(n, a) for n, a in sq)) for ci, sq in enumerate(sent))[:300]))
    # systematic two-connection orderings: SELECT on one connection between the other's commands, every interleaving
    for pw in (None, b"secret"):
        base0 = [("SELECT", [b"3"]), ("SET", [b"a", b"1"]), ("GET", [b"a"])]
        base1 = [("GET", [b"a"]), ("SELECT", [b"5"]), ("SET", [b"b", b"2"])]
        if pw:
            base0 = [("AUTH", [pw])] + base0[:2]
            base1 = [("GET", [b"a"]), ("AUTH", [b"wrong"]), ("SELECT", [b"5"])]
        for order in interleavings([3, 3]):
            add(pw, [base0, base1], order, False, desc="[systematic] ")
        if pw:
            # the password split into a user name and a password (every split): refused, also after ANOTHER connection has
            # authenticated with the exact password (what one connection proved is not a credential for the next)
            for k_ in range(0, len(pw) + 1):
                s0 = [("AUTH", [pw]), ("GET", [b"a"])]
                s1 = [("AUTH", [pw[:k_], pw[k_:]]) if k_ else ("AUTH", [b"", b""]), ("GET", [b"a"]), ("SET", [b"b", b"1"])]
                add(pw, [s0, s1], [0, 0, 1, 1, 1], False, desc="[split password after another connection's AUTH] ")
            # a user name presented on one connection (refused there) must not colour the other connection's AUTH <password>
            u0 = [("AUTH", [b"alice", b"wrong"]), ("GET", [b"a"]), ("AUTH", [b"alice", pw])]
            u1 = [("AUTH", [pw]), ("SELECT", [b"2"]), ("SET", [b"b", b"2"])]
            for order in interleavings([3, 3]):
                add(pw, [u0, u1], order, False, desc="[systematic user] ")
            # CONFIG SET requirepass on one connection: an unauthenticated connection stays out, an authenticated one stays in
            a0 = [("AUTH", [pw]), ("CONFIG", [b"SET", b"requirepass", b"newpw"]), ("GET", [b"a"])]
            for other in ([("GET", [b"a"]), ("SET", [b"b", b"1"]), ("GET", [b"b"])], [("AUTH", [pw]), ("SELECT", [b"5"]), ("SET", [b"b", b"2"])]):
                for order in interleavings([3, 3]):
                    add(pw, [a0, other], order, False, desc="[systematic config] ")
    # a TLS connection (the state `receive` gets after the handshake) starts at the same defaults as a plain one
    for _ in range(80 if tier == "quick" else 1500):
        pw = rng.choice([None, b"secret", b"secret"])
        sent = [[c13_request(rng, pw) for _ in range(rng.randint(1, 6))]]
        tls = rng.choice([["n"], ["c" + L.hx(b"some-client")]])
        steps = [(0, "f" + L.hx(G.request_with_nulls(nm, a))) for nm, a in sent[0]] + [(0, "e")]
        cases.append(dict(line=L.mkcase(steps, pw=pw, conns=1, default="mb(76)", trace=False, tls=tls), pw=pw, sent=sent, par=False,
                          desc=("pw " if pw else "") + "[TLS connection] c0: " + " ; ".join(req_desc(n, a) for n, a in sent[0])[:300]))
    # an AUTH that is REFUSED changes nothing: on a server without a password (every connection is authorized from the start) whose
    # authenticators include a certificate rule, a plain connection's AUTH is refused by that rule without an error value - the
    # connection stays authorized.  (The oracle here is direct: every later request reaches the handler as authorized.)
    for k in range(40 if tier == "quick" else 600):
        hist = [c13_request(rng, None) for _ in range(rng.randint(1, 3))] + [("AUTH", rng.choice([[b"x"], [b"alice", b"x"], [b""], [b"secret"]]))] + \
               [c13_request(rng, None) for _ in range(rng.randint(1, 3))]
        if k % 3 == 0:
            hist += [("AUTH", [b"y"]), ("GET", [b"a"])]
        steps = [(0, "f" + L.hx(G.request_with_nulls(nm, a))) for nm, a in hist] + [(0, "e")]
        cases.append(dict(line=L.mkcase(steps, pw=None, conns=1, default="mb(76)", trace=False, rule=b"trusted-client"), pw=None, sent=[hist], par=False, refused_auth=True,
                          desc="[plain connection, certificate rule, no password] c0: " + " ; ".join(req_desc(n, a) for n, a in hist)[:300]))
    # sequential reuse: a connection ends, the next one starts afterwards and must see the defaults (db 0, no user data)
    for _ in range(60 if tier == "quick" else 600):
        pw = rng.choice([None, None, b"secret"])
        n = rng.randint(2, 6)
        sent = [[c13_request(rng, pw) for _ in range(rng.randint(2, 6))] for _ in range(n)]
        order = [ci for ci, sq in enumerate(sent) for _ in sq]
        add(pw, sent, order, False, seq_reuse=True, desc="[sequential reuse] ")
    # 2..8 connections, random lock-step interleavings and free (parallel) interleavings
    nrand = 250 if tier == "quick" else 4000
    for k in range(nrand):
        pw = rng.choice([None, None, b"secret"])
        n = rng.randint(2, 8)
        sent = [[c13_request(rng, pw) for _ in range(rng.randint(1, 8))] for _ in range(n)]
        order = [ci for ci, sq in enumerate(sent) for _ in sq]
        rng.shuffle(order)
        add(pw, sent, order, par=(k % 2 == 0), desc="[parallel] " if k % 2 == 0 else "[lock-step] ")
    lines = [c["line"] for c in cases]
    impl, model, failures = vlib.run_pair("conn", [], lines, shards=12, timeout=900, race=race,
                                          henv=dict(__import__("os").environ, GORACE="halt_on_error=0 exitcode=0 log_path=/dev/null") if False else None)
    races = []
    for which, lo, hi, rc, tail in failures:
        if which == "impl" and "DATA RACE" in tail:
            races.append(tail)
        elif which == "model":
            chk.violation("model-run-failure", "modelrun failed rc=%s: %s" % (rc, tail[-300:]), dict(stage="model"), True)
        else:
            chk.violation("harness-failure", "harness shard failed rc=%s: %s" % (rc, tail[-400:]), dict(stage="run", output=tail), True)
    validated, distinct, npar = 0, set(), 0
    for c, a, m in zip(cases, impl, model):
        if a is None or m is None:
            continue
        c["iobs"], c["mobs"] = L.Obs(a), L.Obs(m)
        if not basic_monitors(chk, "C13", c):
            continue
        if c.get("refused_auth"):
            err = None
            for e in c["iobs"].conns[0][1]:
                if e.startswith("C:") and e.split(":", 5)[2] != "1":
                    err = "connection 0: after a refused AUTH the handler saw the connection as NOT authorized (%s) although the server requires no password" % e.split(":", 5)[5][:60]
                    break
                if e.startswith("W@") and b"not auth" in bytes.fromhex(e.split(":", 1)[1]).lower():
                    err = "connection 0: a request was refused as unauthorized after a refused AUTH although the server requires no password"
                    break
        else:
            err = monitor_scoped(c["pw"], c["sent"], c["iobs"])
        if err:
            chk.violation("scope:" + re.sub(r"[^A-Za-z ]", "", err)[:50], "%s :: %s" % (err, c["desc"]), dict(case=c["line"], desc=c["desc"], impl=c["iobs"].raw[:3000]))
            continue
        if not corr(chk, c):
            continue
        validated += 1
        npar += 1 if c["par"] else 0
        distinct.add(c["desc"])
    # real sockets: clients that connect at the SAME moment (the accept loop hands each socket to its own goroutine): each selects
    # its own database and must see it, and one connection identity, on all of its later requests
    import lifeprops
    brows, bo = lifeprops.run_mode(chk, "burst", ["12" if tier == "quick" else "100", "6"], timeout=300)
    for r in brows:
        if r.get("problems"):
            chk.violation("simultaneous-connects", "%d clients connecting at the same moment, each: SELECT <own db> ; 3 x what does the handler see (round %d): %s" %
                          (r.get("clients", 0), r.get("round", 0), " ; ".join(r["problems"])[:500]), dict(row=r))
        elif not r.get("error"):
            validated += 1
    chk.coverage["simultaneous_connect_rounds"] = len(brows)
    if races and not chk.violations:
        chk.violation("data-race", "the race detector reported a data race while connections were served concurrently: " + races[0][-600:].replace("\n", " | "),
                      dict(report=races[0]))
    if broken and not chk.violations:
        chk.violation("proof-broken", broken, dict(broken=broken, theorem="GRP.C13"), True)
    chk.coverage.update(
        evaluations=len(cases), distinct_nontrivial=len(distinct),
        rule="2..8 scripted connections served by one server%s: all %d interleavings of two systematic 3-request histories (SELECT / AUTH / data), with and without password; sequential "
             "reuse (a connection ends before the next is accepted); random histories of SELECT (valid, invalid, boundary numerals), AUTH (right / wrong), SET, GET, derived commands in "
             "random lock-step and in free parallel interleavings; every handler call is checked against the connection's OWN history (database, authorization, per-connection user data "
             "written by the handler double on Set) by an oracle written in Python, and against the model; non-trivial = distinct case" % (" (race detector on)" if race else "", len(interleavings([3, 3]))),
        traces_validated_against_impl=validated, input_distribution=dict(parallel_cases=npar, race_detector=race),
        samples=[c["desc"][:200] for c in cases[::max(1, len(cases) // 5)]][:5])
    chk.finish()

# ------------------------------------------------------------------------------------------ C19 (loop half; churn half in lifecycle.py)
def run_c19_conn(chk, rng, tier):
    cases = outcome_cases(rng, 1200 if tier == "quick" else 12000, tier)
    # server Stop while a reply is waiting for a client that has stopped reading (and while idle / mid-request): Stop returns,
    # the socket is closed, the registry is empty
    bigv = bytes((i * 7 + 1) % 251 for i in range(5000))
    for cap in (0, 10, 4000):
        for pre in ([("GET", [b"bigk"])], [("GET", [b"bigk"]), ("PING", []), ("GET", [b"bigk"])]):
            # 'f' returns when the server waits: here, inside the write of the first large reply
            steps = [(0, "s%d" % cap), (0, "f" + L.hx(b"".join(G.request_bytes(n_, a_) for n_, a_ in pre))), (0, "S")]
            cases.append(dict(line=L.mkcase(steps, tbl={"Get:" + L.hx(b"bigk"): "mb(" + L.hx(bigv) + ")"}, default="ms(4f4b)"), endk="stop-while-write-blocked", nocorr=True,
                              desc="client stops reading (%d bytes of buffer left), sends %s, then the server is stopped [end: Stop]" % (cap, " ; ".join(n_ for n_, _ in pre))))
    for data in (b"", G.request_bytes("PING", []), G.request_bytes("PING", []) + b"*2\r\n$3\r\nGET"):
        steps = ([(0, "f" + L.hx(data))] if data else [(0, "f" + L.hx(G.request_bytes("ECHO", [b"x"])))]) + [(0, "S")]
        cases.append(dict(line=L.mkcase(steps, default="ms(4f4b)"), endk="stop-idle", nocorr=True, desc="connection idle or inside a request, then the server is stopped [end: Stop]"))
    good = run_cases(chk, cases)
    validated, ends = 0, {}
    for c in good:
        if not basic_monitors(chk, "C19", c):
            continue
        res, evs = c["iobs"].conns[0]
        err = L.monitor_release(res, evs, c["iobs"].final)
        if err:
            chk.violation("not-released:" + c["endk"], "%s :: %s" % (err, c["desc"]), dict(case=c["line"], desc=c["desc"]))
            continue
        if evs.count("CLOSE") != 1:
            chk.violation("close-count", "the socket was closed %d times :: %s" % (evs.count("CLOSE"), c["desc"]), dict(case=c["line"], desc=c["desc"]))
            continue
        if not c.get("nocorr") and not corr(chk, c):          # after Stop the model (which has no Stop) and the server legitimately differ
            continue
        validated += 1
        ends[c["endk"]] = ends.get(c["endk"], 0) + 1
    return len(cases), validated, ends, [c["desc"][:160] for c in cases[:3]]

# ------------------------------------------------------------------------------------------ C07
BIG = [b"9223372036854775807", b"-9223372036854775808", b"9223372036854775806", b"2147483648", b"-2147483649", b"4294967296"]
IDX = [b"0", b"1", b"-1", b"5", b"-5", b"2", b"-2"] + BIG
CNT = [b"0", b"1", b"-1", b"2", b"3", b"100"] + BIG

def c07_boundary_requests(rng):
    """requests with boundary arguments against keys of every type (and missing keys); the setup populates the keys"""
    setup = [("SET", [b"s", b"hello"]), ("SET", [b"e", b""]), ("SET", [b"n", b"9223372036854775807"]), ("SET", [b"m", b"-9223372036854775808"]),
             ("RPUSH", [b"l", b"a", b"b", b"c"]), ("SADD", [b"st", b"x", b"y"]), ("HSET", [b"h", b"f", b"v"]), ("HSET", [b"h", b"", b""]),
             ("ZADD", [b"z", b"1", b"one", b"2", b"two", b"3", b"three"]), ("ZADD", [b"z1", b"-inf", b"lo", b"+inf", b"hi", b"0", b""])]
    reqs = []
    for k in (b"s", b"e", b"missing", b"l"):
        for a in IDX:
            for b in (b"0", b"-1", b"2", BIG[0], BIG[1]):
                reqs.append(("GETRANGE", [k, a, b]))
        reqs += [("SUBSTR", [k, a, b"1"]) for a in IDX] + [("STRLEN", [k]), ("APPEND", [k, b""]), ("GETSET", [k, b""])]
    for k in (b"n", b"m", b"s", b"missing", b"e"):
        reqs += [("INCR", [k]), ("DECR", [k])] + [("INCRBY", [k, d]) for d in IDX] + [("DECRBY", [k, d]) for d in IDX]
    for k in (b"l", b"missing", b"s"):
        for a in IDX:
            for b in (b"0", b"-1", b"1", BIG[0], BIG[1]):
                reqs.append(("LRANGE", [k, a, b]))
        reqs += [("LINDEX", [k, a]) for a in IDX] + [("LPOP", [k, c]) for c in CNT] + [("RPOP", [k, c]) for c in CNT] + [("LLEN", [k]), ("LPUSHX", [k, b""]), ("RPUSH", [k, b"", b""])]
    for k in (b"z", b"z1", b"missing", b"s"):
        for a in IDX:
            for b in (b"0", b"-1", b"1", BIG[0], BIG[1]):
                for extra in ([], [b"WITHSCORES"], [b"REV"]):
                    reqs.append(("ZRANGE", [k, a, b] + extra))
                reqs.append(("ZREVRANGE", [k, a, b]))
                reqs.append(("ZREVRANGE", [k, a, b, b"WITHSCORES"]))
        for off in (b"0", b"5", b"-1", b"2", b"1", BIG[0], BIG[1]):
            for cnt in (b"0", b"2", b"-1", b"1", BIG[0], BIG[1], BIG[2], b"4611686018427387904", b"4611686018427387903"):
                reqs.append(("ZRANGEBYSCORE", [k, b"-inf", b"+inf", b"LIMIT", off, cnt]))
                reqs.append(("ZRANGEBYSCORE", [k, b"(1", b"3", b"WITHSCORES", b"LIMIT", off, cnt]))
                reqs.append(("ZREVRANGEBYSCORE", [k, b"+inf", b"-inf", b"LIMIT", off, cnt]))
                reqs.append(("ZREVRANGEBYSCORE", [k, b"+inf", b"-inf", b"WITHSCORES", b"LIMIT", off, cnt]))
                reqs.append(("ZREVRANGEBYSCORE", [k, b"(3", b"1", b"LIMIT", off, cnt, b"WITHSCORES"]))
                reqs.append(("ZRANGE", [k, b"0", b"10", b"BYSCORE", b"LIMIT", off, cnt]))
                reqs.append(("ZRANGE", [k, b"0", b"-1", b"LIMIT", off, cnt]))
        reqs += [("ZRANGEBYSCORE", [k, b"5", b"1"]), ("ZRANGEBYSCORE", [k, b"(1", b"(1"]), ("ZINCRBY", [k, b"1e308", b"one"]), ("ZINCRBY", [k, b"1e308", b"one"]),
                 ("ZINCRBY", [k, b"-inf", b"hi"]), ("ZSCORE", [k, b""]), ("ZREM", [k, b"", b""]), ("ZCARD", [k]), ("ZADD", [k, b"1e400", b"big"]), ("ZADD", [k, b"-0", b"negzero"])]
    for k in (b"st", b"missing", b"s"):
        reqs += [("SADD", [k, b"", b""]), ("SREM", [k, b"", b"nosuch"]), ("SMEMBERS", [k]), ("SCARD", [k]), ("SISMEMBER", [k, b""])]
    # one element named MORE OFTEN than the container has elements (counts that go negative, capacities computed from them)
    for rep_ in (2, 3, 5, 17):
        reqs += [("SADD", [b"dup", b"c"]), ("SREM", [b"dup"] + [b"c"] * rep_), ("SADD", [b"dup", b"a", b"b"]), ("SREM", [b"dup"] + [b"b"] * rep_ + [b"a"]),
                 ("HSET", [b"duph", b"f", b"v"]), ("HDEL", [b"duph"] + [b"f"] * rep_), ("ZADD", [b"dupz", b"1", b"m"]), ("ZREM", [b"dupz"] + [b"m"] * rep_),
                 ("RPUSH", [b"dupl", b"x"]), ("LPOP", [b"dupl", b"%d" % rep_]), ("SET", [b"dupk", b"v"]), ("DEL", [b"dupk"] * rep_), ("EXISTS", [b"st"] * rep_), ("MGET", [b"s"] * rep_)]
    for k in (b"h", b"missing", b"s"):
        reqs += [("HGET", [k, b""]), ("HDEL", [k, b"", b"f", b"f"]), ("HGETALL", [k]), ("HKEYS", [k]), ("HVALS", [k]), ("HLEN", [k]), ("HSTRLEN", [k, b""]), ("HEXISTS", [k, b""]),
                 ("HMGET", [k, b"", b"f"]), ("HMSET", [k, b"", b""]), ("HSETNX", [k, b"", b"x"])]
    for k in (b"s", b"missing", b"l", b""):
        reqs += [("DEL", [k, k]), ("EXISTS", [k, k, k]), ("TYPE", [k]), ("TTL", [k]), ("RENAME", [k, k]), ("RENAMENX", [k, k]), ("RENAME", [k, b"other"]), ("KEYS", [k + b"*"]),
                 ("EXPIRE", [k, b"-9223372036"]), ("EXPIRE", [k, b"9223372036"]), ("EXPIREAT", [k, b"9223372036854775"]), ("SETEX", [k, b"9223372036", b"v"]),
                 ("SET", [k, b"v", b"PXAT", b"9223372036854775807"]), ("SET", [k, b"v", b"EXAT", b"9223372036854775"]), ("SET", [k, b"v", b"PX", b"9223372036854"])]
    reqs += [("SCAN", [c, b"COUNT", n]) for c in (b"0", b"-1", BIG[0], BIG[1]) for n in (b"0", b"-1", b"1", BIG[0])]
    reqs += [("SCAN", [b"0", b"MATCH", p]) for p in (b"", b"*", b"[", b"\\", b"(((", b"a{1000000}", b"?" * 50)]
    reqs += [("KEYS", [p]) for p in (b"", b"[", b"\\", b"(?i)x", b"*" * 40 + b"x")]
    reqs += [("SELECT", [d]) for d in BIG + [b"-1", b"0"]] + [("MGET", [b"s"] * 50), ("MSETNX", [b"s", b"1", b"new", b"2"]), ("PING", [b""]), ("ECHO", [b""])]
    return setup, reqs

HOSTILE_FRAMES = [b"*0\r\n", b"*-1\r\n", b"*1\r\n$-1\r\n", b"*1\r\n*0\r\n", b"*2\r\n*1\r\n$3\r\nGET\r\n$1\r\nk\r\n", b"*1\r\n:5\r\n", b"$3\r\nGET\r\n", b"+PING\r\n", b":1\r\n", b"-ERR\r\n",
                  b"*1\r\n*1\r\n*1\r\n*1\r\n*1\r\n$4\r\nPING\r\n", b"*3\r\n$3\r\nSET\r\n$-1\r\n$1\r\nv\r\n", b"*1\r\n$0\r\n\r\n", b"*2\r\n$0\r\n\r\n$0\r\n\r\n"]
HOSTILE_ENDS = [b"*4611686018427387904\r\n", b"$9223372036854775807\r\n", b"$10000000000000\r\n", b"*2147483648\r\n$1\r\na\r\n", b"*1\r\n$5\r\nab", b"\x00\x01\x02", b"*abc\r\n", b"$-5\r\nxx",
                b"*1\r\n$4\r\nPINGxx", b"*2\r\n$3\r\nGET\r", b"*9223372036854775807\r\n*9223372036854775807\r\n", b"*1\r\n" * 2000 + b"$4\r\nPING\r\n"]

def run_c07(tier, seed):
    chk = Check("C07", tier, seed)
    broken = prep(chk, "C07")
    rng = random.Random(seed)
    cases = []
    setup, breqs = c07_boundary_requests(rng)
    def witness_steps(tag):
        k = b"wit" + tag
        return [(1, "f" + L.hx(RB("SET", [k, b"v" + tag]))), (1, "f" + L.hx(RB("GET", [k]))), (1, "f" + L.hx(RB("PING", [])))], [b"+OK\r\n", b"$%d\r\nv%s\r\n" % (len(tag) + 1, tag), b"+PONG\r\n"]
    def add(handler, off_steps, desc, end="e", end_after_witness=False, extra_tbl=None):
        w1, e1 = witness_steps(b"1")
        w2, e2 = witness_steps(b"2")
        steps = w1 + off_steps + ([(0, end)] + w2 if not end_after_witness else w2 + [(0, end)]) + [(1, "e")]
        tbl = None
        if handler != "example":
            tbl = dict(extra_tbl or {})
            tbl.update({"Set:" + L.hx(b"wit1"): "ms(4f4b)", "Set:" + L.hx(b"wit2"): "ms(4f4b)", "Get:" + L.hx(b"wit1"): "mb(" + L.hx(b"v1") + ")", "Get:" + L.hx(b"wit2"): "mb(" + L.hx(b"v2") + ")"})
        # float tokens in exponent notation are outside the model's lexical class (strconv.ParseFloat is not modelled): monitors only
        nocorr = any(t in L.unhx(op[1:]) for (_, op) in off_steps if op[0] in "fg" for t in (b"1e308", b"1e400"))
        cases.append(dict(line=L.mkcase(steps, conns=2, tbl=tbl, default=rng.choice(HRES_NOERR) if handler != "example" else None, handler=handler, trace=True),
                          handler=handler, expect=e1 + e2, nocorr=nocorr, desc="[%s] %s" % (handler, desc)))
    # (a) example store and framework double: boundary arguments, in chunks of requests on a populated store
    chunk = 12
    for handler in ("example", "double"):
        for i in range(0, len(breqs), chunk):
            part = breqs[i:i + chunk]
            off = [(0, "f" + L.hx(b"".join(RB(n, a) for n, a in setup)))] + [(0, "f" + L.hx(RB(n, a))) for n, a in part]
            add(handler, off, " ; ".join(req_desc(n, a) for n, a in part)[:300], end=rng.choice(["e", "r", "x"]))
    # (b) hostile frames and ends, random C03-style pipelines cut at random points
    for handler in ("example", "double"):
        for fr in HOSTILE_FRAMES:
            add(handler, [(0, "f" + L.hx(fr + RB("PING", [])))], "frame %r then PING" % fr[:40])
        for fr in HOSTILE_ENDS:
            add(handler, [(0, "f" + L.hx(RB("PING", []) + fr))], "PING then %r" % fr[:40], end=rng.choice(["e", "r"]))
        # legal requests with very many elements (beyond any pre-allocation cap of the parser), flat and nested
        import thresholds as T
        for nel in T.extend([1023, 1024, 1025, 1026, 1027, 1100, 2048, 2049, 3000], 3, 20000, limit=6):
            for name in ("RPUSH", "DEL", "MSET"):
                args = [b"e%d" % i for i in range(nel - 1)]
                if name == "MSET" and len(args) % 2:
                    args = args[:-1]
                add(handler, [(0, "f" + L.hx(RB(name, args) + RB("PING", [])))], "%s with %d elements then PING" % (name, len(args) + 1))
            add(handler, [(0, "f" + L.hx(b"*2\r\n" + RB("DEL", [b"e%d" % i for i in range(nel - 1)]) + b"$1\r\nx\r\n" + RB("PING", [])))], "nested array of %d elements" % nel)
        for _ in range(150 if tier == "quick" else 3000):
            reqs = [any_request(rng) for _ in range(rng.randint(1, 6))]
            data = b"".join(RB(n if isinstance(n, str) else n.decode("latin1"), a) for n, a in reqs)
            if rng.random() < 0.5 and len(data) > 2:
                data = data[:rng.randrange(1, len(data))]
            add(handler, [(0, "g" + L.hx(data[:len(data) // 2])), (0, "f" + L.hx(data[len(data) // 2:]))] if len(data) > 3 else [(0, "f" + L.hx(data))],
                "random pipeline %r" % data[:80], end=rng.choice(["e", "r", "x"]))
    # every database number a client can select (the default 16 of a stock Redis and beyond, negative, huge), then commands of every
    # type on it: the store is reached with whatever number the framework recorded
    for handler in ("example", "double"):
        for dbn in list(range(0, 20)) + [31, 32, 63, 64, 255, 256, 1023, 1024, 65535, 65536, -1, -16, 2**31 - 1, 2**31, 2**63 - 1]:
            off = [(0, "f" + L.hx(RB("SELECT", [b"%d" % dbn]))), (0, "f" + L.hx(RB("SET", [b"k", b"v"]) + RB("GET", [b"k"]) + RB("RPUSH", [b"l", b"a"]) + RB("HSET", [b"h", b"f", b"v"]) +
                                                                                  RB("ZADD", [b"z", b"1", b"m"]) + RB("SADD", [b"s", b"m"]) + RB("KEYS", [b"*"]) + RB("DEL", [b"k", b"l"]) + RB("SELECT", [b"0"]) + RB("GET", [b"k"])))]
            add(handler, off, "SELECT %d then commands of every type" % dbn)
    # (c) a client that sends requests with large replies and never reads them: its own replies may wait, nobody else's may
    bigv = bytes((i * 11 + 7) % 251 for i in range(4000))
    for handler in ("example", "double"):
        for cap in (0, 16, 3000):
            for ngets in (1, 3):
                off = [(0, "f" + L.hx(RB("SET", [b"bigk", bigv]))), (0, "s%d" % cap), (0, "g" + L.hx(RB("GET", [b"bigk"]) * ngets + RB("PING", [])))]
                add(handler, off, "offender stores 4000 bytes, stops reading (%d bytes of buffer left) and pipelines %d x GET + PING; the witness works meanwhile" % (cap, ngets),
                    end=rng.choice(["x", "r"]), end_after_witness=True,
                    extra_tbl={"Set:" + L.hx(b"bigk"): "ms(4f4b)", "Get:" + L.hx(b"bigk"): "mb(" + L.hx(bigv) + ")"})
    # (c') the WITNESS is the one in the middle of receiving a large reply (it reads slowly) while the other connection has requests
    # with large, different replies served: what the witness finally reads is its own value, byte for byte
    witv = bytes([119]) * 3000 + bytes((i * 7 + 1) % 251 for i in range(5000))
    pooled = []
    for handler in ("example", "double"):
        for cap in (1, 100, 4096):
            for noff in (2, 6):
                offv = [bytes([65 + j]) * (7000 + 111 * j) for j in range(noff)]
                steps = [(1, "f" + L.hx(RB("SET", [b"witbig", witv])))] + [(0, "f" + L.hx(RB("SET", [b"off%d" % j, v]))) for j, v in enumerate(offv)]
                steps += [(1, "s%d" % cap), (1, "g" + L.hx(RB("GET", [b"witbig"])))]
                steps += [(0, "f" + L.hx(RB("GET", [b"off%d" % j]))) for j in range(noff)] + [(0, "f" + L.hx(RB("MGET", [b"off0", b"nokey"])))]
                steps += [(1, "u"), (1, "f" + L.hx(RB("PING", []))), (0, "e"), (1, "e")]
                tbl = None
                if handler != "example":
                    tbl = {"Set:" + L.hx(b"witbig"): "ms(4f4b)", "Get:" + L.hx(b"witbig"): "mb(" + L.hx(witv) + ")"}
                    for j, v in enumerate(offv):
                        tbl["Set:" + L.hx(b"off%d" % j)] = "ms(4f4b)"; tbl["Get:" + L.hx(b"off%d" % j)] = "mb(" + L.hx(v) + ")"
                pooled.append(dict(line=L.mkcase(steps, conns=2, tbl=tbl, default="mn" if handler != "example" else None, handler=handler, trace=False), handler=handler, nocorr=True,
                                   expect=[b"+OK\r\n", b"$%d\r\n" % len(witv) + witv + b"\r\n", b"+PONG\r\n"],
                                   desc="[%s] the witness is %d bytes into receiving an 8000-byte reply when the other connection gets %d replies of 7-8 KB; then the witness reads on" % (handler, cap, noff)))
    import copy, os
    pooled_one_p = [dict(copy.deepcopy(c), desc=c["desc"] + " [GOMAXPROCS=1]") for c in pooled]
    lines = [c["line"] for c in cases]
    good = run_cases(chk, cases, shards=14) + run_cases(chk, pooled, shards=4) + run_cases(chk, pooled_one_p, shards=2, henv=dict(os.environ, GOMAXPROCS="1"))
    validated, distinct, by = 0, set(), {"example": 0, "double": 0}
    for c in good:
        o = c["iobs"]
        bad = None
        for ci, (res, evs) in enumerate(o.conns):
            if res.startswith("PANIC"):
                bad = ("panic", "a panic escaped the connection loop of connection %d (%s): %s" % (ci, "offender" if ci == 0 else "witness", res))
            elif res == "HANG" or "!HANG" in evs:
                bad = ("hang", "connection %d (%s) neither answers nor reads" % (ci, "offender" if ci == 0 else "witness"))
        if bad:
            chk.violation(bad[0] + ":" + c["handler"], "%s :: %s" % (bad[1], c["desc"]), dict(case=c["line"], desc=c["desc"], impl=o.raw[:3000]))
            continue
        wres, wevs = o.conns[1]
        got = [w[1] for w in L.writes_of(wevs)]
        if got != c["expect"]:
            chk.violation("witness:" + c["handler"], "the witness connection received %s instead of %s :: %s" % (got, c["expect"], c["desc"]), dict(case=c["line"], desc=c["desc"], impl=o.raw[:3000]))
            continue
        err = L.monitor_frames(o.conns[0][1])
        if err:
            chk.violation("offender-frame:" + c["handler"], "%s :: %s" % (err, c["desc"]), dict(case=c["line"], desc=c["desc"]))
            continue
        if c["handler"] != "example" and not c["nocorr"] and c["mobs"] is not None and not corr(chk, c):
            continue
        validated += 1
        by[c["handler"]] += 1
        distinct.add(c["desc"])
    # (d) real sockets: a long-lived witness connection while two connections loop CONFIG SET and twelve goroutines connect / PING / close
    import lifeprops
    wrows, wo = lifeprops.run_mode(chk, "witness", ["3" if tier == "quick" else "20"], timeout=120)
    for r in wrows:
        if r.get("first_failure"):
            chk.violation("witness-under-churn", "while other connections ran CONFIG SET in a loop and clients connected and disconnected, a long-lived connection stopped getting correct "
                          "replies: %s (after %d rounds, %d CONFIG SETs, %d short connections)" % (r["first_failure"][:200], r.get("witness_rounds", 0), r.get("config_sets", 0), r.get("churn", 0)), dict(row=r))
        elif not r.get("stop_returned", True):
            chk.violation("stop-after-churn", "Stop did not return after the CONFIG SET / connection churn workload", dict(row=r))
        else:
            validated += 1
        chk.coverage["witness_under_churn"] = dict(rounds=r.get("witness_rounds"), config_sets=r.get("config_sets"), short_connections=r.get("churn"))
    if not wrows and not chk.violations:
        chk.violation("incomplete", "the witness run produced no result: %s" % wo[-300:], dict(output=wo[-2000:]), True)
    # real sockets: clients that connect at the SAME moment are other clients to each other - every one is served on its own socket
    # with its own replies (a client that arrives while the previous one is being handed to its goroutine must not take its place)
    import lifeprops
    brows, bo = lifeprops.run_mode(chk, "burst", ["6" if tier == "quick" else "60", "12"], timeout=300)
    for r in brows:
        if r.get("problems"):
            chk.violation("simultaneous-clients", "%d plain and TLS clients connecting at the same moment (round %d): %s" % (r.get("clients", 0), r.get("round", 0), " ; ".join(r["problems"])[:500]), dict(row=r))
    chk.coverage["simultaneous_client_rounds"] = len(brows)
    if broken and not chk.violations:
        chk.violation("proof-broken", broken, dict(broken=broken, theorem="GRP.C07"), True)
    chk.coverage.update(
        evaluations=len(cases), distinct_nontrivial=len(distinct),
        rule="an offending connection and a witness connection on one server, with the bundled example store and with the framework's handler double: %d requests with boundary arguments "
             "(indices / counts / LIMIT operands 0, +-1, +-5, int64 and int32 limits; empty keys, values, members; inverted and out-of-range ranges; extreme floats; out-of-range expiries) "
             "against populated keys of every type and missing keys, in chunks of %d; %d hostile frames (empty / null / nested / non-array requests) and %d hostile stream ends (overflowing "
             "declared sizes, garbage, deep nesting, truncation); random pipelines cut at random offsets; the offender ends by EOF, reset or write failure; the witness must receive exactly "
             "+OK / its value / +PONG before and after; the harness process must survive (a dead shard is attributed to its case); non-trivial = distinct case" % (len(breqs), chunk, len(HOSTILE_FRAMES), len(HOSTILE_ENDS)),
        traces_validated_against_impl=validated, input_distribution=by,
        samples=[c["desc"][:200] for c in cases[::max(1, len(cases) // 5)]][:5])
    chk.assumptions = ["the handler returns (does not panic, does not block) — for the double by construction, for the example store checked here",
                       "stack exhaustion from > 10^5 nesting levels and memory exhaustion by sheer volume are resource limits outside the claim"]
    chk.finish()
