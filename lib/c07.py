from multiprops import run_c07 as run, replay
