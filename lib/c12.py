from storeprops import run_c12 as run, replay
