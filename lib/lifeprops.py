"""C09 C15 C19 — real-socket checks: TLS client-certificate gate, Start/Stop/Restart, release under churn."""
import itertools, json, os, random
import vlib, connlib as L
from vlib import Check
from connprops import prep, replay  # noqa: F401

def run_mode(chk, mode, args, inp="", timeout=900, race=False):
    rc, o, _ = vlib.run_harness([mode] + args, inp, timeout=timeout, race=race)
    rows = []
    for l in o.splitlines():
        l = l.strip()
        if l.startswith("{"):
            try:
                rows.append(json.loads(l))
            except Exception:
                pass
    if rc != 0:
        chk.violation("harness-failure:" + mode, "the %s run ended with status %s: %s" % (mode, rc, o[-800:].replace("\n", " | ")), dict(stage=mode, output=o[-4000:]),
                      no_failing_input="panic" not in o and "DATA RACE" not in o and "fatal error" not in o)
    return rows, o

# ------------------------------------------------------------------------------------------ idle connections (C03, C15)
class IdleProbe:
    """clients on the plain and the TLS port exchange commands, stay silent for a while and go on (harness mode `idle`); started in
    the background at the beginning of a check and joined at its end, so the pause costs no wall time beyond the check's own"""
    def __init__(self, chk, tier):
        import thresholds as T, threading
        self.chk, self.times, self.rows, self.out = chk, T.idle_times(tier), [], ""
        self.th = None
        if self.times:
            self.th = threading.Thread(target=self._run, daemon=True)
            self.th.start()
    def _run(self):
        from concurrent.futures import ThreadPoolExecutor
        def one(t):
            rc, o, _ = vlib.run_harness(["idle", str(t)], "", timeout=t + 120)
            return t, rc, o
        with ThreadPoolExecutor(max_workers=4) as ex:
            for t, rc, o in ex.map(one, self.times):
                got = 0
                for l in o.splitlines():
                    if l.startswith("{"):
                        try:
                            self.rows.append(json.loads(l)); got += 1
                        except Exception:
                            pass
                if got < 3:
                    self.rows.append(dict(error="the idle run (%d s) produced %d of 3 rows (status %s): %s" % (t, got, rc, o[-400:])))
    def join(self, pid):
        if self.th is None:
            return 0
        self.th.join()
        ok = 0
        for r in self.rows:
            if r.get("error"):
                self.chk.violation("idle-run", r["error"], dict(row=r), no_failing_input=True)
            elif not r.get("served_before"):
                self.chk.violation("idle:" + r["conn"], "a %s connection was not served right after connecting: %s" % (r["conn"], r.get("note", "")), dict(row=r))
            elif not r.get("served_after"):
                self.chk.violation("idle:" + r["conn"], "a %s connection that was served, then left idle for %d s, is no longer answered although neither the client nor Stop ended it: %s" % (
                    r["conn"], r["idle_seconds"], r.get("note", "")), dict(row=r, mode="idle", idle_seconds=r["idle_seconds"]))
            else:
                ok += 1
        return ok

# ------------------------------------------------------------------------------------------ C09
CHAINS_OK = {"valid", "valid-under-neutral-intermediate", "wrongname", "intermediate-name",
             "name-uppercase", "name-titlecase", "name-unicode-fold", "name-trailing-space", "name-leading-space", "name-prefix", "name-extended"}     # chain to the configured CA, inside validity
NAME_OK = {"valid", "valid-under-neutral-intermediate"}                                            # ... and the LEAF carries the rule name

def gate_expected(config, cred, fault):
    if fault != "complete":
        return False
    if "+password-changed" in config:
        return False                     # only clients the certificate rule turns away are tried after a password change
    if config.endswith("+rotated-ca"):
        return cred == "new-ca"          # after the client CA was replaced and the server restarted
    return cred in (CHAINS_OK if config == "norule" else NAME_OK)

def run_c09(tier, seed):
    chk = Check("C09", tier, seed)
    broken = prep(chk, "C09")
    # number of failed handshakes in a row before a well-behaved client is tried: beyond every constant of the source that could be a limit
    import thresholds as T
    flood = max([300] + [v + 40 for v in T.new_constants() if v <= 4000])
    rows, o = run_mode(chk, "tlsgate", [str(flood)])
    validated, distinct = 0, set()
    dist = {}
    for r in rows:
        if r.get("error"):
            chk.violation("server-error", "server lifecycle error during the TLS gate enumeration: %s" % r, dict(row=r))
            continue
        key = (r["config"], r["cred"], r["fault"], r["order"])
        want = gate_expected(r["config"], r["cred"], r["fault"])
        desc = "config=%s credential=%s handshake=%s order=%s" % key
        if r["served"] != want or (r["executed_for_client"] > 0) != want:
            what = ("a command was executed for a client that must be refused" if not want else "a client with a valid certificate was not served")
            chk.violation("gate:%s:%s" % (r["config"], r["cred"]), "%s (%s): served=%s executed=%d expected served=%s" % (what, desc, r["served"], r["executed_for_client"], want), dict(row=r))
            continue
        if not r["good_tls_after"] or not r["good_plain_after"]:
            chk.violation("containment:%s:%s" % (r["cred"], r["fault"]), "after %s the %s listener no longer serves a well-behaved client" % (desc, "TLS" if not r["good_tls_after"] else "plain"), dict(row=r))
            continue
        if r["good_tls_ms"] > 2000:
            chk.violation("containment-delay:%s:%s" % (r["cred"], r["fault"]), "after %s a well-behaved TLS client waited %d ms (the failed/stalled handshake blocks others)" % (desc, r["good_tls_ms"]), dict(row=r))
            continue
        validated += 1
        distinct.add(key)
        dist[r["config"]] = dist.get(r["config"], 0) + 1
    if len(rows) < 3 * 9 * 4 * 2 and not chk.violations:
        chk.violation("incomplete", "the enumeration produced %d of %d rows: %s" % (len(rows), 3 * 9 * 4 * 2, o[-500:]), dict(output=o[-3000:]), True)
    if broken and not chk.violations:
        chk.violation("proof-broken", broken, dict(broken=broken, theorem="GRP.C09"), True)
    chk.coverage.update(
        evaluations=len(rows), distinct_nontrivial=len(distinct), exhaustive=True,
        rule="complete enumeration against real crypto/tls over loopback: server configurations {no rule, common-name rule, rule + password} x client credentials {none, plain-text bytes, "
             "self-signed, foreign CA, expired, right CA wrong name, right name only on an intermediate, right CA right name, right name under a neutral intermediate} x handshake "
             "{complete, abort after ClientHello, stall, garbage} x order relative to a well-behaved TLS client {before, after}; per row: handshake result, whether a command (an application "
             "executor recording the peer's leaf name) ran for the client, and whether a valid TLS client and a plain client are served immediately afterwards (while a stalled client is still "
             "connected); expectation from an oracle written in Python; PKI generated at run time with crypto/x509; non-trivial = distinct row",
        traces_validated_against_impl=validated, input_distribution=dist,
        samples=[rows[i] for i in range(0, len(rows), max(1, len(rows) // 4))][:4])
    chk.assumptions = ["X.509 path validation and the TLS handshake are crypto/tls's (an oracle in the model)", "loopback sockets; timeouts of 3 s distinguish 'served' from 'blocked'"]
    chk.finish()

# ------------------------------------------------------------------------------------------ C15
def legal(seq):
    """the property quantifies over ALL sequences of Start / Stop / Restart: Start on a running server (it must fail and leave the
    server serving until Stop), Stop on a stopped server (a no-op) and Restart of a stopped server (= Start) included"""
    return True

def life_sequences(rng, tier):
    seqs = []
    maxlen = 4 if tier == "quick" else 6
    for n in range(1, maxlen + 1):
        for t in itertools.product("SXR", repeat=n):
            if legal(t):
                seqs.append("".join(t))
    out = []
    for s in seqs:
        out.append(s)
        # clients connecting, idling and disconnecting in between
        withc = []
        for op in s:
            withc.append(op)
            if op in "SR":
                withc += rng.choice([["c"], ["t"], ["c", "t"], ["c", "c", "d"], ["t", "d", "c"], [], ["j"], ["t", "j", "h"], ["h", "c"], ["j", "j", "t", "d"]])
        out.append("".join(withc))
    for _ in range(40 if tier == "quick" else 600):
        n = rng.randint(3, 14)
        s, running = [], False
        for _ in range(n):
            if not running:
                op = rng.choice("SR"); running = True
            else:
                op = rng.choice("XRctcdtjh")
                if op == "X":
                    running = False
            s.append(op)
        out.append("".join(s))
    return sorted(set(out))

def run_c15(tier, seed):
    chk = Check("C15", tier, seed)
    broken = prep(chk, "C15")
    idle = IdleProbe(chk, tier)      # clients that idle between lifecycle calls are served until Stop (background; joined below)
    rng = random.Random(seed)
    seqs = life_sequences(rng, tier)
    lines = ["%s %s" % (cfg, s) for cfg in ("plain", "tls", "both") for s in seqs]
    # both ports enabled but no server certificate configured: Start fails; whatever it had opened must be given back by Stop
    BADTLS = ["both-badtls %s" % s for s in ("SX", "SXSX", "SSX", "RX", "SXRX")]
    lines += BADTLS
    # clients that send QUIT, read the reply and keep their socket open (op q): released at once, nothing left of them at Stop
    lines += ["plain-quit %s" % s for s in ("SqX", "ScqX", "SqqcX", "SqRqX", "SqcdX", "SqXSqX")]
    shards = 8
    from concurrent.futures import ThreadPoolExecutor
    n = len(lines)
    parts = [lines[i * n // shards:(i + 1) * n // shards] for i in range(shards)]
    rows = []
    with ThreadPoolExecutor(max_workers=shards) as ex:
        for r, o in ex.map(lambda part: run_mode(chk, "life", [], "\n".join(part) + "\n", timeout=1500), parts):
            rows += r
    # the lifecycle model's prediction (Coq: LifecycleThms.life_model, extracted) for the same sequences
    mlines = [l for l in lines if not l.startswith("both-badtls") and not l.startswith("plain-quit")]
    rc, mo, _ = vlib.run_model(["life"], "\n".join(mlines) + "\n", timeout=900)
    pred = {}
    for l in mo.splitlines():
        sp = l.split(" ", 1)
        if len(sp) == 2 and sp[0].isdigit():
            pred[mlines[int(sp[0])]] = sp[1]
    if rc != 0 or len(pred) != len(mlines):
        chk.violation("model-run-failure", "modelrun life failed rc=%s: %s" % (rc, mo[-300:]), dict(stage="model"), True)
    validated, distinct = 0, set()
    for r in rows:
        key = (r["config"], r["seq"])
        want = pred.get("%s %s" % key)
        got = ",".join(r["steps"])
        if want is not None and got != want and not r["problems"]:
            chk.violation("lifecycle-corr:%s" % r["config"], "correspondence (Lifecycle model vs server), %s port(s), sequence %s: the server showed %s, the model predicts %s" % (
                r["config"], r["seq"], got, want), dict(row=r, model=want))
            continue
        if r["problems"]:
            chk.violation("lifecycle:%s:%s" % (r["config"], r["problems"][0].split(":", 1)[-1].strip()[:50]), "server with %s port(s), sequence %s (S start, X stop, R restart, c/t plain/TLS client "
                          "connects, d disconnects): %s" % (r["config"], r["seq"], " ; ".join(r["problems"])[:600]), dict(row=r))
            continue
        validated += 1
        distinct.add(key)
    # a forced schedule: Stop is held inside its "close the registered connections" phase (the Close of one connection is gated) while
    # another, already accepted TLS client completes its handshake and registers
    srows, so = run_mode(chk, "stoprace", ["3" if tier == "quick" else "20"], timeout=300)
    for r in srows:
        if r.get("error"):
            continue
        if r.get("problems") and r.get("scenario") == "close-error":
            chk.violation("stop-with-close-error", "Stop on a server where closing one connection reports an error (three plain clients, one TLS client still shaking hands): %s" % " ; ".join(r["problems"])[:500], dict(row=r))
        elif r.get("problems"):
            chk.violation("stop-vs-registration", "a TLS client accepted before Stop and registered while Stop was closing another connection: %s" % " ; ".join(r["problems"])[:500], dict(row=r))
        else:
            validated += 1
    chk.coverage["stop_vs_registration_rounds"] = len(srows)
    # "serves connections on every enabled port until Stop" holds for the N-th concurrent client as for the first: many plain and
    # TLS clients connect at the same moment and stay connected; every one is served; then Restart, and again
    import thresholds as T
    crowd = max([24] + [v + 8 for v in T.new_constants() if v <= 400])
    brows, bo = run_mode(chk, "burst", ["3" if tier == "quick" else "12", str(crowd)], timeout=300)
    for r in brows:
        if r.get("error"):
            continue
        if r.get("problems"):
            chk.violation("concurrent-clients", "%d plain and TLS clients connecting at the same moment and staying connected (round %d): %s" % (r.get("clients", 0), r.get("round", 0), " ; ".join(r["problems"])[:500]), dict(row=r))
        else:
            validated += 1
    chk.coverage["concurrent_client_rounds"] = dict(rounds=len(brows), clients_per_round=2 * crowd)
    if len(rows) != len(lines) and not chk.violations:
        chk.violation("incomplete", "%d of %d sequences produced a result" % (len(rows), len(lines)), dict(), True)
    idle_ok = idle.join("C15")
    chk.notes.append("idle connections: pauses of %s s on plain / TLS 1.2 / TLS 1.3 connections, %d served afterwards" % (idle.times, idle_ok))
    if broken and not chk.violations:
        chk.violation("proof-broken", broken, dict(broken=broken, theorem="GRP.C15"), True)
    chk.coverage.update(
        evaluations=len(lines), distinct_nontrivial=len(distinct), exhaustive=True,
        rule="a real server (plain only / TLS only / both ports, kernel-assigned) driven through EVERY sequence of Start / Stop / Restart of length <= %d (Start on a running server must fail and leave it serving, Stop on a "
             "stopped server is a no-op, Restart anytime), each also with plain and TLS clients connecting, idling and disconnecting in between, plus random sequences to length 14; after every Start / "
             "Restart that returns nil every enabled port must serve a new client; after every Stop the ports must be bindable again, every client must have seen its connection closed, the "
             "registry must be empty and the goroutine count back at its baseline; while running the registry must hold exactly the clients connected; non-trivial = distinct (configuration, sequence)" % (4 if tier == "quick" else 6),
        traces_validated_against_impl=validated, input_distribution=dict(sequences=len(seqs), configurations=3),
        samples=[lines[i] for i in range(0, len(lines), max(1, len(lines) // 5))][:5])
    chk.assumptions = ["interleavings of the lifecycle calls with exiting accept loops and connection goroutines are those the Go scheduler produces (no forced schedule points in this revision)",
                       "kernel listen backlog and TIME_WAIT are outside the model"]
    chk.finish()

# ------------------------------------------------------------------------------------------ C19
def run_c19(tier, seed):
    from multiprops import run_c19_conn
    chk = Check("C19", tier, seed)
    broken = prep(chk, "C19")
    rng = random.Random(seed)
    ncases, nval, ends, samples = run_c19_conn(chk, rng, tier)
    cycles = 220 if tier == "quick" else 10000
    # a reader that stays stalled longer than every duration written in the source under test (write deadlines, timeouts): none on the pinned tree
    import thresholds as T
    durs = [d for d in T.mined_durations() if 0.2 <= d <= 30]
    if durs:
        os.environ["VERIF_STALL_MS"] = str(int((max(durs) + 2) * 1000))
    rows, o = run_mode(chk, "churn", [str(cycles), str(seed)], timeout=3000)
    batches = 0
    modes = {}
    for r in rows:
        batches += 1
        for m, k in (r.get("counts") or {}).items():
            modes[m] = modes.get(m, 0) + k
        probs = []
        if r.get("note"):
            probs.append(r["note"])
        if r.get("registry_after", 0) != 0:
            probs.append("%d connections remain in the registry" % r["registry_after"])
        if r.get("not_closed_by_server", 0) != 0:
            probs.append("%d connections were not closed and released by the server within 3 s after QUIT / a protocol error / a rejected certificate (the client kept its end open and waited)" % r["not_closed_by_server"])
        if r.get("goroutine_delta", 0) > 0:
            probs.append("%d server goroutines remain" % r["goroutine_delta"])
        if r.get("fd_delta", 0) > 0:
            probs.append("%d descriptors remain open" % r["fd_delta"])
        if r.get("stop_err"):
            probs.append("Stop returned: " + r["stop_err"])
        if probs:
            chk.violation("leak:" + r["mode"], "after %d connect/disconnect cycles ending by %s (%d in flight): %s" % (r.get("cycles", 0), r["mode"], r.get("in_flight", 0), " ; ".join(probs)), dict(row=r))
    if batches < 16 and not chk.violations:
        chk.violation("incomplete", "the churn run produced %d of 16 batches: %s" % (batches, o[-500:]), dict(output=o[-3000:]), True)
    if broken and not chk.violations:
        chk.violation("proof-broken", broken, dict(broken=broken, theorem="GRP.C19"), True)
    chk.coverage.update(
        evaluations=ncases + sum(r.get("cycles", 0) for r in rows), distinct_nontrivial=nval + len(modes),
        rule="(a) scripted connections through the real loop: %d pipelines mixing every request outcome x every ending (end of stream at a boundary, inside a request, protocol error, reset, "
             "write failure): loop returned, socket closed exactly once, registry empty, trace = model; (b) churn over real sockets against a server with plain and TLS ports: each of 11 ending "
             "modes alone (FIN at boundary, FIN mid-request, RST, QUIT, malformed frame, client stops reading, TLS close_notify, TLS RST, failed handshake, rejected certificate, stalled "
             "handshake) and mixed with 1 / 8 / 32 connections in flight for %d cycles each, then Stop with connections open: registry, goroutine count and open descriptors must return to "
             "their baseline; non-trivial = validated scripted cases + ending modes exercised" % (ncases, cycles),
        traces_validated_against_impl=nval, input_distribution=dict(scripted_endings=ends, churn_modes=modes),
        samples=samples + [rows[-1] if rows else {}])
    chk.assumptions = ["goroutine and descriptor baselines are polled with a grace period of 4 s", "what the kernel does with a closed socket is outside the model"]
    chk.finish()
