from connprops import run_c04 as run, replay
