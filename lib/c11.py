from connprops import run_c11 as run, replay
