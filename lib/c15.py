from lifeprops import run_c15 as run, replay
