"""C01 C02 C06 — codec properties: differential run of proto.Parser / RESPBytes against Resp.v."""
import json, random, os
import vlib
from vlib import Check
import codec_gen as G

ULIMIT = ["bash", "-c", 'ulimit -v 6291456; exec "$@"', "--"]   # 6 GiB address space for hostile inputs


def prep(chk, pid):
    broken = vlib.standard_proof_stage(chk, pid)
    ok, o = vlib.build_model()
    if not ok:
        broken = (broken or "") + " model build failed: " + o[-400:]
    ok, o = vlib.build_harness()
    if not ok:
        chk.violation("harness-build", "harness does not build against the tree: " + o[-600:], dict(stage="build"), True)
        chk.finish()
    return broken


def attribute_failures(chk, mode, lines, failures, describe):
    """a harness process died / lost lines: find one line that kills it (bisect) and report it."""
    import time as _t
    t_end = _t.time() + 240          # the search for the line is bounded: a tree on which every run takes minutes is reported without it
    for fi, (which, lo, hi, rc, tail) in enumerate(failures):
        if which == "model":
            chk.violation("model-run-failure", "modelrun failed rc=%s: %s" % (rc, tail[-300:]), dict(stage="model"), True)
            continue
        cand = lines[lo:hi]
        if fi >= 2 or _t.time() > t_end:
            chk.violation("process-abort", "the process running the implementation failed (rc=%s) on a shard of %d inputs (not narrowed down: time budget): %s" % (rc, len(cand), tail[-300:].replace("\n", " | ")),
                          dict(mode=mode, line=cand[0], rc=rc, output=tail[-2000:]), True)
            continue
        while len(cand) > 1 and _t.time() < t_end:
            half = cand[:len(cand) // 2]
            rc1, o1, _ = vlib.sh(ULIMIT + [os.path.join(vlib.BUILD, "harness"), mode], inp="\n".join(half) + "\n", timeout=90)
            good = rc1 == 0 and len([l for l in o1.splitlines() if l.strip()]) == len(half)
            cand = cand[len(cand) // 2:] if good else half
        rc1, o1, _ = vlib.sh(ULIMIT + [os.path.join(vlib.BUILD, "harness"), mode], inp=cand[0] + "\n", timeout=90)
        chk.violation("process-abort", "the process running the implementation aborted (rc=%s) on input %s: %s" %
                      (rc1, describe(cand[0]), o1[-400:].replace("\n", " | ")),
                      dict(mode=mode, line=cand[0], rc=rc1, output=o1[-2000:]))


# ---------------------------------------------------------------------------------------- C01
def run_c01(tier, seed):
    chk = Check("C01", tier, seed)
    broken = prep(chk, "C01")
    rng = random.Random(seed)
    trees = G.small_trees(rng, 3000 if tier == "quick" else 30000)
    n_small = len(trees)
    nrand = 1500 if tier == "quick" else 20000
    for _ in range(nrand):
        trees.append(G.rand_tree(rng, rng.randint(0, 8), big=True))
    edge = G.boundary_trees(rng) if tier != "quick" else G.boundary_trees(rng, G.ARITY_EDGES[:5], G.BULK_EDGES[:8])
    trees += edge
    lines = [G.tree_text(t) for t in trees]
    impl, model, failures = vlib.run_pair("encode", [], lines)
    attribute_failures(chk, "encode", lines, failures, lambda l: l[:200])
    distinct = set()
    validated = 0
    kinds = {}
    for t, line, a, m in zip(trees, lines, impl, model):
        if a is None or m is None:
            continue
        af = a.split(" ")
        mf = m.split(" ")
        ref = G.hx(G.encode(t))
        kinds[t[0]] = kinds.get(t[0], 0) + 1
        # monitors (implementation only): serializer = RESP2 reference encoder; parse(enc v) = v; canonical bytes re-encode identically
        if af[0] == "ALIAS":
            chk.violation("encoding-overwritten", "the bytes RESPBytes returned for the PREVIOUS value changed when %s was serialized: they were %s, they are now %s "
                          "(an encoding does not stay what it was while other values are encoded)" % (line[:100], af[1][:80], af[2][:80]), dict(tree=line, before_hex=af[1], after_hex=af[2]))
            continue
        if af[0] == "MUT":
            chk.violation("stale-encoding", "%s: %s - expected %s, RESPBytes returned %s" % (line[:100], "serialized a second time" if af[1] == "second-serialization" else
                          "after its first serialization the value was changed through its public API (first element's payload replaced, one element appended through the Array handle) and serialized again",
                          af[2][:100], af[3][:100]), dict(tree=line, how=af[1], expected_hex=af[2], got_hex=af[3]))
            continue
        if af[0] in ("P", "ERR"):
            chk.violation("encode-fails", "RESPBytes of %s %s" % (line[:120], "panics" if af[0] == "P" else "returns an error"), dict(tree=line))
            continue
        if af[0] != ref:
            chk.violation("encode-differs", "RESPBytes of %s is %s, RESP2 encoding is %s" % (line[:120], af[0][:120], ref[:120]),
                          dict(tree=line, impl_hex=af[0], expected_hex=ref))
            continue
        if af[1] != line:
            chk.violation("roundtrip-differs", "parsing the serialization of %s yields %s" % (line[:120], af[1][:120]),
                          dict(tree=line, bytes_hex=af[0], parsed=af[1]))
            continue
        if af[2] != "1":
            chk.violation("reencode-differs", "parse then re-serialize does not reproduce the canonical bytes of %s" % line[:120],
                          dict(tree=line, bytes_hex=af[0]))
            continue
        # correspondence with the model
        if af != mf:
            chk.violation("corr-encode", "correspondence: encode/parse of %s: impl %s model %s" % (line[:100], a[:100], m[:100]),
                          dict(tree=line, impl=a, model=m))
            continue
        validated += 1
        if len(line) > 3:
            distinct.add(line)
    # constructors
    clines = ["misc x"]
    ints = [0, 1, -1, 9, 10, -10, 2**31 - 1, 2**31, -2**31, 2**63 - 1, -2**63, 2**63 - 2, -2**63 + 1, 10**18, -10**18]
    ints += [rng.randint(-2**63, 2**63 - 1) for _ in range(300 if tier == "quick" else 5000)]
    ints += [rng.randint(-10**4, 10**4) for _ in range(100)]
    clines += ["int %d" % z for z in ints]
    import struct
    fl = [0.0, -0.0, 1.0, -1.0, 0.1, 1e21, 1e-7, 5e-324, 1.7976931348623157e308, 2.2250738585072014e-308, 123456789.125, 1e6, 999999.0, 2.0**53, 2.0**53 + 2]
    # integral values around the integer types' limits and the switch to exponent notation
    fl += [s_ * v for s_ in (1.0, -1.0) for v in (2.0**31, 2.0**32, 2.0**62, 2.0**63, 2.0**63 + 2048, 2.0**64, 1e15, 1e16, 1e17, 1e18, 1e19, 1e20, 9.999999999999999e20, 1e21, 1e22, 1e100, 18446744073709551615.0)]
    fl += [float(rng.randrange(2**53)) * 2.0**rng.randint(0, 20) for _ in range(60)]
    nfl = 300 if tier == "quick" else 5000
    while len(fl) < nfl:
        bits = rng.getrandbits(64)
        x = struct.unpack(">d", struct.pack(">Q", bits))[0]
        if x == x and x not in (float("inf"), float("-inf")):
            fl.append(x)
    clines += ["float %016x" % struct.unpack(">Q", struct.pack(">d", x))[0] for x in fl]
    strs = [b"", b"a", b"\r\n", b"a\r\nb", b"\x00", b"$-1\r\n", bytes(range(256))] + [G.rand_payload(rng, True) for _ in range(100)]
    clines += ["str %s" % G.hx(s) for s in strs]
    for _ in range(60):
        k = rng.randint(0, 5)
        clines.append("strs " + (",".join(G.hx(G.rand_payload(rng, True)[:30]) for _ in range(k)) if k else "."))
    cimpl, cmodel, cfail = vlib.run_pair("ctor", [], clines, shards=4)
    attribute_failures(chk, "ctor", clines, cfail, lambda l: l[:200])
    ctor_ok = 0
    for line, a, m in zip(clines, cimpl, cmodel):
        if a is None or m is None:
            continue
        af, mf = a.split(" "), m.split(" ")
        if af[-1] != "true":
            chk.violation("ctor-roundtrip", "constructor case `%s` does not decode back to the value it was built from (bytes %s)" % (line[:100], af[0][:80]),
                          dict(case=line, impl=a))
            continue
        if not line.startswith("float") and af[0] != mf[0]:
            # for 'str' the status/error encodings differ legitimately only if impl and model sanitise differently
            chk.violation("corr-ctor", "correspondence: constructor case `%s`: impl bytes %s model bytes %s" % (line[:80], af[0][:100], mf[0][:100]),
                          dict(case=line, impl=a, model=m))
            continue
        ctor_ok += 1
    if broken and not chk.violations:
        chk.violation("proof-broken", broken, dict(broken=broken, theorem="GRP.C01"), True)
    chk.coverage.update(
        evaluations=len(lines) + len(clines), distinct_nontrivial=len(distinct),
        rule="value trees: every leaf with payload length <= 2 over {a,$,NUL} (line types) / {a,CR,LF,$,NUL} (bulk) and every array of arity <= 2 over those "
             "leaves (complete), sampled depth-2 arrays, random trees to depth 8 with bulk payloads to 64 KiB over all 256 byte values; constructors: "
             "int boundaries + random int64, boundary + random finite float64 (Go-side check only), binary strings, string arrays. "
             "non-trivial = distinct tree that is not a bare empty leaf",
        exhaustive=True, traces_validated_against_impl=validated + ctor_ok,
        input_distribution=dict(small_exhaustive=n_small, random_trees=nrand, by_root_kind=kinds, ctor_cases=len(clines), ints=len(ints), floats=len(fl)),
        samples=[lines[10], lines[n_small - 1][:200], lines[-1][:300], clines[5], clines[-1][:200]])
    chk.coverage["trusted_base"] += [
        "tested, not proved: NewFloatMessage (strconv.FormatFloat/ParseFloat are not modelled): ParseFloat(payload) == x checked on boundary and random finite float64",
        "arrays longer than 2^63-1 elements and bulk payloads above 512 MiB (proto.maxBulkLength) are outside the round-trip theorem (size_ok)"]
    chk.assumptions = ["Go strconv.Itoa/Atoi behave as Base.itoa/atoi (compared on every length/count/integer seen by this run)"]
    chk.finish()


# ---------------------------------------------------------------------------------------- C02
def run_c02(tier, seed):
    chk = Check("C02", tier, seed)
    broken = prep(chk, "C02")
    rng = random.Random(seed)
    pool = G.small_trees(rng, 200)
    streams = []
    nstreams = 220 if tier == "quick" else 2500
    for i in range(nstreams):
        k = rng.randint(1, 6)
        if i % 3 == 0:
            vals = [rng.choice(pool) for _ in range(k)]
        else:
            vals = [G.rand_tree(rng, rng.randint(0, 4)) for _ in range(k)]
        streams.append(vals)
    # values on implementation thresholds (array pre-allocation cap, buffer sizes), each FOLLOWED by further values: a reader that
    # over-reads or under-reads at such a threshold swallows or loses the neighbour
    edge = G.boundary_trees(rng, null_arrays=True) if tier != "quick" else G.boundary_trees(rng, [1024, 1025, 1500], [4096, 16383, 16384, 16385, 65536], null_arrays=True)
    for t in edge:
        streams.append([t, ('i', b"42"), ('b', b"tail")])
    # long streams on one parser (a connection lives long): many small values of one kind, then something else - state that a
    # value leaves behind in the parser shows up only after many of them
    import thresholds as T
    reps = T.extend([17, 40, 130, 1025, 2050] if tier == "quick" else [17, 40, 130, 300, 1023, 1024, 1025, 2050, 4100], 3, 20000, limit=6)
    for kind in (('na',), ('a', []), ('b', None), ('b', b""), ('a', [('a', [('a', [])])]), ('i', b"0")):
        for nrep in reps:
            streams.append([kind] * nrep + [('a', [('b', b"GET"), ('b', b"k")]), ('a', [('a', [('b', b"x")])]), ('s', b"OK")])
    lines, meta = [], []
    kinds = {}
    for vals in streams:
        data = b"".join(G.encode(v) for v in vals)
        if len(vals) > 300:
            # very long streams of tiny values: what matters is the count, a handful of chunkings is enough
            cks = [("whole", [len(data)]), ("2way", [len(data) // 2, len(data) - len(data) // 2]), ("2way", [len(data) - 7, 7])]
            sizes, left = [], len(data)
            while left > 0:
                k = min(left, rng.choice([64, 512, 4096, 4097]))
                sizes.append(k); left -= k
            cks.append(("kway", sizes))
        elif len(data) > 3000:
            cks = G.chunkings(rng, len(data), dict(two_way_cap=40 if len(data) < 20000 else 12, kway=4))
            # splits a few bytes either side of each value boundary, and one big read that ends inside the following value
            off = 0
            for v in vals[:-1]:
                off += len(G.encode(v))
                for d in (-3, -2, -1, 1, 2, 5):
                    if 0 < off + d < len(data):
                        cks.append(("near_boundary", [off + d, len(data) - off - d]))
                if off > 600:
                    cks.append(("tail_with_next", [off - 500, 503, len(data) - off - 3] if len(data) - off - 3 > 0 else [off - 500, len(data) - off + 500]))
        else:
            cks = G.chunkings(rng, len(data), dict(two_way_cap=120 if tier == "quick" else 10**9, kway=4))
        for kind, sizes in cks:
            kinds[kind] = kinds.get(kind, 0) + 1
            lines.append("%s %s %d" % (",".join(map(str, sizes)), G.hx(data), len(vals) + 2))
            meta.append((vals, data, kind, sizes))
    impl, model, failures = vlib.run_pair("parse", [], lines, timeout=300 if tier == "quick" else 1500)
    attribute_failures(chk, "parse", lines, failures, lambda l: l[:200])
    validated = 0
    distinct = set()
    for (vals, data, kind, sizes), line, a, m in zip(meta, lines, impl, model):
        if a is None or m is None:
            continue
        # monitor: exactly the values, in order, each consuming exactly its own bytes, then end of stream
        exp, off = [], 0
        for v in vals:
            off += len(G.encode(v))
            exp.append("V%d:%s;" % (off, G.tree_text(v)))
        expect = "".join(exp) + "S"
        if a != expect:
            chk.violation("chunking-dependent", "stream of %d values (%d bytes) delivered as %s chunks %s: parser returned %s, expected %s" %
                          (len(vals), len(data), kind, sizes[:12], a[:160], expect[:160]),
                          dict(chunks=sizes, stream_hex=G.hx(data), impl=a, expected=expect))
            continue
        if a != m:
            chk.violation("corr-parse-rd", "correspondence: chunked parse impl %s model %s" % (a[:120], m[:120]),
                          dict(chunks=sizes, stream_hex=G.hx(data), impl=a, model=m))
            continue
        validated += 1
        if len(sizes) > 1:
            distinct.add((G.hx(data), tuple(sizes)))
    # another parser of the same process (another connection, another Server) was fed a malformed or truncated stream just before:
    # what a parser makes of a well-formed stream does not depend on what other parsers saw.  Run on one processor as well (what a
    # runtime pool hands back is per processor: with one, the next parser certainly gets what the previous one gave back)
    import os
    POISON = [b"+OK\rX\r\n", b"$3\r", b":12\r", b"*2\r\r\n", b"-ERR\r", b"$5\r\nab", b"*3\r\n$1\r", b"+\r", b"*1\r\n:7\rZ"]
    small = [i for i, (v_, d_, k_, s_) in enumerate(meta) if len(d_) < 3000]
    pick = small[::max(1, len(small) // (500 if tier == "quick" else 6000))]
    lines2, meta2 = [], []
    for j, i in enumerate(pick):
        lines2.append("%s %s 4" % ("-" if j % 2 else "1,2", G.hx(POISON[j % len(POISON)]))); meta2.append(None)
        lines2.append(lines[i]); meta2.append(meta[i])
    # the last bytes of the stream arrive TOGETHER with io.EOF (one Read returns n > 0 and io.EOF: io.Reader allows it, crypto/tls does it
    # when the peer's close_notify is already buffered, iotest.DataErrReader does it): the values are the same
    lines3, meta3 = [], []
    for i in small[::max(1, len(small) // (400 if tier == "quick" else 5000))]:
        vals, data, kind, sizes = meta[i]
        for sz in (sizes, [len(data)], [max(1, len(data) - 1), 1], [1] * min(len(data), 64) + [max(0, len(data) - 64)]):
            sz = [x for x in sz if x > 0]
            if sum(sz) == len(data):
                lines3.append("e%s %s %d" % (",".join(map(str, sz)), G.hx(data), len(vals) + 2)); meta3.append((vals, data, "eof-with-last-read", sz))
    impl3, _m3, failures3 = vlib.run_pair("parse", [], lines3, shards=6, model_too=False)
    attribute_failures(chk, "parse", lines3, failures3, lambda l: l[:200])
    for (vals, data, kind, sizes), a in zip(meta3, impl3):
        if a is None:
            continue
        exp, off = [], 0
        for v in vals:
            off += len(G.encode(v))
            exp.append("V%d:%s;" % (off, G.tree_text(v)))
        expect = "".join(exp) + "S"
        if a != expect:
            chk.violation("eof-with-data", "stream of %d values (%d bytes) delivered as chunks %s, the LAST read returning its bytes together with io.EOF: parser returned %s, expected %s" %
                          (len(vals), len(data), sizes[:12], a[:160], expect[:160]), dict(line="e%s %s %d" % (",".join(map(str, sizes)), G.hx(data), len(vals) + 2), impl=a, expected=expect))
            break
        validated += 1
    for procs in ("1", None):
        henv = dict(os.environ, GOMAXPROCS=procs) if procs else None
        impl2, model2, failures2 = vlib.run_pair("parse", [], lines2, shards=6, henv=henv, model_too=False)    # (the expected outcome is written out below: monitor only)
        attribute_failures(chk, "parse", lines2, failures2, lambda l: l[:200])
        for j, (mt, a) in enumerate(zip(meta2, impl2)):
            if mt is None or a is None:
                continue
            vals, data, kind, sizes = mt
            exp, off = [], 0
            for v in vals:
                off += len(G.encode(v))
                exp.append("V%d:%s;" % (off, G.tree_text(v)))
            expect = "".join(exp) + "S"
            if a != expect:
                prev = lines2[j - 1].split(" ")
                chk.violation("neighbour-dependent", "stream of %d values (%d bytes, chunks %s) parsed by a fresh parser right after ANOTHER parser of the process was fed the malformed stream %r%s: "
                              "parser returned %s, expected %s" % (len(vals), len(data), sizes[:8], bytes.fromhex(prev[1]), " (one processor)" if procs else "", a[:160], expect[:160]),
                              dict(chunks=sizes, stream_hex=G.hx(data), previous_parser_stream_hex=prev[1], previous_parser_chunks=prev[0], impl=a, expected=expect, gomaxprocs=procs))
                break
            validated += 1
    # the same through the server's connection loop (the parser as the server drives it: its reader, its deadlines): requests
    # delivered in arbitrary chunks, with the client pausing between chunks, are answered one by one with the right arguments
    import connlib as CL, cmdgen as CG
    ccases = []
    for i in range(150 if tier == "quick" else 2000):
        reqs = [("ECHO", [CG.g_str(rng)]) for _ in range(rng.randint(1, 4))]
        data = b"".join(CG.request_bytes(n_, a_) for n_, a_ in reqs)
        if len(data) > 20000:
            continue
        cuts = sorted(set(rng.randrange(1, len(data)) for _ in range(rng.randint(1, 5))))
        parts = [data[a:b] for a, b in zip([0] + cuts, cuts + [len(data)])]
        # 'f' waits until the server asks for more input before the next chunk is sent: the client pauses at every cut
        steps = [(0, "f" + CL.hx(p_)) for p_ in parts] + [(0, "e")]
        ccases.append(dict(line=CL.mkcase(steps, default="ms(4f4b)", trace=False), expect=[b"$%d\r\n" % len(a_[0]) + a_[0] + b"\r\n" for _, a_ in reqs], cuts=cuts, n=len(data)))
    # large values over a slow link: the whole request is available, but no Read returns more than 1 / 16 / 1000 bytes (whatever the
    # server counts per Read - bytes, calls, buffer sizes - adds up over tens of thousands of reads)
    import thresholds as T
    for size in ([70000, 300000] if tier == "quick" else [5000, 70000, 300000, 1000000, 2 << 20]):
        for cap in (1, 16, 1000):
            big = bytes((i * 31 + 7) % 251 for i in range(size))
            reqs = [("ECHO", [b"a"]), ("ECHO", [big]), ("ECHO", [b"z"])]
            data = b"".join(CG.request_bytes(n_, a_) for n_, a_ in reqs)
            ccases.append(dict(line=CL.mkcase([(0, "c%d" % cap), (0, "f" + CL.hx(data)), (0, "e")], default="ms(4f4b)", trace=False),
                               expect=[b"$%d\r\n" % len(a_[0]) + a_[0] + b"\r\n" for _, a_ in reqs], cuts=["every %d bytes" % cap], n=len(data)))
    cimpl, cmodel, cfail = vlib.run_pair("conn", [], [c["line"] for c in ccases], shards=8, timeout=240 if tier == "quick" else 900)
    attribute_failures(chk, "conn", [c["line"] for c in ccases], cfail, lambda l: l[:200])
    conn_ok = 0
    for c, a in zip(ccases, cimpl):
        if a is None:
            continue
        obs = CL.Obs(a)
        got = [w[1] for w in CL.writes_of(obs.conns[0][1])]
        if obs.conns[0][0] != "ret" or got != c["expect"]:
            chk.violation("chunked-requests", "a pipeline of %d ECHO requests (%d bytes) sent in chunks cut at %s with the client pausing at each cut was answered %s instead of %s (%s)" % (
                len(c["expect"]), c["n"], c["cuts"], [g[:40] for g in got], [e[:40] for e in c["expect"]], obs.conns[0][0]), dict(case=c["line"], cuts=c["cuts"]))
            continue
        conn_ok += 1
    chk.coverage["chunked_pipelines_through_the_connection_loop"] = conn_ok
    if broken and not chk.violations:
        chk.violation("proof-broken", broken, dict(broken=broken, theorem="GRP.C02"), True)
    chk.coverage.update(
        evaluations=len(lines), distinct_nontrivial=len(distinct),
        rule="value streams of 1..6 values (small exhaustive pool and random trees to depth 4) x every 2-way split point (capped for streams > 3000 bytes), "
             "all-1-byte delivery and 4 random k-way partitions each; non-trivial = distinct (stream, partition) with at least 2 reads",
        traces_validated_against_impl=validated, input_distribution=dict(streams=len(streams), partitions_by_kind=kinds),
        samples=[dict(chunks=meta[i][3][:20], stream=meta[i][1][:60].decode("latin1")) for i in (0, len(meta) // 2, len(meta) - 1)])
    chk.assumptions = ["the transport never returns (0, nil) from Read and reports EOF separately from data (true of net.TCPConn, tls.Conn, bytes.Buffer)"]
    chk.finish()


# ---------------------------------------------------------------------------------------- C06
def classify(res):
    if res is None:
        return "lost"
    if "!NIL" in res or "N" in res.replace("NIL", ""):
        # 'N' only appears as a nil element marker in tree text (hex digits are lower case)
        return "nil-element"
    last = res.split(";")[-1]
    if last == "H":
        return "hang"
    if last == "SKIP":
        return "skipped"
    if last.startswith("P"):
        return "panic"
    if last in ("S", "E", "L"):
        return "ok"
    return "other"


def run_c06(tier, seed):
    chk = Check("C06", tier, seed)
    broken = prep(chk, "C06")
    rng = random.Random(seed)
    corpus = []
    cpath = os.path.join(vlib.ROOT, "corpus", "C06.txt")
    if os.path.exists(cpath):
        corpus = [bytes.fromhex(l.strip()) if l.strip() != "-" else b"" for l in open(cpath) if l.strip() and not l.startswith("#")]
    cases = [("corpus", c) for c in corpus]
    n = 4000 if tier == "quick" else 60000
    valid = [b"".join(G.encode(G.rand_tree(rng, rng.randint(0, 4))) for _ in range(rng.randint(1, 3))) for _ in range(300)]
    valid += [G.encode(G.request_tree(rng)) for _ in range(300)]
    for _ in range(n):
        r = rng.random()
        if r < 0.7:
            kind, d = G.mutate_stream(rng, rng.choice(valid), rng.choice(valid))
            if rng.random() < 0.25:
                k2, d = G.mutate_stream(rng, d, rng.choice(valid)); kind += "+" + k2
        elif r < 0.9:
            kind, d = "near_valid", G.near_valid(rng)
        else:
            kind, d = "random_bytes", bytes(rng.choice(b"*$+-:\r\n0123456789ab\x00\xff") for _ in range(rng.randint(0, 40)))
        cases.append((kind, d))
    # systematic declared-size bombs: every boundary integer as bulk length and array count, with 0..3 following bytes
    for z in G.BOUNDARY_INTS:
        for tail in (b"", b"\r", b"\r\n", b"\r\na", b"\r\n$1\r\na\r\n"):
            cases.append(("bomb_bulk", b"$%d" % z + tail))
            cases.append(("bomb_arr", b"*%d" % z + tail))
            cases.append(("bomb_nested", b"*1\r\n*%d" % z + tail))
    for odd in G.ODD_NUMS:
        cases.append(("odd_len", b"$" + odd + b"\r\nabc\r\n"))
        cases.append(("odd_cnt", b"*" + odd + b"\r\n$1\r\na\r\n"))
    # every byte value as the type byte (RESP3 types, control characters, letters, high bytes) in front of well-formed length /
    # payload shapes, at top level, as an element and as a command argument: a value or an error, never a panic
    for tb in range(256):
        t_ = bytes([tb])
        for body in (b"0\r\n\r\n", b"2\r\nab\r\n", b"3\r\nabc\r\n", b"4\r\ntxt:\r\n", b"8\r\ntxt:abcd\r\n", b"-1\r\n", b"\r\n", b"1\r\n", b"t\r\n", b"1.5\r\n"):
            cases.append(("type_byte", t_ + body + b"+OK\r\n"))
            if tb % 3 == 0 or tb in b"=!_#,%~>|(":
                cases.append(("type_byte_nested", b"*2\r\n" + t_ + body + b":1\r\n"))
                cases.append(("type_byte_arg", b"*2\r\n$4\r\nECHO\r\n" + t_ + body))
    # arrays beyond the pre-allocation cap, cut at and around every element boundary near the cap and its doublings
    for n in ((1030, 2050) if tier == "quick" else (1025, 1030, 1500, 2050, 4100)):
        elems = [b"$2\r\ne%d\r\n" % (i % 10) for i in range(n)]
        head = b"*%d\r\n" % n
        for k in sorted({1022, 1023, 1024, 1025, 1026, 2047, 2048, 2049, 4095, 4096, 4097, n - 1, n}):
            if k <= n:
                body = head + b"".join(elems[:k])
                cases.append(("trunc_big_array", body))
                cases.append(("trunc_big_array", body + b"$2\r\ne"))
                cases.append(("trunc_big_array", b"*2\r\n$1\r\nx\r\n" + body))
    for t in (G.boundary_trees(rng, [1025], [4096, 16383, 16384, 16385]) if tier == "quick" else G.boundary_trees(rng)):
        e = G.encode(t)
        cases.append(("edge_valid", e + b":42\r\n"))
        cases.append(("edge_valid_cut", e[:-1]))
        cases.append(("edge_valid_cut", e[:-2]))
    if tier == "thorough":
        cases.append(("big_bulk", G.encode(('b', bytes(rng.randrange(256) for _ in range(1 << 20))))))
        cases.append(("deep", b"*1\r\n" * 5000 + b"$1\r\na\r\n"))
    lines, kinds = [], {}
    for kind, d in cases:
        kinds[kind.split("+")[0]] = kinds.get(kind.split("+")[0], 0) + 1
        lines.append("- %s 16" % G.hx(d))
        if len(d) > 1:
            s = rng.randrange(1, len(d))
            lines.append("%d,%d %s 16" % (s, len(d) - s, G.hx(d)))
        else:
            lines.append("1 %s 16" % G.hx(d))
    impl, model, failures = vlib.run_pair("parse", [], lines, harness_prefix=ULIMIT)
    attribute_failures(chk, "parse", lines, failures, lambda l: l[:200])
    validated, classes = 0, {}
    distinct = set()
    for line, a, m in zip(lines, impl, model):
        if a is None or m is None:
            continue
        c = classify(a)
        last = a.split(";")[-1][:1]
        classes[last] = classes.get(last, 0) + 1
        data_hex = line.split(" ")[1]
        if c == "panic":
            chk.violation("parser-panic", "Parser.Next panics on %s: %s" % (data_hex[:120], a[-120:]), dict(line=line, impl=a, input=bytes.fromhex(data_hex if data_hex != "-" else "").decode("latin1")))
            continue
        if c == "hang":
            chk.violation("parser-hang", "Parser.Next does not return within 20 s on %s (a spinning goroutine was left behind)" % data_hex[:160],
                          dict(line=line, impl=a, input=bytes.fromhex(data_hex if data_hex != "-" else "").decode("latin1")))
            continue
        if c == "skipped":
            continue
        if c == "nil-element":
            chk.violation("nil-element", "Parser.Next returns an array with an absent element on %s: %s" % (data_hex[:120], a[:120]),
                          dict(line=line, impl=a, input=bytes.fromhex(data_hex if data_hex != "-" else "").decode("latin1")))
            continue
        if c != "ok":
            chk.violation("parser-outcome", "unexpected outcome %s on %s" % (a[:80], data_hex[:120]), dict(line=line, impl=a))
            continue
        if a != m:
            chk.violation("corr-parse", "correspondence: parse of %s: impl %s model %s" % (data_hex[:100], a[:100], m[:100]),
                          dict(line=line, impl=a, model=m, input=bytes.fromhex(data_hex if data_hex != "-" else "").decode("latin1")))
            continue
        validated += 1
        if last in ("E",) or ";" in a:
            distinct.add(data_hex)
    # nesting up to the 1 MiB bound of the property (262143 levels of "*1\r\n"): the implementation alone, one child process per
    # input - an abort of the process (Go's stack limit is a fatal error, not a panic) is attributed to the depth that caused it.
    # (The extracted model is compared up to 20000 levels only: its parser is quadratic in the depth.)
    deep_ok = 0
    for depth in ((1000, 70000, 262143) if tier == "quick" else (1000, 20000, 65535, 65536, 70000, 100000, 200000, 262143)):
        for tail in (b":1\r\n", b"", b"*0\r\n"):
            d = (b"*1\r\n" * depth + tail)[:1 << 20]
            rc1, o1, _ = vlib.sh(ULIMIT + [os.path.join(vlib.BUILD, "harness"), "parse"], inp="- %s 3\n" % G.hx(d), timeout=300)
            out = o1.strip().split(" ", 1)[1] if rc1 == 0 and " " in o1.strip() else ""
            if rc1 != 0 or not out:
                chk.violation("deep-nesting-abort", "parsing %d nested arrays (%d bytes, inside the 1 MiB bound) ends the process with status %s: %s" %
                              (depth, len(d), rc1, o1[-300:].replace("\n", " | ")), dict(depth=depth, tail=tail.decode(), rc=rc1, output=o1[-2000:]))
                break
            if classify(out) in ("panic", "hang", "nil-element"):
                chk.violation("deep-nesting-" + classify(out), "parsing %d nested arrays: %s" % (depth, out[-120:]), dict(depth=depth, tail=tail.decode()))
                break
            deep_ok += 1
        else:
            continue
        break
    chk.coverage["deep_nesting_inputs"] = deep_ok
    if broken and not chk.violations:
        chk.violation("proof-broken", broken, dict(broken=broken, theorem="GRP.C06"), True)
    chk.coverage.update(
        evaluations=len(lines), distinct_nontrivial=len(distinct),
        rule="structure-aware mutations of valid streams (truncate, splice, flip, duplicate, delete, damaged CRLF, length/count digits rewritten to boundary "
             "integers %s and to odd numerals), grammar-based near-valid frames, random bytes over the RESP alphabet, systematic declared-size bombs; each input "
             "parsed flat and through one random 2-way split, in a child process with a 6 GiB address-space limit; non-trivial = distinct input that yields an error "
             "or at least one value" % G.BOUNDARY_INTS[:8],
        traces_validated_against_impl=validated, input_distribution=dict(by_kind=kinds, final_outcome=classes, corpus=len(corpus)),
        samples=[lines[i][:160] for i in (0, len(lines) // 3, len(lines) // 2, len(lines) - 1)])
    chk.coverage["trusted_base"] += ["nesting beyond 20000 levels is exercised on the implementation only (up to the 1 MiB bound: 262143 levels), not compared with the model",
                                     "native fuzzing is not used; the search is generator-based"]
    chk.finish()


def replay(path):
    r = json.load(open(path))["replay"]
    vlib.build_model(); vlib.build_harness()
    if "tree" in r:
        mode, line = "encode", r["tree"]
    elif "line" in r:
        mode, line = "parse", r["line"]
    elif "previous_parser_stream_hex" in r:
        import os
        lines = "%s %s 4\n%s %s 16\n" % (r["previous_parser_chunks"], r["previous_parser_stream_hex"], ",".join(map(str, r["chunks"])), r["stream_hex"])
        env = dict(os.environ, GOMAXPROCS=r["gomaxprocs"]) if r.get("gomaxprocs") else None
        print("impl  (line 0 = the other parser, line 1 = the stream):\n" + vlib.run_harness(["parse"], lines, env=env)[1].strip()[:2000])
        print("model:\n" + vlib.run_model(["parse"], lines)[1].strip()[:2000])
        print("expected for line 1:", r["expected"][:400])
        return
    elif "chunks" in r:
        mode, line = "parse", "%s %s 16" % (",".join(map(str, r["chunks"])), r["stream_hex"])
    else:
        mode, line = "ctor", r.get("case", "misc x")
    print("impl :", vlib.run_harness([mode], line + "\n")[1].strip()[:2000])
    print("model:", vlib.run_model([mode], line + "\n")[1].strip()[:2000])
