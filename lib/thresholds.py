"""thresholds.py — size thresholds mined from the CURRENT source of /repo.

Every seeded change that hid behind a size (an array longer than 1024 elements, a bulk of 16 KiB, the 17th null array,
values between 4 KiB and 1 MiB, 64 KiB bulks) introduced or relied on an integer constant in the source.  The generators
therefore take their edge values not only from a fixed list but also from the integer constants that occur in the
non-test Go sources of the tree under test: for every constant v the sizes v-1, v, v+1 are explored (as array arity, bulk
length, repetition count or nesting depth, wherever it is feasible).  On the unchanged tree this adds nothing beyond the
fixed lists (its constants are the BASELINE below); on a changed tree a new constant widens the exploration by itself.
This only steers test generation for the correspondence run; no theorem depends on it."""
import os, re

_REPO = os.environ.get("VERIF_REPO", "/repo").rstrip("/")
ROOTS = [_REPO + "/redis", _REPO + "/examples"]
# integer constants of the pinned tree that are not sizes (bit widths, ports, unit conversions) or are already edges
BASELINE = {10, 64, 1000, 1024, 6060, 6379, 512 * 1024 * 1024}
LIT = r"(?:0[xX][0-9a-fA-F_]+|[0-9][0-9_]*)"
EXPR = re.compile(r"(?<![\w.])(%s(?:\s*(?:\*|<<)\s*%s)*)(?![\w.])" % (LIT, LIT))

def _strip(src):
    src = re.sub(r"/\*.*?\*/", " ", src, flags=re.S)
    out = []
    for line in src.splitlines():
        # drop // comments and string / rune literals (roughly: good enough to find numbers)
        line = re.sub(r'"(?:\\.|[^"\\])*"', '""', line)
        line = re.sub(r"`[^`]*`", '""', line)
        line = re.sub(r"'(?:\\.|[^'\\])+'", "' '", line)
        line = re.sub(r"//.*$", "", line)
        out.append(line)
    return "\n".join(out)

def _value(expr):
    toks = re.split(r"\s*(\*|<<)\s*", expr.replace("_", ""))
    try:
        v = int(toks[0], 0)
        for i in range(1, len(toks), 2):
            w = int(toks[i + 1], 0)
            if toks[i] == "*":
                v *= w
            else:
                if w > 40:
                    return None
                v <<= w
        return v
    except ValueError:
        return None

_cache = None

def mined():
    """integer constants (>= 4, <= 2^32) of the non-test Go sources of the tree under test"""
    global _cache
    if _cache is not None:
        return _cache
    vals = set()
    for root in ROOTS:
        for dp, _, fs in os.walk(root):
            for f in fs:
                if not f.endswith(".go") or f.endswith("_test.go"):
                    continue
                try:
                    src = _strip(open(os.path.join(dp, f), encoding="utf-8", errors="replace").read())
                except OSError:
                    continue
                for m in EXPR.finditer(src):
                    v = _value(m.group(1))
                    if v is not None and 4 <= v <= 1 << 32:
                        vals.add(v)
    _cache = sorted(vals)
    return _cache

def new_constants():
    return [v for v in mined() if v not in BASELINE]

def around(v):
    return [v - 1, v, v + 1]

def extend(base, lo, hi, limit=9):
    """base edge list + (v-1, v, v+1) for every newly mined constant v with lo <= v <= hi (at most `limit` new values,
    the smallest first: small thresholds are the cheap ones to explore)"""
    have = set(base)
    extra = []
    for v in new_constants():
        if lo <= v <= hi:
            for x in around(v):
                if x not in have and x >= 0:
                    have.add(x); extra.append(x)
        if len(extra) >= limit:
            break
    return list(base) + extra

# ---------------------------------------------------------------- string literals
STR = re.compile(r'"((?:\\.|[^"\\\n])*)"')
_scache = {}

def mined_strings(roots=None):
    """short string literals (1..40 bytes, no spaces at the ends, printable ASCII) of the non-test Go sources"""
    key = tuple(roots or ROOTS)
    if key in _scache:
        return _scache[key]
    vals = set()
    for root in key:
        for dp, _, fs in os.walk(root):
            for f in fs:
                if not f.endswith(".go") or f.endswith("_test.go"):
                    continue
                try:
                    src = open(os.path.join(dp, f), encoding="utf-8", errors="replace").read()
                except OSError:
                    continue
                src = re.sub(r"/\*.*?\*/", " ", src, flags=re.S)
                for line in src.splitlines():
                    line = re.sub(r"//.*$", "", line) if '"' not in line.split("//")[0] or line.count('"') % 2 == 0 else line
                    if line.lstrip().startswith(("import", "package")) or re.match(r'\s*"[\w./-]+"\s*$', line):
                        continue
                    for m in STR.finditer(line):
                        v = m.group(1)
                        if "\\" in v or "%" in v:
                            continue
                        if 1 <= len(v) <= 40 and v == v.strip() and all(32 < ord(ch) < 127 for ch in v):
                            vals.add(v)
    _scache[key] = sorted(vals)
    return _scache[key]

def new_strings(limit=12):
    """string literals the pinned tree does not have (lib/baseline_strings.json): new configuration keys, option words, magic values"""
    import json
    try:
        base = set(json.load(open(os.path.join(os.path.dirname(__file__), "baseline_strings.json"))))
    except Exception:
        return []
    return [v for v in mined_strings() if v not in base][:limit]

# ---------------------------------------------------------------- durations
UNIT = dict(Nanosecond=1e-9, Microsecond=1e-6, Millisecond=1e-3, Second=1.0, Minute=60.0, Hour=3600.0)
DUR1 = re.compile(r"(?<![\w.])(%s)\s*\*\s*time\.(Nanosecond|Microsecond|Millisecond|Second|Minute|Hour)\b" % LIT)
DUR2 = re.compile(r"\btime\.(Nanosecond|Microsecond|Millisecond|Second|Minute|Hour)\s*\*\s*(%s)(?![\w.])" % LIT)

def mined_durations():
    """literal durations (seconds) written in the non-test Go sources of the tree under test, e.g. 30 * time.Second; the pinned
    tree has none (its only uses of time units convert command arguments), so every one found is new: a deadline, a timeout, a
    keep-alive or a linger time somebody introduced"""
    vals = set()
    for root in ROOTS:
        for dp, _, fs in os.walk(root):
            for f in fs:
                if not f.endswith(".go") or f.endswith("_test.go"):
                    continue
                try:
                    src = _strip(open(os.path.join(dp, f), encoding="utf-8", errors="replace").read())
                except OSError:
                    continue
                for m in DUR1.finditer(src):
                    v = _value(m.group(1))
                    if v:
                        vals.add(v * UNIT[m.group(2)])
                for m in DUR2.finditer(src):
                    v = _value(m.group(2))
                    if v:
                        vals.add(v * UNIT[m.group(1)])
    return sorted(vals)

def idle_times(tier):
    """how long an idle connection is left alone before it is used again: a little longer than every duration of the source
    (up to 90 s); the thorough tier always includes 35 s (beyond the customary 30 s limits)"""
    ts = sorted({int(d) + 2 for d in mined_durations() if 0.2 <= d <= 90})
    if tier != "quick" and not any(t >= 35 for t in ts):
        ts.append(35)
    return ts[-2:]

def summary():
    return dict(mined_constants=mined(), new_constants=new_constants(), new_strings=new_strings(), durations=mined_durations())

if __name__ == "__main__":
    print(summary())
