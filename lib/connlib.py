"""connlib — cases for the connection harness, observation parsing, normalisation, model correspondence and
the model-free monitors shared by C03 C04 C05 C07 C08 C10 C11 C13 C19 C20."""
import re
import vlib

def hx(b):
    return bytes(b).hex() if len(b) else "-"

def unhx(s):
    return b"" if s == "-" else bytes.fromhex(s)

def mkcase(steps, pw=None, app=(), tbl=None, default=None, conns=1, trace=True, handler=None, tls=None, rule=None, prep=None, cfail=None, authvia=None):
    f = ["pw=" + ("-" if pw is None else "h" + hx(pw)),
         "app=" + (",".join(hx(a) for a in app) if app else "-"),
         "tbl=" + (";".join("%s=%s" % (k, v) for k, v in tbl.items()) if tbl else "-"),
         "def=" + (default or "ms(4f4b)"), "conns=%d" % conns, "trace=%d" % (1 if trace else 0),
         "steps=" + (";".join("%d:%s" % (c, op) for c, op in steps) if steps else "-")]
    if handler:
        f.insert(0, "handler=" + handler)
    if tls:
        f.append("tls=" + ",".join(tls))          # per connection: p | n | c<hex common name>
    if rule is not None:
        f.append("rule=" + hx(rule))
    if prep:
        f.append("prep=" + prep)
    if authvia:
        f.append("authvia=" + authvia)
    if cfail:
        f.append("cfail=" + ",".join("1" if x else "0" for x in cfail))
    return " ".join(f)

class Obs:
    """parsed observation of one case: per connection (result, events)"""
    def __init__(self, text):
        self.raw = text
        self.conns = []
        self.final = None
        if text is None:
            return
        for part in text.split(";;"):
            if part.startswith("final="):
                self.final = int(part[6:])
            elif part.startswith("conn"):
                head, _, evs = part.partition("|")
                res = head.split("=", 1)[1]
                self.conns.append((res, merge_writes([e for e in evs.split("~") if e])))

def merge_writes(evs):
    """a Write that waited for a stalled client is logged in two parts (WP = what the socket buffers took, WC = the rest after the
    client read again): present it as the one write it was.  A WP that was never completed (deadline, client gone) stays visible
    as WPART: the client received a truncated frame."""
    out, pend = [], None          # pend = index in out of an uncompleted partial write
    for e in evs:
        if e.startswith("WP@"):
            head, payload = e.split(":", 1)
            out.append("WPART@%s:%s" % (head.split("@")[1], payload or "-"))
            pend = len(out) - 1
            continue
        if e.startswith("WC@") and pend is not None:
            pos, first = out[pend][6:].split(":", 1)
            rest = e.split(":", 1)[1]
            out[pend] = "W@%s:%s" % (pos, (("" if first == "-" else first) + ("" if rest == "-" else rest)) or "-")
            pend = None
            continue
        out.append(e)
    return out

ERR_MODEL = "W:2d4552520d0a"      # the model's placeholder text for framework-generated errors: -ERR\r\n
MAPORDER = {hx(b"MSET"), hx(b"MSETNX"), hx(b"HMSET")}

def norm_events(evs, is_model, model_evs=None):
    """project an event list onto what model and implementation are compared on"""
    out = []
    for e in evs:
        if e in ("Q", "REG", "DEREG", "STOP-RET") or e.startswith("!") or e.startswith("I:") or e.startswith("T:"):
            if e.startswith("!"):
                out.append(e)
            continue
        if e.startswith("W@") or e.startswith("WX@"):
            e = "W:" + e.split(":", 1)[1]
        elif e.startswith("WPART@"):
            e = "WPART:" + e.split(":", 1)[1]
        elif e.startswith("C:") and not is_model and e.count(":") >= 5 and re.match(r"C:-?\d+:[01]:[^:]*:[01]:", e):
            p = e.split(":", 5)           # C db auth tok reg text
            e = "C:%s:%s:%s" % (p[1], p[2], p[5])
        out.append(e)
    # sort handler calls inside map-iterating commands; MSETNX probes (Get) are order dependent: dropped
    res, i = [], 0
    while i < len(out):
        e = out[i]
        if e.startswith("SS:") and e[3:] in MAPORDER:
            j = i + 1
            calls = []
            while j < len(out) and out[j].startswith("C:"):
                calls.append(out[j]); j += 1
            if e[3:] == hx(b"MSETNX"):
                calls = [c for c in calls if ":Get(" not in c]
            res.append(e); res += sorted(calls); i = j
        else:
            res.append(e); i += 1
    return res

EXP_RE = re.compile(r"Expire\(([0-9a-f-]+),t=(-?\d+);(-?\d+),")
EXPM_RE = re.compile(r"Expire\(([0-9a-f-]+),(rel|abs)=(-?\d+),")

def align_pair(ie, me):
    """returns (impl', model') with unmodelled details aligned: error texts of framework errors, EXPIRE time base"""
    a, b = list(ie), list(me)
    for i in range(min(len(a), len(b))):
        x, y = a[i], b[i]
        if y == ERR_MODEL and x.startswith("W:2d") and x.endswith("0d0a"):
            a[i] = b[i] = "W:<error>"
        elif x.startswith("WPART:") and y.startswith("W:") and y[2:].startswith("" if x[6:] == "-" else x[6:]):
            a[i] = b[i]           # the transport failed inside this write: the client got a prefix of the frame
        elif x.startswith("C:") and y.startswith("C:") and x != y and ":Scan(" in y:
            # glob patterns are modelled on ASCII only (Go ranges over runes: invalid UTF-8 becomes U+FFFD)
            mm = re.search(r"match=([0-9a-f]+)", y)
            if mm and any(c >= 0x80 for c in bytes.fromhex(mm.group(1))):
                a[i] = re.sub(r"match=[0-9a-f]+", "match=NONASCII", x)
                b[i] = re.sub(r"match=[0-9a-f]+", "match=NONASCII", y)
        elif x.startswith("C:") and y.startswith("C:") and x != y and "/" in x and "/" in y:
            a[i], b[i] = align_rationals(x, y)
        elif x.startswith("C:") and "Expire(" in x and "Expire(" in y:
            mx, my = EXP_RE.search(x), EXPM_RE.search(y)
            if mx and my:
                unix, delta = int(mx.group(2)), int(mx.group(3))
                kind, n = my.group(2), int(my.group(3))
                okk = (abs(delta - n) <= 2) if kind == "rel" else (unix == n)
                if okk:
                    a[i] = EXP_RE.sub("Expire(\\1,T,", x)
                    b[i] = EXPM_RE.sub("Expire(\\1,T,", y)
    return a, b

RAT_RE = re.compile(r"(?<![0-9a-f])-?\d+/\d+")

def align_rationals(x, y):
    """float arguments: the model carries the exact decimal value of the token, the implementation the float64 strconv
    produced; they agree when the float64 is the correctly rounded value of the exact rational"""
    from fractions import Fraction
    rx, ry = RAT_RE.findall(x), RAT_RE.findall(y)
    if not rx or len(rx) != len(ry) or RAT_RE.sub("R", x) != RAT_RE.sub("R", y):
        return x, y
    for a, b in zip(rx, ry):
        fa, fb = Fraction(a), Fraction(b)
        if fa != fb:
            try:
                if Fraction(float(fb)) != fa:
                    return x, y
            except OverflowError:
                return x, y
    return RAT_RE.sub("R", x), RAT_RE.sub("R", y)

def diff_pos(a, b):
    for i in range(max(len(a), len(b))):
        if i >= len(a) or i >= len(b) or a[i] != b[i]:
            return i
    return -1

def correspond(iobs, mobs):
    """None if the implementation's observation equals the model's on the compared projection, else a description"""
    if len(iobs.conns) != len(mobs.conns):
        return "different number of connections"
    traced = any(e == "RS" for _, evs in iobs.conns for e in evs)    # the tracer double is installed for single-connection cases only
    def nospan(evs, is_model):
        if traced:
            return evs
        # without command spans the calls of a map-iterating command cannot be delimited: sort each run of calls between replies
        out, run = [], []
        for e in evs:
            if e in ("RS", "RF", "SF") or e.startswith("SS:") or e.startswith("I:") or e.startswith("T:"):
                continue
            if e.startswith("C:"):
                p = e.split(":", 5)
                run.append(e if is_model else "C:%s:%s:%s" % (p[1], p[2], p[5]))
            else:
                out += sorted(run); run = []
                out.append(e)
        return out + sorted(run)
    for ci, ((ires, ievs), (mres, mevs)) in enumerate(zip(iobs.conns, mobs.conns)):
        if ires.split("(")[0] != mres.split("(")[0]:
            return "conn%d result impl=%s model=%s" % (ci, ires, mres)
        a, b = align_pair(norm_events(nospan(ievs, False), not traced), norm_events(nospan(mevs, True), True))
        p = diff_pos(a, b)
        if p >= 0:
            return "conn%d event %d: impl=%s model=%s (impl tail %s | model tail %s)" % (
                ci, p, a[p] if p < len(a) else "<none>", b[p] if p < len(b) else "<none>", ",".join(a[max(0, p - 2):p + 3])[:300], ",".join(b[max(0, p - 2):p + 3])[:300])
    return None

# ---------------------------------------------------------------- strict RESP2 decoder (independent of the model)
def strict_decode(data, pos=0, depth=0):
    """returns (value, newpos) or raises ValueError; accepts exactly RESP2: +/-/: lines without CR or LF inside,
    $len payload CRLF with canonical non-negative decimal length or $-1, *count elements or *-1"""
    if pos >= len(data):
        raise ValueError("empty")
    t = data[pos:pos + 1]
    end = data.find(b"\r\n", pos)
    if end < 0:
        raise ValueError("no CRLF")
    line = data[pos + 1:end]
    if t in (b"+", b"-", b":"):
        if b"\r" in line or b"\n" in line:
            raise ValueError("CR/LF inside line")
        if t == b":" and not re.fullmatch(rb"[+-]?\d+", line):
            return ("i?", line), end + 2     # integer reply with a non-integer payload: framed, reported separately
        return (t.decode(), line), end + 2
    if t == b"$":
        if line == b"-1":
            return ("$", None), end + 2
        if not re.fullmatch(rb"0|[1-9]\d*", line):
            raise ValueError("bad bulk length %r" % line)
        n = int(line)
        if data[end + 2 + n:end + 4 + n] != b"\r\n" or len(data) < end + 4 + n:
            raise ValueError("bulk payload/terminator")
        return ("$", data[end + 2:end + 2 + n]), end + 4 + n
    if t == b"*":
        if line == b"-1":
            return ("*", None), end + 2
        if not re.fullmatch(rb"0|[1-9]\d*", line):
            raise ValueError("bad array count %r" % line)
        n = int(line)
        p = end + 2
        items = []
        for _ in range(n):
            v, p = strict_decode(data, p, depth + 1)
            items.append(v)
        return ("*", items), p
    raise ValueError("bad type byte %r" % t)

def writes_of(evs):
    """[(delivered_offset, payload bytes, failed?)]"""
    out = []
    for e in evs:
        if e.startswith("W@") or e.startswith("WX@") or e.startswith("WPART@"):
            head, payload = e.split(":", 1)
            out.append((int(head.split("@")[1]), unhx(payload), "partial" if e.startswith("WPART") else e.startswith("WX")))
        elif e.startswith("W:"):                     # model events carry no delivery offset
            out.append((-1, unhx(e[2:]), False))
    return out

def calls_of(evs):
    """handler calls as (db, auth, tok, registered, text)"""
    out = []
    for e in evs:
        if e.startswith("C:"):
            p = e.split(":", 5)
            out.append((int(p[1]), p[2] == "1", p[3], p[4] == "1", p[5]))
    return out

def monitor_frames(evs):
    """C04: every write is exactly one strictly well-formed RESP2 value. Returns error text or None."""
    ws = writes_of(evs)
    for wi, (off, payload, failed) in enumerate(ws):
        if failed == "partial" and not payload:
            continue                  # nothing of this reply reached the client (a lost reply is C03's subject, not a malformed stream)
        if failed == "partial":
            # the transport stopped taking bytes inside a frame: the stream may END there, nothing may follow the truncated frame
            later = [w for w in ws[wi + 1:] if w[2] is False or w[2] == "partial"]
            if later:
                return "a reply frame was cut short after %d bytes (%r...) and the server went on writing %r behind it" % (len(payload), payload[:30], later[0][1][:60])
            continue
        try:
            v, p = strict_decode(payload)
        except ValueError as ex:
            return "write %r is not a well-formed RESP value (%s)" % (payload[:80], ex)
        if p != len(payload):
            return "write %r carries more than one frame / trailing bytes" % payload[:80]
    return None

def monitor_spans(evs):
    """C20: span events balanced. Returns error text or None."""
    root_open = False
    depth = 0
    for e in evs:
        if e.startswith("!") and e != "!HANG":
            return "tracer double reports %s" % e
        if e == "RS":
            if root_open:
                return "root span started while the previous root is still open"
            root_open, depth = True, 0
        elif e.startswith("SS:"):
            if not root_open:
                return "child span %s started outside a root span" % unhx(e[3:])
            depth += 1
        elif e == "SF":
            if depth <= 0:
                return "child span finished that was not open"
            depth -= 1
        elif e == "RF":
            if not root_open:
                return "root span finished twice / without start"
            if depth != 0:
                return "root span finished with %d child span(s) still open" % depth
            root_open = False
    if root_open:
        return "root span left open at the end of the connection"
    return None

def monitor_release(res, evs, final):
    """C11/C19: the loop returned, the socket was closed, the registry is empty"""
    if res != "ret":
        return "connection loop did not return normally: %s" % res
    if "CLOSE" not in evs:
        return "socket was not closed"
    if final not in (0, None):
        return "connection registry holds %s entries after the connection ended" % final
    return None
