from lifeprops import run_c19 as run, replay
