"""C14 — no data races in server state shared between connections: (a) the access table is regenerated from the Go source
by the lockset translator and the Coq checker's verdict on it is re-proved (coq/gen/Access.v); (b) concurrent workloads
run under the Go race detector as the failing-schedule search and as validation of the translator."""
import glob, json, os, re, shutil, subprocess, tempfile
import vlib
from vlib import Check
from connprops import prep, replay  # noqa: F401

def regenerate_table(chk, which="Access"):
    """returns (rows, coq_ok, coq_output).  rows: list of dict(loc, role, write, locks{name:excl}, own, where)"""
    with vlib.build_lock():          # the translator writes coq/gen/*.v: one process at a time (C14 and C16 both regenerate)
        return _regenerate_table(chk, which)

def _regenerate_table(chk, which="Access"):
    scratch = tempfile.mkdtemp(prefix="verif_ls_", dir="/var/tmp")
    try:
        subprocess.check_call(["rsync", "-a", "--exclude", ".git", vlib.REPO.rstrip("/") + "/", scratch + "/"])
        exe = os.path.join(vlib.BUILD, "lockset")
        src = os.path.join(vlib.ROOT, "lockset")
        if not os.path.exists(exe) or os.path.getmtime(exe) < os.path.getmtime(os.path.join(src, "main.go")):
            rc, o, _ = vlib.sh(["go", "build", "-o", exe, "."], cwd=src, env=vlib.GOENV, timeout=600)
            if rc != 0:
                return None, False, "translator build failed: " + o[-500:]
        os.makedirs(os.path.join(vlib.COQ, "gen"), exist_ok=True)
        rc, o, _ = vlib.sh([exe, scratch, os.path.join(vlib.COQ, "gen", "Access.v")], env=vlib.GOENV, timeout=600)
        if rc != 0:
            return None, False, "translator failed on the tree: " + o[-800:]
    finally:
        shutil.rmtree(scratch, ignore_errors=True)
    rows = []
    WG_MISUSE[:] = []
    for l in o.splitlines():
        f = l.split("\t")
        if len(f) == 2 and f[0] == "WGMISUSE":
            WG_MISUSE.append(f[1])
        if len(f) != 6:
            continue
        locks = {}
        for item in filter(None, f[3].split(",")):
            k, m = item.rsplit(":", 1)
            locks[k] = (m == "W")
        rows.append(dict(loc=f[0], role=f[1], write=f[2] == "true", locks=locks, own=f[4] == "true", where=f[5]))
    rc, co, _ = vlib.sh(["coqc", "-Q", "theories", "GR", "-Q", "gen", "GRG", "gen/" + which + ".v"], cwd=vlib.COQ, timeout=900)
    return rows, rc == 0, co

WG_MISUSE = []      # sync.WaitGroup.Add calls inside a function started with `go` (from the last translator run)

def pair_ok(a, b):
    """the same predicate as Lockset.pair_ok (used only to NAME the offending pair when the Coq obligation fails)"""
    if a["loc"] != b["loc"] or not (a["write"] or b["write"]):
        return True
    if a["role"] == "api" and b["role"] == "api":
        return True
    if a["own"] and b["own"]:
        return True
    for k, ma in a["locks"].items():
        if k in b["locks"]:
            mb = b["locks"][k]
            if (ma or not a["write"]) and (mb or not b["write"]) and (ma or mb):
                return True
    return False

RACE_RE = re.compile(r"WARNING: DATA RACE.*?(?:==================\n|\Z)", re.S)

def race_reports(text):
    out = []
    for m in RACE_RE.finditer(text):
        rep = m.group(0)
        frames = re.findall(r"\n\s+(github\.com/cybergarage/go-redis/[^\s(]+)\(.*?\)\n\s+([^\s:]+\.go):(\d+)", rep)
        fw = [(fn, os.path.basename(fl), ln) for fn, fl, ln in frames if "/harness/" not in fl and "verif" not in fl]
        if fw:
            out.append((rep, fw))
    return out

def stress(chk, secs, clients, seed, runs):
    """concurrent workloads under the race detector; returns (reports, stats)"""
    ok, o = vlib.build_harness(race=True)
    if not ok:
        chk.violation("harness-build", "the race-enabled harness does not build: " + o[-400:], dict(stage="build"), True)
        return [], {}
    reports, stats = [], dict(ops=0, restarts=0, runs=0)
    from concurrent.futures import ThreadPoolExecutor
    env = dict(os.environ, GORACE="halt_on_error=0")
    def one(i):
        return vlib.sh([os.path.join(vlib.BUILD, "harness_race"), "racestress", str(secs), str(clients[i % len(clients)]), str(seed * 100 + i)], timeout=secs * 20 + 120, env=env)
    with ThreadPoolExecutor(max_workers=min(runs, 4)) as ex:
        for rc, out, _ in ex.map(one, range(runs)):
            reports += race_reports(out)
            for l in out.splitlines():
                if l.startswith("{"):
                    try:
                        d = json.loads(l); stats["ops"] += d.get("ops", 0); stats["restarts"] += d.get("restarts", 0); stats["runs"] += 1
                    except Exception:
                        pass
            if rc not in (0, 66) and "DATA RACE" not in out:
                chk.violation("stress-abort", "the concurrent workload aborted (status %s): %s" % (rc, out[-600:].replace("\n", " | ")), dict(output=out[-4000:]),
                              no_failing_input="fatal error" not in out and "panic" not in out)
    return reports, stats

def run_c14(tier, seed):
    chk = Check("C14", tier, seed)
    broken = prep(chk, "C14")
    rows, coq_ok, co = regenerate_table(chk)
    bad_pairs = []
    if rows is None:
        broken = (broken or "") + " " + co
        rows = []
    else:
        # the translator must have seen the server: an empty or tiny table would make the obligation vacuous
        core = {"Config.params", "ConnManager.m", "AuthManager.authenticators", "Conn.isClosed", "Server.portListener", "Server.stopping", "handler-state"}
        missing = core - {r["loc"] for r in rows}
        if len(rows) < 60 or missing:
            broken = (broken or "") + " the lockset translator produced an implausible table (%d rows, missing %s)" % (len(rows), sorted(missing))
        frows = [r for r in rows if r["loc"] != "handler-state"]      # calls into the application's handler are C16's obligation
        for i, a in enumerate(frows):
            for b in frows[i:]:
                if not pair_ok(a, b):
                    bad_pairs.append((a, b))
    secs, runs, clients = (6, 2, [8, 24]) if tier == "quick" else (30, 8, [2, 4, 8, 16, 32])
    reports, stats = stress(chk, secs, clients, seed, runs)
    seen = set()
    for rep, fw in reports:
        sig = "race:" + "|".join(sorted({"%s:%s" % (f[1], f[2]) for f in fw})[:4])
        if sig in seen:
            continue
        seen.add(sig)
        chk.violation(sig, "the race detector reports a data race in the framework: %s" % " ; ".join("%s (%s:%s)" % f for f in fw[:6]), dict(report=rep[:6000], frames=fw[:12],
                      note="also in the static table as a failing pair" if bad_pairs else "the static table passed this pair: the translator missed an access or a lock region"))
    if WG_MISUSE and not chk.violations:
        chk.violation("waitgroup-add-in-goroutine", "sync.WaitGroup.Add for a goroutine is executed inside that goroutine: %s - a concurrent Wait (Stop) can pass before the Add, so Stop returns while "
                      "the goroutine is still starting (theorem Access.wg_discipline_ok fails); the race detector found no report in %d workload runs" % ("; ".join(WG_MISUSE[:4]), stats.get("runs", 0)),
                      dict(broken="GRG.Access.wg_discipline_ok (wg_add_in_spawned = [])", sites=WG_MISUSE[:10]), True)
    if (not coq_ok or bad_pairs) and not chk.violations:
        if bad_pairs:
            a, b = bad_pairs[0]
            desc = "%s: %s by %s in %s holding {%s}  vs  %s by %s in %s holding {%s}" % (
                a["loc"], "write" if a["write"] else "read", a["role"], a["where"], ",".join("%s:%s" % (k, "W" if v else "R") for k, v in a["locks"].items()),
                "write" if b["write"] else "read", b["role"], b["where"], ",".join("%s:%s" % (k, "W" if v else "R") for k, v in b["locks"].items()))
            chk.violation("lockset:" + a["loc"], "the access table regenerated from the source no longer satisfies the lock discipline (theorem Access.table_ok fails): %d conflicting pair(s) without a "
                          "common lock, e.g. %s; the race detector found no race in %d workload runs" % (len(bad_pairs), desc, stats.get("runs", 0)),
                          dict(broken="GRG.Access.table_ok (check table = true)", pairs=[dict(a=x, b=y) for x, y in bad_pairs[:10]], coq=co[-1500:]), True)
        else:
            chk.violation("proof-broken", "coq/gen/Access.v does not compile: " + co[-600:], dict(broken="GRG.Access.table_ok", coq=co[-3000:]), True)
    if broken and not chk.violations:
        chk.violation("proof-broken", broken, dict(broken=broken, theorem="GRP.C14"), True)
    shared = sorted({r["loc"] for r in rows})
    chk.coverage["obligations"] = chk.coverage.get("obligations", 1) + 1
    chk.coverage["discharged"] = chk.coverage.get("discharged", 0) + (1 if (coq_ok and not bad_pairs) else 0)
    chk.coverage["theorems"] = chk.coverage.get("theorems", []) + ["Access.table_ok (regenerated)"]
    chk.coverage.update(
        evaluations=len(rows) + stats.get("ops", 0), distinct_nontrivial=len(shared),
        rule="(a) translation: %d access rows over %d shared locations (struct fields of packages redis and redis/auth, plus the pseudo-location handler-state for every call into the application's "
             "handler) regenerated from the current source; roles api / accept / conn; `check table = true` re-proved by vm_compute and every pair re-examined in Python to name a failing pair; "
             "(b) %d concurrent workload runs of %d s under the Go race detector with %s clients mixing every command family, CONFIG SET/GET, TLS and plain connection churn with FIN / RST / QUIT "
             "endings, registry enumeration with Close of enumerated connections, and a Restart every 250 ms; any report with a framework frame counts; non-trivial = shared locations" % (
                 len(rows), len(shared), runs, secs, "/".join(map(str, clients))),
        traces_validated_against_impl=stats.get("runs", 0), programs=1, disagreements_checked=len(bad_pairs),
        input_distribution=dict(stats, rows_by_role={ro: sum(1 for r in rows if r["role"] == ro) for ro in ("api", "accept", "conn")}),
        samples=[dict(loc=r["loc"], role=r["role"], write=r["write"], locks=r["locks"], where=r["where"]) for r in rows[::max(1, len(rows) // 5)]][:5])
    chk.coverage["trusted_base"] += [
        "the lockset translator (/verif/lockset: syntactic lock regions, static call graph with executor and interface dispatch over-approximated, intersection over call sites; configuration setters "
        "called before Start are not a role) is trusted to list every access with locks that are really held; it is validated, not proved, by the race detector runs",
        "Go's sync.Mutex / sync.RWMutex implement the mutex semantics of Lockset.step_ok; the Go memory model makes release->acquire a happens-before edge"]
    chk.assumptions = ["the API (Start/Stop/Restart/Conns/ConnByUUID) is called from one thread at a time", "configuration setters are called before Start"]
    chk.finish()
