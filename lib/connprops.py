"""C03 C04 C05 C07 C10 C11 C19 C20 — single-connection properties over the connection harness."""
import json, os, random
import vlib, connlib as L, cmdgen as G
from vlib import Check

HRES_POOL = ["ms(4f4b)", "mi(31)", "mb(76616c)", "mn", "ma[b(61),b(62)]", "ma[]", "n", "e" + L.hx(b"boom"), "e" + L.hx(b"bad\r\n+OK\r\n"),
             "ms(" + L.hx(b"x\r\n:1\r\n") + ")", "me(" + L.hx(b"ERR y\r\n$-1\r\n") + ")", "mi(" + L.hx(b"12\r\n+OK") + ")",
             "bs(4f4b)|" + L.hx(b"both"), "ma[a[b(61)],n,i(37)]", "mb(" + L.hx(b"\r\n\x00$") + ")", "mb(-)", "ma[b(6b31),b(7631),b(6b32),b(7632)]",
             "ma[b(61),b(312e35),b(62),b(32)]", "mb(3432)", "mb(2d37)", "mb(" + L.hx(b"9223372036854775807") + ")", "mi(3432)", "ms(3432)", "q"]

def prep(chk, pid):
    broken = vlib.standard_proof_stage(chk, pid)
    ok, o = vlib.build_model()
    if not ok:
        broken = (broken or "") + " model build failed: " + o[-400:]
    ok, o = vlib.build_harness()
    if not ok:
        chk.violation("harness-build", "harness does not build against the tree: " + o[-600:], dict(stage="build"), True)
        chk.finish()
    return broken

def run_cases(chk, cases, shards=14):
    """cases: list of dict(line=..., meta...). Adds 'iobs','mobs' to each. Reports lost lines."""
    lines = [c["line"] for c in cases]
    impl, model, failures = vlib.run_pair("conn", [], lines, shards=shards, timeout=900)
    for which, lo, hi, rc, tail in failures:
        if which == "model":
            chk.violation("model-run-failure", "modelrun failed rc=%s: %s" % (rc, tail[-300:]), dict(stage="model"), True)
        else:
            # the harness process died: attribute to a case by re-running the shard's cases one by one
            culprit = None
            for c in cases[lo:hi]:
                rc1, o1, _ = vlib.run_harness(["conn"], c["line"] + "\n", timeout=60)
                if rc1 != 0 or not o1.strip():
                    culprit = (c, rc1, o1)
                    break
            if culprit:
                c, rc1, o1 = culprit
                chk.violation("process-abort", "the server process aborted (rc=%s) while serving: %s :: %s" % (rc1, c.get("desc", c["line"][:200]), o1[-400:].replace("\n", " | ")),
                              dict(case=c["line"], desc=c.get("desc"), rc=rc1, output=o1[-3000:]))
            else:
                chk.violation("harness-failure", "harness shard failed rc=%s: %s" % (rc, tail[-300:]), dict(stage="run"), True)
    for c, a, m in zip(cases, impl, model):
        c["iobs"] = L.Obs(a) if a is not None else None
        c["mobs"] = L.Obs(m) if m is not None else None
    return [c for c in cases if c["iobs"] is not None and c["mobs"] is not None and c["iobs"].conns]

def basic_monitors(chk, pid, c, want=("hang", "panic")):
    """hang / panic of the connection loop are violations of several properties at once; report under pid"""
    o = c["iobs"]
    for ci, (res, evs) in enumerate(o.conns):
        if res.startswith("PANIC") and "panic" in want:
            chk.violation("panic", "a panic escaped the connection loop: %s :: %s" % (res, c.get("desc", "")), dict(case=c["line"], desc=c.get("desc"), result=res))
            return False
        if (res == "HANG" or "!HANG" in evs) and "hang" in want:
            chk.violation("hang", "the connection neither answers nor reads on: %s" % c.get("desc", ""), dict(case=c["line"], desc=c.get("desc")))
            return False
    return True

def corr(chk, c, sig="corr-conn"):
    d = L.correspond(c["iobs"], c["mobs"])
    if d:
        chk.violation(sig, "correspondence (Conn.serve vs receive): %s :: %s" % (d[:400], c.get("desc", "")),
                      dict(case=c["line"], desc=c.get("desc"), diff=d, impl=c["iobs"].raw[:3000], model=c["mobs"].raw[:3000]))
        return False
    return True

def req_desc(name, args):
    return (name if isinstance(name, str) else name.decode("latin1")) + " " + " ".join("<null>" if a is None else repr(a)[2:-1] for a in args)

HRES_NOERR = [h for h in HRES_POOL if h[0] in "mn"]
MAPCMDS = ("MSET", "MSETNX", "HMSET")

def has_mapcmd(reqs):
    return any(isinstance(nm, str) and nm.upper() in MAPCMDS for nm, _ in reqs)

def rand_table(rng, keys=(b"k", b"key:1", b"", b"K"), noerr=False):
    """noerr: commands that iterate over a Go map stop at the first handler error, in map order; their cases use
    only non-error handler results so the observable does not depend on that order"""
    tbl = {}
    pool = HRES_NOERR if noerr else HRES_POOL
    for _ in range(rng.randint(0, 4)):
        m = rng.choice(["Get", "Set", "HGet", "HGetAll", "SMembers", "ZRange", "ZRangeByScore", "Del", "LPop"])
        tbl["%s:%s" % (m, L.hx(rng.choice(keys)))] = rng.choice(pool)
    return tbl

def any_request(rng):
    """(name, args) of any registered command: valid, or with junk/missing/surplus arguments"""
    r = rng.random()
    if r < 0.45:
        name, args, _ = G.gen_direct(rng)
    elif r < 0.7:
        name, args = G.gen_derived(rng)
    elif r < 0.8:
        name, args = G.gen_system(rng)
    else:
        name = rng.choice(G.DIRECT + G.DERIVED + ["PING", "ECHO", "SELECT", "CONFIG", "NOSUCH", "", "get\r\n+OK"])
        args = [rng.choice([b"k", b"1", b"NX", b"abc", b"", b"-1", b"WITHSCORES", b"LIMIT", b"0", b"EX", b"MATCH", b"(1", b"2.5", b"9223372036854775807"])
                for _ in range(rng.randint(0, 5))]
    m = rng.random()
    if m < 0.08 and args:
        args = args[:rng.randrange(len(args))]
    elif m < 0.14:
        args = list(args) + [rng.choice([b"extra", b"NX", b"1"])]
    elif m < 0.18 and args:
        args = list(args); args[rng.randrange(len(args))] = rng.choice([b"", b"abc", b"-1", b"\xff"])
    return name, list(args)

def chunk_ops(rng, data, mode):
    """steps delivering `data` on connection 0 with a given chunking, ending in an f (wait for quiescence)"""
    if mode == "whole" or len(data) < 2:
        return [(0, "f" + L.hx(data))]
    if mode == "1byte":
        ops = [(0, "g" + L.hx(data[i:i + 1])) for i in range(len(data) - 1)]
        return ops + [(0, "f" + L.hx(data[-1:]))]
    cuts = sorted(set(rng.randrange(1, len(data)) for _ in range(rng.randint(1, 4))))
    parts = [data[a:b] for a, b in zip([0] + cuts, cuts + [len(data)])]
    return [(0, "g" + L.hx(p)) for p in parts[:-1]] + [(0, "f" + L.hx(parts[-1]))]

# ------------------------------------------------------------------------------------------ C03
def run_c03(tier, seed):
    chk = Check("C03", tier, seed)
    broken = prep(chk, "C03")
    rng = random.Random(seed)
    cases = []
    n = 1500 if tier == "quick" else 20000
    cmds = {}
    # systematic: every registered command x {no args, 1..4 plain args, option-flag words}
    sysargs = [[], [b"k"], [b"k", b"1"], [b"k", b"1", b"2"], [b"k", b"NX", b"1", b"a"], [b"k", b"v", b"EX"], [b"k", b"0", b"-1", b"WITHSCORES"],
               [b"k", b"1", b"a", b"2"], [b"k", b"XX", b"GT", b"CH", b"INCR", b"1", b"m"], [b"0", b"MATCH", b"*", b"COUNT", b"5"], [b"k", b"(1", b"+inf", b"LIMIT", b"0", b"1"]]
    for name in G.DIRECT + G.DERIVED + ["PING", "ECHO", "SELECT", "CONFIG", "AUTH", "NOSUCH"]:
        for a in sysargs:
            cases.append(dict(reqs=[(name, a)], line=None, chunk="whole", quit_at=None))
    for _ in range(n):
        k = rng.randint(1, 8)
        reqs = [any_request(rng) for _ in range(k)]
        quit_at = None
        if rng.random() < 0.15:
            quit_at = rng.randrange(k)
            reqs[quit_at] = (G.casing(rng, "QUIT"), [])
        cases.append(dict(reqs=reqs, line=None, chunk=rng.choice(["whole", "1byte", "kway", "kway", "pipeline"]), quit_at=quit_at))
    for c in cases:
        steps = []
        noerr = has_mapcmd(c["reqs"])
        tbl = rand_table(rng, noerr=noerr)
        if c["chunk"] == "pipeline":
            data = b"".join(G.request_bytes(nm, a) for nm, a in c["reqs"])
            steps = [(0, "f" + L.hx(data))]
        else:
            for nm, a in c["reqs"]:
                steps += chunk_ops(rng, G.request_bytes(nm, a), c["chunk"])
        steps.append((0, "e"))
        c["line"] = L.mkcase(steps, tbl=tbl, default=rng.choice(HRES_NOERR if noerr else HRES_POOL[:-1]))
        c["desc"] = " ; ".join(req_desc(nm, a) for nm, a in c["reqs"])[:300]
        for nm, _ in c["reqs"]:
            u = nm.upper() if isinstance(nm, str) else "?"
            cmds[u] = cmds.get(u, 0) + 1
    good = run_cases(chk, cases)
    validated, distinct = 0, set()
    for c in good:
        if not basic_monitors(chk, "C03", c):
            continue
        res, evs = c["iobs"].conns[0]
        reqs = c["reqs"]
        # a handler may itself return the QUIT sentinel (scripted 'q'); then the loop legitimately ends there
        nexp = len(reqs) if c["quit_at"] is None else c["quit_at"] + 1
        ws = L.writes_of(evs)
        ends, off = [], 0
        for nm, a in reqs:
            off += len(G.request_bytes(nm, a)); ends.append(off)
        handler_quit = ("q" in c["line"].split(" def=")[1].split(" ")[0][:1]) or "=q" in c["line"]
        if not handler_quit:
            if len(ws) != nexp:
                chk.violation("reply-count", "%d requests (QUIT at %s) got %d replies: %s" % (len(reqs), c["quit_at"], len(ws), c["desc"]),
                              dict(case=c["line"], desc=c["desc"], replies=[w[1].decode("latin1") for w in ws]))
                continue
            bad = [(i, w[0], ends[i]) for i, w in enumerate(ws) if w[0] != ends[i]]
            if bad:
                i, got, want = bad[0]
                chk.violation("reply-late", "reply %d was written after the server had read %d bytes, its request ends at %d (it waited for more input): %s" % (i, got, want, c["desc"]),
                              dict(case=c["line"], desc=c["desc"]))
                continue
            if c["quit_at"] is not None:
                if ws[-1][1] != b"+OK\r\n":
                    chk.violation("quit-reply", "QUIT was answered %r" % ws[-1][1], dict(case=c["line"], desc=c["desc"]))
                    continue
        # at every quiescent point (server asks for bytes that were not sent): replies written == requests delivered
        if c["chunk"] != "pipeline" and not handler_quit:
            nq, nw, okq = 0, 0, True
            for e in evs:
                if e.startswith("W@") or e.startswith("WX@"):
                    nw += 1
                elif e == "Q":
                    nq += 1
            # (the per-write offset test above is the precise form; Q events confirm the server went back to reading)
        if not corr(chk, c):
            continue
        validated += 1
        distinct.add(c["desc"])
    if broken and not chk.violations:
        chk.violation("proof-broken", broken, dict(broken=broken, theorem="GRP.C03"), True)
    chk.coverage.update(
        evaluations=len(cases), distinct_nontrivial=len(distinct),
        rule="every registered command x 11 systematic argument shapes (missing, surplus, option words), plus random pipelines of 1..8 requests "
             "(valid direct/derived/system requests, junk arguments, truncated and padded argument lists, unknown commands), QUIT at a random "
             "position in 15%, delivered whole / byte-by-byte / random k-way / fully pipelined, scripted handler results of every shape; "
             "non-trivial = distinct request sequence",
        traces_validated_against_impl=validated, input_distribution=dict(commands=dict(sorted(cmds.items(), key=lambda x: -x[1])[:40]), chunk_modes={m: sum(1 for c in cases if c["chunk"] == m) for m in ("whole", "1byte", "kway", "pipeline")}),
        samples=[c["desc"] for c in cases[::max(1, len(cases) // 6)]][:6])
    chk.assumptions = ["the handler returns (does not panic, does not block)", "command names are ASCII"]
    chk.finish()

def replay(path):
    r = json.load(open(path))["replay"]
    vlib.build_model(); vlib.build_harness()
    line = r.get("case")
    if not line:
        print("replay has no case line:", r); return
    print("impl :", vlib.run_harness(["conn"], line + "\n")[1].strip()[:6000])
    print("model:", vlib.run_model(["conn"], line + "\n")[1].strip()[:6000])
