"""C03 C04 C05 C07 C10 C11 C19 C20 — single-connection properties over the connection harness."""
import re
import json, os, random
import vlib, connlib as L, cmdgen as G
from vlib import Check

HRES_POOL = ["ms(4f4b)", "mi(31)", "mb(76616c)", "mn", "ma[b(61),b(62)]", "ma[]", "n", "e" + L.hx(b"boom"), "e" + L.hx(b"bad\r\n+OK\r\n"),
             "ms(" + L.hx(b"x\r\n:1\r\n") + ")", "me(" + L.hx(b"ERR y\r\n$-1\r\n") + ")", "mi(" + L.hx(b"12\r\n+OK") + ")",
             "bs(4f4b)|" + L.hx(b"both"), "ma[a[b(61)],n,i(37)]", "mb(" + L.hx(b"\r\n\x00$") + ")", "mb(-)", "ma[b(6b31),b(7631),b(6b32),b(7632)]",
             "ma[b(61),b(312e35),b(62),b(32)]", "mb(3432)", "mb(2d37)", "mb(" + L.hx(b"9223372036854775807") + ")", "mi(3432)", "ms(3432)",
             "mN", "ma[N,b(61),a[N]]",
             # line-type payloads that are not valid UTF-8 (Latin-1 text, binary keys echoed in an error): bytes are bytes on the reply side too
             "ms(" + L.hx(b"caf\xe9 \xff\xfe") + ")", "me(" + L.hx(b"ERR no such key caf\xe9") + ")", "e" + L.hx(b"bad key \xc3\x28 \x80"),
             "q"]

def prep(chk, pid):
    broken = vlib.standard_proof_stage(chk, pid)
    ok, o = vlib.build_model()
    if not ok:
        broken = (broken or "") + " model build failed: " + o[-400:]
    ok, o = vlib.build_harness()
    if not ok:
        chk.violation("harness-build", "harness does not build against the tree: " + o[-600:], dict(stage="build"), True)
        chk.finish()
    return broken

def run_cases(chk, cases, shards=14, henv=None, logged=False):
    """cases: list of dict(line=..., meta...). Adds 'iobs','mobs' to each. Reports lost lines.
    logged: every case is run a second time by a server process whose application installed a debug-level logger (code that runs
    only when logging is enabled must not change what a client sees); the copies are returned after the originals"""
    if logged:
        import copy, os
        twins = [dict(copy.copy(c), desc=str(c.get("desc", "")) + " [debug logging on]", logged=True) for c in cases]
        return run_cases(chk, cases, shards, henv) + run_cases(chk, twins, shards, dict(henv or os.environ, VERIF_LOG="debug"))
    lines = [c["line"] for c in cases]
    impl, model, failures = vlib.run_pair("conn", [], lines, shards=shards, timeout=900, henv=henv)
    for which, lo, hi, rc, tail in failures:
        if which == "model":
            chk.violation("model-run-failure", "modelrun failed rc=%s: %s" % (rc, tail[-300:]), dict(stage="model"), True)
        else:
            # the harness process died: attribute to a case by re-running the shard's cases one by one
            culprit = None
            for c in cases[lo:hi]:
                rc1, o1, _ = vlib.run_harness(["conn"], c["line"] + "\n", timeout=60)
                if rc1 != 0 or not o1.strip():
                    culprit = (c, rc1, o1)
                    break
            if culprit:
                c, rc1, o1 = culprit
                chk.violation("process-abort", "the server process aborted (rc=%s) while serving: %s :: %s" % (rc1, c.get("desc", c["line"][:200]), o1[-400:].replace("\n", " | ")),
                              dict(case=c["line"], desc=c.get("desc"), rc=rc1, output=o1[-3000:]))
            else:
                chk.violation("harness-failure", "harness shard failed rc=%s: %s" % (rc, tail[-300:]), dict(stage="run"), True)
    for c, a, m in zip(cases, impl, model):
        c["iobs"] = L.Obs(a) if a is not None else None
        c["mobs"] = L.Obs(m) if m is not None else None
    return [c for c in cases if c["iobs"] is not None and c["mobs"] is not None and c["iobs"].conns]

def basic_monitors(chk, pid, c, want=("hang", "panic")):
    """hang / panic of the connection loop are violations of several properties at once; report under pid"""
    o = c["iobs"]
    for ci, (res, evs) in enumerate(o.conns):
        if res.startswith("PANIC") and "panic" in want:
            chk.violation("panic", "a panic escaped the connection loop: %s :: %s" % (res, c.get("desc", "")), dict(case=c["line"], desc=c.get("desc"), result=res))
            return False
        if (res == "HANG" or "!HANG" in evs) and "hang" in want:
            chk.violation("hang", "the connection neither answers nor reads on: %s" % c.get("desc", ""), dict(case=c["line"], desc=c.get("desc")))
            return False
    return True

def corr(chk, c, sig="corr-conn"):
    d = L.correspond(c["iobs"], c["mobs"])
    if d:
        chk.violation(sig, "correspondence (Conn.serve vs receive): %s :: %s" % (d[:400], c.get("desc", "")),
                      dict(case=c["line"], desc=c.get("desc"), diff=d, impl=c["iobs"].raw[:3000], model=c["mobs"].raw[:3000]))
        return False
    return True

def req_desc(name, args):
    return (name if isinstance(name, str) else name.decode("latin1")) + " " + " ".join("<null>" if a is None else repr(a)[2:-1] for a in args)

HRES_NOERR = [h for h in HRES_POOL if h[0] in "mn"]
MAPCMDS = ("MSET", "MSETNX", "HMSET")

def has_mapcmd(reqs):
    return any(isinstance(nm, str) and nm.upper() in MAPCMDS for nm, _ in reqs)

def rand_table(rng, keys=(b"k", b"key:1", b"", b"K"), noerr=False):
    """noerr: commands that iterate over a Go map stop at the first handler error, in map order; their cases use
    only non-error handler results so the observable does not depend on that order"""
    tbl = {}
    pool = HRES_NOERR if noerr else HRES_POOL
    for _ in range(rng.randint(0, 4)):
        m = rng.choice(["Get", "Set", "HGet", "HGetAll", "SMembers", "ZRange", "ZRangeByScore", "Del", "LPop"])
        tbl["%s:%s" % (m, L.hx(rng.choice(keys)))] = rng.choice(pool)
    return tbl

def any_request(rng):
    """(name, args) of any registered command: valid, or with junk/missing/surplus arguments"""
    r = rng.random()
    if r < 0.45:
        name, args, _ = G.gen_direct(rng)
    elif r < 0.7:
        name, args = G.gen_derived(rng)
    elif r < 0.8:
        name, args = G.gen_system(rng)
    else:
        name = rng.choice(G.DIRECT + G.DERIVED + ["PING", "ECHO", "SELECT", "CONFIG", "NOSUCH", "", "get\r\n+OK"])
        args = [rng.choice([b"k", b"1", b"NX", b"abc", b"", b"-1", b"WITHSCORES", b"LIMIT", b"0", b"EX", b"MATCH", b"(1", b"2.5", b"9223372036854775807"])
                for _ in range(rng.randint(0, 5))]
    m = rng.random()
    if m < 0.08 and args:
        args = args[:rng.randrange(len(args))]
    elif m < 0.14:
        args = list(args) + [rng.choice([b"extra", b"NX", b"1"])]
    elif m < 0.18 and args:
        args = list(args); args[rng.randrange(len(args))] = rng.choice([b"", b"abc", b"-1", b"\xff"])
    return name, list(args)

def chunk_ops(rng, data, mode):
    """steps delivering `data` on connection 0 with a given chunking, ending in an f (wait for quiescence)"""
    if mode == "whole" or len(data) < 2:
        return [(0, "f" + L.hx(data))]
    if mode == "1byte":
        ops = [(0, "g" + L.hx(data[i:i + 1])) for i in range(len(data) - 1)]
        return ops + [(0, "f" + L.hx(data[-1:]))]
    cuts = sorted(set(rng.randrange(1, len(data)) for _ in range(rng.randint(1, 4))))
    parts = [data[a:b] for a, b in zip([0] + cuts, cuts + [len(data)])]
    return [(0, "g" + L.hx(p)) for p in parts[:-1]] + [(0, "f" + L.hx(parts[-1]))]

# ------------------------------------------------------------------------------------------ C03
def run_c03(tier, seed):
    chk = Check("C03", tier, seed)
    broken = prep(chk, "C03")
    from lifeprops import IdleProbe
    idle = IdleProbe(chk, tier)      # a request sent after a long pause is answered like any other (real sockets, background; joined below)
    rng = random.Random(seed)
    cases = []
    n = 1500 if tier == "quick" else 20000
    cmds = {}
    # systematic: every registered command x {no args, 1..4 plain args, option-flag words}
    sysargs = [[], [b"k"], [b"k", b"1"], [b"k", b"1", b"2"], [b"k", b"NX", b"1", b"a"], [b"k", b"v", b"EX"], [b"k", b"0", b"-1", b"WITHSCORES"],
               [b"k", b"1", b"a", b"2"], [b"k", b"XX", b"GT", b"CH", b"INCR", b"1", b"m"], [b"0", b"MATCH", b"*", b"COUNT", b"5"], [b"k", b"(1", b"+inf", b"LIMIT", b"0", b"1"]]
    for name in G.DIRECT + G.DERIVED + ["PING", "ECHO", "SELECT", "CONFIG", "AUTH", "NOSUCH"]:
        for a in sysargs:
            cases.append(dict(reqs=[(name, a)], line=None, chunk="whole", quit_at=None))
    # patterns with the characters that mean something to a glob or regular-expression translator at their edges (a trailing
    # backslash, an unclosed bracket or brace): the pattern is translated inside the command dispatch - whatever it spells, the
    # request is answered and so are the ones behind it
    for pat in (b"\\", b"user:\\", b"*\\", b"a\\b", b"\\\\", b"[", b"[a", b"a]", b"[]", b"[^", b"{", b"{a,", b"(?", b"\\Q", b"a\\", b"**", b"?\\"):
        cases.append(dict(reqs=[("SCAN", [b"0", b"MATCH", pat]), ("PING", []), ("SCAN", [b"0", b"MATCH", pat, b"COUNT", b"10"]), ("ECHO", [b"after"])], line=None, chunk="whole", quit_at=None, magic=True))
    # requests with very many elements (beyond any pre-allocation cap of the parser), followed by ordinary ones
    import thresholds as T
    for nel in T.extend([1023, 1024, 1025, 1026, 1100, 2049, 2500], 3, 20000, limit=6):
        for name in ("DEL", "MGET", "SADD", "RPUSH", "MSET", "ZADD", "NOSUCH"):
            nargs = nel - 1
            if name == "MSET":
                args = [b"k%d" % (i // 2) if i % 2 == 0 else b"v" for i in range(nargs - nargs % 2)]
            elif name == "ZADD":
                args = [b"z"] + [b"%d" % (i // 2) if i % 2 == 0 else b"m%d" % i for i in range((nargs - 1) - (nargs - 1) % 2)]
            else:
                args = [b"e%d" % i for i in range(nargs)]
            cases.append(dict(reqs=[(name, args), ("PING", []), ("ECHO", [b"end"])], line=None, chunk=rng.choice(["whole", "pipeline", "kway"]), quit_at=None))
    # argument values that mean something elsewhere in the code: every string literal of the source under test (command names,
    # option words, sentinel error texts, configuration keys - also those a change has just introduced) as the first and as the
    # second argument of every command; each request is followed by others on the same connection, which must be answered
    import thresholds as T
    words = [w.encode() for w in T.mined_strings()]
    newwords = [w.encode() for w in T.new_strings()]
    allcmds = G.DIRECT + G.DERIVED + ["PING", "ECHO", "SELECT", "CONFIG", "AUTH"]
    for name in allcmds:
        per = 12
        pool = words
        second = set(words if tier != "quick" else (words[(len(name) * 7) % 5::5] + newwords))
        for i in range(0, len(pool), per):
            reqs = []
            for w in pool[i:i + per]:
                reqs.append((name, [w]))
                if w in second:
                    reqs.append((name, [b"k", w]))
            reqs.append(("PING", []))
            cases.append(dict(reqs=reqs, line=None, chunk="pipeline" if i % 2 else "whole", quit_at=None, magic=True))
    for key in newwords:
        for vals in ((b"no", b"yes", b"no"), (b"0", b"1", b"x")):
            reqs = [("CONFIG", [b"SET", key, v]) for v in vals] + [("CONFIG", [b"GET", key]), ("PING", []), ("GET", [b"k"]), ("CONFIG", [b"SET", key, vals[1]]), ("ECHO", [b"end"])]
            cases.append(dict(reqs=reqs, line=None, chunk="whole", quit_at=None))
    # index arithmetic at the edges of the integer range: every command that computes with two integer arguments over a handler
    # result (offset * step, offset + count, start + 1, length - stop) gets every pair of extreme values; the handler returns four
    # elements (two member / score pairs), so ranges are not cut short by an empty result.  Each request is followed by PING.
    EXT = [0, 1, -1, 2, 3, 2**31 - 1, 2**31, -2**31, 2**62 - 1, 2**62, 2**62 + 1, 2**63 - 2, 2**63 - 1, -2**63, -2**63 + 1]
    four = "ma[b(61),b(31),b(62),b(32)]"
    shapes = [("ZREVRANGEBYSCORE", lambda a, b: [b"k", b"+inf", b"-inf", b"LIMIT", a, b], four), ("ZREVRANGEBYSCORE", lambda a, b: [b"k", b"+inf", b"-inf", b"WITHSCORES", b"LIMIT", a, b], four),
              ("ZREVRANGE", lambda a, b: [b"k", a, b], four), ("ZREVRANGE", lambda a, b: [b"k", a, b, b"WITHSCORES"], four),
              ("GETRANGE", lambda a, b: [b"k", a, b], "mb(" + L.hx(b"hello world") + ")"), ("SUBSTR", lambda a, b: [b"k", a, b], "mb(" + L.hx(b"hello") + ")")]
    for nm_, mk_, dflt in shapes:
        for a_ in EXT:
            reqs = []
            for b_ in EXT:
                reqs.append((nm_, mk_(b"%d" % a_, b"%d" % b_)))
            reqs.append(("PING", []))
            cases.append(dict(reqs=reqs, line=None, chunk="whole", quit_at=None, magic=True, default=dflt, notbl=True))
    # the SECOND and THIRD use of the same request on one server (state a first use leaves behind: caches, locks, registrations)
    for name in G.DIRECT:
        nm_, args_, _ = G.gen_direct(rng, name)
        cases.append(dict(reqs=[(nm_, args_)] * 3 + [("PING", [])], line=None, chunk=rng.choice(["whole", "pipeline"]), quit_at=None))
    for key in (b"requirepass", b"port", b"timeout", b"maxclients", b"databases", b"loglevel", b"x"):
        for vals in ((b"a", b"b", b"a"), (b"1", b"1", b"2")):
            reqs = [("CONFIG", [b"SET", key, v]) for v in vals] + [("CONFIG", [b"GET", key]), ("PING", []), ("CONFIG", [b"SET", key, vals[0]]), ("ECHO", [b"end"])]
            cases.append(dict(reqs=reqs, line=None, chunk="pipeline" if key == b"x" else "whole", quit_at=None))
    for _ in range(n):
        k = rng.randint(1, 8)
        reqs = [any_request(rng) for _ in range(k)]
        quit_at = None
        if rng.random() < 0.15:
            quit_at = rng.randrange(k)
            reqs[quit_at] = (G.casing(rng, "QUIT"), [])
        cases.append(dict(reqs=reqs, line=None, chunk=rng.choice(["whole", "1byte", "kway", "kway", "pipeline"]), quit_at=quit_at))
    for ci_, c in enumerate(cases):
        steps = []
        # every fourth case on a password-protected server: requests before the connection's AUTH (if it sends one) are refused,
        # and are answered all the same - one reply each
        pw = None
        if ci_ % 4 == 3 and c["quit_at"] is None and not c.get("magic"):
            pw = b"secret"
            if ci_ % 3:
                c["reqs"] = list(c["reqs"])
                c["reqs"].insert(rng.randrange(len(c["reqs"]) + 1), ("AUTH", [rng.choice([pw, pw, b"wrong"])]))
        c["pw"] = pw
        noerr = has_mapcmd(c["reqs"])
        tbl = rand_table(rng, noerr=noerr) if not c.get("notbl") else None
        if c["chunk"] == "pipeline":
            data = b"".join(G.request_bytes(nm, a) for nm, a in c["reqs"])
            steps = [(0, "f" + L.hx(data))]
        else:
            for nm, a in c["reqs"]:
                steps += chunk_ops(rng, G.request_bytes(nm, a), c["chunk"])
        steps.append((0, "e"))
        c["line"] = L.mkcase(steps, pw=c["pw"], tbl=tbl, default=c.get("default") or rng.choice(HRES_NOERR if noerr else HRES_POOL[:-1]))
        c["desc"] = ("[requirepass] " if c["pw"] else "") + " ; ".join(req_desc(nm, a) for nm, a in c["reqs"])[:300]
        for nm, _ in c["reqs"]:
            u = nm.upper() if isinstance(nm, str) else "?"
            cmds[u] = cmds.get(u, 0) + 1
    good = run_cases(chk, cases, logged=True)
    validated, distinct = 0, set()
    for c in good:
        if not basic_monitors(chk, "C03", c):
            continue
        res, evs = c["iobs"].conns[0]
        reqs = c["reqs"]
        # a handler may itself return the QUIT sentinel (scripted 'q'); then the loop legitimately ends there
        nexp = len(reqs) if c["quit_at"] is None else c["quit_at"] + 1
        ws = L.writes_of(evs)
        ends, off = [], 0
        for nm, a in reqs:
            off += len(G.request_bytes(nm, a)); ends.append(off)
        handler_quit = ("q" in c["line"].split(" def=")[1].split(" ")[0][:1]) or "=q" in c["line"]
        if not handler_quit:
            if len(ws) != nexp:
                chk.violation("reply-count", "%d requests (QUIT at %s) got %d replies: %s" % (len(reqs), c["quit_at"], len(ws), c["desc"]),
                              dict(case=c["line"], desc=c["desc"], replies=[w[1].decode("latin1") for w in ws]))
                continue
            bad = [(i, w[0], ends[i]) for i, w in enumerate(ws) if w[0] != ends[i]]
            if bad:
                i, got, want = bad[0]
                chk.violation("reply-late", "reply %d was written after the server had read %d bytes, its request ends at %d (it waited for more input): %s" % (i, got, want, c["desc"]),
                              dict(case=c["line"], desc=c["desc"]))
                continue
            if c["quit_at"] is not None:
                if ws[-1][1] != b"+OK\r\n":
                    chk.violation("quit-reply", "QUIT was answered %r" % ws[-1][1], dict(case=c["line"], desc=c["desc"]))
                    continue
        # at every quiescent point (server asks for bytes that were not sent): replies written == requests delivered
        if c["chunk"] != "pipeline" and not handler_quit:
            nq, nw, okq = 0, 0, True
            for e in evs:
                if e.startswith("W@") or e.startswith("WX@"):
                    nw += 1
                elif e == "Q":
                    nq += 1
            # (the per-write offset test above is the precise form; Q events confirm the server went back to reading)
        if not corr(chk, c):
            continue
        validated += 1
        distinct.add(c["desc"])
    # a second connection whose client has stopped reading large replies: ITS replies may wait, this connection's may not
    big = bytes((i * 17 + 3) % 251 for i in range(4000))
    cases2 = []
    for cap in (0, 64, 3000):
        for nreq in (1, 4):
            slow = [(1, "s%d" % cap), (1, "g" + L.hx(G.request_bytes("GET", [b"bigk"]) * nreq))]
            mine = [("PING", []), ("ECHO", [b"x"]), ("GET", [b"k"])]
            steps = slow + [(0, "f" + L.hx(G.request_bytes(nm, a))) for nm, a in mine] + [(1, "x"), (0, "e")]
            cases2.append(dict(line=L.mkcase(steps, conns=2, tbl={"Get:" + L.hx(b"bigk"): "mb(" + L.hx(big) + ")", "Get:" + L.hx(b"k"): "mb(76)"}, default="ms(4f4b)", trace=False),
                               expect=[b"+PONG\r\n", b"$1\r\nx\r\n", b"$1\r\nv\r\n"],
                               desc="another client pipelines %d GET with 4 KB replies and does not read them (%d bytes of buffer left); meanwhile: PING ; ECHO x ; GET k" % (nreq, cap)))
    for c in run_cases(chk, cases2):
        o = c["iobs"]
        res0, evs0 = o.conns[0]
        got = [w[1] for w in L.writes_of(evs0)]
        if res0 == "HANG" or "!HANG" in evs0 or got != c["expect"]:
            chk.violation("stalled-by-other-client", "requests were not answered while %s: replies %s (%s)" % (c["desc"], got, res0), dict(case=c["line"], desc=c["desc"], impl=o.raw[:2000]))
            continue
        validated += 1
    idle_ok = idle.join("C03")
    chk.notes.append("idle connections: pauses of %s s on plain / TLS 1.2 / TLS 1.3 connections, %d answered afterwards" % (idle.times, idle_ok))
    if broken and not chk.violations:
        chk.violation("proof-broken", broken, dict(broken=broken, theorem="GRP.C03"), True)
    chk.coverage.update(
        evaluations=len(cases), distinct_nontrivial=len(distinct),
        rule="every registered command x 11 systematic argument shapes (missing, surplus, option words), plus random pipelines of 1..8 requests "
             "(valid direct/derived/system requests, junk arguments, truncated and padded argument lists, unknown commands), QUIT at a random "
             "position in 15%, delivered whole / byte-by-byte / random k-way / fully pipelined, scripted handler results of every shape; "
             "non-trivial = distinct request sequence",
        traces_validated_against_impl=validated, input_distribution=dict(commands=dict(sorted(cmds.items(), key=lambda x: -x[1])[:40]), chunk_modes={m: sum(1 for c in cases if c["chunk"] == m) for m in ("whole", "1byte", "kway", "pipeline")}),
        samples=[c["desc"] for c in cases[::max(1, len(cases) // 6)]][:6])
    chk.assumptions = ["the handler returns (does not panic, does not block)", "command names are ASCII"]
    chk.finish()

def replay(path):
    r = json.load(open(path))["replay"]
    vlib.build_model(); vlib.build_harness()
    if r.get("mode") == "idle":
        print("impl :", vlib.run_harness(["idle", str(r["idle_seconds"])], "", timeout=r["idle_seconds"] + 120)[1].strip()[:6000]); return
    line = r.get("case")
    if not line:
        print("replay has no case line:", r); return
    print("impl :", vlib.run_harness(["conn"], line + "\n")[1].strip()[:6000])
    print("model:", vlib.run_model(["conn"], line + "\n")[1].strip()[:6000])


# ------------------------------------------------------------------------------------------ helpers for expected replies
def tree_encode(t):
    """RESP bytes of a handler result message (tree text), as the fixed serializer writes it (CR/LF in line types -> space)"""
    def san(b):
        return bytes(0x20 if x in (13, 10) else x for x in b)
    def enc(s, i):
        c = s[i]
        if c == "n":
            return b"$-1\r\n", i + 1
        if c == "N":        # an array message whose array was never set is serialised as the empty array
            return b"*0\r\n", i + 1
        if c in "seib":
            j = s.index(")", i)
            p = L.unhx(s[i + 2:j])
            if c == "b":
                return b"$%d\r\n" % len(p) + p + b"\r\n", j + 1
            return {"s": b"+", "e": b"-", "i": b":"}[c] + san(p) + b"\r\n", j + 1
        if c == "a":
            items, k = [], i + 2
            while s[k] != "]":
                e, k = enc(s, k)
                items.append(e)
                if s[k] == ",":
                    k += 1
            return b"*%d\r\n" % len(items) + b"".join(items), k + 1
        raise ValueError(s)
    return enc(t, 0)[0]

def expected_reply(hres):
    """reply bytes the client must receive when the handler returned hres (pass-through, C05 (4))"""
    k = hres[0]
    if k == "n":
        return b"-internal system error\r\n"
    if k == "q":
        return b"+OK\r\n"
    if k == "e":
        return b"-" + bytes(0x20 if x in (13, 10) else x for x in L.unhx(hres[1:])) + b"\r\n"
    if k == "m":
        return tree_encode(hres[1:])
    i = hres.rindex("|")
    return b"-" + bytes(0x20 if x in (13, 10) else x for x in L.unhx(hres[i + 1:])) + b"\r\n"

def glob_src(p):
    meta = b"\\.+*?()|[]{}^$"
    out = b"(?s)^"
    for c in p:
        if c == ord("*"): out += b".*"
        elif c == ord("?"): out += b"."
        elif c in meta: out += b"\\" + bytes([c])
        else: out += bytes([c])
    return out + b"$"

# ------------------------------------------------------------------------------------------ C04
INJ = [b"\r\n+OK\r\n", b"\r\n:1\r\n", b"\r\n$-1\r\n", b"x\ry", b"\n", b"a\r\n-ERR z"]

def c04_value(rng, depth=2):
    """a well-formed RESP value of any type sent by the client"""
    r = rng.random()
    inj = lambda: rng.choice(INJ + [b"GET", b"k", b"", b"PING"])
    if r < 0.12: return b"+" + rng.choice([b"PING", b"OK", b""]) + b"\r\n"
    if r < 0.2: return b":" + rng.choice([b"1", b"-5"]) + b"\r\n"
    if r < 0.26: return b"-" + rng.choice([b"ERR x", b""]) + b"\r\n"
    if r < 0.34:
        p = inj(); return b"$%d\r\n" % len(p) + p + b"\r\n"
    if r < 0.38: return b"$-1\r\n"
    if r < 0.42: return rng.choice([b"*0\r\n", b"*-1\r\n", b"*1\r\n$-1\r\n", b"*1\r\n*0\r\n", b"*2\r\n*1\r\n$4\r\nPING\r\n$1\r\nx\r\n", b"*1\r\n:5\r\n", b"*1\r\n+PING\r\n", b"*2\r\n+GET\r\n+k\r\n", b"*1\r\n-ERR\r\n"])
    # a command whose name / arguments carry forged frames
    name, args = any_request(rng)
    nameb = name.encode("latin1") if isinstance(name, str) else name
    if rng.random() < 0.3: nameb = nameb + inj()
    args = [a + inj() if rng.random() < 0.25 else a for a in args]
    return G.request_bytes(nameb, args)

def run_c04(tier, seed):
    chk = Check("C04", tier, seed)
    broken = prep(chk, "C04")
    rng = random.Random(seed)
    cases = []
    n = 1800 if tier == "quick" else 25000
    # systematic: every handler-result shape x a few commands that pass results through or post-process them
    for h in HRES_POOL:
        for req in [("GET", [b"k"]), ("SET", [b"k", b"v"]), ("STRLEN", [b"k"]), ("HKEYS", [b"k"]), ("ZREVRANGE", [b"k", b"0", b"-1", b"WITHSCORES"]),
                    ("MGET", [b"k", b"j"]), ("INCR", [b"k"]), ("APPEND", [b"k", b"v"]), ("GETRANGE", [b"k", b"0", b"-1"]), ("SCARD", [b"k"]), ("HLEN", [b"k"]),
                    ("ZREVRANGEBYSCORE", [b"k", b"+inf", b"-inf", b"LIMIT", b"0", b"1"]), ("MSETNX", [b"k", b"v"]), ("HVALS", [b"k"]), ("SISMEMBER", [b"k", b"a"])]:
            if req[0] in MAPCMDS and h[0] not in "mn":
                continue
            cases.append(dict(vals=[G.request_bytes(*req)], default=h, desc="%s with handler result %s" % (req_desc(*req), h[:40])))
    # replies with many elements (around the parser's pre-allocation bound, its doublings and every size constant the tree under
    # test has that the pinned tree does not): the frame must carry as many elements as its header announces, and the reply to
    # the request pipelined behind it must follow as a frame of its own
    import thresholds as T
    for ar in T.extend([1023, 1024, 1025, 2049, 4097], 3, 70000, limit=6):
        flat = "a[" + ",".join("b(%s)" % L.hx(b"e%d" % (i % 10)) for i in range(ar)) + "]"
        ints = "a[" + ",".join("i(%s)" % L.hx(b"%d" % (i % 10)) for i in range(ar)) + "]"
        for h in ("m" + flat, "ma[b(78)," + flat + ",b(79)]", "m" + ints):
            for req in (("GET", [b"k"]), ("HKEYS", [b"k"])):
                cases.append(dict(vals=[G.request_bytes(*req), G.request_bytes("PING", []), G.request_bytes("ECHO", [b"after"])], default=h,
                                  desc="%s with a handler result of %d elements (%s...), then PING and ECHO" % (req_desc(*req), ar, h[:24])))
    # handler results the serializer cannot encode (a message of none of the five types - MessageType is a public integer type -,
    # alone or inside an array): the client receives ONE well-formed error frame, and the replies behind it are frames of their own
    for tb in (0x63, 0x0a, 0x0d, 0x2b, 0x24, 0x2a, 0x20, 0x05, 0x7f):     # (0..4 are the five types)
        for h, nocorr in (("mu(%02x)" % tb, False), ("ma[b(61),u(%02x),b(62)]" % tb, True), ("ma[a[u(%02x)]]" % tb, True)):
            cases.append(dict(vals=[G.request_bytes("GET", [b"k"]), G.request_bytes("PING", []), G.request_bytes("ECHO", [b"after"])], default=h, nocorr=nocorr,
                              desc="GET with a handler result of unknown type %d (%s), then PING and ECHO" % (tb, h)))
    for inj in INJ:
        for req in [(b"NOSUCH" + inj, []), (b"GET", [b"k" + inj]), (b"SET", [b"k", b"v", b"EX" + inj]), (b"ECHO", [inj]), (b"PING", [inj]), (b"CONFIG", [b"GET", inj]),
                    (b"CONFIG", [b"BAD" + inj]), (b"SELECT", [b"1" + inj]), (b"AUTH", [inj, inj]), (b"ZADD", [b"k", b"1" + inj, b"m"])]:
            cases.append(dict(vals=[G.request_bytes(*req)], default="ms(4f4b)", desc="%r %r" % req))
    # length sweep: line-type replies (status / error / integer built by the handler, handler error text, framework error
    # quoting the command name) whose text carries CR LF at a varying position, for every length in the range
    top = 1100
    stride = 1 if tier != "quick" else 1
    for ln in range(0, top + 1, stride):
        body = bytearray(b"a" * ln)
        if ln >= 2:
            pos = (ln * 7 // 11) % (ln - 1)
            body[pos:pos + 2] = b"\r\n"
        if ln >= 8:
            body[1:6] = b"\r\n+OK"[:5]
        for kind in ("s", "e", "i", "E", "N"):
            if kind in "sei":
                cases.append(dict(vals=[G.request_bytes("GET", [b"k"])], default="m%s(%s)" % (kind, L.hx(bytes(body))), desc="GET with handler %s-reply of %d bytes carrying CR/LF" % (kind, ln)))
            elif kind == "E":
                cases.append(dict(vals=[G.request_bytes("GET", [b"k"])], default="e" + L.hx(bytes(body)), desc="GET with handler error text of %d bytes carrying CR/LF" % ln))
            else:
                cases.append(dict(vals=[G.request_bytes(bytes(body) if ln else b"x", [])], default="ms(4f4b)", desc="unknown command name of %d bytes carrying CR/LF" % ln))
    for _ in range(n):
        vals = [c04_value(rng) for _ in range(rng.randint(1, 5))]
        cases.append(dict(vals=vals, default=rng.choice(HRES_POOL[:-1]), desc=None))
    # a client that stops reading while a large reply is on its way, and reads again later: the socket buffers take `cap` more bytes,
    # the write of the reply waits (or, if the server works with write deadlines, fails after a partial transfer); afterwards the
    # connection goes on.  Whatever the server does about the slow client, the bytes the client finally reads must be whole frames.
    big = bytes((i * 13 + 5) % 251 for i in range(3000))
    for cap in (0, 1, 5, 6, 7, 100, 2999, 3005, 3008):
        for later in ([("PING", []), ("ECHO", [b"x"])], [("GET", [b"k"])], [("QUIT", [])]):
            vals = [G.request_bytes("GET", [b"k"])] + [G.request_bytes(n_, a_) for n_, a_ in later]
            cases.append(dict(vals=vals, default="mb(%s)" % L.hx(big),
                              steps=[(0, "s%d" % cap), (0, "f" + L.hx(vals[0])), (0, "u"), (0, "f" + L.hx(b"".join(vals[1:]))), (0, "e")],
                              desc="client stops reading (%d bytes of buffer left) during the 3009-byte reply to GET k, reads again, then sends %s" % (cap, " ; ".join(n_ for n_, _ in later))))
    for c in cases:
        data = b"".join(c["vals"])
        noerr = any(m.encode() in data.upper() for m in MAPCMDS)
        dflt = c["default"] if not (noerr and c["default"][0] not in "mn") else "ms(4f4b)"
        c["line"] = L.mkcase(c.get("steps") or [(0, "f" + L.hx(data)), (0, "e")], tbl=rand_table(rng, noerr=noerr) if c["desc"] is None else None, default=dflt)
        c["desc"] = c["desc"] or repr(data[:200])
    good = run_cases(chk, cases, logged=True)
    validated, distinct, kinds = 0, set(), {}
    for c in good:
        if not basic_monitors(chk, "C04", c):
            continue
        res, evs = c["iobs"].conns[0]
        err = L.monitor_frames(evs)
        if err:
            chk.violation("bad-frame", "%s :: request stream %s" % (err, c["desc"][:200]), dict(case=c["line"], desc=c["desc"], impl=c["iobs"].raw[:2000]))
            continue
        ws = L.writes_of(evs)
        quit_seen = b"QUIT" in b"".join(c["vals"]).upper() or "=q" in c["line"] or " def=q" in c["line"]
        if not quit_seen and len(ws) != len(c["vals"]):
            chk.violation("frame-count", "%d client values were answered with %d frames :: %s" % (len(c["vals"]), len(ws), c["desc"][:200]),
                          dict(case=c["line"], desc=c["desc"], impl=c["iobs"].raw[:2000]))
            continue
        for w in ws:
            if w[1]:
                kinds[chr(w[1][0])] = kinds.get(chr(w[1][0]), 0) + 1
        if not c.get("nocorr") and not corr(chk, c):
            continue
        validated += 1
        distinct.add(c["desc"])
    # a reply that is still on its way to a slow client while OTHER connections get their (differently framed) replies encoded and
    # written: the bytes the slow client finally reads must be its own frame
    big = bytes((i * 13 + 5) % 251 for i in range(6000))
    cases2 = []
    for cap in (1, 7, 100, 4000):
        others = []
        for j in range(24):
            others.append((1 + j % 3, "f" + L.hx(G.request_bytes("MGET", [b"a%d" % j, b"b", b"c"]) + G.request_bytes("ECHO", [bytes([65 + j % 26]) * (50 + 97 * j)]))))
        steps = [(0, "s%d" % cap), (0, "g" + L.hx(G.request_bytes("GET", [b"bigk"])))] + others + [(0, "u"), (0, "f" + L.hx(G.request_bytes("PING", []))), (0, "e"), (1, "e"), (2, "e"), (3, "e")]
        cases2.append(dict(line=L.mkcase(steps, conns=4, tbl={"Get:" + L.hx(b"bigk"): "mb(" + L.hx(big) + ")"}, default="mb(7a7a7a)", trace=False),
                           expect=[b"$6000\r\n" + big + b"\r\n", b"+PONG\r\n"],
                           desc="a 6 KB reply waits for a slow client (%d bytes taken) while three other connections receive 48 array / bulk replies; then the slow client reads" % cap))
    # run twice: with the scheduler's defaults, and on ONE processor (objects a runtime pool hands back are per processor: with one
    # processor a buffer returned by the slow client's goroutine is the very next one another connection gets)
    import copy, os
    one_p = [dict(copy.deepcopy({k: v for k, v in c.items()}), desc=c["desc"] + " [GOMAXPROCS=1]") for c in cases2]
    for c in run_cases(chk, cases2) + run_cases(chk, one_p, shards=2, henv=dict(os.environ, GOMAXPROCS="1")):
        o = c["iobs"]
        res0, evs0 = o.conns[0]
        err = L.monitor_frames(evs0)
        got = [w[1] for w in L.writes_of(evs0)]
        if err or got != c["expect"]:
            chk.violation("frame-mixed-with-other-connection", "%s: %s" % (c["desc"], err or ("the slow client read %r... instead of its own reply" % (got[0][:60] if got else None))),
                          dict(case=c["line"], desc=c["desc"], impl=o.raw[:3000]))
            continue
        for ci in (1, 2, 3):
            e2 = L.monitor_frames(o.conns[ci][1])
            if e2:
                chk.violation("bad-frame", "%s :: connection %d of: %s" % (e2, ci, c["desc"]), dict(case=c["line"], desc=c["desc"]))
        validated += 1
    if broken and not chk.violations:
        chk.violation("proof-broken", broken, dict(broken=broken, theorem="GRP.C04"), True)
    chk.coverage.update(
        evaluations=len(cases), distinct_nontrivial=len(distinct),
        rule="every handler-result shape (%d: each message type, nil, error text, message+error, CRLF-carrying payloads, QUIT sentinel) x 15 pass-through / "
             "post-processing commands; every forged-frame string %r in command name, key, value, option, error path; random streams of 1..5 client values "
             "of every RESP type (non-array, null, empty, nested, line-typed command names); non-trivial = distinct stream" % (len(HRES_POOL), [i.decode() for i in INJ[:3]]),
        traces_validated_against_impl=validated, input_distribution=dict(reply_frame_types=kinds),
        samples=[c["desc"][:160] for c in cases[::max(1, len(cases) // 5)]][:6])
    chk.assumptions = ["handler results are messages built from the five RESP types (trees), nil, or errors; a handler-built integer reply with non-numeric payload is framed but not strict (reported separately)"]
    chk.finish()

# ------------------------------------------------------------------------------------------ C05
def run_c05(tier, seed):
    chk = Check("C05", tier, seed)
    broken = prep(chk, "C05")
    rng = random.Random(seed)
    cases = []
    per = 45 if tier == "quick" else 600
    for name in G.DIRECT:
        for _ in range(per):
            nm, args, exp = G.gen_direct(rng, name)
            db = rng.choice([0, 0, 1, 7])
            h = rng.choice(HRES_POOL[:-1])
            cases.append(dict(kind="direct", name=nm, args=args, exp=exp, db=db, hres=h, sent=G.casing(rng, nm)))
    for _ in range(60 if tier == "quick" else 600):
        cases.append(dict(kind="unknown", name=rng.choice(["NOSUCH", "GETX", "SE", "", "get k", "FLUSHALL", "ZADDX"]), args=[G.g_str(rng) for _ in range(rng.randint(0, 3))], exp=None, db=0, hres="ms(4f4b)"))
    for reg, sent in [("mycmd", "mycmd"), ("mycmd", "MYCMD"), ("MyCmd", "mYcMD"), ("MYCMD", "mycmd"), ("x1", "X1")]:
        cases.append(dict(kind="app", name=sent, args=[b"a", b"b"], exp=None, db=0, hres="ms(4f4b)", reg=reg))
    # commands whose reply is collected from several handler calls (MGET: one Get per key; HMGET: one HGet per field; MSET / HMSET:
    # one Set / HSet per pair): when ONE of the calls fails, the client receives that error - not a shorter list, not OK
    boom = "e" + L.hx(b"WRONGTYPE boom")
    for nm_, argsets, meth in (("MGET", [[b"bad"], [b"k1", b"bad", b"k3"], [b"k1", b"k2", b"bad"], [b"bad", b"k2"]], "Get"),
                               ("HMGET", [[b"bad", b"f1"], [b"bad", b"f1", b"f2", b"f3"]], "HGet")):
        for a_ in argsets:
            cases.append(dict(kind="collect", name=nm_, args=a_, exp=None, db=0, hres="mb(76)", tbl={"%s:%s" % (meth, L.hx(b"bad")): boom}, errtext=b"WRONGTYPE boom"))
    for ci_, c in enumerate(cases):
        sent = c.get("sent", c["name"])
        steps = []
        if c["db"]:
            steps.append((0, "f" + L.hx(G.request_bytes("SELECT", [str(c["db"]).encode()]))))
        # delivery: whole, random k-way chunks, or one chunk per element boundary (the request arrives in several reads)
        data = G.request_bytes(sent, c["args"])
        mode = ("whole", "kway", "elements")[ci_ % 3]
        if mode == "elements" and len(data) > 8:
            cuts, off = [], 0
            for part in data.split(b"\r\n$")[:-1]:
                off += len(part) + 2
                cuts.append(off)
            cuts = [x for x in cuts if 0 < x < len(data)][:12]
            parts = [data[a:b] for a, b in zip([0] + cuts, cuts + [len(data)])]
            steps += [(0, "g" + L.hx(p_)) for p_ in parts[:-1]] + [(0, "f" + L.hx(parts[-1]))]
        else:
            steps += chunk_ops(rng, data, "whole" if mode == "whole" else "kway")
        steps.append((0, "e"))
        c["delivery"] = mode
        c["line"] = L.mkcase(steps, default=c["hres"], app=[c["reg"].encode()] if c.get("reg") else (), tbl=c.get("tbl"))
        c["desc"] = req_desc(sent, c["args"])[:300] + " [delivered: %s]" % mode
    # the command NAME is matched case-insensitively every time, not only the first time a spelling is seen: several connections of one
    # password-protected server authenticate with the same spelling, then use a command with the same spelling
    multi = []
    for spell in (b"auth", b"Auth", b"AUTH", b"aUtH"):
        for cmd in (b"get", b"Get", b"GET"):
            steps = []
            for ci in range(4):
                steps += [(ci, "f" + L.hx(G.request_bytes(spell.decode(), [b"secret"]))), (ci, "f" + L.hx(G.request_bytes(cmd.decode(), [b"k%d" % ci])))]
            steps += [(ci, "e") for ci in range(4)]
            multi.append(dict(line=L.mkcase(steps, pw=b"secret", conns=4, default="mb(76)", trace=False), spell=spell, cmd=cmd,
                              desc="4 connections, each: %s secret ; %s k<i>" % (spell.decode(), cmd.decode())))
    for c in run_cases(chk, multi):
        for ci, (res, evs) in enumerate(c["iobs"].conns):
            ws = [w[1] for w in L.writes_of(evs)]
            calls = [x[4] for x in L.calls_of(evs)]
            if ws != [b"+OK\r\n", b"$1\r\nv\r\n"] or calls != ["Get(%s)" % L.hx(b"k%d" % ci)]:
                chk.violation("name-casing-repeat", "connection %d of: %s: replies %s, handler calls %s (expected +OK, the value, and exactly one Get)" % (ci, c["desc"], ws, calls), dict(case=c["line"], desc=c["desc"]))
                break
    # commands that take key/value pairs, with a key named more than once: the handler gets ONE call per distinct key with the LAST
    # value given for it (what Redis stores) - never a call with a value the request overrides
    dup = []
    for nm_ in ("MSET", "MSETNX", "HMSET"):
        for pairs in ([(b"a", b"1"), (b"a", b"2")], [(b"a", b"1"), (b"b", b"x"), (b"a", b"2")], [(b"a", b"2"), (b"a", b"2")], [(b"a", b"1"), (b"a", b"2"), (b"a", b"3"), (b"b", b"y")],
                      [(b"", b"1"), (b"", b"")], [(b"k", b"v")] + [(b"d", b"%d" % i) for i in range(5)]):
            flat = [x for kv in pairs for x in kv]
            args = ([b"h"] if nm_ == "HMSET" else []) + flat
            last = {}
            for k_, v_ in pairs:
                last[k_] = v_
            dup.append(dict(name=nm_, args=args, last=last, line=L.mkcase([(0, "f" + L.hx(G.request_bytes(nm_, args))), (0, "e")], default="mn" if nm_ == "MSETNX" else "ms(4f4b)"),
                            desc=req_desc(nm_, args)))
    for c in run_cases(chk, dup):
        res, evs = c["iobs"].conns[0]
        calls = sorted(x[4] for x in L.calls_of(evs) if x[4].startswith(("Set(", "HSet(")))      # (MSETNX probes with Get first)
        if c["name"] == "HMSET":
            want = sorted("HSet(%s,%s,%s," % (L.hx(b"h"), L.hx(k_), L.hx(v_)) for k_, v_ in c["last"].items())
        else:
            want = sorted("Set(%s,%s," % (L.hx(k_), L.hx(v_)) for k_, v_ in c["last"].items())
        ok = len(calls) == len(want) and all(a.startswith(w) for a, w in zip(calls, want))
        if ok and c["name"] == "MSETNX":
            ok = all("nx=1" in a for a in calls)
        if not ok:
            chk.violation("repeated-key-pairs", "%s reached the handler as %s, expected one call per distinct key with its last value: %s..." % (c["desc"], calls, want),
                          dict(case=c["line"], desc=c["desc"], got=calls, expected=want))
        else:
            corr(chk, c)
    # sibling commands that share argument code (REV / non-REV, BYSCORE / by index): what the handler receives - which bound is the
    # minimum, which is exclusive, the LIMIT window - compared call by call with the model's executor
    sib = []
    bounds = [(b"1", b"3"), (b"(1", b"3"), (b"1", b"(3"), (b"(1", b"(3"), (b"-inf", b"+inf"), (b"(-inf", b"+inf"), (b"-inf", b"(+inf"), (b"2", b"2"), (b"(2", b"2"), (b"3", b"1"), (b"(3", b"1")]
    tails = [[], [b"WITHSCORES"], [b"LIMIT", b"0", b"1"], [b"LIMIT", b"1", b"2", b"WITHSCORES"], [b"withscores", b"limit", b"1", b"-1"]]
    for lo, hi in bounds:
        for tail in tails:
            sib.append(("ZRANGEBYSCORE", [b"z", lo, hi] + tail))
            sib.append(("ZREVRANGEBYSCORE", [b"z", hi, lo] + tail))
            sib.append(("ZREVRANGEBYSCORE", [b"z", lo, hi] + tail))
            if not any(t.upper() == b"WITHSCORES" for t in tail) or True:
                sib.append(("ZRANGE", [b"z", lo, hi, b"BYSCORE"] + tail))
                sib.append(("ZRANGE", [b"z", hi, lo, b"BYSCORE", b"REV"] + tail))
    for st, en in [(b"0", b"-1"), (b"1", b"2"), (b"-2", b"-1"), (b"0", b"0"), (b"5", b"1")]:
        for tail in ([], [b"WITHSCORES"]):
            sib += [("ZRANGE", [b"z", st, en] + tail), ("ZREVRANGE", [b"z", st, en] + tail), ("ZRANGE", [b"z", st, en, b"REV"] + tail)]
    for nm_, args_ in [("LPUSH", [b"l", b"a", b"b"]), ("RPUSH", [b"l", b"a", b"b"]), ("LPUSHX", [b"l", b"a"]), ("RPUSHX", [b"l", b"a"]), ("LPOP", [b"l"]), ("RPOP", [b"l"]), ("LPOP", [b"l", b"2"]), ("RPOP", [b"l", b"2"]),
                       ("SETNX", [b"k", b"v"]), ("SET", [b"k", b"v", b"NX"]), ("SET", [b"k", b"v", b"XX", b"GET"]), ("GETSET", [b"k", b"v"]), ("HSETNX", [b"h", b"f", b"v"]), ("HSET", [b"h", b"f", b"v"]),
                       ("INCRBY", [b"n", b"5"]), ("DECRBY", [b"n", b"5"]), ("INCR", [b"n"]), ("DECR", [b"n"]), ("EXPIRE", [b"k", b"100", b"NX"]), ("EXPIRE", [b"k", b"100", b"GT"])]:
        sib.append((nm_, args_))
    sibc = []
    zres = "ma[b(61),b(31),b(62),b(32),b(63),b(33)]"
    for nm_, args_ in sib:
        sibc.append(dict(line=L.mkcase([(0, "f" + L.hx(G.request_bytes(nm_, args_))), (0, "e")], tbl={"ZRangeByScore:" + L.hx(b"z"): zres, "ZRange:" + L.hx(b"z"): zres, "Get:" + L.hx(b"n"): "mb(3130)"}, default="mn"),
                         desc=req_desc(nm_, args_)))
    # options given to one request are not remembered by the next: the same command with fewer options afterwards, on the same
    # connection and on another one
    seqs = [[("SCAN", [b"0", b"MATCH", b"user:*", b"COUNT", b"3"]), ("SCAN", [b"0"]), ("SCAN", [b"0", b"COUNT", b"7"]), ("SCAN", [b"0", b"MATCH", b"a?"]), ("SCAN", [b"5"])],
            [("SET", [b"k", b"v", b"EX", b"100", b"NX"]), ("SET", [b"k", b"v"]), ("SET", [b"k", b"v", b"XX", b"GET"]), ("SET", [b"k", b"v"])],
            [("ZADD", [b"z", b"NX", b"CH", b"1", b"a"]), ("ZADD", [b"z", b"2", b"b"]), ("ZADD", [b"z", b"XX", b"3", b"c"]), ("ZADD", [b"z", b"4", b"d"])],
            [("ZRANGE", [b"z", b"0", b"-1", b"REV", b"WITHSCORES"]), ("ZRANGE", [b"z", b"0", b"-1"]), ("ZRANGEBYSCORE", [b"z", b"(1", b"(3", b"LIMIT", b"1", b"1", b"WITHSCORES"]), ("ZRANGEBYSCORE", [b"z", b"1", b"3"])],
            [("EXPIRE", [b"k", b"100", b"NX"]), ("EXPIRE", [b"k", b"100"]), ("EXPIRE", [b"k", b"100", b"GT"]), ("EXPIRE", [b"k", b"100"])],
            [("LPUSHX", [b"l", b"a"]), ("LPUSH", [b"l", b"a"]), ("RPUSHX", [b"l", b"a"]), ("RPUSH", [b"l", b"a"])], [("LPOP", [b"l", b"3"]), ("LPOP", [b"l"]), ("RPOP", [b"l", b"2"]), ("RPOP", [b"l"])]]
    for sq in seqs:
        for two in (False, True):
            steps = [((i % 2) if two else 0, "f" + L.hx(G.request_bytes(n_, a_))) for i, (n_, a_) in enumerate(sq)] + [(0, "e")] + ([(1, "e")] if two else [])
            sibc.append(dict(line=L.mkcase(steps, conns=2 if two else 1, tbl={"ZRangeByScore:" + L.hx(b"z"): zres, "ZRange:" + L.hx(b"z"): zres}, default="mn"),
                             desc=" ; ".join(req_desc(n_, a_) for n_, a_ in sq) + (" [alternating between two connections]" if two else "")))
    for c in run_cases(chk, sibc):
        if basic_monitors(chk, "C05", c):
            corr(chk, c, sig="sibling-arguments")
    good = run_cases(chk, cases, logged=True)
    validated, distinct, per_cmd = 0, set(), {}
    for c in good:
        if not basic_monitors(chk, "C05", c):
            continue
        res, evs = c["iobs"].conns[0]
        calls = L.calls_of(evs)
        ws = L.writes_of(evs)
        reply = ws[-1][1] if ws else None
        if c["kind"] == "unknown":
            if calls or any(e.startswith("APP:") for e in evs) or reply is None or not reply.startswith(b"-"):
                chk.violation("unknown-command", "unknown command %r: calls=%s reply=%r" % (c["name"], [x[4] for x in calls], reply), dict(case=c["line"], desc=c["desc"]))
                continue
        elif c["kind"] == "collect":
            if reply is None or not reply.startswith(b"-") or c["errtext"] not in reply:
                chk.violation("handler-error-lost:" + c["name"], "%s: the handler failed one of the calls with the error %r, the client received %r" % (c["desc"], c["errtext"], reply),
                              dict(case=c["line"], desc=c["desc"], handler_error=c["errtext"].decode(), got=repr(reply)))
                continue
        elif c["kind"] == "app":
            apps = [e for e in evs if e.startswith("APP:")]
            if len(apps) != 1 or reply != b"+APP\r\n":
                chk.violation("app-executor", "executor registered as %r is not dispatched for %r (reply %r)" % (c["reg"], c["name"], reply), dict(case=c["line"], desc=c["desc"]))
                continue
        else:
            exp = c["exp"]
            if isinstance(exp, tuple):      # Scan: the pattern reaches the handler as a compiled expression
                _, cur, pat, cnt, ty = exp
                exp = "Scan(%d,match=%s,count=%d,type=%d)" % (cur, L.hx(glob_src(pat)), cnt, ty)
            got = [x for x in calls]
            ok = len(got) == 1
            if ok:
                db, auth, tok, reg, text = got[0]
                a, b = L.align_pair(["C:0:1:" + text], ["C:0:1:" + exp])
                ok = a == b and db == c["db"]
            if not ok:
                chk.violation("call-differs:" + c["name"], "%s (db %d) reached the handler as %s, expected exactly one call %s on db %d" %
                              (c["desc"], c["db"], [(x[0], x[4]) for x in got], exp, c["db"]), dict(case=c["line"], desc=c["desc"], expected=exp, got=[x[4] for x in got]))
                continue
            if reply != expected_reply(c["hres"]):
                chk.violation("reply-differs:" + c["name"], "%s: handler returned %s, client received %r (expected %r)" % (c["desc"], c["hres"][:60], reply, expected_reply(c["hres"])),
                              dict(case=c["line"], desc=c["desc"]))
                continue
        if not corr(chk, c):
            continue
        validated += 1
        per_cmd[c["name"].upper()] = per_cmd.get(c["name"].upper(), 0) + 1
        distinct.add(c["desc"])
    if broken and not chk.violations:
        chk.violation("proof-broken", broken, dict(broken=broken, theorem="GRP.C05"), True)
    chk.coverage.update(
        evaluations=len(cases), distinct_nontrivial=len(distinct),
        rule="for each of the %d commands that map onto one handler operation: %d well-formed argument vectors from the independent grammar (option subsets and "
             "orders, boundary integers incl. int64 limits, exactly representable floats and infinities, exclusive-range markers, binary strings, 1..4 list elements, "
             "three letter-case variants), after SELECT of db 0/1/7, with a random handler result; unknown commands; application executors registered in 5 casings; "
             "expected call and expected reply come from the generator, not from the model; non-trivial = distinct request" % (len(G.DIRECT), per),
        traces_validated_against_impl=validated, input_distribution=dict(per_command=per_cmd),
        samples=[c["desc"][:160] for c in cases[::max(1, len(cases) // 6)]][:6])
    chk.assumptions = ["command and option names are ASCII (strings.ToUpper is Unicode-aware: 'ſet' would upper-case to SET)",
                       "float tokens are decimal literals exactly representable in binary64, or infinities (strconv.ParseFloat is not modelled beyond that class)"]
    chk.finish()

# ------------------------------------------------------------------------------------------ C10
def run_c10(tier, seed):
    chk = Check("C10", tier, seed)
    broken = prep(chk, "C10")
    rng = random.Random(seed)
    cases, kinds = [], {}
    for name in sorted(G.SIGS):
        for kind, args in G.malformations(rng, name):
            for sent in ([name] if tier == "quick" else [name, name.lower()]):
                follow = rng.choice([("PING", [], b"+PONG\r\n"), ("ECHO", [b"z"], b"$1\r\nz\r\n")])
                data = G.request_with_nulls(sent, args) + G.request_bytes(follow[0], follow[1]) + G.request_bytes("GET", [b"after"])
                cases.append(dict(name=name, kind=kind, args=args, follow=follow, db=0, line=L.mkcase([(0, "f" + L.hx(data)), (0, "e")], default="mb(76)"),
                                  desc="%s [%s]" % (req_desc(sent, args), kind)))
                kinds[kind.split("@")[0]] = kinds.get(kind.split("@")[0], 0) + 1
                if len(cases) % 4 == 0:
                    # the same on a connection that has selected another database: the refusal must leave the selection alone
                    cases.append(dict(name=name, kind=kind, args=args, follow=follow, db=3, line=L.mkcase([(0, "f" + L.hx(G.request_bytes("SELECT", [b"3"]) + data)), (0, "e")], default="mb(76)"),
                                      desc="SELECT 3 ; %s [%s]" % (req_desc(sent, args), kind)))
    # ill-formed SELECT on a connection that has selected database 3 (SELECT is answered by the framework itself)
    for bad, kind in ([], "missing"), ([None], "null"), ([b"abc"], "non-numeric"), ([b"1.5"], "fraction"), ([b""], "empty"), ([b"99999999999999999999"], "overflow"), ([b"-"], "sign"), ([b"+"], "sign"):
        follow = ("PING", [], b"+PONG\r\n")
        data = G.request_bytes("SELECT", [b"3"]) + G.request_with_nulls("SELECT", bad) + G.request_bytes("PING", []) + G.request_bytes("GET", [b"after"])
        cases.append(dict(name="SELECT", kind=kind, args=bad, follow=follow, db=3, line=L.mkcase([(0, "f" + L.hx(data)), (0, "e")], default="mb(76)"),
                          desc="SELECT 3 ; %s [%s]" % (req_desc("SELECT", bad), kind)))
    # ill-formed requests LONGER than the parser pre-allocates for (1024 elements): the malformation sits behind element 1023
    for nel in (1026, 1028, 2050):
        keys = [b"k%d" % i for i in range(nel)]
        longs = [("MSET", [x for i in range((nel - 2) // 2) for x in (b"k%d" % i, b"v")] + [b"dangling"], "dangling-key"),
                 ("DEL", keys[:nel - 2] + [None], "null"), ("SADD", [b"s"] + keys[:nel - 3] + [None], "null"), ("RPUSH", [b"l"] + keys[:nel - 3] + [None], "null"),
                 ("HMSET", [b"h"] + [x for i in range((nel - 3) // 2) for x in (b"f%d" % i, b"v")] + [b"dangling"], "dangling-field"),
                 ("ZADD", [b"z"] + [x for i in range((nel - 3) // 2) for x in (b"%d" % i, b"m%d" % i)] + [b"7"], "dangling-score")]
        for name, args, kind in longs:
            follow = ("PING", [], b"+PONG\r\n")
            data = G.request_with_nulls(name, args) + G.request_bytes("PING", []) + G.request_bytes("GET", [b"after"])
            cases.append(dict(name=name, kind=kind + "@long", args=args[:3], follow=follow, db=0, line=L.mkcase([(0, "f" + L.hx(data)), (0, "e")], default="mb(76)"),
                              desc="%s with %d elements, %s at the end" % (name, len(args) + 1, kind)))
    # "without side effects" includes the NEXT request: after a refused request, a well-formed request of the same family (on the
    # same connection, and on another connection of the same server) reaches the handler exactly as it does on a fresh server
    groups = [[("MSET", [b"x", b"1", b"y", b"2"]), ("MSETNX", [b"x", b"1", b"y", b"2"]), ("HMSET", [b"h", b"x", b"1", b"y", b"2"]), ("MSET", [])],
              [("ZADD", [b"z", b"1", b"a", b"2", b"b"]), ("SADD", [b"s", b"a", b"b"]), ("RPUSH", [b"l", b"a", b"b"]), ("DEL", [b"a", b"b"]), ("MGET", [b"a", b"b"]), ("HMGET", [b"h", b"a", b"b"])],
              [("SET", [b"k", b"v", b"EX", b"10"]), ("SET", [b"k", b"v"]), ("EXPIRE", [b"k", b"10"]), ("SETEX", [b"k", b"10", b"v"])],
              [("ZRANGEBYSCORE", [b"z", b"1", b"2", b"LIMIT", b"0", b"1"]), ("ZRANGE", [b"z", b"0", b"-1"]), ("ZREVRANGEBYSCORE", [b"z", b"2", b"1"]), ("SCAN", [b"0"]), ("SCAN", [b"0", b"COUNT", b"5"])]]
    after = []
    alone = {}
    for grp in groups:
        for gname, gargs in grp:
            key = (gname, tuple(gargs))
            alone[key] = dict(line=L.mkcase([(0, "f" + L.hx(G.request_bytes(gname, gargs))), (0, "e")], default="mn"), desc="%s alone" % req_desc(gname, gargs))
        names = sorted({g[0] for g in grp if g[1]})
        for bname in names:
            if bname not in G.SIGS:
                continue
            for kind, bargs in G.malformations(rng, bname):
                if not bargs:
                    continue
                for gname, gargs in grp:
                    for two in (False, True):
                        bad, good = G.request_with_nulls(bname, bargs), G.request_bytes(gname, gargs)
                        steps = [(0, "f" + L.hx(bad)), (1 if two else 0, "f" + L.hx(good)), (0, "e")] + ([(1, "e")] if two else [])
                        after.append(dict(line=L.mkcase(steps, conns=2 if two else 1, default="mn"), key=(gname, tuple(gargs)), two=two,
                                          desc="%s [%s] ; then %s%s" % (req_desc(bname, bargs), kind, req_desc(gname, gargs), " on another connection" if two else "")))
    alone_l = list(alone.values())
    def _canon_call(t):       # (absolute expiry times depend on the second the request was served in; the relative part stays)
        return re.sub(r"t=-?\d+;", "t=;", t)
    for c in run_cases(chk, alone_l):
        c["calls"] = sorted(_canon_call(x[4]) for x in L.calls_of(c["iobs"].conns[0][1]))
    for c in run_cases(chk, after):
        base = alone[c["key"]].get("calls")
        evs = c["iobs"].conns[1 if c["two"] else 0][1]
        got = sorted(_canon_call(x[4]) for x in L.calls_of(evs))
        if not c["two"]:
            # the refused request itself made no call: all calls of this connection belong to the well-formed one
            pass
        if base is not None and got != base:
            chk.violation("refused-request-leaks", "%s: the well-formed request reached the handler as %s; on a fresh server it reaches it as %s" % (c["desc"], got[:6], base[:6]),
                          dict(case=c["line"], desc=c["desc"], got=got, expected=base))
        else:
            corr(chk, c, sig="after-refusal")
    # random corruption of valid requests (monitors: hang/panic/frames only)
    nrand = 600 if tier == "quick" else 8000
    for _ in range(nrand):
        nm, args, _ = G.gen_direct(rng)
        args = list(args)
        if args:
            i = rng.randrange(len(args))
            args[i] = rng.choice([None, b"", b"abc", b"\x7f\x01", b"1.5", b"-", b"9x9"])
        data = G.request_with_nulls(nm, args) + G.request_bytes("PING", [])
        cases.append(dict(name=nm, kind="random", args=args, follow=None, db=0, line=L.mkcase([(0, "f" + L.hx(data)), (0, "e")], default="mb(76)"), desc="%s [random corruption]" % req_desc(nm, args)))
    good = run_cases(chk, cases)
    validated, distinct = 0, set()
    for c in good:
        if not basic_monitors(chk, "C10", c):
            continue
        res, evs = c["iobs"].conns[0]
        err = L.monitor_frames(evs)
        if err:
            chk.violation("bad-frame", err + " :: " + c["desc"], dict(case=c["line"], desc=c["desc"]))
            continue
        if c["kind"] != "random":
            ws = L.writes_of(evs)
            if c["db"]:
                ws = ws[1:]               # the reply to the leading SELECT 3
            # handler calls made before the first reply belong to the rejected request
            wpos = [i for i, e in enumerate(evs) if e.startswith("W@") or e.startswith("WX@")]
            first_w = (wpos[1] if c["db"] and len(wpos) > 1 else (wpos[0] if wpos else len(evs)))
            early = [e for e in evs[:first_w] if e.startswith("C:")]
            if early or not ws or not ws[0][1].startswith(b"-"):
                chk.violation("accepted:%s:%s" % (c["name"], c["kind"].split("@")[0]), "ill-formed request %s was not rejected cleanly: handler calls %s, reply %r" %
                              (c["desc"], [e.split(":", 5)[5] for e in early], ws[0][1] if ws else None), dict(case=c["line"], desc=c["desc"]))
                continue
            if len(ws) != 3 or ws[1][1] != c["follow"][2] or ws[2][1] != b"$1\r\nv\r\n":
                chk.violation("after-reject", "requests after the rejected %s were not processed normally: replies %s" % (c["desc"], [w[1] for w in ws]), dict(case=c["line"], desc=c["desc"]))
                continue
            later = L.calls_of(evs)
            if len(later) != 1 or later[0][0] != c["db"] or not later[0][1] or later[0][4] != "Get(%s)" % L.hx(b"after"):
                chk.violation("state-after-reject", "connection state changed by the rejected %s: later calls %s" % (c["desc"], later), dict(case=c["line"], desc=c["desc"]))
                continue
        if not corr(chk, c):
            continue
        validated += 1
        distinct.add(c["desc"])
    if broken and not chk.violations:
        chk.violation("proof-broken", broken, dict(broken=broken, theorem="GRP.C10"), True)
    chk.coverage.update(
        evaluations=len(cases), distinct_nontrivial=len(distinct),
        rule="for each of the %d commands of the grammar: every required position omitted, every position as a null bulk, every numeric position replaced by each of "
             "%d non-numeric/overflowing/fractional tokens (floats: %d tokens incl. nan), pair and score/member lists cut to odd length, every SET option clash / repeat / "
             "non-positive / out-of-range expiry, LIMIT and COUNT operands, fractional ZRANGE indices — enumerated completely; followed by PING/ECHO and GET to show the "
             "connection is unaffected; plus %d random corruptions (monitors only); non-trivial = distinct malformed request" % (len(G.SIGS), len(G.NON_NUMERIC), len(G.NON_FLOAT), nrand),
        exhaustive=True, traces_validated_against_impl=validated, input_distribution=dict(by_malformation=kinds),
        samples=[c["desc"][:160] for c in cases[::max(1, len(cases) // 6)]][:6])
    chk.finish()

# ------------------------------------------------------------------------------------------ C11
def run_c11(tier, seed):
    chk = Check("C11", tier, seed)
    broken = prep(chk, "C11")
    rng = random.Random(seed)
    cases = []
    npipes = 24 if tier == "quick" else 250
    for pi in range(npipes):
        reqs = []
        for _ in range(rng.randint(1, 4)):
            nm, args, exp = G.gen_direct(rng, rng.choice([n for n in G.DIRECT if n not in ("SCAN", "EXPIRE", "EXPIREAT")]))
            args = [a[:24] for a in args]
            reqs.append((nm, args))
        if pi == 0:
            reqs = [("RPUSH", [b"l", b"a", b"b"]), ("LPOP", [b"l", b"5"])]
        parts = [G.request_bytes(nm, a) for nm, a in reqs]
        data = b"".join(parts)
        ends, off = [], 0
        for p in parts:
            off += len(p); ends.append(off)
        for k in range(len(data) + 1):
            mode = "e" if (k + pi) % 2 == 0 else "x"
            j = sum(1 for e in ends if e <= k)
            cf = [True] if (k + pi) % 3 == 0 else None       # closing the socket reports an error (a TLS peer that is gone): release must not depend on it
            cases.append(dict(reqs=reqs, k=k, j=j, mode=mode, line=L.mkcase(([(0, "f" + L.hx(data[:k]))] if k else []) + [(0, mode if not cf else "r")], default="mb(76)", cfail=cf),
                              desc="pipeline %s cut at byte %d of %d (%s)" % (" ; ".join(req_desc(n, a) for n, a in reqs)[:200], k, len(data),
                                                                            "reset, Close reports an error" if cf else ("half-close" if mode == "e" else "full close"))))
        # a client that is gone before the server has read what it sent (fire and forget): every write of an answer fails while
        # later, completely received requests are still unread - they are executed all the same, the partial one is not
        for k in sorted(set(ends + [e - 1 for e in ends] + [e + 1 for e in ends[:-1]] + [len(data)])):
            if 0 < k <= len(data):
                j = sum(1 for e in ends if e <= k)
                cases.append(dict(reqs=reqs, k=k, j=j, mode="wf", nowrites=True, line=L.mkcase([(0, "w"), (0, "f" + L.hx(data[:k])), (0, "e" if (k + pi) % 2 else "x")], default="mb(76)"),
                                  desc="pipeline %s: the client is gone before the server reads (every answer write fails), stream ends at byte %d of %d" %
                                       (" ; ".join(req_desc(n, a) for n, a in reqs)[:200], k, len(data))))
        # the last bytes arrive TOGETHER with the end of the stream (one Read returns n > 0 and io.EOF - crypto/tls does that when the
        # peer's close_notify is already buffered): a request that was received completely that way is executed and answered
        for k in sorted(set(ends + [e - 2 for e in ends] + [len(data)])):
            if 0 < k <= len(data):
                j = sum(1 for e in ends if e <= k)
                cut = max(0, k - 1 - (k + pi) % 7)
                cases.append(dict(reqs=reqs, k=k, j=j, mode="eof-with-data", line=L.mkcase(([(0, "f" + L.hx(data[:cut]))] if cut else []) + [(0, "E" + L.hx(data[cut:k]))], default="mb(76)"),
                                  desc="pipeline %s: stream ends at byte %d of %d, the last %d bytes delivered together with the end of the stream" %
                                       (" ; ".join(req_desc(n, a) for n, a in reqs)[:200], k, len(data), k - cut)))
    # a request with more elements than the parser pre-allocates for (proto.maxArrayPrealloc = 1024), behind a small complete one:
    # the stream ends at / around every element boundary near the cap and its doublings, and at every byte of the elements around the cap
    for n_el, pi2 in ((1030, 0), (2052, 1)) if tier == "quick" else ((1025, 0), (1030, 1), (1500, 0), (2052, 1), (4100, 0)):
        reqs = [("RPUSH", [b"c", b"x"]), ("RPUSH", [b"big"] + [b"e%d" % (i % 10) for i in range(n_el - 2)])]
        parts = [G.request_bytes(nm, a) for nm, a in reqs]
        data = b"".join(parts)
        ends = [len(parts[0]), len(data)]
        # byte offsets of element boundaries of the big request
        bounds, off = [], len(parts[0]) + len(b"*%d\r\n" % n_el)
        for el in [b"RPUSH", b"big"] + [b"e%d" % (i % 10) for i in range(n_el - 2)]:
            off += len(b"$%d\r\n" % len(el)) + len(el) + 2
            bounds.append(off)
        ks = set()
        for idx in (1022, 1023, 1024, 1025, 1026, 2047, 2048, 2049, 4095, 4096, 4097, n_el - 1, n_el):
            if 0 < idx <= n_el:
                b = bounds[idx - 1]
                ks.update(range(max(0, b - 9), min(len(data), b + 9) + 1))
        ks.update(bounds[::37])
        for k in sorted(ks):
            mode = "e" if (k + pi2) % 2 == 0 else "x"
            j = sum(1 for e in ends if e <= k)
            cases.append(dict(reqs=reqs, k=k, j=j, mode=mode, line=L.mkcase(([(0, "f" + L.hx(data[:k]))] if k else []) + [(0, mode)], default="mb(76)"),
                              desc="RPUSH c x ; RPUSH big <%d elements> cut at byte %d of %d (%s)" % (n_el - 2, k, len(data), "half-close" if mode == "e" else "full close")))
        cases.append(dict(reqs=reqs, k=len(data), j=2, mode="e", line=L.mkcase([(0, "f" + L.hx(data)), (0, "e")], default="mb(76)"), desc="RPUSH c x ; RPUSH big <%d elements> complete" % (n_el - 2)))
    # requests written as text lines (the inline form telnet / netcat / health checkers send; the pinned tree answers it with a
    # protocol error and closes): whatever a tree does with a COMPLETE line, a line whose CR LF has not arrived is a partial
    # request - a stream cut inside a line leads to exactly the handler calls of the same stream cut at its last complete line
    inline_cases = []
    for pi, lines_ in enumerate([[b"SET k v", b"DEL a b c"], [b"DEL k1 k2 k3"], [b"RPUSH l a b c", b"LPOP l"], [b"MSET a 1 b 2", b"EXPIRE k 100"], [b"PING", b"SETEX k 10 value"]]):
        data = b"".join(l + b"\r\n" for l in lines_)
        ends, off = [0], 0
        for l in lines_:
            off += len(l) + 2; ends.append(off)
        for k in range(len(data) + 1):
            base = max(e for e in ends if e <= k)
            mode = "e" if (k + pi) % 2 == 0 else "x"
            inline_cases.append(dict(inline=pi, k=k, base=base, line=L.mkcase(([(0, "f" + L.hx(data[:k]))] if k else []) + [(0, mode)], default="mb(76)"),
                                     desc="text-line requests %r cut at byte %d of %d (%s)" % (data, k, len(data), "half-close" if mode == "e" else "full close")))
    good_inline = run_cases(chk, inline_cases)
    at = {(c["inline"], c["k"]): [x[4] for x in L.calls_of(c["iobs"].conns[0][1])] for c in good_inline}
    for c in good_inline:
        if not basic_monitors(chk, "C11", c):
            continue
        got, want = at[(c["inline"], c["k"])], at.get((c["inline"], c["base"]))
        if want is not None and got != want:
            chk.violation("partial-line-executed", "%s: handler calls %s; the same stream ending at its last complete line (byte %d) gives %s" % (c["desc"], got, c["base"], want),
                          dict(case=c["line"], desc=c["desc"], got=got, expected=want))
            continue
        err = L.monitor_release(c["iobs"].conns[0][0], c["iobs"].conns[0][1], c["iobs"].final)
        if err:
            chk.violation("not-released", "%s: %s" % (c["desc"], err), dict(case=c["line"], desc=c["desc"]))
            continue
        corr(chk, c)
    good = run_cases(chk, cases)
    validated, distinct = 0, set()
    # expected calls of complete requests: taken from the run of the uncut pipeline (k = len) of the same pipeline
    full = {}
    for c in good:
        if c["j"] == len(c["reqs"]) and c["k"] == sum(len(G.request_bytes(n, a)) for n, a in c["reqs"]):
            full[id(c["reqs"])] = [x[4] for x in L.calls_of(c["iobs"].conns[0][1])]
    for c in good:
        if not basic_monitors(chk, "C11", c):
            continue
        res, evs = c["iobs"].conns[0]
        calls = [x[4] for x in L.calls_of(evs)]
        ws = L.writes_of(evs)
        allcalls = full.get(id(c["reqs"]))
        if allcalls is not None and len(allcalls) == len(c["reqs"]):
            want = allcalls[:c["j"]]
            if calls != want:
                chk.violation("partial-executed", "%s: handler calls %s, but only %d request(s) were received completely (expected %s)" % (c["desc"], calls, c["j"], want),
                              dict(case=c["line"], desc=c["desc"], got=calls, expected=want))
                continue
        if len(ws) != c["j"] and not c.get("nowrites"):
            chk.violation("reply-count-after-cut", "%s: %d replies for %d complete requests" % (c["desc"], len(ws), c["j"]), dict(case=c["line"], desc=c["desc"]))
            continue
        err = L.monitor_release(res, evs, c["iobs"].final)
        if err:
            chk.violation("not-released", "%s: %s" % (c["desc"], err), dict(case=c["line"], desc=c["desc"]))
            continue
        if not corr(chk, c):
            continue
        validated += 1
        if 0 < c["k"]:
            distinct.add((id(c["reqs"]), c["k"]))
    if broken and not chk.violations:
        chk.violation("proof-broken", broken, dict(broken=broken, theorem="GRP.C11"), True)
    chk.coverage.update(
        evaluations=len(cases) + len(inline_cases), distinct_nontrivial=len(distinct),
        rule="%d pipelines of 1..4 valid client requests from the grammar; EVERY byte offset of each pipeline as the end of the stream (complete enumeration per pipeline), "
             "alternating half-close (replies still writable) and full close (writes fail); non-trivial = distinct (pipeline, offset > 0)" % npipes,
        exhaustive=True, traces_validated_against_impl=validated,
        samples=[c["desc"][:200] for c in cases[::max(1, len(cases) // 5)]][:5])
    chk.assumptions = ["requests are arrays of non-null bulk strings (what clients send); for line-typed elements the parser's end-of-stream leniency can complete a frame (observed by C06, outside this quantifier)"]
    chk.finish()

# ------------------------------------------------------------------------------------------ C20 (and the loop part of C19)
# what a client may leave behind a complete request before it closes: malformed frames, stray line breaks, lone type bytes
JUNK_TAILS = [b"!bogus\r\n", b"$abc\r\n", b"*1\r\n$3\r\nabXY\r\n", b"\x00\x01", b"\r", b"\n", b"\r\n", b"\r\n\r\n", b"\n\n", b" ", b"*", b"$", b"+",
              b"*1\r\n", b"\r\n*1\r\n$4\r\nPING\r\n", b"\n*", b"$-", b"*-1\r\n", b"$0\r\n\r\n\r\n"]

def outcome_cases(rng, n, tier):
    """pipelines mixing every request outcome, ended in every way"""
    cases = []
    for _ in range(n):
        pw = b"secret" if rng.random() < 0.3 else None
        reqs = []
        for _ in range(rng.randint(1, 5)):
            r = rng.random()
            if r < 0.45: reqs.append(any_request(rng))
            elif r < 0.6:
                nm = rng.choice(sorted(G.SIGS)); mal = G.malformations(rng, nm); kind, args = rng.choice(mal)
                reqs.append((nm, args))
            elif r < 0.7: reqs.append((rng.choice(["NOSUCH", ""]), [b"x"]))
            elif r < 0.8 and pw: reqs.append(("AUTH", [rng.choice([pw, b"wrong", b""])]))
            elif r < 0.88: reqs.append((rng.choice(["STRLEN", "HLEN", "HKEYS", "SUBSTR", "HEXISTS", "HSTRLEN", "HVALS"]), [b"k", b"0", b"1"]))
            else: reqs.append(("QUIT", []))
        parts = [G.request_with_nulls(nm if isinstance(nm, str) else nm.decode("latin1"), a) for nm, a in reqs]
        if rng.random() < 0.08:
            # QUIT wrapped in one or two more array levels (the server looks through nested arrays), then one more request
            parts += [rng.choice([b"*1\r\n*1\r\n$4\r\nQUIT\r\n", b"*1\r\n*1\r\n*1\r\n$4\r\nquit\r\n", b"*2\r\n*1\r\n$4\r\nQuit\r\n$1\r\nx\r\n"]), G.request_bytes("PING", [])]
            reqs = reqs + [("<nested QUIT>", []), ("PING", [])]
        # a certificate rule on the server (plain connections then fail every AUTH without an error from the authenticator)
        rule = b"trusted-client" if rng.random() < 0.12 else None
        if rule and rng.random() < 0.7:
            parts += [G.request_bytes("AUTH", [rng.choice([b"x", b"secret", b""])]), G.request_bytes("PING", [])]
            reqs = reqs + [("AUTH", [b"x"]), ("PING", [])]
        data = b"".join(parts)
        endk = rng.choice(["boundary", "inside", "garbage", "reset", "wfail"])
        steps = []
        if endk == "boundary":
            cut = rng.randint(0, len(parts))
            steps = [(0, "f" + L.hx(b"".join(parts[:cut])))] if cut else []
            steps.append((0, "e"))
        elif endk == "inside":
            k = rng.randrange(1, len(data)) if len(data) > 1 else 0
            steps = [(0, "f" + L.hx(data[:k])), (0, "e")]
        elif endk == "garbage":
            steps = [(0, "f" + L.hx(data + rng.choice(JUNK_TAILS))), (0, "e")]
        elif endk == "reset":
            steps = [(0, "f" + L.hx(data)), (0, "r")]
        else:
            steps = [(0, "w"), (0, "f" + L.hx(data)), (0, "x")]
        noerr = has_mapcmd([(n_, a) for n_, a in reqs if isinstance(n_, str)])
        cfail = [True] if rng.random() < 0.15 else None       # closing the socket reports an error (TLS peer gone): the release must not depend on it
        cases.append(dict(line=L.mkcase(steps, pw=pw, tbl=rand_table(rng, noerr=noerr), default=rng.choice(HRES_NOERR if noerr else HRES_POOL), rule=rule, cfail=cfail), endk=endk,
                          desc=("[pw] " if pw else "") + " ; ".join(req_desc(n_, a) for n_, a in reqs)[:260] + " [end: %s]" % endk))
    return cases

def run_c20(tier, seed):
    chk = Check("C20", tier, seed)
    broken = prep(chk, "C20")
    rng = random.Random(seed)
    cases = outcome_cases(rng, 2500 if tier == "quick" else 30000, tier)
    # end of stream at EVERY byte offset (request boundaries, inside counts, between CR and LF, inside payloads) of small pipelines
    for pi, reqs in enumerate([[("PING", [])], [("GET", [b"k"]), ("NOSUCH", [b"a"])], [("SET", [b"k", b"v\r\n"]), ("STRLEN", [b"k"]), ("QUIT", [])],
                               [("HLEN", [b"h"]), ("GET", [])], [("SUBSTR", [b"k", b"0", b"1"])]]):
        data = b"".join(G.request_bytes(nm, a) for nm, a in reqs)
        for k in range(len(data) + 1):
            for endop in ("e", "r"):
                cases.append(dict(line=L.mkcase(([(0, "f" + L.hx(data[:k]))] if k else []) + [(0, endop)], default="mb(76)"), endk="cut-every-offset",
                                  desc="%s cut at byte %d of %d (%s)" % (" ; ".join(req_desc(n_, a) for n_, a in reqs), k, len(data), "eof" if endop == "e" else "reset")))
    # the connection is closed from the SERVER side (Stop) while it is idle between requests, inside a request, or with a reply
    # write in flight: the spans of the open iteration are still finished exactly once (the model has no Stop: monitors only)
    bigv = bytes(range(65, 91)) * 400
    for pre in ([("PING", [])], [("GET", [b"k"]), ("SET", [b"k", b"v"])], [], [("NOSUCH", [])], [("STRLEN", [b"k"]), ("HLEN", [b"h"])]):
        data = b"".join(G.request_bytes(nm, a) for nm, a in pre)
        for tail in (b"", b"*2\r\n$3\r\nGET\r\n$1", b"*1\r\n"):
            steps = ([(0, "f" + L.hx(data + tail))] if data + tail else []) + [(0, "S")]
            cases.append(dict(line=L.mkcase(steps, default="mb(76)"), endk="server-stop", nocorr=True,
                              desc="%s%s, then the server is stopped [end: Stop]" % (" ; ".join(req_desc(n_, a) for n_, a in pre) or "(nothing sent)", " + a partial request" if tail else "")))
    # configuration keys and values a change has introduced (string literals the pinned tree does not have): switched back and forth
    # by CONFIG SET between ordinary requests - whatever the key turns on or off, every iteration stays bracketed by balanced spans
    import thresholds as T
    nw = [w.encode() for w in T.new_strings()]
    for key in nw:
        for vals in ([b"no", b"yes"], [b"0", b"1"], [b"yes", b"no", b"yes"]) + tuple([v, b"yes"] for v in nw if v != key)[:3]:
            reqs = [("PING", [])]
            for v in vals:
                reqs += [("CONFIG", [b"SET", key, v]), ("GET", [b"k"]), ("STRLEN", [b"k"])]
            data = b"".join(G.request_bytes(n_, a) for n_, a in reqs)
            cases.append(dict(line=L.mkcase([(0, "f" + L.hx(G.request_bytes(n_, a))) for n_, a in reqs] + [(0, "e")], default="mb(76)"), endk="new-config-key",
                              desc=" ; ".join(req_desc(n_, a) for n_, a in reqs)))
    # two connections contend for the command lock: connection 0's handler call is held inside the handler while connection 1's
    # request arrives and waits for the lock; every iteration of BOTH connections is still bracketed by its own balanced spans
    for other in ([("PING", [])], [("GET", [b"k"]), ("STRLEN", [b"k"])], [("NOSUCH", [])], [("SET", [b"k", b"v"]), ("QUIT", [])]):
        for slow in (("GET", [b"slowkey"]), ("STRLEN", [b"slowkey"]), ("HLEN", [b"slowkey"])):
            steps = [(0, "f" + L.hx(G.request_bytes("PING", []))), (0, "g" + L.hx(G.request_bytes(*slow))), (1, "g" + L.hx(b"".join(G.request_bytes(n_, a) for n_, a in other))),
                     (0, "G"), (1, "f" + L.hx(G.request_bytes("PING", []))), (0, "f" + L.hx(G.request_bytes("PING", []))), (0, "e"), (1, "e")]
            cases.append(dict(line=L.mkcase(steps, conns=2, default="mb(76)"), endk="lock-contention", nocorr=True, both=True,
                              desc="c0: PING ; %s (held inside the handler) | c1 meanwhile: %s ; then both go on" % (req_desc(*slow), " ; ".join(req_desc(n_, a) for n_, a in other))))
    for cap in (0, 100, 5000):
        steps = [(0, "s%d" % cap), (0, "f" + L.hx(G.request_bytes("PING", []) + G.request_bytes("GET", [b"bigk"]) + G.request_bytes("PING", []))), (0, "S")]
        cases.append(dict(line=L.mkcase(steps, tbl={"Get:" + L.hx(b"bigk"): "mb(" + L.hx(bigv) + ")"}, default="ms(4f4b)"), endk="server-stop", nocorr=True,
                          desc="PING ; GET bigk ; PING with the client not reading (%d bytes of buffer), then the server is stopped [end: Stop]" % cap))
    good = run_cases(chk, cases)
    validated, distinct, ends = 0, set(), {}
    for c in good:
        if not c.get("nocorr") and not basic_monitors(chk, "C20", c):
            continue
        res, evs = c["iobs"].conns[0]
        err = L.monitor_spans(evs)
        if not err and c.get("both"):
            err = L.monitor_spans(c["iobs"].conns[1][1])
            if err:
                evs = c["iobs"].conns[1][1]
                err = "connection 1: " + err
        if err:
            chk.violation("spans-unbalanced", "%s :: %s" % (err, c["desc"]), dict(case=c["line"], desc=c["desc"], events=[e for e in evs if e[:2] in ("RS", "RF", "SS", "SF") or e.startswith("!")][:200]))
            continue
        if not c.get("nocorr") and not corr(chk, c):
            continue
        validated += 1
        ends[c["endk"]] = ends.get(c["endk"], 0) + 1
        distinct.add(c["desc"])
    if broken and not chk.violations:
        chk.violation("proof-broken", broken, dict(broken=broken, theorem="GRP.C20"), True)
    chk.coverage.update(
        evaluations=len(cases), distinct_nontrivial=len(distinct),
        rule="pipelines of 1..5 requests mixing every outcome (success with every handler-result shape, argument errors from the C10 catalogue, unknown command, "
             "unauthorized on a password-protected server, AUTH right/wrong, commands composed from other commands, QUIT) x every ending (end of stream at a request "
             "boundary, inside a request, protocol error, reset, write failure); a tracer double records start/finish and checks the span stack itself; non-trivial = distinct case",
        traces_validated_against_impl=validated, input_distribution=dict(endings=ends),
        samples=[c["desc"][:200] for c in cases[:5]])
    chk.finish()

def run_c19_loop(chk, rng, n):
    """the connection-loop half of C19: every ending mode of one scripted connection releases it"""
    cases = outcome_cases(rng, n, "quick")
    good = run_cases(chk, cases)
    validated, ends = 0, {}
    for c in good:
        if not basic_monitors(chk, "C19", c):
            continue
        res, evs = c["iobs"].conns[0]
        err = L.monitor_release(res, evs, c["iobs"].final)
        if err:
            chk.violation("not-released", "%s :: %s" % (err, c["desc"]), dict(case=c["line"], desc=c["desc"]))
            continue
        if evs.count("CLOSE") < 1:
            continue
        if not corr(chk, c):
            continue
        validated += 1
        ends[c["endk"]] = ends.get(c["endk"], 0) + 1
    return len(cases), validated, ends, [c["desc"][:160] for c in cases[:3]]
