(* C10 — ill-formed arguments are rejected without side effects.  Property theorems only.
   "Rejected" = the executor returns the framework-error result `x_fw` with the event log UNCHANGED: no handler
   call, no other event; execute_command then leaves connection and server state as they were (C05/ConnFacts), the
   reply is an error frame (C04) and the loop goes on with the next request (C03). *)
From Coq Require Import String.
From GR Require Import Base Resp Handler Exec Conn Grammar GrammarFacts GrammarMal FloatFacts.

Section C10.
  Variable hstate : Type.
  Variable handle : hstate -> Z -> hcall -> hstate * hresult.
  Variable regexp_src : bytes -> bytes.

  (* (1) no partial execution, for ANY argument list whatsoever: a command that maps onto one handler operation is
     either refused without a single event, or is exactly one handler call *)
  Theorem C10_no_partial_execution : forall r c a s,
    exec_of hstate handle regexp_src r c a s = (x_fw, s) \/
    exists h, exec_of hstate handle regexp_src r c a s = pass hstate handle c h s.
  Proof. exact (direct_dichotomy hstate handle regexp_src). Qed.

  (* (2) a required positional argument is missing: every strict prefix of the required part of every valid request
     (for ZADD: key, option words, first score, first member) is refused *)
  Theorem C10_missing_argument : forall r c s n, valid r = true -> (n < required r)%nat ->
    exec_of hstate handle regexp_src r c (firstn n (print r)) s = (x_fw, s).
  Proof. exact (truncated_rejected hstate handle regexp_src). Qed.

  (* (3) key/value lists with a dangling half, or empty: MSET, MSETNX, HMSET, CONFIG SET *)
  Theorem C10_mset_dangling : forall c l s, Nat.odd (length l) = true ->
    x_MSET hstate handle c (map bulk l) s = (x_fw, s) /\ x_MSETNX hstate handle c (map bulk l) s = (x_fw, s).
  Proof. exact (mset_dangling hstate handle). Qed.
  Theorem C10_mset_empty : forall c s, x_MSET hstate handle c [] s = (x_fw, s) /\ x_MSETNX hstate handle c [] s = (x_fw, s).
  Proof. exact (mset_empty hstate handle). Qed.
  Theorem C10_hmset_dangling : forall c k l s, Nat.odd (length l) = true -> x_HMSET hstate handle c (map bulk (k :: l)) s = (x_fw, s).
  Proof. exact (hmset_dangling hstate handle). Qed.
  Theorem C10_config_set_dangling : forall ss w l, word_ok w = true -> w_kw w = "SET"%string -> Nat.odd (length l) = true ->
    x_CONFIG ss (map bulk (w_txt w :: l)) = (x_fw, ss).
  Proof. exact config_set_dangling. Qed.

  (* (4) a score without its member, after any number of complete score/member pairs *)
  Theorem C10_zadd_dangling : forall more score m tok,
    forallb (fun p : fltok * bytes => fltok_ok (fst p)) more = true ->
    zadd_members (bulk m :: flat_map (fun p : fltok * bytes => [bulk (ft_txt (fst p)); bulk (snd p)]) more ++ [bulk tok]) score = None.
  Proof. exact zadd_members_dangling. Qed.

  (* (5) SET: a non-positive expiry, whatever precedes and follows *)
  Theorem C10_set_nonpositive_expiry : forall w n rest o,
    word_ok w = true -> (w_kw w = "EX" \/ w_kw w = "PX" \/ w_kw w = "EXAT" \/ w_kw w = "PXAT")%string ->
    inttok_ok n = true -> (it_val n < 1)%Z ->
    next_set_opts (bulk (w_txt w) :: bulk (it_txt n) :: rest) o = None.
  Proof. exact set_nonpositive_expiry. Qed.

  (* (6) SET accepts EXACTLY the option grammar: for any key, value and any further bulk strings the request is either refused
     without an event, or the further strings are the print of a valid option list (each of NX/XX, an expiry, KEEPTTL, GET at
     most once; operands positive and in range) and the handler is called once with exactly those options.  Every repetition
     or combination of exclusive options, every bad operand and every unknown word is therefore refused. *)
  Theorem C10_set_accepts_exactly_the_grammar : forall c k v ts s,
    x_SET hstate handle c (bulk k :: bulk v :: map bulk ts) s = (x_fw, s) \/
    exists ws, valid (QSet k v ws) = true /\ ts = flat_map print_set_word ws /\
               x_SET hstate handle c (bulk k :: bulk v :: map bulk ts) s = pass hstate handle c (HSet k v (set_opt_of ws)) s.
  Proof. first [exact (set_accepts_only_grammar hstate handle) | exact (set_accepts_only_grammar hstate handle regexp_src)]. Qed.

  (* two of NX/XX, or two of EX/PX/EXAT/PXAT, anywhere among the options, in any letter case *)
  Theorem C10_set_exclusive_options : forall c k v ts s,
    (2 <= count_if tok_cond ts \/ 2 <= count_if tok_exp ts)%nat ->
    x_SET hstate handle c (bulk k :: bulk v :: map bulk ts) s = (x_fw, s).
  Proof. first [exact (set_exclusive_options hstate handle) | exact (set_exclusive_options hstate handle regexp_src)]. Qed.

  (* (7) a null - or anything else that is neither a string nor a number - anywhere in the part of the argument list the command
     reads, for ANY argument list (no validity hypothesis on the rest) and every one of the 39 request forms *)
  Theorem C10_null_rejected : forall r c a s m,
    In m (scope r a) -> novalue m -> exec_of hstate handle regexp_src r c a s = (x_fw, s).
  Proof. exact (novalue_rejected hstate handle regexp_src). Qed.

  (* (8) a token that is not an int64 numeral (null, text, fraction, overflowing) where an integer is required; a numeral
     outside the accepted range (expiries); a non-float / non-range token where a score is required; bad option operands *)
  Theorem C10_non_integer_rejected : forall r c a s p m,
    In p (int_pos r) -> nth_error a p = Some m -> msg_integer m = None -> exec_of hstate handle regexp_src r c a s = (x_fw, s).
  Proof. exact (non_integer_rejected hstate handle regexp_src). Qed.
  Theorem C10_out_of_range_rejected : forall r c a s m z lo hi,
    int_range r = Some (lo, hi) -> nth_error a 1 = Some m -> msg_integer m = Some z -> (z < lo \/ hi < z)%Z ->
    exec_of hstate handle regexp_src r c a s = (x_fw, s).
  Proof. exact (out_of_range_rejected hstate handle regexp_src). Qed.
  Theorem C10_zincrby_non_float : forall c a s m, nth_error a 1 = Some m -> nofloat m -> x_ZINCRBY hstate handle c a s = (x_fw, s).
  Proof. first [exact (zincrby_non_float_rejected hstate handle) | exact (zincrby_non_float_rejected hstate handle regexp_src)]. Qed.
  Theorem C10_zrangebyscore_bad_bound : forall c a s p m,
    (p = 1 \/ p = 2)%nat -> nth_error a p = Some m -> norange m -> x_ZRANGEBYSCORE hstate handle c a s = (x_fw, s).
  Proof. first [exact (zrangebyscore_bad_bound_rejected hstate handle) | exact (zrangebyscore_bad_bound_rejected hstate handle regexp_src)]. Qed.
  Theorem C10_zrange_bad_bound : forall c a s p m,
    (p = 1 \/ p = 2)%nat -> nth_error a p = Some m ->
    (forall t, msg_string m = Some t -> atoi t = None /\ parse_range_score t = None) ->
    x_ZRANGE hstate handle c a s = (x_fw, s).
  Proof. first [exact (zrange_bad_bound_rejected hstate handle) | exact (zrange_bad_bound_rejected hstate handle regexp_src)]. Qed.
  Theorem C10_zadd_bad_first_score : forall c k ws m t rest s,
    forallb za_word_ok ws = true -> msg_string m = Some t -> is_za_kw t = false -> parse_float t = None ->
    x_ZADD hstate handle c (bulk k :: map bulk (map za_txt ws) ++ m :: rest) s = (x_fw, s).
  Proof. first [exact (zadd_bad_first_score_rejected hstate handle) | exact (zadd_bad_first_score_rejected hstate handle regexp_src)]. Qed.
  Theorem C10_zadd_bad_later_score : forall more score mem m t rest,
    forallb (fun p : fltok * bytes => fltok_ok (fst p)) more = true -> msg_string m = Some t -> parse_float t = None ->
    zadd_members (bulk mem :: flat_map (fun p : fltok * bytes => [bulk (ft_txt (fst p)); bulk (snd p)]) more ++ m :: rest) score = None.
  Proof. exact zadd_bad_later_score_rejected. Qed.
  Theorem C10_limit_bad_operand : forall l w x y rest o,
    forallb zr_word_ok l = true -> kw w "LIMIT" = true -> (msg_integer x = None \/ msg_integer y = None) ->
    next_range_opts (map bulk (flat_map print_zr_word l) ++ bulk w :: x :: y :: rest) o = None.
  Proof. exact limit_bad_operand_rejected. Qed.
  Theorem C10_scan_count_bad_operand : forall l w x rest o,
    forallb sc_word_ok l = true -> kw w "COUNT" = true -> msg_integer x = None ->
    next_scan_opts regexp_src (map bulk (flat_map print_sc_word l) ++ bulk w :: x :: rest) o = None.
  Proof. exact (scan_count_bad_operand_rejected regexp_src). Qed.
End C10.
Print Assumptions C10_set_accepts_exactly_the_grammar.
Print Assumptions C10_set_exclusive_options.
Print Assumptions C10_null_rejected.
Print Assumptions C10_non_integer_rejected.
Print Assumptions C10_out_of_range_rejected.
Print Assumptions C10_zincrby_non_float.
Print Assumptions C10_zrangebyscore_bad_bound.
Print Assumptions C10_zrange_bad_bound.
Print Assumptions C10_zadd_bad_first_score.
Print Assumptions C10_zadd_bad_later_score.
Print Assumptions C10_limit_bad_operand.
Print Assumptions C10_scan_count_bad_operand.
Print Assumptions C10_no_partial_execution.
Print Assumptions C10_missing_argument.
Print Assumptions C10_mset_dangling.
Print Assumptions C10_mset_empty.
Print Assumptions C10_hmset_dangling.
Print Assumptions C10_config_set_dangling.
Print Assumptions C10_zadd_dangling.
Print Assumptions C10_set_nonpositive_expiry.

(* non-vacuity of the new hypotheses: a null is a non-value; SET k v NX xx has two condition words; `abc` is not an integer *)
Example C10_ex_hyps :
  novalue (RBulk None) /\ count_if tok_cond [B"NX"; B"xx"] = 2%nat /\ count_if tok_exp [B"ex"; B"10"; B"PXAT"; B"5"] = 2%nat /\
  msg_integer (bulk (B"abc")) = None /\ msg_integer (bulk (B"9223372036854775808")) = None /\ msg_integer (bulk (B"1.5")) = None /\
  In (RBulk None) (scope (QSet [] [] []) [bulk (B"k"); bulk (B"v"); bulk (B"NX"); RBulk None]).
Proof. vm_compute. repeat split; auto. Qed.

(* concrete rejections on the model (the same inputs the correspondence run sends to the implementation) *)
Example C10_ex :
  let h := fun (s : unit) (_ : Z) (_ : hcall) => (s, hr_ok ok_msg) in
  let c := {| cs_auth := true; cs_db := 0; cs_user := []; cs_pass := None; cs_tls := None |} in
  let s0 := {| e_hs := tt; e_evs := [] |} in
  let rej x := snd (fst x, e_evs unit (snd x)) = [] /\ x_err (fst x) = Some XFw in
  rej (x_SET unit h c (map bulk [B"k"; B"v"; B"NX"; B"XX"]) s0) /\
  rej (x_SET unit h c (map bulk [B"k"; B"v"; B"EX"; B"10"; B"PX"; B"5"]) s0) /\
  rej (x_SET unit h c (map bulk [B"k"; B"v"; B"EX"; B"9223372037"]) s0) /\
  rej (x_SET unit h c [bulk (B"k"); RBulk None] s0) /\
  rej (x_LRANGE unit h c (map bulk [B"k"; B"1.5"; B"2"]) s0) /\
  rej (x_ZADD unit h c (map bulk [B"k"; B"1"; B"a"; B"2"]) s0).
Proof. vm_compute. repeat split; reflexivity. Qed.

(* a token with a digit separator ("1_0", "(1_0": what Go's strconv.ParseFloat reads as 10) is not a float of the argument
   grammar, plain or as a range bound; with the theorems above (nofloat / norange / parse_float t = None) such a score,
   increment or bound is therefore refused without a handler call (fix 9df90cc) *)
Theorem C10_digit_separators_are_not_floats : forall s, In 95%N s -> parse_float s = None /\ parse_range_score s = None.
Proof. intros s H. split; [exact (parse_float_no_digit_separator s H)|exact (parse_range_score_no_digit_separator s H)]. Qed.
Print Assumptions C10_digit_separators_are_not_floats.

Example C10_ex_digit_separator :
  parse_float [49; 95; 48]%N = None /\ parse_range_score [40; 49; 95; 48]%N = None /\ parse_float [49; 48]%N = Some (FNum (QArith_base.Qmake 10 1)).
Proof. exact digit_separator_tokens. Qed.
