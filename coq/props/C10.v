(* placeholder *)
From GR Require Import Base Resp.
Theorem C10_placeholder : True. Proof. exact I. Qed.
Print Assumptions C10_placeholder.
