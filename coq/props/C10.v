(* C10 — ill-formed arguments are rejected without side effects.  Property theorems only.
   "Rejected" = the executor returns the framework-error result `x_fw` with the event log UNCHANGED: no handler
   call, no other event; execute_command then leaves connection and server state as they were (C05/ConnFacts), the
   reply is an error frame (C04) and the loop goes on with the next request (C03). *)
From Coq Require Import String.
From GR Require Import Base Resp Handler Exec Conn Grammar GrammarFacts.

Section C10.
  Variable hstate : Type.
  Variable handle : hstate -> Z -> hcall -> hstate * hresult.
  Variable regexp_src : bytes -> bytes.

  (* (1) no partial execution, for ANY argument list whatsoever: a command that maps onto one handler operation is
     either refused without a single event, or is exactly one handler call *)
  Theorem C10_no_partial_execution : forall r c a s,
    exec_of hstate handle regexp_src r c a s = (x_fw, s) \/
    exists h, exec_of hstate handle regexp_src r c a s = pass hstate handle c h s.
  Proof. exact (direct_dichotomy hstate handle regexp_src). Qed.

  (* (2) a required positional argument is missing: every strict prefix of the required part of every valid request
     (for ZADD: key, option words, first score, first member) is refused *)
  Theorem C10_missing_argument : forall r c s n, valid r = true -> (n < required r)%nat ->
    exec_of hstate handle regexp_src r c (firstn n (print r)) s = (x_fw, s).
  Proof. exact (truncated_rejected hstate handle regexp_src). Qed.

  (* (3) key/value lists with a dangling half, or empty: MSET, MSETNX, HMSET, CONFIG SET *)
  Theorem C10_mset_dangling : forall c l s, Nat.odd (length l) = true ->
    x_MSET hstate handle c (map bulk l) s = (x_fw, s) /\ x_MSETNX hstate handle c (map bulk l) s = (x_fw, s).
  Proof. exact (mset_dangling hstate handle). Qed.
  Theorem C10_mset_empty : forall c s, x_MSET hstate handle c [] s = (x_fw, s) /\ x_MSETNX hstate handle c [] s = (x_fw, s).
  Proof. exact (mset_empty hstate handle). Qed.
  Theorem C10_hmset_dangling : forall c k l s, Nat.odd (length l) = true -> x_HMSET hstate handle c (map bulk (k :: l)) s = (x_fw, s).
  Proof. exact (hmset_dangling hstate handle). Qed.
  Theorem C10_config_set_dangling : forall ss w l, word_ok w = true -> w_kw w = "SET"%string -> Nat.odd (length l) = true ->
    x_CONFIG ss (map bulk (w_txt w :: l)) = (x_fw, ss).
  Proof. exact config_set_dangling. Qed.

  (* (4) a score without its member, after any number of complete score/member pairs *)
  Theorem C10_zadd_dangling : forall more score m tok,
    forallb (fun p : fltok * bytes => fltok_ok (fst p)) more = true ->
    zadd_members (bulk m :: flat_map (fun p : fltok * bytes => [bulk (ft_txt (fst p)); bulk (snd p)]) more ++ [bulk tok]) score = None.
  Proof. exact zadd_members_dangling. Qed.

  (* (5) SET: a non-positive expiry, whatever precedes and follows *)
  Theorem C10_set_nonpositive_expiry : forall w n rest o,
    word_ok w = true -> (w_kw w = "EX" \/ w_kw w = "PX" \/ w_kw w = "EXAT" \/ w_kw w = "PXAT")%string ->
    inttok_ok n = true -> (it_val n < 1)%Z ->
    next_set_opts (bulk (w_txt w) :: bulk (it_txt n) :: rest) o = None.
  Proof. exact set_nonpositive_expiry. Qed.
End C10.
Print Assumptions C10_no_partial_execution.
Print Assumptions C10_missing_argument.
Print Assumptions C10_mset_dangling.
Print Assumptions C10_mset_empty.
Print Assumptions C10_hmset_dangling.
Print Assumptions C10_config_set_dangling.
Print Assumptions C10_zadd_dangling.
Print Assumptions C10_set_nonpositive_expiry.

(* concrete rejections on the model (the same inputs the correspondence run sends to the implementation) *)
Example C10_ex :
  let h := fun (s : unit) (_ : Z) (_ : hcall) => (s, hr_ok ok_msg) in
  let c := {| cs_auth := true; cs_db := 0; cs_user := []; cs_pass := None; cs_tls := None |} in
  let s0 := {| e_hs := tt; e_evs := [] |} in
  let rej x := snd (fst x, e_evs unit (snd x)) = [] /\ x_err (fst x) = Some XFw in
  rej (x_SET unit h c (map bulk [B"k"; B"v"; B"NX"; B"XX"]) s0) /\
  rej (x_SET unit h c (map bulk [B"k"; B"v"; B"EX"; B"10"; B"PX"; B"5"]) s0) /\
  rej (x_SET unit h c (map bulk [B"k"; B"v"; B"EX"; B"9223372037"]) s0) /\
  rej (x_SET unit h c [bulk (B"k"); RBulk None] s0) /\
  rej (x_LRANGE unit h c (map bulk [B"k"; B"1.5"; B"2"]) s0) /\
  rej (x_ZADD unit h c (map bulk [B"k"; B"1"; B"a"; B"2"]) s0).
Proof. vm_compute. repeat split; reflexivity. Qed.
