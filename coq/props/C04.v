(* placeholder *)
From GR Require Import Base Resp.
Theorem C04_placeholder : True. Proof. exact I. Qed.
Print Assumptions C04_placeholder.
