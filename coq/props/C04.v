(* C04 — the reply stream is always well-formed RESP, whatever clients or handlers supply.  Property theorems only. *)
From Coq Require Import String.
From GR Require Import Base Resp Handler Exec Conn ConnFacts LoopFacts.

Section C04.
  Variable hstate : Type.
  Variable handle : hstate -> Z -> hcall -> hstate * hresult.       (* ANY handler: every message type with arbitrary payload, nil, errors, both *)
  Variable regexp_src : bytes -> bytes.
  Variable fw_text : bytes -> args -> bytes.                        (* ANY text of framework errors, client-controlled bytes included *)
  Notation serve := (serve hstate handle regexp_src fw_text).
  Notation trace := (trace hstate).

  (* (1) for EVERY client byte stream (not only valid RESP), every server configuration and every handler: what the
     connection writes is a list of frames, each a complete value of the RESP2 grammar `resp2` — a grammar written
     independently of the serializer, in which status / error / integer lines carry no CR or LF, a bulk prefix is
     the payload length and an array prefix the element count *)
  Theorem C04_writes_are_frames : forall ss hs tls input,
    exists vs, ev_writes (trace (serve ss hs tls input)) = map encode vs /\ Forall resp2 (map encode vs).
  Proof. exact (serve_writes_framed hstate handle regexp_src fw_text). Qed.

  (* (2) the serializer alone: every value it can be given lands in the grammar *)
  Theorem C04_encode_in_grammar : forall v, resp2 (encode v).
  Proof. exact encode_resp2. Qed.

  (* (3) a request the server cannot interpret yields an error frame: a non-array value; an empty array; a null,
     integer or error as the command name.  (handle_message gives no message and no handler error; reply_of turns
     that into an Error value, which (2) frames.) *)
  Theorem C04_uninterpretable_request : forall w req,
    match req with RArr (RArr _ :: _) => False | RArr (RStatus _ :: _) | RArr (RBulk (Some _) :: _) => False | _ => True end ->
    exists r w', handle_message hstate handle regexp_src w req = Ok (r, w') /\ w' = w /\
                 exists t, reply_of fw_text req r = RError t.
  Proof.
    intros w req H. destruct req as [s|s|s|p|[|first rest]]; cbn [handle_message handle_array depth];
      try (eexists; eexists; split; [reflexivity|split; [reflexivity|eexists; reflexivity]]).
    destruct first as [s|s|s|[p|]|l]; try contradiction; cbn [msg_string];
      eexists; eexists; (split; [reflexivity|split; [reflexivity|eexists; reflexivity]]).
  Qed.

  (* (4) a handler that returns nothing at all (nil message, nil error) is answered with an error frame *)
  Theorem C04_handler_returns_nothing : forall req,
    reply_of fw_text req {| x_msg := None; x_err := None |} = RError (B"internal system error").
  Proof. reflexivity. Qed.
End C04.
Print Assumptions C04_writes_are_frames.
Print Assumptions C04_encode_in_grammar.
Print Assumptions C04_uninterpretable_request.
Print Assumptions C04_handler_returns_nothing.

(* non-vacuity: a status reply built from client bytes carrying a forged frame is written as ONE line *)
Example C04_ex : encode (RStatus (B"a" ++ CRLF ++ B"+OK")) = B"+a  +OK" ++ CRLF /\ resp2 (encode (RError (CRLF ++ B"$-1" ++ CRLF))).
Proof. split; [vm_compute; reflexivity|apply encode_resp2]. Qed.
