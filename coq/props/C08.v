(* C08 — password gate: nothing but AUTH runs before the exact password was presented.  Property theorems only.
   All for an ARBITRARY application handler and EVERY interleaving of the requests of any number of connections. *)
From Coq Require Import String.
From GR Require Import Base Resp Handler Exec Conn Multi ConnFacts LoopFacts MultiFacts MultiTLS.

Section C08.
  Variable hstate : Type.
  Variable handle : hstate -> Z -> hcall -> hstate * hresult.
  Variable regexp_src : bytes -> bytes.
  Variable fw_text : bytes -> args -> bytes.

  (* (1) histories: on a server that requires password pw (the authenticator list Start installs), for every number
     of connections, every operation sequence (any interleaving of requests and disconnects, any request values): a
     connection on which a handler or application executor was invoked has, among its OWN processed requests, an AUTH
     carrying exactly pw (byte for byte) under the default user.  Apply it to a prefix of the run to see that the AUTH
     precedes the invocation. *)
  Theorem C08_password_gate : forall ss hs n pw ops i c',
    pw_server ss pw -> cs_auth (initial_cstate ss None) = false ->
    nth_error (ms_conns _ (mrun hstate handle regexp_src fw_text (msys_init hstate ss hs n) ops)) i = Some c' ->
    ev_calls (rev (mc_evs c')) <> [] ->
    exists req, In req (proc hstate handle regexp_src fw_text (msys_init hstate ss hs n) ops i) /\ exact_auth pw req.
  Proof. exact (password_gate hstate handle regexp_src fw_text). Qed.

  (* (2) AUTH succeeds exactly on the configured password: anything else — empty, prefix, extension, case variant,
     embedded NUL/CRLF, a non-default user name, a null or missing argument (auth_creds = None) — is refused *)
  Theorem C08_auth_exact : forall ss pw c a, pw_server ss pw ->
    fst (x_AUTH ss c a) = x_ok ok_msg <-> auth_creds a = Some ([], pw).
  Proof. exact auth_exact. Qed.

  (* (3) a refused AUTH leaves authorization (and database) of the connection unchanged; an accepted one sets it *)
  Theorem C08_auth_effect : forall ss c a,
    (fst (x_AUTH ss c a) = x_ok ok_msg /\ cs_auth (snd (x_AUTH ss c a)) = true) \/
    (fst (x_AUTH ss c a) = x_fw /\ cs_auth (snd (x_AUTH ss c a)) = cs_auth c /\ cs_db (snd (x_AUTH ss c a)) = cs_db c).
  Proof. exact auth_effect. Qed.

  (* (4) while a connection is not authorized, a request of ANY shape yields no handler call and no application call *)
  Theorem C08_unauthorized_no_call : forall (w : world hstate) req q w',
    cs_auth (w_cs _ w) = false -> step hstate handle regexp_src fw_text w req = Ok (q, w') ->
    exists l, e_evs _ (w_est _ w') = rev l ++ e_evs _ (w_est _ w) /\ ev_calls l = [].
  Proof. exact (step_gate hstate handle regexp_src fw_text). Qed.

  (* (5) authorization is per connection: a step of connection i leaves every other connection untouched *)
  Theorem C08_per_connection : forall (m : msys hstate) o j, op_conn o <> j ->
    nth_error (ms_conns _ (mstep hstate handle regexp_src fw_text m o)) j = nth_error (ms_conns _ m) j.
  Proof. exact (mstep_frame hstate handle regexp_src fw_text). Qed.

  (* the gate for EVERY transport and every further authenticator: connections that are plain or TLS with any verified
     certificate chain, a server whose authenticators include the password authenticator Start installs (and, say,
     certificate rules): a verified certificate is not a password *)
  Theorem C08_password_gate_any_transport : forall ss hs tl pw ops i c',
    In (AClear [] pw) (ss_auths ss) -> cfg_get (ss_config ss) requirepass_key <> None ->
    nth_error (ms_conns _ (mrun hstate handle regexp_src fw_text (msys_init_tls hstate ss hs tl) ops)) i = Some c' ->
    ev_calls (rev (mc_evs c')) <> [] ->
    exists req, In req (proc hstate handle regexp_src fw_text (msys_init_tls hstate ss hs tl) ops i) /\ exact_auth pw req.
  Proof. exact (password_gate_any_transport hstate handle regexp_src fw_text). Qed.
End C08.
Print Assumptions C08_password_gate_any_transport.
Print Assumptions C08_password_gate.
Print Assumptions C08_auth_exact.
Print Assumptions C08_auth_effect.
Print Assumptions C08_unauthorized_no_call.
Print Assumptions C08_per_connection.

(* non-vacuity: two connections; connection 1 authenticates, connection 0 tries prefix / extension / case variant / empty *)
Example C08_ex :
  let h := fun (s : unit) (_ : Z) (_ : hcall) => (s, hr_ok ok_msg) in
  let q n := RArr (map (fun s => RBulk (Some s)) n) in
  let ss := {| ss_config := [(B"requirepass", B"secret")]; ss_auths := [AClear [] (B"secret")]; ss_app := [] |} in
  let ops := [MReq 0 (q [B"AUTH"; B"secre"]); MReq 1 (q [B"auth"; B"secret"]); MReq 0 (q [B"AUTH"; B"secret1"]); MReq 0 (q [B"AUTH"; B"SECRET"]);
              MReq 0 (q [B"AUTH"; []]); MReq 0 (q [B"AUTH"; B"admin"; B"secret"]); MReq 0 (q [B"GET"; B"k"]); MReq 1 (q [B"GET"; B"k"])] in
  let m := mrun unit h (fun p => p) (fun _ _ => B"ERR") (msys_init unit ss tt 2) ops in
  map (fun c => (cs_auth (mc_cs c), length (ev_calls (rev (mc_evs c))))) (ms_conns _ m) = [(false, 0%nat); (true, 1%nat)]
  /\ pw_server ss (B"secret") /\ cs_auth (initial_cstate ss None) = false.
Proof. vm_compute. auto. Qed.

(* non-vacuity for the transport-independent gate: password + certificate rule; a plain connection, a TLS connection whose
   certificate satisfies the rule, a TLS connection without certificate; only the one that presents the password gets a call *)
Example C08_ex_tls :
  let h := fun (s : unit) (_ : Z) (_ : hcall) => (s, hr_ok ok_msg) in
  let q n := RArr (map (fun s => RBulk (Some s)) n) in
  let ss := {| ss_config := [(B"requirepass", B"secret")]; ss_auths := [AClear [] (B"secret"); ACert (B"trusted")]; ss_app := [] |} in
  let ops := [MReq 0 (q [B"GET"; B"k"]); MReq 1 (q [B"GET"; B"k"]); MReq 2 (q [B"GET"; B"k"]); MReq 1 (q [B"AUTH"; B"secret"]); MReq 1 (q [B"GET"; B"k"]);
              MReq 0 (q [B"AUTH"; B"secret"]); MReq 0 (q [B"GET"; B"k"])] in
  let m := mrun unit h (fun p => p) (fun _ _ => B"ERR") (msys_init_tls unit ss tt [None; Some [B"trusted"]; Some []]) ops in
  map (fun c => (cs_auth (mc_cs c), length (ev_calls (rev (mc_evs c))))) (ms_conns _ m) = [(false, 0%nat); (true, 1%nat); (false, 0%nat)]
  /\ In (AClear [] (B"secret")) (ss_auths ss) /\ cfg_get (ss_config ss) requirepass_key <> None.
Proof. vm_compute. repeat split; auto. discriminate. Qed.
