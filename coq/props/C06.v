(* C06 — the parser is total on hostile input.  Property theorems only. *)
From Coq Require Import String.
From GR Require Import Base Resp RespFacts.

(* for EVERY byte string: a value, a clean end of stream, or an error — never a Go panic (makeslice with a
   declared count, index out of range), never out of fuel (the recursion terminates within the input length) *)
Theorem C06_parse_total : forall s,
  match fst (parse s) with PValue _ | PEOS | PErr => True | PPanic | POutOfFuel => False end.
Proof. exact parse_total. Qed.
Print Assumptions C06_parse_total.

(* the same through any chunked transport *)
Theorem C06_parse_rd_total : forall r,
  match fst (parse_rd r) with PValue _ | PEOS | PErr => True | PPanic | POutOfFuel => False end.
Proof. intros r. rewrite (proj1 (parse_rd_flat r)). apply parse_total. Qed.
Print Assumptions C06_parse_rd_total.

(* a value consumed a non-empty prefix of the input: no value is conjured from nothing; "array with absent
   elements" is not representable in `resp`, and end of stream inside an array is PErr (parse_elems) *)
Theorem C06_value_consumes : forall f s v s',
  parse_fuel f s = (PValue v, s') -> exists c, c <> [] /\ s = c ++ s'.
Proof. exact parse_fuel_consumes. Qed.
Print Assumptions C06_value_consumes.

Example C06_ex : fst (parse (B"*4611686018427387904" ++ CRLF)) = PErr /\ fst (parse (B"$9223372036854775807" ++ CRLF)) = PErr
  /\ fst (parse (B"*2" ++ CRLF ++ B"$1" ++ CRLF ++ B"a" ++ CRLF)) = PErr /\ fst (parse (B"$-9" ++ CRLF)) = PValue (RBulk None).
Proof. vm_compute. auto. Qed.
