(* C03 — every command gets exactly one reply, in order, without needing more input; QUIT; handler errors.
   Property theorems only.  Everything is stated for an ARBITRARY application handler (`handle`), an arbitrary
   text function for framework-generated errors and an arbitrary glob compiler. *)
From Coq Require Import String.
From GR Require Import Base Resp Handler Exec Conn ConnFacts LoopFacts.

Section C03.
  Variable hstate : Type.
  Variable handle : hstate -> Z -> hcall -> hstate * hresult.
  Variable regexp_src : bytes -> bytes.
  Variable fw_text : bytes -> args -> bytes.
  Notation serve := (serve hstate handle regexp_src fw_text).
  Notation trace := (trace hstate).

  (* (1) for every sequence of requests — ANY well-formed RESP values, so in particular every non-empty array of
     bulk strings: any command name, any arguments, valid or not — followed by nothing or by bytes that do not
     parse: the connection writes exactly one frame per request it processed, the i-th being the encoding of the
     reply to the i-th request (in request order); every request is processed unless an earlier one was answered
     with the QUIT sentinel. *)
  Theorem C03_one_reply_per_request : forall ss hs reqs tail,
    forallb wf reqs = true -> forallb size_ok reqs = true -> (tail = [] \/ fst (parse tail) = PErr) ->
    let r := serve ss hs None (flat_map encode reqs ++ tail) in
    exists replies,
      ev_writes (trace r) = map encode replies /\
      Forall2 (fun rep req => exists x, rep = reply_of fw_text req x) replies (firstn (length replies) reqs) /\
      (length replies <= length reqs)%nat /\
      (fst r <> EndQuit -> length replies = length reqs) /\
      (fst r = EndQuit -> replies <> []).
  Proof. exact (requests_one_reply_each hstate handle regexp_src fw_text). Qed.

  (* (2) no request makes the connection spin or crash: for EVERY input byte string the loop terminates (fuel = input
     length + 1 suffices) by end of stream, protocol error or QUIT *)
  Theorem C03_no_spin : forall ss hs tls input,
    fst (serve ss hs tls input) <> EndPanic /\ fst (serve ss hs tls input) <> EndFuel.
  Proof. exact (serve_no_panic hstate handle regexp_src fw_text). Qed.

  (* (3) replies do not wait for later input: the events of the connection after the first k bytes of a pipeline are
     those of the stream that ends after the last request completely inside those k bytes — so the reply to every
     complete request is written whatever follows (or does not follow) it. *)
  Theorem C03_replies_need_no_more_input : forall ss hs reqs k,
    forallb is_request reqs = true -> forallb size_ok reqs = true -> (k <= length (flat_map encode reqs))%nat ->
    exists j, (j <= length reqs)%nat /\
      (length (flat_map encode (firstn j reqs)) <= k)%nat /\
      ((j < length reqs)%nat -> (k < length (flat_map encode (firstn (S j) reqs)))%nat) /\
      trace (serve ss hs None (firstn k (flat_map encode reqs))) = trace (serve ss hs None (flat_map encode (firstn j reqs))).
  Proof. exact (cut_trace hstate handle regexp_src fw_text). Qed.

  (* (4) QUIT (any letter case) on an authorized connection: reply +OK, the loop ends, no handler call *)
  Theorem C03_quit : forall w cmd a,
    cs_auth (w_cs _ w) = true -> upper cmd = B"QUIT" ->
    exists w', step hstate handle regexp_src fw_text w (RArr (RBulk (Some cmd) :: a)) = Ok (true, w') /\
               exists inner, new_evs hstate w w' (inner ++ iter_tail (encode ok_msg)) /\ ev_calls inner = [].
  Proof. exact (quit_command hstate handle regexp_src fw_text). Qed.

  (* (5) what is pipelined behind the request that ended the loop is neither executed nor answered *)
  Theorem C03_nothing_after_quit : forall w l1 q l2 w',
    run_body hstate handle regexp_src fw_text w (l1 ++ [q]) = (Some EndQuit, w') ->
    run_body hstate handle regexp_src fw_text w (l1 ++ q :: l2) = (Some EndQuit, w').
  Proof. exact (nothing_after_quit hstate handle regexp_src fw_text). Qed.

  (* (6) a handler error that is not the QUIT sentinel is an error reply with its text, and the loop continues *)
  Theorem C03_handler_error : forall req t m,
    reply_of fw_text req {| x_msg := m; x_err := Some (XHandler t) |} = RError t /\
    is_quit {| x_msg := m; x_err := Some (XHandler t) |} = false.
  Proof. exact (handler_error_reply fw_text). Qed.
End C03.
Print Assumptions C03_one_reply_per_request.
Print Assumptions C03_no_spin.
Print Assumptions C03_replies_need_no_more_input.
Print Assumptions C03_quit.
Print Assumptions C03_nothing_after_quit.
Print Assumptions C03_handler_error.

(* non-vacuity: a concrete pipeline [SET k v; QUIT; GET k] with a handler that answers OK: two replies, loop ended by QUIT *)
Example C03_ex :
  let h := fun (s : unit) (_ : Z) (_ : hcall) => (s, hr_ok ok_msg) in
  let q n := RArr (map (fun s => RBulk (Some s)) n) in
  let reqs := [q [B"SET"; B"k"; B"v"]; q [B"quit"]; q [B"GET"; B"k"]] in
  let r := Conn.serve unit h (fun p => p) (fun _ _ => B"ERR") {| ss_config := []; ss_auths := []; ss_app := [] |} tt None (flat_map encode reqs) in
  fst r = EndQuit /\ ev_writes (Conn.trace unit r) = [B"+OK" ++ CRLF; B"+OK" ++ CRLF] /\ forallb is_request reqs = true.
Proof. vm_compute. auto. Qed.
