(* placeholder *)
From GR Require Import Base Resp.
Theorem C03_placeholder : True. Proof. exact I. Qed.
Print Assumptions C03_placeholder.
