(* C07 — no client can crash the server or disturb other clients (the part that is logic).  Property theorems only.
   Runtime half (the process survives, a witness connection on a real socket keeps getting exact replies, the example
   store under boundary arguments) is observed by the harness; see DESIGN 4/C07. *)
From Coq Require Import String.
From GR Require Import Base Resp RespFacts Handler Exec Conn Multi ConnFacts LoopFacts MultiFacts Redis Store StoreSafe ArraySafe.

Section C07.
  Variable hstate : Type.
  Variable handle : hstate -> Z -> hcall -> hstate * hresult.     (* any handler that returns: every result shape, nil included *)
  Variable regexp_src : bytes -> bytes.
  Variable fw_text : bytes -> args -> bytes.

  (* (1) the framework contains no reachable panic: for EVERY request value — empty array, null / nested / non-string
     first element, every command with every argument vector (GETRANGE/SUBSTR with any indices and any stored value,
     ReverseBy on any array, nil handler results everywhere) — one loop iteration ends normally *)
  Theorem C07_step_never_panics : forall (w : world hstate) req, exists q w' r inner,
    step hstate handle regexp_src fw_text w req = Ok (q, w') /\ q = is_quit r /\
    e_evs _ (w_est _ w') = rev (inner ++ iter_tail (encode (reply_of fw_text req r))) ++ e_evs _ (w_est _ w) /\
    good inner /\ Forall (call_of (w_cs _ w)) inner.
  Proof. exact (step_ok hstate handle regexp_src fw_text). Qed.

  (* (2) and the parser does not either, on EVERY byte string; so the whole connection loop ends by end of stream,
     protocol error or QUIT for every input *)
  Theorem C07_connection_never_panics : forall ss hs tls input,
    fst (serve hstate handle regexp_src fw_text ss hs tls input) <> EndPanic /\ fst (serve hstate handle regexp_src fw_text ss hs tls input) <> EndFuel.
  Proof. exact (serve_no_panic hstate handle regexp_src fw_text). Qed.

  (* (3) GETRANGE index arithmetic, over ALL of Z: the slice bounds are inside the value *)
  Theorem C07_getrange_in_bounds : forall len st en lo hi,
    (0 <= len)%Z -> getrange_bounds len st en = Some (lo, hi) -> (0 <= lo /\ lo <= hi /\ hi <= len)%Z.
  Proof. exact (getrange_bounds_ok hstate handle). Qed.

  (* (4) isolation: in a system of any number of connections over one handler state, a step of connection i — whatever
     it sends, however it ends — leaves every other connection's state, liveness and log untouched, and never sets the
     system's panic flag *)
  Theorem C07_isolation : forall (m : msys hstate) o j, op_conn o <> j ->
    nth_error (ms_conns _ (mstep hstate handle regexp_src fw_text m o)) j = nth_error (ms_conns _ m) j.
  Proof. exact (mstep_frame hstate handle regexp_src fw_text). Qed.
  Theorem C07_system_never_panics : forall (m : msys hstate) o, ms_panic _ (mstep hstate handle regexp_src fw_text m o) = ms_panic _ m.
  Proof. exact (mstep_no_panic hstate handle regexp_src fw_text). Qed.
End C07.
Print Assumptions C07_step_never_panics.
Print Assumptions C07_connection_never_panics.
Print Assumptions C07_getrange_in_bounds.
Print Assumptions C07_isolation.
Print Assumptions C07_system_never_panics.

Example C07_ex :
  let h := fun (s : unit) (_ : Z) (_ : hcall) => (s, hr_ok (RBulk (Some []))) in
  let q n := RArr (map (fun s => RBulk (Some s)) n) in
  let ss := {| ss_config := []; ss_auths := []; ss_app := [] |} in
  fst (Conn.serve unit h (fun p => p) (fun _ _ => B"ERR") ss tt None
         (flat_map encode [RArr []; q [B"GETRANGE"; B"k"; B"0"; B"0"]; q [B"GETRANGE"; B"k"; B"5"; B"2"]; RArr [RBulk None]; RArr [RArr []]] ++ B"*4611686018427387904" ++ CRLF))
  = EndProtoErr.
Proof. vm_compute. reflexivity. Qed.

(* (5) the bundled example store: its index arithmetic, written with Go's PARTIAL slice / index primitives (None = the
   run-time panic that would kill the process) and WRAPPING int64 arithmetic, never panics and never wraps: for every
   list shorter than 2^62 and ALL int64 arguments — extreme, negative, inverted — the checked function returns exactly
   what the total function of the store model (Store.v, which the correspondence run ties to the Go code) returns *)
Theorem C07_example_store_indexing_safe :
  (forall A (offset count : Z) (l : list A), i64 offset -> i64 count -> short l -> c_limit offset count l = Some (g_limit offset count l)) /\
  (forall z start stop o, i64 start -> i64 stop -> i64 (zr_offset o) -> i64 (zr_count o) -> short z ->
     c_zrange z start stop o = Some (g_zrange z start stop o)) /\
  (forall l start stop, i64 start -> i64 stop -> short l -> c_lrange l start stop = Some (g_lrange l start stop)) /\
  (forall l idx, i64 idx -> short l -> c_lindex l idx = Some (g_lindex l idx)) /\
  (forall left l count, i64 count -> short l -> c_pop left l count = Some (g_pop left l count)) /\
  (forall e z nil_, let pos := Z.of_nat (g_find_pos e z) in let grown := z ++ [nil_] in
     go_slice grown (pos + 1) (lenZ grown) <> None /\ go_slice grown pos (lenZ grown) <> None /\ go_index grown pos <> None).
Proof.
  repeat split.
  - intros A offset count l. apply c_limit_ok.
  - exact c_zrange_ok.
  - exact c_lrange_ok.
  - exact c_lindex_ok.
  - exact c_pop_ok.
  - apply zadd_insert_in_range.
  - apply zadd_insert_in_range.
  - apply zadd_insert_in_range.
Qed.
Print Assumptions C07_example_store_indexing_safe.

(* the checked functions do tell a panic: limitZSetMembers as it was before 4d3cec5 (`mems[offset:offset+count]`) *)
Example C07_ex_store : c_limit_as_found 5 2 [B"a"; B"b"; B"c"] = None /\ c_limit 5 2 [B"a"; B"b"; B"c"] = Some [].
Proof. exact c_limit_as_found_panics. Qed.

(* (6) the framework's own slice arithmetic behind ... LIMIT offset count and the REV commands (proto.Array.LimitBy / ReverseBy),
   written with Go's partial slice primitive and wrapping int64 arithmetic: for every array shorter than 2^62 and ALL int64 step,
   offset and count — a client chooses offset and count freely — LimitBy does not panic, does not wrap, and returns exactly what the
   executable model (Exec.limit_by, used by Conn.step) returns; ReverseBy does not panic and does not wrap *)
Theorem C07_array_helpers_safe :
  (forall A (msgs : list A) step offset count, short msgs -> i64 step -> i64 offset -> i64 count ->
     c_limit_by msgs step offset count = Some (limit_by (Z.to_nat (if (step <? 1)%Z then 1%Z else step)) offset count msgs)) /\
  (forall A (msgs : list A) step, short msgs -> i64 step -> c_reverse_by msgs step <> None).
Proof. split; [intros A; apply c_limit_by_ok|intros A; apply c_reverse_by_total]. Qed.
Print Assumptions C07_array_helpers_safe.
