(* C09 — the TLS client-certificate gate holds and failed handshakes are contained (the part that is logic).
   Property theorems only.  X.509 path validation and the TLS handshake are crypto/tls's: in the model the outcome of
   the handshake is an input (the verified chain of common names, leaf first, or a failure); the complete finite space
   of configurations x credentials x handshake faults is enumerated against the real crypto/tls by the harness. *)
From Coq Require Import String List.
Import ListNotations.
From GR Require Import Base Resp Handler Exec Conn ConnFacts LoopFacts Lifecycle LifecycleFacts LifecycleThms.

Section C09.
  Variable hstate : Type.
  Variable handle : hstate -> Z -> hcall -> hstate * hresult.
  Variable regexp_src : bytes -> bytes.
  Variable fw_text : bytes -> args -> bytes.

  (* (1) the gate: with a common-name rule configured, a TLS connection whose verified chain does not carry that name on
     its LEAF is closed before a single request is read: the whole trace is [close] — no registration, no handler call,
     no reply — whatever the client sends and whatever names the other certificates of the chain carry *)
  Theorem C09_rejected_runs_nothing : forall ss hs chain input,
    let_in ss (Some chain) = false ->
    trace hstate (serve hstate handle regexp_src fw_text ss hs (Some chain) input) = [EvClose].
  Proof. exact (serve_rejected hstate handle regexp_src fw_text). Qed.

  (* ... and entry looks at the leaf only: *)
  Theorem C09_leaf_only : forall cn leaf rest cfg app, cn <> [] ->
    let_in {| ss_config := cfg; ss_auths := [ACert cn]; ss_app := app |} (Some (leaf :: rest)) = bytes_eqb leaf cn.
  Proof.
    intros cn leaf rest cfg app Hcn. unfold let_in, authenticate, initial_cstate. cbn [ss_auths forallb authr_ok cs_tls].
    destruct cn; [congruence|]. rewrite Bool.andb_true_r. reflexivity.
  Qed.

  Theorem C09_no_certificate_refused : forall cn cfg app,
    let_in {| ss_config := cfg; ss_auths := [ACert cn]; ss_app := app |} (Some []) = false.
  Proof. intros. reflexivity. Qed.
End C09.

(* (2) containment: a failed, stalled-then-dropped or rejected handshake ends that one connection — socket closed, never
   registered — and changes nothing else: both listeners, both accept loops, the registry and every other connection are
   as before; by C15 (1) both ports keep accepting *)
Theorem C09_failed_handshake_contained : forall s s' id, lstep s (LHandshakeFail id) = Some s' \/ lstep s (LReject id) = Some s' ->
  open_lis s' = open_lis s /\ fld_plain s' = fld_plain s /\ fld_tls s' = fld_tls s /\ loops s' = loops s /\ registry s' = registry s /\
  accept_wg s' = accept_wg s /\ pc s' = pc s /\
  (forall c, In c (conns s) -> ct_id c <> id -> In c (conns s')) /\
  (forall c, In c (conns s') -> ct_id c = id -> ct_st c = CDone /\ ct_open c = false).
Proof. exact handshake_failure_contained. Qed.

Print Assumptions C09_rejected_runs_nothing.
Print Assumptions C09_leaf_only.
Print Assumptions C09_no_certificate_refused.
Print Assumptions C09_failed_handshake_contained.

Example C09_ex :
  let ss := {| ss_config := []; ss_auths := [ACert (B"trusted-client")]; ss_app := [] |} in
  let_in ss (Some [B"mallory-sub"; B"trusted-client"; B"verif-ca"]) = false /\      (* the name only on an intermediate *)
  let_in ss (Some [B"trusted-client"; B"neutral-intermediate"]) = true /\
  let_in ss None = true.                                                            (* the plain port has no certificate gate *)
Proof. vm_compute. auto. Qed.
