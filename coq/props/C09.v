(* placeholder *)
From GR Require Import Base.
Theorem C09_placeholder : True. Proof. exact I. Qed.
Print Assumptions C09_placeholder.
