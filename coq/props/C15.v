(* placeholder *)
From GR Require Import Base.
Theorem C15_placeholder : True. Proof. exact I. Qed.
Print Assumptions C15_placeholder.
