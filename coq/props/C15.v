(* C15 — Start / Stop / Restart leave the server in the state the call promises.  Property theorems only.
   Lifecycle.v is a transition system whose labels are the atomic steps of the API thread, of each accept loop and of
   each connection goroutine between the synchronisation points of redis/server.go; a schedule is ANY list of labels
   (disabled ones are skipped), so "for all schedules" is a universal quantifier over `list label`.  Runtime half
   (real sockets, ports bindable again, goroutine counts) is observed by the harness and compared with the model's
   executable scheduler `life_model`; see DESIGN 4/C15. *)
From Coq Require Import List.
Import ListNotations.
From GR Require Import Lifecycle LifecycleFacts LifecycleThms.

(* (0) the invariant holds in every state reachable from a fresh server under every schedule, any number of clients *)
Theorem C15_invariant_all_schedules : forall p t ls, Inv (lrun (init p t) ls).
Proof. exact reachable_inv. Qed.
Print Assumptions C15_invariant_all_schedules.

(* (1) after Start (or Restart) has returned and until Stop begins, every enabled port has an open listener held by an
   accept loop that has not returned: a client arriving on it is accepted *)
Theorem C15_running_serves : forall s, Inv s -> pc s = PRunning ->
  (cfg_plain s = true -> exists l, fld_plain s = Some l /\ lstep s (LAcceptOk l) <> None) /\
  (cfg_tls s = true -> exists l, fld_tls s = Some l /\ lstep s (LAcceptOk l) <> None).
Proof. exact running_serves. Qed.
Print Assumptions C15_running_serves.

(* (2) at the moment Stop returns: no listener is open (the ports can be bound again), the registry is empty, every
   accept loop has returned, every connection goroutine has returned and its socket is closed *)
Theorem C15_stop_returns_clean : forall s s', Inv s -> lstep s LStopWaitConns = Some s' ->
  pc s' = PStopped /\ open_lis s' = [] /\ registry s' = [] /\ (forall a, In a (loops s') -> al_done a = true) /\
  (forall c, In c (conns s') -> ct_st c = CDone /\ ct_open c = false).
Proof. exact stop_returns_clean. Qed.
Print Assumptions C15_stop_returns_clean.

(* (3) while running (indeed everywhere outside Stop's close phase) the registry is exactly the set of connections
   between their registration and their deregistration *)
Theorem C15_registry_exact : forall s, Inv s -> pc s <> PStop4 ->
  forall id, In id (registry s) <-> exists c, In c (conns s) /\ ct_id c = id /\ ct_st c = CRegistered.
Proof. exact registry_exact. Qed.
Print Assumptions C15_registry_exact.

Example C15_ex :
  let ls := [LStartBegin; LStartOpen; LStartSpawnPlain; LStartSpawnTLS; LAcceptOk 0; LAcceptOk 1; LAdmit 2; LHandshakeFail 3;
             LStopBegin; LStopCloseLis; LAcceptFail 0; LAcceptFail 1; LStopWaitAccept; LStopCloseConns; LFinish 2; LStopWaitConns] in
  let s := lrun (init true true) ls in
  pc s = PStopped /\ registry s = [] /\ open_lis s = [] /\ conn_wg s = 0 /\ accept_wg s = 0 /\ length (conns s) = 2.
Proof. exact lifecycle_ex. Qed.
