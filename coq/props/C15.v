(* C15 — Start / Stop / Restart leave the server in the state the call promises.  Property theorems only.
   Lifecycle.v is a transition system whose labels are the atomic steps of the API thread, of each accept loop and of
   each connection goroutine between the synchronisation points of redis/server.go; a schedule is ANY list of labels
   (disabled ones are skipped), so "for all schedules" is a universal quantifier over `list label`.  Runtime half
   (real sockets, ports bindable again, goroutine counts) is observed by the harness and compared with the model's
   executable scheduler `life_model`; see DESIGN 4/C15. *)
From Coq Require Import List.
Import ListNotations.
From GR Require Import Lifecycle LifecycleFacts LifecycleThms LifecycleLive.

(* (0) the invariant holds in every state reachable from a fresh server under every schedule, any number of clients *)
Theorem C15_invariant_all_schedules : forall p t ls, Inv (lrun (init p t) ls).
Proof. exact reachable_inv. Qed.
Print Assumptions C15_invariant_all_schedules.

(* (1) after Start (or Restart) has returned and until Stop begins, every enabled port has an open listener held by an
   accept loop that has not returned: a client arriving on it is accepted *)
Theorem C15_running_serves : forall s, Inv s -> pc s = PRunning ->
  (cfg_plain s = true -> exists l, fld_plain s = Some l /\ lstep s (LAcceptOk l) <> None) /\
  (cfg_tls s = true -> exists l, fld_tls s = Some l /\ lstep s (LAcceptOk l) <> None).
Proof. exact running_serves. Qed.
Print Assumptions C15_running_serves.

(* (2) at the moment Stop returns: no listener is open (the ports can be bound again), the registry is empty, every
   accept loop has returned, every connection goroutine has returned and its socket is closed *)
Theorem C15_stop_returns_clean : forall s s', Inv s -> lstep s LStopWaitConns = Some s' ->
  pc s' = PStopped /\ open_lis s' = [] /\ registry s' = [] /\ (forall a, In a (loops s') -> al_done a = true) /\
  (forall c, In c (conns s') -> ct_st c = CDone /\ ct_open c = false).
Proof. exact stop_returns_clean. Qed.
Print Assumptions C15_stop_returns_clean.

(* (3) while running (indeed everywhere except between Stop's first snapshot and its return: exact_phase p := p <> PStop3r /\ p <> PStop4)
   the registry is exactly the set of connections
   between their registration and their deregistration *)
Theorem C15_registry_exact : forall s, Inv s -> exact_phase (pc s) ->
  forall id, In id (registry s) <-> exists c, In c (conns s) /\ ct_id c = id /\ ct_st c = CRegistered.
Proof. exact registry_exact. Qed.
Print Assumptions C15_registry_exact.

(* (4) Stop terminates.  In any state reachable under any schedule in which Stop has closed the listeners and not yet
   returned (stop_wait), every execution — whatever the accept loops, the connection goroutines and the clients do, in
   whatever order — has at most `mu s` steps (mu = Stop's remaining phases + 2 per tracked and 1 per registered connection
   goroutine + live accept loops), at its end Stop has returned or some step is enabled (no deadlock), and while Stop
   waits for the connection goroutines every socket is closed, so no step it waits for is a peer's to take.  Hence every
   maximal execution ends with Stop returned.  (`exec` follows the system only while Stop is waiting.) *)
Theorem C15_stop_terminates : forall p t sched ls s',
  let s := lrun (init p t) sched in
  stop_wait (pc s) = true -> exec s ls = Some s' ->
  length ls <= mu s /\ (pc s' = PStopped \/ exists l s'', lstep s' l = Some s'') /\
  (pc s' = PStop4 -> forall c, In c (conns s') -> ct_open c = false).
Proof. exact stop_returns_under_every_schedule. Qed.
Print Assumptions C15_stop_terminates.

(* every step taken while Stop waits strictly decreases the measure; Stop's own first steps never wait *)
Theorem C15_stop_measure_decreases : forall s l s', Inv s -> stop_wait (pc s) = true -> lstep s l = Some s' -> mu s' < mu s.
Proof. exact stop_measure_decreases. Qed.
Print Assumptions C15_stop_measure_decreases.

Theorem C15_stop_first_steps_enabled : forall s,
  (pc s = PRunning -> lstep s LStopBegin <> None) /\
  (pc s = PStop1 -> exists s', lstep s LStopCloseLis = Some s' /\ stop_wait (pc s') = true).
Proof. intros s. split; [apply stop_begin_enabled|apply stop_close_lis_enabled]. Qed.
Print Assumptions C15_stop_first_steps_enabled.

Example C15_ex_live :
  let s := lrun (init true true) [LStartBegin; LStartOpen; LStartSpawnPlain; LStartSpawnTLS; LAcceptOk 0; LAcceptOk 1; LAcceptOk 0; LEnter 2;
                                  LStopBegin; LStopCloseLis] in
  stop_wait (pc s) = true /\ mu s = 11 /\
  exists ls s', exec s ls = Some s' /\ pc s' = PStopped /\ length ls = 10.
Proof. exact live_ex. Qed.

(* (5) a socket stays tracked until its goroutine returns: in every reachable state every connection goroutine that has not
   returned has its socket in the live set - which is why Stop's second snapshot (it closes exactly the sockets in the live set,
   LStopCloseConns) reaches every goroutine Stop then waits for, whenever it registered *)
Theorem C15_tracked_until_returned : forall p t ls c, let s := lrun (init p t) ls in
  In c (conns s) -> not_done c = true -> In (ct_id c) (live s).
Proof. intros p t ls c s. exact (i_live s (reachable_inv p t ls) c). Qed.
Print Assumptions C15_tracked_until_returned.

(* Stop takes two snapshots: the registry (LStopCloseReg), then the tracked sockets (LStopCloseConns).  A connection accepted before
   Stop that registers BETWEEN them (LEnter 3 below) is in the second snapshot: its socket is closed, it finishes, Stop returns clean *)
Example C15_ex_registers_between_snapshots :
  let ls := [LStartBegin; LStartOpen; LStartSpawnPlain; LStartSpawnTLS; LAcceptOk 0; LEnter 2; LAcceptOk 1;
             LStopBegin; LStopCloseLis; LAcceptFail 0; LAcceptFail 1; LStopWaitAccept; LStopCloseReg; LEnter 3; LStopCloseConns] in
  let s := lrun (init true true) ls in
  pc s = PStop4 /\ registry s = [3] /\ (forall c, In c (conns s) -> ct_open c = false) /\
  let s' := lrun s [LFinish 2; LFinish 3; LStopWaitConns] in pc s' = PStopped /\ registry s' = [] /\ conn_wg s' = 0.
Proof. vm_compute. repeat split; try reflexivity. intros c [<-|[<-|[]]]; reflexivity. Qed.

Example C15_ex :
  let ls := [LStartBegin; LStartOpen; LStartSpawnPlain; LStartSpawnTLS; LAcceptOk 0; LAcceptOk 1; LEnter 2; LHandshakeFail 3;
             LStopBegin; LStopCloseLis; LAcceptFail 0; LAcceptFail 1; LStopWaitAccept; LStopCloseReg; LStopCloseConns; LFinish 2; LStopWaitConns] in
  let s := lrun (init true true) ls in
  pc s = PStopped /\ registry s = [] /\ open_lis s = [] /\ conn_wg s = 0 /\ accept_wg s = 0 /\ length (conns s) = 2.
Proof. exact lifecycle_ex. Qed.
