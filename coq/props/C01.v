(* C01 — RESP values survive encode/decode unchanged; bulk payloads are binary-safe.  Property theorems only. *)
From Coq Require Import String.
From GR Require Import Base BaseFacts Resp RespFacts.
Open Scope Z_scope.

(* (1) every well-formed value tree (line payloads without CR/LF; bulk payloads ANY bytes up to the parser's
   512 MiB limit; any arity and nesting) parses back to itself, whatever follows it in the stream *)
Theorem C01_roundtrip : forall v rest,
  wf v = true -> size_ok v = true -> parse (encode v ++ rest) = (PValue v, rest).
Proof. exact parse_encode. Qed.
Print Assumptions C01_roundtrip.

(* (2) canonical RESP2 bytes (grammar `canon`, written independently of `encode`) are reproduced exactly *)
Theorem C01_canonical_reencode : forall bs, canon bs ->
  exists v, wf v = true /\ size_ok v = true /\ parse bs = (PValue v, []) /\ encode v = bs.
Proof. exact canon_reencode. Qed.
Print Assumptions C01_canonical_reencode.

(* (3) binary safety: no hypothesis on the payload; the length prefix is the payload length *)
Theorem C01_bulk_binary_safe : forall p rest,
  lenZ p <= MAX_BULK ->
  encode (RBulk (Some p)) = ch_dollar :: itoa (lenZ p) ++ CRLF ++ p ++ CRLF /\
  parse (encode (RBulk (Some p)) ++ rest) = (PValue (RBulk (Some p)), rest).
Proof. exact bulk_binary_safe. Qed.
Print Assumptions C01_bulk_binary_safe.

(* (4) the integer constructor inverts: strconv.Atoi (strconv.Itoa z) = z on all of int64 *)
Theorem C01_integer_constructor : forall z, in64 z = true -> atoi (itoa z) = Some z.
Proof. exact atoi_itoa. Qed.
Print Assumptions C01_integer_constructor.

(* (5) NewFloatMessage: NOT proved (strconv float conversion is not modelled); tested by the harness. *)

(* non-vacuity: a nested value with CR LF NUL and type bytes inside a bulk payload *)
Example C01_ex : let v := RArr [RBulk (Some [13; 10; 0; 36; 42; 43; 45; 58]%N); RStatus (B"OK"); RBulk None; RArr [RInt (B"-7")]] in
  wf v = true /\ size_ok v = true /\ parse (encode v ++ B"rest") = (PValue v, B"rest").
Proof. vm_compute. auto. Qed.
Example C01_ex_canon : canon (B"$3" ++ CRLF ++ B"a" ++ [13; 10]%N ++ CRLF).
Proof. apply (canon_bulk [97; 13; 10]%N). vm_compute. discriminate. Qed.
