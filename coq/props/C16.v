(* C16 — commands are atomic with respect to concurrent clients.  Property theorems only. *)
From Coq Require Import String Permutation.
From GR Require Import Base Resp Handler Exec Conn Multi Redis Linear LinearFacts.
Open Scope Z_scope.

(* (1) the checker that judges the recorded histories is sound: a history it accepts has a sequential order that
   (a) is a permutation of the history, (b) gives every command the reply that was observed (same bytes; error replies only as errors), under the Redis
   reference semantics of the command executed alone, and (c) never places a command after one that was invoked
   only after it had responded (real-time order) *)
Theorem C16_checker_sound : forall fuel s pending, lin fuel s pending = true -> linearizable s pending.
Proof. exact lin_sound. Qed.
Print Assumptions C16_checker_sound.

(* (1') and complete: with fuel = the number of operations (the extracted checker runs with one more, which changes
   nothing) it accepts EVERY linearizable history — so `lin` decides linearizability: a history the check rejects has no
   linearization at all (the checker itself cannot raise a false alarm), and one it accepts has one *)
Theorem C16_checker_decides : forall s ops, lin (length ops) s ops = true <-> linearizable s ops.
Proof. exact lin_decides. Qed.
Print Assumptions C16_checker_decides.

Theorem C16_checker_fuel : forall s ops fuel, (length ops <= fuel)%nat -> lin fuel s ops = lin (length ops) s ops.
Proof. exact lin_fuel. Qed.
Print Assumptions C16_checker_fuel.

(* (2) executing the commands one at a time — what the command lock around handleMessage provides — yields a
   linearizable history, for every command sequence and every store *)
Theorem C16_atomic_execution_linearizable : forall reqs s t, linearizable s (atomic_run s reqs t).
Proof. exact atomic_linearizable. Qed.
Print Assumptions C16_atomic_execution_linearizable.

(* (3) the lock is needed: two INCRs whose reads both come before both writes (Get_A Get_B Set_A Set_B) both reply 1
   from 0 — a history no sequential order of two INCRs can produce *)
Theorem C16_unlocked_refuted :
  let s0 : store := [] in
  let (s1, r1) := run_with (stale s0) s0 (incr_req (B"k")) in
  let (s2, r2) := run_with (stale s0) s1 (incr_req (B"k")) in
  r1 = B":1" ++ CRLF /\ r2 = B":1" ++ CRLF /\
  ~ linearizable s0 [ {| o_req := incr_req (B"k"); o_rep := r1; o_inv := 0; o_resp := 3 |};
                      {| o_req := incr_req (B"k"); o_rep := r2; o_inv := 1; o_resp := 4 |} ].
Proof. exact unlocked_incr_not_linearizable. Qed.
Print Assumptions C16_unlocked_refuted.

(* the checker accepts / rejects concrete histories: two overlapping INCRs replying 1 and 2; replying 1 and 1 *)
Example C16_ex :
  let o r i t := {| o_req := incr_req (B"k"); o_rep := r; o_inv := i; o_resp := t |} in
  lin 3 [] [o (B":2" ++ CRLF) 0 3; o (B":1" ++ CRLF) 1 2] = true /\
  lin 3 [] [o (B":1" ++ CRLF) 0 3; o (B":1" ++ CRLF) 1 2] = false /\
  lin 3 [] [o (B":2" ++ CRLF) 0 1; o (B":1" ++ CRLF) 2 3] = false.       (* real-time order violated *)
Proof. vm_compute. auto. Qed.
