(* C19 — connection resources are released however the connection ends (the part that is logic).  Property theorems only.
   Runtime half (socket really closed, goroutine gone, descriptors and registry back to baseline under churn, TLS
   handshake failures) is observed by the harness; see DESIGN 4/C19. *)
From Coq Require Import String.
From GR Require Import Base Resp Handler Exec Conn ConnFacts LoopFacts Lifecycle LifecycleFacts LifecycleThms.

Section C19.
  Variable hstate : Type.
  Variable handle : hstate -> Z -> hcall -> hstate * hresult.
  Variable regexp_src : bytes -> bytes.
  Variable fw_text : bytes -> args -> bytes.

  (* for EVERY input byte string — so every way the stream can end: at a request boundary, inside a request, after a
     malformed frame, after QUIT — every handler and both entry outcomes: an let_in connection is registered
     exactly once, first; deregistered exactly once and closed exactly once, last, in that order; nothing in between
     touches registry or socket.  A connection whose client certificate is rejected is closed and never registered. *)
  Theorem C19_released : forall ss hs tls input,
    (let_in ss tls = true /\ exists mid, trace hstate (serve hstate handle regexp_src fw_text ss hs tls input) = EvRegister :: mid ++ [EvDeregister; EvClose]
                                          /\ existsb is_conn_ev mid = false) \/
    (let_in ss tls = false /\ trace hstate (serve hstate handle regexp_src fw_text ss hs tls input) = [EvClose]).
  Proof. exact (serve_released hstate handle regexp_src fw_text). Qed.

  (* the loop always comes to an end (it cannot spin on any input), which is what lets the deferred release run *)
  Theorem C19_loop_ends : forall ss hs tls input,
    fst (serve hstate handle regexp_src fw_text ss hs tls input) <> EndPanic /\ fst (serve hstate handle regexp_src fw_text ss hs tls input) <> EndFuel.
  Proof. exact (serve_no_panic hstate handle regexp_src fw_text). Qed.
End C19.

(* the goroutine / registry side, over all schedules of the lifecycle transition system: a connection goroutine that has
   returned has closed its socket and is not registered; when Stop returns every one of them has returned *)
Theorem C19_done_means_released : forall p t ls c, let s := lrun (init p t) ls in
  List.In c (conns s) -> ct_st c = CDone -> ct_open c = false /\ ~ List.In (ct_id c) (registry s).
Proof.
  intros p t ls c s Hc Hd. pose proof (reachable_inv p t ls) as I. fold s in I. split; [exact (i_done s I c Hc Hd)|].
  intros Hin. destruct (i_reg s I _ Hin) as (c' & Hc' & Eid & St).
  pose proof (nodup_same_id (conns s) c' c (i_nodup s I) Hc' Hc Eid) as E. subst c'. rewrite Hd in St. discriminate.
Qed.
Theorem C19_failed_handshake_releases : forall s s' id, lstep s (LHandshakeFail id) = Some s' \/ lstep s (LReject id) = Some s' ->
  registry s' = registry s /\ (forall c, List.In c (conns s') -> ct_id c = id -> ct_st c = CDone /\ ct_open c = false).
Proof. intros s s' id H. destruct (handshake_failure_contained s s' id H) as (_ & _ & _ & _ & R & _ & _ & _ & D). split; assumption. Qed.
Print Assumptions C19_released.
Print Assumptions C19_done_means_released.
Print Assumptions C19_failed_handshake_releases.
Print Assumptions C19_loop_ends.

Example C19_ex :
  let h := fun (s : unit) (_ : Z) (_ : hcall) => (s, hr_ok ok_msg) in
  let ss := {| ss_config := []; ss_auths := [ACert (B"client")]; ss_app := [] |} in
  Conn.trace unit (Conn.serve unit h (fun p => p) (fun _ _ => B"ERR") ss tt (Some [B"mallory"; B"client"]) (B"*1" ++ CRLF)) = [EvClose] /\
  last (Conn.trace unit (Conn.serve unit h (fun p => p) (fun _ _ => B"ERR") ss tt (Some [B"client"]) (B"*1" ++ CRLF ++ B"$4" ++ CRLF ++ B"PI"))) EvRootStart = EvClose.
Proof. vm_compute. auto. Qed.
