(* C13 — connection-scoped state stays with its connection.  Property theorems only. *)
From Coq Require Import String.
From GR Require Import Base Resp Handler Exec Conn Multi ConnFacts LoopFacts MultiFacts.

Section C13.
  Variable hstate : Type.
  Variable handle : hstate -> Z -> hcall -> hstate * hresult.
  Variable regexp_src : bytes -> bytes.
  Variable fw_text : bytes -> args -> bytes.

  (* (1) for every interleaving of the requests of any number of connections and every handler: the state of
     connection i (selected database, authorization, presented credentials) is the fold of `cs_step` — a function of
     the authenticator list, the previous state of THAT connection and the request alone — over connection i's own
     processed requests, starting from the defaults (database 0) *)
  Theorem C13_own_history : forall ops (m : msys hstate) i c, nth_error (ms_conns _ m) i = Some c ->
    exists c', nth_error (ms_conns _ (mrun hstate handle regexp_src fw_text m ops)) i = Some c' /\
               mc_cs c' = fold_left (cs_step (ss_auths (ms_ss _ m))) (proc hstate handle regexp_src fw_text m ops i) (mc_cs c).
  Proof. exact (mrun_cs hstate handle regexp_src fw_text). Qed.

  (* (2) what the handler sees: every handler call made while serving a request of connection i carries the database
     and authorization of connection i as they were before that request; the state then moves by cs_step *)
  Theorem C13_calls_carry_own_state : forall (m : msys hstate) i req c,
    nth_error (ms_conns _ m) i = Some c -> mc_live c = true ->
    exists c' l,
      nth_error (ms_conns _ (mstep hstate handle regexp_src fw_text m (MReq i req))) i = Some c' /\
      mc_cs c' = cs_step (ss_auths (ms_ss _ m)) (mc_cs c) req /\
      ss_auths (ms_ss _ (mstep hstate handle regexp_src fw_text m (MReq i req))) = ss_auths (ms_ss _ m) /\
      mc_evs c' = rev l ++ mc_evs c /\
      Forall (call_of (mc_cs c)) l /\
      (cs_auth (mc_cs c) = false -> ev_calls l = []).
  Proof. exact (mstep_own hstate handle regexp_src fw_text). Qed.

  (* (3) frame: nothing another connection does changes it *)
  Theorem C13_frame : forall (m : msys hstate) o j, op_conn o <> j ->
    nth_error (ms_conns _ (mstep hstate handle regexp_src fw_text m o)) j = nth_error (ms_conns _ m) j.
  Proof. exact (mstep_frame hstate handle regexp_src fw_text). Qed.

  (* (4) defaults: a new connection starts on database 0, authorized iff no password is required *)
  Theorem C13_defaults : forall ss, cs_db (mc_cs (new_conn ss)) = 0%Z /\
    cs_auth (mc_cs (new_conn ss)) = match cfg_get (ss_config ss) requirepass_key with Some _ => false | None => true end.
  Proof. intros ss. split; reflexivity. Qed.
End C13.
Print Assumptions C13_own_history.
Print Assumptions C13_calls_carry_own_state.
Print Assumptions C13_frame.
Print Assumptions C13_defaults.

Example C13_ex :
  let h := fun (s : unit) (_ : Z) (_ : hcall) => (s, hr_ok ok_msg) in
  let q n := RArr (map (fun s => RBulk (Some s)) n) in
  let ss := {| ss_config := []; ss_auths := []; ss_app := [] |} in
  let ops := [MReq 0 (q [B"SELECT"; B"3"]); MReq 1 (q [B"GET"; B"k"]); MReq 1 (q [B"select"; B"7"]); MReq 0 (q [B"GET"; B"k"]); MReq 1 (q [B"SELECT"; B"x"]); MReq 1 (q [B"GET"; B"k"])] in
  let m := mrun unit h (fun p => p) (fun _ _ => B"ERR") (msys_init unit ss tt 2) ops in
  map (fun c => map (fun e => match e with EvCall db _ _ _ => db | _ => (-1)%Z end) (ev_calls (rev (mc_evs c)))) (ms_conns _ m) = [[3%Z]; [0%Z; 7%Z]].
Proof. vm_compute. reflexivity. Qed.
