(* C05 — commands reach the handler with exactly the arguments the client sent.  Property theorems only.
   `Grammar.req` is a typed grammar of the command surface that maps onto ONE handler operation (39 constructors
   over 38 command names), written independently of the executors: `valid` says what a well-formed request is,
   `print` how a client writes it (any letter case for option words, any accepted numeral), `expect` which handler
   call it denotes.  Everything is for an ARBITRARY application handler. *)
From Coq Require Import String.
From GR Require Import Base Resp Handler Exec Conn Grammar GrammarFacts.

Section C05.
  Variable hstate : Type.
  Variable handle : hstate -> Z -> hcall -> hstate * hresult.
  Variable regexp_src : bytes -> bytes.
  Variable fw_text : bytes -> args -> bytes.

  (* (1) decode ∘ print = id: the executor registered for the command, run on the printed arguments of a valid
     request, is exactly ONE handler call with exactly the decoded arguments — strings byte for byte, integers,
     floats (as exact values), option flags, exclusive-range markers, durations and timestamps, list order kept —
     whose result is passed through *)
  Theorem C05_decode_print : forall r c s, valid r = true ->
    exec_of hstate handle regexp_src r c (print r) s = pass hstate handle c (expect regexp_src r) s.
  Proof. exact (decode_print hstate handle regexp_src). Qed.

  (* (2) through the dispatcher, with ANY letter case of the command name, on the connection it arrived on
     (database of that connection), leaving connection and server state untouched *)
  Theorem C05_direct_command : forall (w : world hstate) cmd r,
    cs_auth (w_cs _ w) = true -> upper cmd = bytes_of_string (name_of r) -> valid r = true ->
    execute_command hstate handle regexp_src w cmd (print r) =
    let (res, s') := call hstate handle (w_cs _ w) (expect regexp_src r)
                          (emit hstate (EvSpanStart (bytes_of_string (name_of r))) (w_est _ w)) in
    Ok (x_of res, {| w_cs := w_cs _ w; w_ss := w_ss _ w; w_est := emit hstate EvSpanFinish s' |}).
  Proof. exact (direct_command hstate handle regexp_src). Qed.

  (* (3) unknown command: an error result and not a single event (no handler call) *)
  Theorem C05_unknown_command : forall (w : world hstate) cmd a,
    is_sys (upper cmd) = false -> lookup_cmd hstate (upper cmd) (user_table hstate handle regexp_src) = None ->
    existsb (bytes_eqb (upper cmd)) (ss_app (w_ss _ w)) = false ->
    execute_command hstate handle regexp_src w cmd a = Ok (x_fw, w).
  Proof. exact (unknown_command hstate handle regexp_src). Qed.

  (* (4) executors registered by the application are dispatched the same way, for any casing of the name *)
  Theorem C05_app_command : forall (w : world hstate) cmd a,
    cs_auth (w_cs _ w) = true -> is_sys (upper cmd) = false ->
    lookup_cmd hstate (upper cmd) (user_table hstate handle regexp_src) = None ->
    existsb (bytes_eqb (upper cmd)) (ss_app (w_ss _ w)) = true ->
    execute_command hstate handle regexp_src w cmd a =
    Ok (x_ok (app_reply), {| w_cs := w_cs _ w; w_ss := w_ss _ w;
                             w_est := emit hstate EvSpanFinish (emit hstate (EvApp (upper cmd) a) (emit hstate (EvSpanStart (upper cmd)) (w_est _ w))) |}).
  Proof. exact (app_command hstate handle regexp_src). Qed.

  (* (5) what the handler returns is what the client receives *)
  Theorem C05_reply_passthrough : forall req res m,
    hr_err res = None -> hr_msg res = Some m -> reply_of fw_text req (x_of res) = m.
  Proof. exact (reply_passthrough fw_text). Qed.
End C05.
Print Assumptions C05_decode_print.
Print Assumptions C05_direct_command.
Print Assumptions C05_unknown_command.
Print Assumptions C05_app_command.
Print Assumptions C05_reply_passthrough.

(* non-vacuity: SET with options in mixed case and a non-canonical numeral; ZRANGE ... BYSCORE with an exclusive bound *)
Example C05_ex1 :
  let r := QSet (B"k") (B"v") [SwEX {| w_txt := B"eX"; w_kw := "EX" |} {| it_txt := B"+010"; it_val := 10 |}; SwNX {| w_txt := B"nx"; w_kw := "NX" |}] in
  valid r = true /\ print r = map bulk [B"k"; B"v"; B"eX"; B"+010"; B"nx"] /\
  expect (fun p => p) r = HSet (B"k") (B"v") {| so_ex := 10000000000; so_px := 0; so_exat := None; so_pxat := None; so_nx := true; so_xx := false; so_keepttl := false; so_get := false |}.
Proof. vm_compute. auto. Qed.
Example C05_ex2 :
  let t s q := {| rs_tok := {| ft_txt := s; ft_val := FNum q |}; rs_ex := true |} in
  valid (QZRangeScore (B"z") (t (B"1.5") (QArith_base.Qmake 3 2)) (t (B"7") (QArith_base.Qmake 7 1)) [ZwBYSCORE {| w_txt := B"byscore"; w_kw := "BYSCORE" |}]) = true.
Proof. vm_compute. reflexivity. Qed.
