(* placeholder *)
From GR Require Import Base Resp.
Theorem C05_placeholder : True. Proof. exact I. Qed.
Print Assumptions C05_placeholder.
