(* C12 — commands the framework implements itself follow Redis semantics.  Property theorems only.
   The derived executors of Exec.v (the same definitions that are compared with the Go code) are run over the Redis
   reference primitives of ONE database (Redis.dprim; `dhandle`): `run x c args d` is the final database and the
   result.  Every statement is for ALL databases d and ALL argument values; `c` is any authorized connection state. *)
From Coq Require Import String QArith.
From GR Require Import Base BaseFacts Resp Handler Exec Conn Redis Grammar SugarFacts SugarMore.
Open Scope Z_scope.

Section C12.
  Variable c : cstate.
  Hypothesis Hau : cs_auth c = true.
  Notation X x := (x db dhandle).
  (* the lemma, with or without the authorization hypothesis it happens to need *)
  Ltac use L := first [exact (L c Hau) | exact (L c)].

  (* GETRANGE / SUBSTR: Redis' index clamping for EVERY length, start and end (all of int64): never a panic (the
     result is `Some`), the reply is redis_getrange — negative indexes from the end, clamped into the value, inverted
     or empty ranges give "" — a missing key gives "", the database is untouched *)
  Theorem C12_getrange : forall d k st en, in64 st = true -> in64 en = true ->
    runP (X x_GETRANGE) c [bulk k; bulk (itoa st); bulk (itoa en)] d =
    Some (d, match aget d k with
             | Some (VStr v) => x_ok (bulk (redis_getrange v st en))
             | None => x_ok (bulk [])
             | Some _ => {| x_msg := None; x_err := x_err (x_of wrongtype) |}
             end).
  Proof. use getrange_spec. Qed.

  (* ZREVRANGE: exactly the slice [start, stop] of the members in descending order, member/score pairs intact *)
  Theorem C12_zrevrange : forall (d : db) k st en (ws : bool) z, in64 st = true -> in64 en = true -> aget d k = Some (VZSet z) ->
    run (X x_ZREVRANGE) c ([bulk k; bulk (itoa st); bulk (itoa en)] ++ (if ws then [bulk (B"WITHSCORES")] else [])) d =
    (d, x_of (zreply ws (slice (rev z) (lenZ z) st en))).
  Proof. use zrevrange_spec. Qed.

  (* counters: the stored value must be a canonical int64 numeral (missing = 0) and the sum must stay inside int64;
     then value and reply are old + delta; otherwise an error and NOTHING is stored *)
  Theorem C12_counters : forall d k delta, in64 delta = true ->
    (let (r, es) := incdec db dhandle c k delta {| e_hs := d; e_evs := [] |} in (e_hs _ es, r)) =
    match counter_value d k with
    | Some cv => if in64 (cv + delta) then (aset d k (VStr (itoa (cv + delta))), x_ok (int_msg (cv + delta))) else (d, x_fw)
    | None => (d, match aget d k with Some (VStr _) => x_fw | _ => {| x_msg := None; x_err := x_err (x_of wrongtype) |} end)
    end.
  Proof. use incdec_spec. Qed.
  Theorem C12_incr : forall d k, run (X x_INCR) c [bulk k] d = (let (r, es) := incdec db dhandle c k 1 {| e_hs := d; e_evs := [] |} in (e_hs _ es, r)).
  Proof. use incr_spec. Qed.
  Theorem C12_decr : forall d k, run (X x_DECR) c [bulk k] d = (let (r, es) := incdec db dhandle c k (-1) {| e_hs := d; e_evs := [] |} in (e_hs _ es, r)).
  Proof. use decr_spec. Qed.
  Theorem C12_incrby : forall d k n, in64 n = true -> run (X x_INCRBY) c [bulk k; bulk (itoa n)] d =
    (let (r, es) := incdec db dhandle c k n {| e_hs := d; e_evs := [] |} in (e_hs _ es, r)).
  Proof. use incrby_spec. Qed.
  Theorem C12_decrby : forall d k n, in64 n = true -> run (X x_DECRBY) c [bulk k; bulk (itoa n)] d =
    if n =? min64 then (d, x_fw) else (let (r, es) := incdec db dhandle c k (- n) {| e_hs := d; e_evs := [] |} in (e_hs _ es, r)).
  Proof. use decrby_spec. Qed.

  (* MSETNX: all or nothing *)
  Theorem C12_msetnx : forall (d : db) (pairs : list (bytes * bytes)), pairs <> [] ->
    let args := flat_map (fun kv => [bulk (fst kv); bulk (snd kv)]) pairs in
    let m := map_of_pairs pairs in
    (Forall (fun kv => aget d (fst kv) = None) m ->
       run (X x_MSETNX) c args d = (fold_left (fun dd kv => aset dd (fst kv) (VStr (snd kv))) m d, x_ok (int_msg 1))) /\
    (Forall (fun kv => match aget d (fst kv) with Some (VStr _) | None => True | _ => False end) m ->
     Exists (fun kv => aget d (fst kv) <> None) m ->
       run (X x_MSETNX) c args d = (d, x_ok (int_msg 0))).
  Proof. use msetnx_spec. Qed.

  (* MSET: every key holds the LAST value given for it, whatever it held before (any type); the reply is OK *)
  Theorem C12_mset : forall (d : db) (pairs : list (bytes * bytes)), pairs <> [] ->
    run (X x_MSET) c (flat_map (fun kv => [bulk (fst kv); bulk (snd kv)]) pairs) d =
    (fold_left (fun dd kv => aset dd (fst kv) (VStr (snd kv))) (map_of_pairs pairs) d, x_ok ok_msg).
  Proof. use mset_spec. Qed.

  (* HMSET: the fields are set in the hash (created when the key is missing), last value per field; OK; a key of another
     type: WRONGTYPE error and nothing stored *)
  Theorem C12_hmset : forall (d : db) h (pairs : list (bytes * bytes)), pairs <> [] ->
    run (X x_HMSET) c (bulk h :: flat_map (fun kv => [bulk (fst kv); bulk (snd kv)]) pairs) d =
    match hash_of d h with
    | Some hh => (aset d h (VHash (fold_left (fun m kv => aset m (fst kv) (snd kv)) (map_of_pairs pairs) hh)), x_ok ok_msg)
    | None => (d, {| x_msg := None; x_err := x_err (x_of wrongtype) |})
    end.
  Proof. use hmset_spec. Qed.

  (* HMGET: one reply element per requested field, in request order: its value, or nil (missing field or missing key) *)
  Theorem C12_hmget : forall (d : db) h (fields : list bytes), fields <> [] ->
    run (X x_HMGET) c (bulk h :: map bulk fields) d =
    match hash_of d h with
    | Some hh => (d, x_ok (RArr (map (fun f => match aget hh f with Some v => bulk v | None => nil_msg end) fields)))
    | None => (d, {| x_msg := None; x_err := x_err (x_of wrongtype) |})
    end.
  Proof. use hmget_spec. Qed.

  (* ZREVRANGEBYSCORE key max min [WITHSCORES] [LIMIT offset count], options in any order and letter case: the members whose
     score lies between min and max (each bound optionally exclusive), in DESCENDING order, then offset / count applied to
     that descending order; every member followed by its own score with WITHSCORES *)
  Theorem C12_zrevrangebyscore : forall (d : db) k (mx mn : rstok) (ws : list zr_word) z,
    rstok_ok mx = true -> rstok_ok mn = true -> forallb zr_word_ok ws = true -> aget d k = Some (VZSet z) ->
    let o := zr_opt_of ws in
    run (X x_ZREVRANGEBYSCORE) c (map bulk ([k; rstok_txt mx; rstok_txt mn] ++ flat_map print_zr_word ws)) d =
    (d, x_ok (RArr (flat_map (zfmt (zr_withscores o))
                      (limit (zr_offset o) (zr_count o)
                         (rev (filter (fun e => in_score_range (ft_val (rs_tok mn)) (ft_val (rs_tok mx)) (rs_ex mn) (rs_ex mx) (snd e)) z)))))).
  Proof. use zrevrangebyscore_spec. Qed.

  (* MGET: one reply element per requested key, in request order, nil for a missing key *)
  Theorem C12_mget : forall d keys, keys <> [] -> all_strings_or_missing d keys ->
    run (X x_MGET) c (map bulk keys) d =
    (d, x_ok (RArr (map (fun k => match aget d k with Some (VStr v) => bulk v | _ => nil_msg end) keys))).
  Proof. use mget_spec. Qed.

  Theorem C12_strlen : forall d k, run (X x_STRLEN) c [bulk k] d =
    (d, match aget d k with Some (VStr v) => x_ok (int_msg (lenZ v)) | None => x_ok (int_msg 0)
                          | Some _ => {| x_msg := None; x_err := x_err (x_of wrongtype) |} end).
  Proof. use strlen_spec. Qed.

  Theorem C12_append : forall d k v, run (X x_APPEND) c [bulk k; bulk v] d =
    match aget d k with
    | Some (VStr old) => (aset d k (VStr (old ++ v)), x_ok (int_msg (lenZ (old ++ v))))
    | None => (aset d k (VStr v), x_ok (int_msg (lenZ v)))
    | Some _ => (d, {| x_msg := None; x_err := x_err (x_of wrongtype) |})
    end.
  Proof. use append_spec. Qed.

  (* hashes: HKEYS and HVALS list fields and values of the same pairs in the same order, HLEN counts them;
     HEXISTS / HSTRLEN look the field up *)
  Theorem C12_hkeys_hvals_hlen : forall d k h, aget d k = Some (VHash h) ->
    run (X x_HKEYS) c [bulk k] d = (d, x_ok (RArr (map bulk (map fst h)))) /\
    run (X x_HVALS) c [bulk k] d = (d, x_ok (RArr (map bulk (map snd h)))) /\
    run (X x_HLEN) c [bulk k] d = (d, x_ok (int_msg (lenZ h))).
  Proof. use hkeys_hvals_hlen_spec. Qed.
  Theorem C12_hash_missing : forall d k, aget d k = None ->
    run (X x_HKEYS) c [bulk k] d = (d, x_ok (RArr [])) /\ run (X x_HVALS) c [bulk k] d = (d, x_ok (RArr [])) /\
    run (X x_HLEN) c [bulk k] d = (d, x_ok (int_msg 0)).
  Proof. use hkeys_missing. Qed.
  Theorem C12_hexists_hstrlen : forall d k f,
    run (X x_HEXISTS) c [bulk k; bulk f] d =
    (d, match aget d k with Some (VHash h) => x_ok (int_msg (if ahas h f then 1 else 0)) | None => x_ok (int_msg 0)
                          | Some _ => {| x_msg := None; x_err := x_err (x_of wrongtype) |} end) /\
    run (X x_HSTRLEN) c [bulk k; bulk f] d =
    (d, match aget d k with Some (VHash h) => x_ok (int_msg (match aget h f with Some v => lenZ v | None => 0 end)) | None => x_ok (int_msg 0)
                          | Some _ => {| x_msg := None; x_err := x_err (x_of wrongtype) |} end).
  Proof. use hexists_hstrlen_spec. Qed.

  (* cardinalities and membership *)
  Theorem C12_scard : forall d k, run (X x_SCARD) c [bulk k] d =
    (d, match aget d k with Some (VSet s) => x_ok (int_msg (lenZ s)) | None => x_ok (int_msg 0)
                          | Some _ => {| x_msg := None; x_err := x_err (x_of wrongtype) |} end).
  Proof. use scard_spec. Qed.
  Theorem C12_sismember : forall d k m, run (X x_SISMEMBER) c [bulk k; bulk m] d =
    (d, match aget d k with Some (VSet s) => x_ok (int_msg (if mem m s then 1 else 0)) | None => x_ok (int_msg 0)
                          | Some _ => {| x_msg := None; x_err := x_err (x_of wrongtype) |} end).
  Proof. use sismember_spec. Qed.
  Theorem C12_zcard : forall d k, run (X x_ZCARD) c [bulk k] d =
    (d, match aget d k with Some (VZSet z) => x_ok (int_msg (lenZ z)) | None => x_ok (int_msg 0)
                          | Some _ => {| x_msg := None; x_err := x_err (x_of wrongtype) |} end).
  Proof. use zcard_spec. Qed.
End C12.

(* PING, ECHO; CONFIG GET returns, in request order, the values last stored with CONFIG SET *)
Theorem C12_ping : x_PING [] = x_ok (RStatus (B"PONG")) /\ forall m, m <> [] -> x_PING [bulk m] = x_ok (bulk m).
Proof. exact ping_spec. Qed.
Theorem C12_echo : forall m, x_ECHO [bulk m] = x_ok (bulk m).
Proof. exact echo_spec. Qed.
Theorem C12_config_set_get : forall ss k v,
  let ss' := snd (x_CONFIG ss [bulk (B"SET"); bulk k; bulk v]) in
  fst (x_CONFIG ss [bulk (B"SET"); bulk k; bulk v]) = x_ok ok_msg /\
  cfg_get (ss_config ss') k = Some v /\
  (forall k2, bytes_eqb k2 k = false -> cfg_get (ss_config ss') k2 = cfg_get (ss_config ss) k2).
Proof. exact config_set_get. Qed.
Theorem C12_config_get_order : forall ss keys, keys <> [] ->
  x_CONFIG ss (bulk (B"GET") :: map bulk keys) =
  (x_ok (RArr (flat_map (fun k => [bulk k; bulk (match cfg_get (ss_config ss) k with Some v => v | None => [] end)]) keys)), ss).
Proof. exact config_get_order. Qed.

Print Assumptions C12_getrange.
Print Assumptions C12_zrevrange.
Print Assumptions C12_counters.
Print Assumptions C12_incr.
Print Assumptions C12_decr.
Print Assumptions C12_incrby.
Print Assumptions C12_decrby.
Print Assumptions C12_msetnx.
Print Assumptions C12_mget.
Print Assumptions C12_zrevrangebyscore.
Print Assumptions C12_mset.
Print Assumptions C12_hmset.
Print Assumptions C12_hmget.
Print Assumptions C12_strlen.
Print Assumptions C12_append.
Print Assumptions C12_hkeys_hvals_hlen.
Print Assumptions C12_hash_missing.
Print Assumptions C12_hexists_hstrlen.
Print Assumptions C12_scard.
Print Assumptions C12_sismember.
Print Assumptions C12_zcard.
Print Assumptions C12_ping.
Print Assumptions C12_echo.
Print Assumptions C12_config_set_get.
Print Assumptions C12_config_get_order.

(* concrete values of the specification functions (the same grids the correspondence run enumerates on the implementation) *)
Example C12_ex_getrange : redis_getrange (B"abcdef") 0 0 = B"a" /\ redis_getrange (B"abcdef") (-3) (-1) = B"def" /\ redis_getrange (B"abcdef") 5 2 = [] /\
  redis_getrange [] 0 0 = [] /\ redis_getrange (B"abc") (-10) (-20) = [] /\ redis_getrange (B"abc") (-100) 100 = B"abc".
Proof. vm_compute. repeat split; reflexivity. Qed.
Example C12_ex_counter :
  let c := {| cs_auth := true; cs_db := 0; cs_user := []; cs_pass := None; cs_tls := None |} in
  snd (run (x_INCR db dhandle) c [bulk (B"n")] [(B"n", VStr (B"9223372036854775807"))]) = x_fw /\
  snd (run (x_INCR db dhandle) c [bulk (B"n")] [(B"n", VStr (B"007"))]) = x_fw /\
  run (x_INCR db dhandle) c [bulk (B"n")] [(B"n", VStr (B"41"))] = ([(B"n", VStr (B"42"))], x_ok (int_msg 42)).
Proof. vm_compute. repeat split; reflexivity. Qed.
(* ZREVRANGEBYSCORE z 3 (1 LIMIT 0 1 WITHSCORES on {a:1, b:2, c:3}: the hypotheses of C12_zrevrangebyscore hold and the reply is [c, 3] *)
Example C12_ex_zrevrangebyscore :
  let c := {| cs_auth := true; cs_db := 0; cs_user := []; cs_pass := None; cs_tls := None |} in
  let mx := {| rs_tok := {| ft_txt := B"3"; ft_val := FNum (3 # 1) |}; rs_ex := false |} in
  let mn := {| rs_tok := {| ft_txt := B"1"; ft_val := FNum (1 # 1) |}; rs_ex := true |} in
  let ws := [ZwLIMIT {| w_txt := B"limit"; w_kw := "LIMIT" |} {| it_txt := B"0"; it_val := 0 |} {| it_txt := B"1"; it_val := 1 |};
             ZwWITHSCORES {| w_txt := B"WithScores"; w_kw := "WITHSCORES" |}] in
  let d := [(B"z", VZSet [(B"a", FNum (1 # 1)); (B"b", FNum (2 # 1)); (B"c", FNum (3 # 1))])] in
  rstok_ok mx = true /\ rstok_ok mn = true /\ forallb zr_word_ok ws = true /\
  snd (run (x_ZREVRANGEBYSCORE db dhandle) c (map bulk ([B"z"; rstok_txt mx; rstok_txt mn] ++ flat_map print_zr_word ws)) d) =
  x_ok (RArr [bulk (B"c"); bulk (B"3/1")])   (* the model prints scores as exact rationals *).
Proof. vm_compute. repeat split; reflexivity. Qed.
