(* placeholder until the theorems are in place *)
From GR Require Import Base Resp Redis.
Theorem C12_placeholder : True. Proof. exact I. Qed.
Print Assumptions C12_placeholder.
