(* C14 — no data races in server state shared between connections.  Property theorems only.
   Two obligations: the generic theorem below (proved once, for all traces), and `Access.table_ok : check table = true`
   for the access table that the lockset translator regenerates from the Go source on every run (coq/gen/Access.v),
   re-proved by computation on every run. *)
From Coq Require Import List Bool.
Import ListNotations.
From GR Require Import Lockset.

(* for EVERY trace — any number of threads, any interleaving, any length — that obeys mutex / read-write-mutex semantics
   and in which every access is made by a thread holding the locks its row of the table promises: two accesses of
   different threads (not both the API thread) to the same field of the same object, at least one a write, are separated
   by a release, by the first thread, of a lock that protects both, followed by an acquisition of it by the second
   thread.  Release -> acquire is a happens-before edge of the Go memory model: the accesses do not race. *)
Theorem C14_lock_discipline_orders_conflicts : forall table role_of pre ti tj loc inst wi wj mid post,
  check table = true ->
  wf [] (pre ++ Acc ti loc inst wi :: mid ++ Acc tj loc inst wj :: post) ->
  respects table role_of [] (pre ++ Acc ti loc inst wi :: mid ++ Acc tj loc inst wj :: post) ->
  ti <> tj -> wi || wj = true -> may_run_together (role_of ti) (role_of tj) = true ->
  exists l mi mj a b c, mid = a ++ Rel ti l mi :: b ++ Acq tj l mj :: c.
Proof. exact lockset_orders_conflicts. Qed.
Print Assumptions C14_lock_discipline_orders_conflicts.

(* the checker rejects what it must: a field written under a lock by one role and read without it by another; a
   read-write mutex held in shared mode by a writer *)
Example C14_check_rejects :
  check [ {| r_loc := 0; r_role := RApi; r_wr := true; r_locks := [(0, true)]; r_own := false |};
          {| r_loc := 0; r_role := RConn; r_wr := false; r_locks := []; r_own := false |} ] = false /\
  check [ {| r_loc := 0; r_role := RConn; r_wr := true; r_locks := [(0, false)]; r_own := false |} ] = false /\
  check [ {| r_loc := 0; r_role := RApi; r_wr := true; r_locks := [(0, true)]; r_own := false |};
          {| r_loc := 0; r_role := RConn; r_wr := false; r_locks := [(0, false); (1, true)]; r_own := false |} ] = true.
Proof. vm_compute. auto. Qed.

(* non-vacuity: a well-formed trace of two threads that respects a one-location table *)
Example C14_ex :
  let table := [ {| r_loc := 0; r_role := RConn; r_wr := true; r_locks := [(0, true)]; r_own := false |} ] in
  let tr := [Acq 1 0 true; Acc 1 0 0 true; Rel 1 0 true; Acq 2 0 true; Acc 2 0 0 true; Rel 2 0 true] in
  check table = true /\ wf [] tr.
Proof.
  split; [reflexivity|]. cbn.
  repeat split; auto;
    try (intros (t & w & H); repeat (destruct H as [H|H]; try discriminate); contradiction);
    try (intros (t & H); repeat (destruct H as [H|H]; try discriminate); contradiction).
Qed.
