(* C20 — tracing spans are balanced for every request outcome.  Property theorems only. *)
From Coq Require Import String.
From GR Require Import Base Resp Handler Exec Conn ConnFacts LoopFacts.

Section C20.
  Variable hstate : Type.
  Variable handle : hstate -> Z -> hcall -> hstate * hresult.
  Variable regexp_src : bytes -> bytes.
  Variable fw_text : bytes -> args -> bytes.

  (* `bal l false 0 = true`: scanning the span events of the trace in order, a root span is started only when none
     is open, child spans (parse, command, commands composed from other commands, response) are started only inside
     a root and finished innermost-first, the root is finished only when no child is open, and nothing is open at
     the end.  For EVERY input byte string (valid requests, argument errors, unknown commands, unauthorized, QUIT,
     protocol errors, end of stream anywhere), every configuration, TLS entry outcome and handler. *)
  Theorem C20_spans_balanced : forall ss hs tls input,
    bal (trace hstate (serve hstate handle regexp_src fw_text ss hs tls input)) false 0 = true.
  Proof. exact (serve_balanced hstate handle regexp_src fw_text). Qed.

  (* the structure behind it: the trace is registration, complete iterations — each [root start; parse span; the
     command's own events (properly nested spans and handler calls only); response span with one write; root
     finish] — an optional closing iteration [root start; parse span; root finish], deregistration, close *)
  Theorem C20_iteration_structure : forall ss hs tls input,
    let_in ss tls = true ->
    exists its closing,
      trace hstate (serve hstate handle regexp_src fw_text ss hs tls input) = [EvRegister] ++ loop_evs its closing ++ [EvDeregister; EvClose] /\
      its_good its /\ (closing = [] \/ closing = loop_closing) /\
      (fst (serve hstate handle regexp_src fw_text ss hs tls input) = EndQuit \/ fst (serve hstate handle regexp_src fw_text ss hs tls input) = EndEOS
       \/ fst (serve hstate handle regexp_src fw_text ss hs tls input) = EndProtoErr).
  Proof. exact (serve_shape hstate handle regexp_src fw_text). Qed.
End C20.
Print Assumptions C20_spans_balanced.
Print Assumptions C20_iteration_structure.

(* the checker rejects what the property forbids *)
Example C20_bal_rejects :
  bal [EvRootStart; EvSpanStart (B"parse"); EvRootFinish] false 0 = false /\          (* child left open *)
  bal [EvRootStart; EvRootFinish; EvRootFinish] false 0 = false /\                    (* finished twice *)
  bal [EvRootStart; EvSpanStart (B"GET")] false 0 = false /\                          (* left open at the end *)
  bal [EvRootStart; EvRootStart] false 0 = false /\                                   (* second root inside the first *)
  bal [EvSpanStart (B"x"); EvSpanFinish] false 0 = false.                             (* child outside a root *)
Proof. vm_compute. auto. Qed.
(* non-vacuity: STRLEN (a command composed from GET) on a password-protected connection after AUTH *)
Example C20_ex :
  let h := fun (s : unit) (_ : Z) (_ : hcall) => (s, hr_ok (RBulk (Some (B"abc")))) in
  let q n := RArr (map (fun s => RBulk (Some s)) n) in
  let ss := {| ss_config := [(B"requirepass", B"pw")]; ss_auths := [AClear [] (B"pw")]; ss_app := [] |} in
  let r := Conn.serve unit h (fun p => p) (fun _ _ => B"ERR") ss tt None (flat_map encode [q [B"STRLEN"; B"k"]; q [B"AUTH"; B"pw"]; q [B"STRLEN"; B"k"]; q [B"NOSUCH"]]) in
  ev_writes (Conn.trace unit r) = [B"-ERR" ++ CRLF; B"+OK" ++ CRLF; B":3" ++ CRLF; B"-ERR" ++ CRLF] /\
  length (filter (fun e => match e with EvSpanStart _ => true | _ => false end) (Conn.trace unit r)) = 13%nat.
Proof. vm_compute. auto. Qed.
