(* placeholder *)
From GR Require Import Base Resp.
Theorem C20_placeholder : True. Proof. exact I. Qed.
Print Assumptions C20_placeholder.
