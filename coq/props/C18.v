(* C18 — the bundled example store returns what was stored.  Property theorems only.
   Two layers.  (0) Store.sprim is a function-by-function model of examples/go-redisd/server (the slice-backed List / Set /
   ZSet with their loops, the map-backed Hash and record table); it is what the correspondence run executes beside the real
   example server (every reply of every generated program, plus a final-state probe).  Theorem C18_store_refines_reference:
   on every well-formed database and every call whose key is absent or holds the command's data type — the property's
   "each key is used with one data type" — the store model computes EXACTLY the reply and the next database of the Redis
   reference Redis.dprim; lifted to programs.  (1..) the theorems about that reference, for EVERY database and EVERY
   operation: they are what "equals the reply of a reference Redis model" buys — values come back byte for byte, lists keep push/pop order, sorted sets are ordered by score with one entry
   per member, sets and hashes hold no duplicates, no empty container is left behind, and DEL / EXISTS / RENAME
   reflect exactly the keys written. *)
From Coq Require Import String QArith.
From GR Require Import Base Resp Handler Exec Redis RedisFacts Store StoreFacts.
Open Scope Z_scope.

(* (0) the model of the example store refines the reference *)
Theorem C18_store_refines_reference : forall d c, wf_db d -> typed d c -> sprim d c = dprim d c.
Proof. exact store_refines_reference. Qed.
Print Assumptions C18_store_refines_reference.

Theorem C18_store_programs_refine : forall cs d, wf_db d -> typed_program d cs -> run_with sprim d cs = run_with dprim d cs.
Proof. exact store_program_refines. Qed.
Print Assumptions C18_store_programs_refine.

(* non-vacuity: a typed program over strings, a list, a set and a sorted set, run on the store model from the empty database *)
Example C18_ex_store :
  let prog := [HSet (B"s") (B"v") default_set_opt; HRPush (B"l") [B"a"; B"b"] false; HLPop (B"l") 1; HSAdd (B"t") [B"x"; B"x"; B"y"];
               HZAdd (B"z") [(FNum (2 # 1), B"b"); (FNum (1 # 1), B"a"); (FNum (2 # 1), B"a")] default_zadd_opt;
               HZRange (B"z") 0 (-1) default_zrange_opt; HSMembers (B"t"); HGet (B"s")] in
  wf_db [] /\ typed_program [] prog /\
  snd (run_with sprim [] prog) = [r_ok; r_int 2; r_bulk (B"a"); r_int 2; r_int 2; ok (RArr [bulk (B"a"); bulk (B"b")]); r_arr [B"x"; B"y"]; r_bulk (B"v")].
Proof. split; [split; constructor|]. split; [vm_compute; repeat split; (reflexivity || discriminate)|vm_compute; reflexivity]. Qed.

(* (1) the invariant of every reachable database: keys unique; a hash / set / sorted set holds one entry per field /
   member; sorted sets have non-decreasing scores; no stored list, set, hash or sorted set is empty.  Preserved by
   EVERY primitive operation with ANY arguments — hence by every program, by induction. *)
Theorem C18_invariant_step : forall d c, wf_db d -> wf_db (fst (dprim d c)).
Proof. exact dprim_wf. Qed.
Print Assumptions C18_invariant_step.

Theorem C18_invariant_programs : forall prog d, wf_db d -> wf_db (fold_left (fun dd c => fst (dprim dd c)) prog d).
Proof. induction prog as [|c prog IH]; intros d H; [exact H|]. cbn [fold_left]. apply IH. apply dprim_wf. exact H. Qed.
Print Assumptions C18_invariant_programs.

(* (2) values come back byte for byte — any bytes, no hypothesis on k or v — and other keys are untouched *)
Theorem C18_get_after_set : forall d k v, dprim (fst (dprim d (HSet k v default_set_opt))) (HGet k) = (aset d k (VStr v), r_bulk v).
Proof. exact get_after_set. Qed.
Print Assumptions C18_get_after_set.
Theorem C18_set_frame : forall d k v k2, bytes_eqb k2 k = false -> aget (fst (dprim d (HSet k v default_set_opt))) k2 = aget d k2.
Proof. exact set_frame. Qed.
Print Assumptions C18_set_frame.
Theorem C18_hget_after_hset : forall d k f v, (aget d k = None \/ exists h, aget d k = Some (VHash h)) ->
  snd (dprim (fst (dprim d (HHSet k f v false))) (HHGet k f)) = r_bulk v.
Proof. exact hget_after_hset. Qed.
Print Assumptions C18_hget_after_hset.

(* (3) lists keep push / pop order *)
Theorem C18_rpush_order : forall d k es l, es <> [] -> aget d k = Some (VList l) ->
  snd (dprim (fst (dprim d (HRPush k es false))) (HLRange k 0 (-1))) = r_arr (l ++ es).
Proof. exact lrange_after_rpush. Qed.
Print Assumptions C18_rpush_order.
Theorem C18_lpush_order : forall d k es l, es <> [] -> aget d k = Some (VList l) ->
  snd (dprim (fst (dprim d (HLPush k es false))) (HLRange k 0 (-1))) = r_arr (rev es ++ l).
Proof. exact lrange_after_lpush. Qed.
Print Assumptions C18_lpush_order.
Theorem C18_lpop_head : forall d k x l, aget d k = Some (VList (x :: l)) -> snd (dprim d (HLPop k 1)) = r_bulk x.
Proof. exact lpop_head. Qed.
Print Assumptions C18_lpop_head.

(* (4) DEL / EXISTS / RENAME reflect exactly the keys written; renaming a key onto itself keeps it *)
Theorem C18_exists : forall d k, snd (dprim d (HExists [k])) = r_int (if ahas d k then 1 else 0).
Proof. exact exists_iff_written. Qed.
Print Assumptions C18_exists.
Theorem C18_del : forall d k, wf_db d -> aget (fst (dprim d (HDel [k]))) k = None.
Proof. exact del_then_missing. Qed.
Print Assumptions C18_del.
Theorem C18_rename_same_key : forall d k v, aget d k = Some v -> dprim d (HRename k k false) = (d, r_ok).
Proof. exact rename_same_key_keeps. Qed.
Print Assumptions C18_rename_same_key.
Theorem C18_rename_moves : forall d k n v, wf_db d -> aget d k = Some v -> bytes_eqb k n = false ->
  let d' := fst (dprim d (HRename k n false)) in aget d' n = Some v /\ aget d' k = None.
Proof. exact rename_moves. Qed.
Print Assumptions C18_rename_moves.

(* non-vacuity: a short program on the empty database; the invariant holds of the empty database *)
Example C18_ex :
  let prog := [HZAdd (B"z") [(FNum (2#1), B"b"); (FNum (1#1), B"a"); (FNum (2#1), B"a")] default_zadd_opt; HSAdd (B"s") [B"x"; B"x"; B"y"]; HSRem (B"s") [B"x"; B"y"]] in
  let d := fold_left (fun dd c => fst (dprim dd c)) prog [] in
  d = [(B"z", VZSet [(B"a", FNum (2#1)); (B"b", FNum (2#1))])] /\ wf_db [].
Proof. split; [vm_compute; reflexivity|split; constructor]. Qed.
