(* C11 — a request is executed only if it was received completely.  Property theorems only. *)
From Coq Require Import String.
From GR Require Import Base Resp RespFacts Handler Exec Conn ConnFacts LoopFacts.

Section C11.
  Variable hstate : Type.
  Variable handle : hstate -> Z -> hcall -> hstate * hresult.
  Variable regexp_src : bytes -> bytes.
  Variable fw_text : bytes -> args -> bytes.
  Notation serve := (serve hstate handle regexp_src fw_text).
  Notation trace := (trace hstate).

  (* (1) prefix-freedom under the parser's end-of-stream leniency: a strict prefix of a client request (non-empty
     array of non-null bulk strings) never parses to a value *)
  Theorem C11_prefix_free : forall v p q,
    is_request v = true -> size_ok v = true -> encode v = p ++ q -> q <> [] ->
    fst (parse p) = (match p with [] => PEOS | _ => PErr end).
  Proof. exact prefix_free_request. Qed.

  (* (2) for every pipeline of client requests, every handler and EVERY byte offset k at which the stream ends:
     with j the number of requests wholly inside the first k bytes, the whole trace of the connection — handler
     calls with their arguments, replies, spans, deregistration and close — equals the trace of the stream that
     ends exactly after request j.  So nothing is invoked with arguments fabricated from the partial frame, and
     each complete request is executed and answered exactly as if the cut had not happened. *)
  Theorem C11_cut_anywhere : forall ss hs reqs k,
    forallb is_request reqs = true -> forallb size_ok reqs = true -> (k <= length (flat_map encode reqs))%nat ->
    exists j, (j <= length reqs)%nat /\
      (length (flat_map encode (firstn j reqs)) <= k)%nat /\
      ((j < length reqs)%nat -> (k < length (flat_map encode (firstn (S j) reqs)))%nat) /\
      trace (serve ss hs None (firstn k (flat_map encode reqs))) = trace (serve ss hs None (flat_map encode (firstn j reqs))).
  Proof. exact (cut_trace hstate handle regexp_src fw_text). Qed.

  (* (3) the connection is then released: the trace ends with deregistration and close (C19 states this for every input) *)
  Theorem C11_released : forall ss hs input,
    exists mid, trace (serve ss hs None input) = EvRegister :: mid ++ [EvDeregister; EvClose] /\ existsb is_conn_ev mid = false.
  Proof.
    intros ss hs input. destruct (serve_released hstate handle regexp_src fw_text ss hs None input) as [(_ & H)|(A & _)]; [exact H|discriminate].
  Qed.
End C11.
Print Assumptions C11_prefix_free.
Print Assumptions C11_cut_anywhere.
Print Assumptions C11_released.

(* non-vacuity: RPUSH l a b ; LPOP l 5 cut two bytes before the end: only RPUSH reaches the handler *)
Example C11_ex :
  let h := fun (s : unit) (_ : Z) (_ : hcall) => (s, hr_ok ok_msg) in
  let q n := RArr (map (fun s => RBulk (Some s)) n) in
  let reqs := [q [B"RPUSH"; B"l"; B"a"; B"b"]; q [B"LPOP"; B"l"; B"5"]] in
  let bytes := flat_map encode reqs in
  let r := Conn.serve unit h (fun p => p) (fun _ _ => B"ERR") {| ss_config := []; ss_auths := []; ss_app := [] |} tt None (firstn (length bytes - 2) bytes) in
  map (fun e => match e with EvCall _ _ c _ => hcall_name c | _ => [] end) (ev_calls (Conn.trace unit r)) = [B"RPush"] /\ fst r = EndProtoErr.
Proof. vm_compute. auto. Qed.
