(* placeholder *)
From GR Require Import Base Resp.
Theorem C11_placeholder : True. Proof. exact I. Qed.
Print Assumptions C11_placeholder.
