(* C02 — parsing a RESP stream does not depend on how the bytes are chunked.  Property theorems only. *)
From Coq Require Import String.
From GR Require Import Base Resp RespFacts Transport.

(* (1) for EVERY reader (sequence of chunks a transport delivers) the parser driven by Read calls returns
   what the flat parser returns on the concatenation, and leaves the same bytes unread *)
Theorem C02_chunking_independent : forall r,
  fst (parse_rd r) = fst (parse (rd_flat r)) /\ rd_flat (snd (parse_rd r)) = snd (parse (rd_flat r)).
Proof. exact parse_rd_flat. Qed.
Print Assumptions C02_chunking_independent.

(* (2) any value sequence, in ANY partition of its byte stream into reads: exactly those values, in order, then
   end of stream (so nothing of the following value is swallowed, re-read or left behind) *)
Theorem C02_stream_any_partition : forall vs r,
  forallb wf vs = true -> forallb size_ok vs = true ->
  rd_flat r = flat_map encode vs ->
  parse_all_rd (Datatypes.S (length vs)) r = (vs, PEOS).
Proof. exact parse_all_chunking. Qed.
Print Assumptions C02_stream_any_partition.

(* (3) each value consumes exactly its own bytes *)
Theorem C02_exact_consumption : forall v rest,
  wf v = true -> size_ok v = true -> parse (encode v ++ rest) = (PValue v, rest).
Proof. exact parse_encode. Qed.
Print Assumptions C02_exact_consumption.

Example C02_ex : let vs := [RArr [RBulk (Some (B"GET")); RBulk (Some (B"k"))]; RStatus (B"OK")] in
  parse_all_rd 3 (map (fun b => [b]) (flat_map encode vs)) = (vs, PEOS) /\
  parse_all_rd 3 [firstn 3 (flat_map encode vs); []; skipn 3 (flat_map encode vs)] = (vs, PEOS).
Proof. vm_compute. auto. Qed.

(* (4) however the TRANSPORT reports the end of the stream - by itself, or together with the last bytes (one Read returns n > 0
   and io.EOF: io.Reader allows it, crypto/tls does it) - the parser, which reads through the data-first adapter
   (proto.dataFirstReader), returns exactly the values of the bytes that were delivered, then end of stream; the adapter loses
   nothing.  (The pinned tree looked at the error first in its line reader: C02_ex_error_first_loses_the_last_value; fix df93189.) *)
Theorem C02_any_end_of_stream_delivery : forall vs t,
  forallb wf vs = true -> forallb size_ok vs = true ->
  delivered t = flat_map encode vs ->
  parse_all_rd (Datatypes.S (length vs)) (data_first t) = (vs, PEOS).
Proof. exact data_first_stream. Qed.
Print Assumptions C02_any_end_of_stream_delivery.

Theorem C02_adapter_loses_nothing : forall t, rd_flat (data_first t) = delivered t.
Proof. exact data_first_flat. Qed.
Print Assumptions C02_adapter_loses_nothing.

Example C02_ex_error_first_loses_the_last_value :
  parse_all_rd 2 (error_first [TDataErr ok_crlf]) = ([], PEOS) /\
  parse_all_rd 2 (data_first [TDataErr ok_crlf]) = ([RStatus [79; 75]%N], PEOS).
Proof. exact error_first_loses_the_last_value. Qed.
