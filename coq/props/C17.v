(* C17 — Key patterns match as Redis globs.  Property theorems only. *)
From Coq Require Import String.
From GR Require Import Base Glob GlobFacts.

(* For every pattern p and key k (byte strings; the Go code works on runes, which coincide with bytes
   on ASCII): the regular-expression text regexpFromGlob builds lies in the parsed fragment — so
   compiling it cannot fail — and anchored dot-all matching of it is exactly glob matching:
   '*' any possibly empty sequence, '?' exactly one character, anything else only itself. *)
Theorem C17_glob_regexp_correct :
  forall p k, exists r, re_parse (regexp_from_glob p) = Some r /\ re_match r k = glob_match p k.
Proof. exact glob_regexp_correct. Qed.
Print Assumptions C17_glob_regexp_correct.

(* glob_match is the glob relation (specification sanity) *)
Theorem C17_glob_match_spec : forall p k, glob_match p k = true <-> gm p k.
Proof. exact glob_match_spec. Qed.
Print Assumptions C17_glob_match_spec.

(* non-vacuity / concrete instances: metacharacters are literal, '?' takes a newline, anchoring *)
Example C17_ex1 : glob_match (B"a.c") (B"abc") = false /\ glob_match (B"a.c") (B"a.c") = true.
Proof. vm_compute. auto. Qed.
Example C17_ex2 : glob_match (B"a+(b|$") (B"a+(b|$") = true /\ glob_match (B"a?c") [97;10;99]%N = true
               /\ glob_match (B"abc") (B"xabcx") = false /\ glob_match (B"a*") (B"a") = true.
Proof. vm_compute. auto. Qed.
Example C17_ex3 : re_parse (regexp_from_glob (B"a+(*?")) = Some [Lit 97; Lit 43; Lit 40; AnyStar; Any]%N.
Proof. vm_compute. reflexivity. Qed.
