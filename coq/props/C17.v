(* C17 — Key patterns match as Redis globs.  Property theorems only. *)
From Coq Require Import String.
From Coq Require Import List ZArith Permutation.
From GR Require Import Base Glob GlobFacts Redis Store StoreScan.

(* For every pattern p and key k (byte strings; the Go code works on runes, which coincide with bytes
   on ASCII): the regular-expression text regexpFromGlob builds lies in the parsed fragment — so
   compiling it cannot fail — and anchored dot-all matching of it is exactly glob matching:
   '*' any possibly empty sequence, '?' exactly one character, anything else only itself. *)
Theorem C17_glob_regexp_correct :
  forall p k, exists r, re_parse (regexp_from_glob p) = Some r /\ re_match r k = glob_match p k.
Proof. exact glob_regexp_correct. Qed.
Print Assumptions C17_glob_regexp_correct.

(* glob_match is the glob relation (specification sanity) *)
Theorem C17_glob_match_spec : forall p k, glob_match p k = true <-> gm p k.
Proof. exact glob_match_spec. Qed.
Print Assumptions C17_glob_match_spec.

(* non-vacuity / concrete instances: metacharacters are literal, '?' takes a newline, anchoring *)
Example C17_ex1 : glob_match (B"a.c") (B"abc") = false /\ glob_match (B"a.c") (B"a.c") = true.
Proof. vm_compute. auto. Qed.
Example C17_ex2 : glob_match (B"a+(b|$") (B"a+(b|$") = true /\ glob_match (B"a?c") [97;10;99]%N = true
               /\ glob_match (B"abc") (B"xabcx") = false /\ glob_match (B"a*") (B"a") = true.
Proof. vm_compute. auto. Qed.
Example C17_ex3 : re_parse (regexp_from_glob (B"a+(*?")) = Some [Lit 97; Lit 43; Lit 40; AnyStar; Any]%N.
Proof. vm_compute. reflexivity. Qed.

(* KEYS and SCAN MATCH agree on which keys a pattern selects — on the model of the bundled example store (Store.v, tied
   to examples/go-redisd/server by the correspondence run).  SCAN is used the way a client uses it: SCAN 0, then SCAN
   <returned cursor> until the cursor comes back as 0.  For EVERY database d, glob pattern p and COUNT (1, the default
   10, negative, anything): the iteration ends within (number of keys + 1) calls, and the keys collected are a
   permutation of the KEYS p reply: the same keys, none lost, none twice. *)
Theorem C17_scan_iteration_agrees_with_keys : forall (d : db) (p : bytes) (count : Z),
  exists ks, scan_iter (S (length d)) (sort_keys (map fst d)) 0 count (regexp_from_glob p) = Some ks /\
             Permutation ks (filter (fun k => glob_match p k) (map fst d)).
Proof. exact scan_iteration_agrees_with_keys. Qed.
Print Assumptions C17_scan_iteration_agrees_with_keys.

(* ... stated pointwise: with distinct keys in the table (the store's invariant), every key the pattern selects is returned
   exactly once over the whole iteration, and nothing else is *)
Theorem C17_scan_iteration_each_key_once : forall (d : db) (p : bytes) (count : Z), NoDup (map fst d) ->
  exists ks, scan_iter (S (length d)) (sort_keys (map fst d)) 0 count (regexp_from_glob p) = Some ks /\
             NoDup ks /\ forall k, In k ks <-> (In k (map fst d) /\ glob_match p k = true).
Proof. exact scan_iteration_each_key_once. Qed.
Print Assumptions C17_scan_iteration_each_key_once.

(* what the store model answers to one SCAN is that call, printed — the link between the theorem above and Store.sprim *)
Theorem C17_scan_reply : forall d cur o,
  sprim d (Handler.HScan cur o) =
  (d, let (nx, ks) := scan_call (sort_keys (map fst d)) cur (Handler.sc_count o) (Handler.sc_match o) in
      ok (Resp.RArr [Exec.bulk (itoa nx); Resp.RArr (map Exec.bulk ks)])).
Proof. exact sprim_scan. Qed.
Print Assumptions C17_scan_reply.

(* the code as found (cursor = index of the last key visited, end test `lastCursor == len(keys)`) did not have the
   property: with COUNT 1 the first reply says "complete" after one key, with COUNT 2 the cursor never returns to 0 *)
Theorem C17_scan_as_found_stops_early_refuted :
  exists keys src, forall fuel, scan_iter0 (S fuel) keys 0 1 src = Some [B"a"] /\ filter (scan_match src) keys = [B"a"; B"b"; B"c"].
Proof. exact scan_as_found_stops_early. Qed.
Print Assumptions C17_scan_as_found_stops_early_refuted.
Theorem C17_scan_as_found_never_ends_refuted : exists keys src, forall fuel, scan_iter0 fuel keys 0 2 src = None.
Proof. exact scan_as_found_never_ends. Qed.
Print Assumptions C17_scan_as_found_never_ends_refuted.

Example C17_ex_scan :
  let d : db := [(B"b", VStr (B"1")); (B"a.c", VStr (B"2")); (B"abc", VStr (B"3")); (B"a", VStr (B"4"))] in
  scan_iter 5 (sort_keys (map fst d)) 0 1 (regexp_from_glob (B"a*")) = Some [B"a"; B"a.c"; B"abc"] /\
  scan_call (sort_keys (map fst d)) 0 2 (regexp_from_glob (B"*")) = (2%Z, [B"a"; B"a.c"]) /\
  scan_call (sort_keys (map fst d)) 2 2 (regexp_from_glob (B"*")) = (0%Z, [B"abc"; B"b"]).
Proof. exact scan_ex. Qed.
