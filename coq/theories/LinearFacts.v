(* LinearFacts.v — the linearizability checker is COMPLETE (C16): with fuel = the number of operations it accepts every
   linearizable history.  Together with Linear.lin_sound: `lin (length ops) s ops` DECIDES linearizability, so a history
   the check rejects really has no linearization (no false alarm can come from the checker), and one it accepts has one. *)
From Coq Require Import List ZArith Lia Permutation Bool.
Import ListNotations.
From GR Require Import Base Resp Linear.
Open Scope Z_scope.

Lemma selects_in {A} (l : list A) x : In x l -> exists r, In (x, r) (selects l).
Proof.
  induction l as [|a l IH]; intros H; [contradiction|]. cbn [selects]. destruct H as [->|H].
  - exists l. left. reflexivity.
  - destruct (IH H) as (r & Hr). exists (a :: r). right. apply in_map_iff. exists (x, r). split; [reflexivity|exact Hr].
Qed.

Theorem lin_complete : forall l s pending fuel, Permutation l pending -> seq_ok s l -> rt_ok l -> (length pending <= fuel)%nat ->
  lin fuel s pending = true.
Proof.
  induction l as [|o l IH]; intros s pending fuel P Sq Rt Hf.
  - apply Permutation_nil in P. subst pending. destruct fuel; reflexivity.
  - assert (Ho : In o pending) by (eapply Permutation_in; [exact P|left; reflexivity]).
    destruct pending as [|p0 ps]; [contradiction|]. destruct fuel as [|f]; [cbn [length] in Hf; lia|].
    cbn [lin]. apply existsb_exists.
    destruct (selects_in (p0 :: ps) o Ho) as (rest & Hsel). exists (o, rest). split; [exact Hsel|].
    pose proof (selects_perm (p0 :: ps) o rest Hsel) as Pr.
    assert (Pl : Permutation l rest).
    { apply Permutation_cons_inv with (a := o). eapply Permutation_trans; [exact P|apply Permutation_sym; exact Pr]. }
    cbn [seq_ok] in Sq. cbn [rt_ok] in Rt. destruct Rt as [Rt1 Rt2].
    destruct (seq_exec s (o_req o)) as [s' b] eqn:Ex. destruct Sq as [Sq1 Sq2].
    apply andb_true_intro. split.
    + unfold minimal. apply forallb_forall. intros p Hp.
      assert (Hpl : In p l) by (eapply Permutation_in; [apply Permutation_sym; exact Pl|exact Hp]).
      rewrite Forall_forall in Rt1. specialize (Rt1 p Hpl). apply negb_true_iff. apply Z.ltb_ge. lia.
    + rewrite Sq1. cbn [andb]. apply (IH s' rest f Pl Sq2 Rt2).
      pose proof (Permutation_length Pr) as Len. cbn [length] in Len, Hf. lia.
Qed.

(* the checker decides linearizability *)
Theorem lin_decides s ops : lin (length ops) s ops = true <-> linearizable s ops.
Proof.
  split; [apply lin_sound|]. intros (l & P & Sq & Rt). eapply lin_complete; eauto.
Qed.

(* more fuel never changes the verdict *)
Corollary lin_fuel s ops fuel : (length ops <= fuel)%nat -> lin fuel s ops = lin (length ops) s ops.
Proof.
  intros H. destruct (lin (length ops) s ops) eqn:E.
  - apply lin_decides in E. destruct E as (l & P & Sq & Rt). eapply lin_complete; eauto.
  - destruct (lin fuel s ops) eqn:E2; [|reflexivity]. apply lin_sound in E2. apply lin_decides in E2. congruence.
Qed.
