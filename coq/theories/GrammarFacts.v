(* GrammarFacts.v — decode ∘ print = id on the typed command grammar (C05), and the rejection facts of C10. *)
From Coq Require Import String QArith Lia.
From GR Require Import Base BaseFacts Resp Handler Exec Conn Grammar.
Open Scope Z_scope.

(* ---------- small facts ---------- *)
Lemma bytes_eqb_refl a : bytes_eqb a a = true.
Proof. induction a as [|x a IH]; [reflexivity|]. cbn [bytes_eqb]. rewrite N.eqb_refl, IH. reflexivity. Qed.

Lemma bytes_eqb_eq a : forall b, bytes_eqb a b = true -> a = b.
Proof.
  induction a as [|x a IH]; intros [|y b] H; cbn [bytes_eqb] in H; try discriminate; [reflexivity|].
  apply andb_prop in H. destruct H as [H1 H2]. apply N.eqb_eq in H1. subst. f_equal. apply IH; exact H2.
Qed.

Lemma word_kw w k : word_ok w = true -> String.eqb (w_kw w) k = true -> forall k', kw (w_txt w) k' = bytes_eqb (bytes_of_string k) (bytes_of_string k').
Proof.
  unfold word_ok, kw. intros H1 H2 k'. apply bytes_eqb_eq in H1. apply String.eqb_eq in H2. rewrite H1, H2. reflexivity.
Qed.

Lemma inttok_atoi t : inttok_ok t = true -> atoi (it_txt t) = Some (it_val t).
Proof. unfold inttok_ok. destruct (atoi (it_txt t)) as [z|]; [|discriminate]. intros H. apply Z.eqb_eq in H. subst. reflexivity. Qed.

Lemma fl_eqb_eq a b : fl_eqb a b = true -> a = b.
Proof.
  destruct a as [p|x], b as [q|y]; cbn [fl_eqb]; try discriminate.
  - intros H. apply andb_prop in H. destruct H as [H H3]. apply andb_prop in H. destruct H as [_ H2].
    apply Z.eqb_eq in H2. apply Pos.eqb_eq in H3. destruct p, q. cbn in *. subst. reflexivity.
  - intros H. apply Bool.eqb_prop in H. subst. reflexivity.
Qed.

Lemma fltok_float t : fltok_ok t = true -> parse_float (ft_txt t) = Some (ft_val t).
Proof. unfold fltok_ok. destruct (parse_float (ft_txt t)) as [x|]; [|discriminate]. intros H. apply fl_eqb_eq in H. subst. reflexivity. Qed.

Lemma rstok_range t : rstok_ok t = true -> parse_range_score (rstok_txt t) = Some (ft_val (rs_tok t), rs_ex t).
Proof.
  unfold rstok_ok, rstok_txt. intros H. apply andb_prop in H. destruct H as [H1 H2]. apply fltok_float in H1.
  destruct (rs_ex t).
  - unfold parse_range_score. replace ((40 =? 40)%N) with true by reflexivity. rewrite H1. reflexivity.
  - unfold parse_range_score. destruct (ft_txt (rs_tok t)) as [|c r] eqn:E.
    + cbn in H1. discriminate.
    + apply negb_true_iff in H2. rewrite H2, H1. reflexivity.
Qed.

Lemma next_strings_bulks l : next_strings (map bulk l) = (inl l, []).
Proof. induction l as [|x l IH]; [reflexivity|]. cbn [map next_strings bulk msg_string]. fold (bulk). rewrite IH. reflexivity. Qed.

Lemma strs1_bulks l : ne l = true -> strs1 (map bulk l) = Some l.
Proof. unfold strs1, next_strings1. rewrite next_strings_bulks. destruct l; [discriminate|reflexivity]. Qed.

Lemma key1_bulk k r : key1 (bulk k :: r) = Some (k, r). Proof. reflexivity. Qed.
Lemma int1_tok t r : inttok_ok t = true -> int1 (bulk (it_txt t) :: r) = Some (it_val t, r).
Proof. intros H. unfold int1, next_integer, bulk, msg_integer. rewrite (inttok_atoi t H). reflexivity. Qed.

(* ---------- option words ---------- *)
Ltac kwc H1 H2 :=
  rewrite !(word_kw _ _ H1 H2);
  repeat match goal with
         | |- context [bytes_eqb (bytes_of_string ?a) (bytes_of_string ?b)] =>
             let v := eval vm_compute in (bytes_eqb (bytes_of_string a) (bytes_of_string b)) in
             change (bytes_eqb (bytes_of_string a) (bytes_of_string b)) with v
         end;
  cbn [orb andb].

Definition so_has_exp (o : set_opt) : bool :=
  (0 <? so_ex o) || (0 <? so_px o) || (match so_exat o with Some _ => true | None => false end) || (match so_pxat o with Some _ => true | None => false end).

(* what next_set_opts demands of the words still to come, given the options accumulated so far *)
Definition set_compat (o : set_opt) (l : list set_word) : bool :=
  forallb set_word_ok l &&
  (count_if is_cond l + (if so_nx o || so_xx o then 1 else 0) <=? 1)%nat &&
  (count_if is_expiry l + (if so_has_exp o then 1 else 0) <=? 1)%nat &&
  (count_if is_keepttl l + (if so_keepttl o then 1 else 0) <=? 1)%nat &&
  (count_if is_get l + (if so_get o then 1 else 0) <=? 1)%nat.

Lemma andb5 a b c d e : a && b && c && d && e = true -> a = true /\ b = true /\ c = true /\ d = true /\ e = true.
Proof. intros H. repeat (apply andb_prop in H; destruct H as [H ?]). auto. Qed.

Ltac fin_compat Hok :=
  unfold set_compat, count_if, so_has_exp in *;
  cbn [so_nx so_xx so_ex so_px so_exat so_pxat so_keepttl so_get length orb] in *;
  repeat match goal with
         | |- context [0 <? it_val ?n * ?k] => replace (0 <? it_val n * k) with true by (symmetry; apply Z.ltb_lt; lia)
         end;
  rewrite ?orb_true_r in *; cbn [orb] in *;
  rewrite Hok; cbn [andb];
  repeat match goal with H : (_ <=? _)%nat = true |- _ => apply Nat.leb_le in H end;
  repeat (apply andb_true_intro; split); apply Nat.leb_le; first [assumption | lia].

Lemma set_opts_print : forall l o, set_compat o l = true ->
  next_set_opts (map bulk (flat_map print_set_word l)) o = Some (fold_left apply_set_word l o).
Proof.
  induction l as [|x l IH]; intros o H; [reflexivity|].
  unfold set_compat in H. apply andb5 in H. destruct H as (Hok & Hc & He & Hk & Hg).
  cbn [forallb] in Hok. apply andb_prop in Hok. destruct Hok as [Hx Hok].
  unfold count_if in *. cbn [filter] in Hc, He, Hk, Hg.
  cbn [flat_map fold_left]. rewrite map_app.
  assert (REC : forall o', set_compat o' l = true -> next_set_opts (map bulk (flat_map print_set_word l)) o' = Some (fold_left apply_set_word l o')) by exact IH.
  destruct x as [w|w|w|w|w n|w n|w n|w n]; cbn [print_set_word map app next_set_opts bulk msg_string set_word_ok is_cond is_expiry is_keepttl is_get apply_set_word] in *;
    repeat (apply andb_prop in Hx; destruct Hx as [Hx ?]);
    match goal with H1 : word_ok w = true, H2 : String.eqb _ _ = true |- _ => kwc H1 H2 end.
  - (* NX *) destruct (so_nx o || so_xx o) eqn:E; [cbn [length] in Hc; apply Nat.leb_le in Hc; lia|].
    apply REC; clear REC IH. fin_compat Hok.
  - (* XX *) destruct (so_nx o || so_xx o) eqn:E; [cbn [length] in Hc; apply Nat.leb_le in Hc; lia|].
    apply REC; clear REC IH. fin_compat Hok.
  - (* KEEPTTL *) destruct (so_keepttl o) eqn:E; [cbn [length] in Hk; apply Nat.leb_le in Hk; lia|].
    apply REC; clear REC IH. fin_compat Hok.
  - (* GET *) destruct (so_get o) eqn:E; [cbn [length] in Hg; apply Nat.leb_le in Hg; lia|].
    apply REC; clear REC IH. fin_compat Hok.
  - (* EX *) fold (so_has_exp o). destruct (so_has_exp o) eqn:E; [cbn [length] in He; apply Nat.leb_le in He; lia|].
    unfold msg_integer, bulk. match goal with H : inttok_ok n = true |- _ => rewrite (inttok_atoi n H) end.
    match goal with H : (1 <=? it_val n) = true |- _ => apply Z.leb_le in H; destruct (Z.ltb_spec (it_val n) 1); [lia|] end.
    match goal with H : (it_val n <=? SEC_MAX) = true |- _ => apply Z.leb_le in H; destruct (Z.ltb_spec SEC_MAX (it_val n)); [lia|] end.
    apply REC; clear REC IH. fin_compat Hok.
  - (* PX *) fold (so_has_exp o). destruct (so_has_exp o) eqn:E; [cbn [length] in He; apply Nat.leb_le in He; lia|].
    unfold msg_integer, bulk. match goal with H : inttok_ok n = true |- _ => rewrite (inttok_atoi n H) end.
    match goal with H : (1 <=? it_val n) = true |- _ => apply Z.leb_le in H; destruct (Z.ltb_spec (it_val n) 1); [lia|] end.
    match goal with H : (it_val n <=? MSEC_MAX) = true |- _ => apply Z.leb_le in H; destruct (Z.ltb_spec MSEC_MAX (it_val n)); [lia|] end.
    apply REC; clear REC IH. fin_compat Hok.
  - (* EXAT *) fold (so_has_exp o). destruct (so_has_exp o) eqn:E; [cbn [length] in He; apply Nat.leb_le in He; lia|].
    unfold msg_integer, bulk. match goal with H : inttok_ok n = true |- _ => rewrite (inttok_atoi n H) end.
    match goal with H : (1 <=? it_val n) = true |- _ => apply Z.leb_le in H; destruct (Z.ltb_spec (it_val n) 1); [lia|] end.
    match goal with H : (it_val n <=? UNIX_MAX) = true |- _ => apply Z.leb_le in H; destruct (Z.ltb_spec UNIX_MAX (it_val n)); [lia|] end.
    apply REC; clear REC IH. fin_compat Hok.
  - (* PXAT *) fold (so_has_exp o). destruct (so_has_exp o) eqn:E; [cbn [length] in He; apply Nat.leb_le in He; lia|].
    unfold msg_integer, bulk. match goal with H : inttok_ok n = true |- _ => rewrite (inttok_atoi n H) end.
    match goal with H : (1 <=? it_val n) = true |- _ => apply Z.leb_le in H; destruct (Z.ltb_spec (it_val n) 1); [lia|] end.
    apply REC; clear REC IH. fin_compat Hok.
Qed.

Lemma range_opts_print : forall l o, forallb zr_word_ok l = true ->
  next_range_opts (map bulk (flat_map print_zr_word l)) o = Some (fold_left apply_zr_word l o).
Proof.
  induction l as [|x l IH]; intros o H; [reflexivity|].
  cbn [forallb] in H. apply andb_prop in H. destruct H as [Hx Hok].
  cbn [flat_map fold_left]. rewrite map_app.
  destruct x as [w|w|w|w|w a b]; cbn [print_zr_word map app next_range_opts bulk msg_string zr_word_ok apply_zr_word] in *;
    repeat (apply andb_prop in Hx; destruct Hx as [Hx ?]);
    match goal with H1 : word_ok w = true, H2 : String.eqb _ _ = true |- _ => kwc H1 H2 end; try (apply IH; exact Hok).
  unfold msg_integer, bulk.
  repeat match goal with H : inttok_ok _ = true |- _ => rewrite (inttok_atoi _ H); clear H end.
  apply IH; exact Hok.
Qed.

Lemma zr_byscore_fold : forall l o, zr_byscore (fold_left apply_zr_word l o) = zr_byscore o || has_byscore l.
Proof.
  induction l as [|x l IH]; intros o; [cbn; rewrite orb_false_r; reflexivity|].
  cbn [fold_left has_byscore existsb]. rewrite IH. destruct x; cbn [apply_zr_word zr_byscore orb]; try reflexivity.
  rewrite orb_true_r. reflexivity.
Qed.

Lemma zr_opts_proj : forall l o,
  let o' := fold_left apply_zr_word l o in
  zr_minex o' = zr_minex o /\ zr_maxex o' = zr_maxex o.
Proof.
  induction l as [|x l IH]; intros o; [split; reflexivity|]. cbn [fold_left]. cbn zeta in *.
  destruct (IH (apply_zr_word o x)) as [A1 A2]. rewrite A1, A2. destruct x; split; reflexivity.
Qed.

Lemma za_opts_print : forall ws o tok rest,
  forallb za_word_ok ws = true -> is_za_kw (ft_txt tok) = false -> fltok_ok tok = true ->
  zadd_opts (map bulk (map za_txt ws) ++ bulk (ft_txt tok) :: rest) o = Some (fold_left apply_za_word ws o, ft_val tok, rest).
Proof.
  induction ws as [|x ws IH]; intros o tok rest Hok Hkw Hf.
  - cbn [map app fold_left zadd_opts bulk msg_string]. unfold is_za_kw in Hkw.
    repeat (apply orb_false_elim in Hkw; destruct Hkw as [Hkw ?]).
    repeat match goal with H : kw _ _ = false |- _ => rewrite H; clear H end.
    rewrite (fltok_float tok Hf). reflexivity.
  - cbn [forallb] in Hok. apply andb_prop in Hok. destruct Hok as [Hx Hok].
    cbn [map app fold_left].
    destruct x as [w|w|w|w|w|w]; cbn [za_txt zadd_opts bulk msg_string za_word_ok apply_za_word] in *;
      apply andb_prop in Hx; destruct Hx as [H1 H2]; kwc H1 H2; apply IH; assumption.
Qed.

Lemma zadd_members_step m ss r' score :
  zadd_members (bulk m :: bulk ss :: r') score =
  match parse_float ss with
  | Some x => match zadd_members r' x with Some l => Some ((score, m) :: l) | None => None end
  | None => None
  end.
Proof. reflexivity. Qed.

Lemma za_members_print : forall more score m,
  forallb (fun p : fltok * bytes => fltok_ok (fst p)) more = true ->
  zadd_members (bulk m :: flat_map (fun p : fltok * bytes => [bulk (ft_txt (fst p)); bulk (snd p)]) more) score =
  Some ((score, m) :: map (fun p : fltok * bytes => (ft_val (fst p), snd p)) more).
Proof.
  induction more as [|[t mem] more IH]; intros score m H; [reflexivity|].
  cbn [forallb fst] in H. apply andb_prop in H. destruct H as [Ht Hm].
  cbn [flat_map app fst snd map]. rewrite zadd_members_step, (fltok_float t Ht), (IH (ft_val t) mem Hm). reflexivity.
Qed.

Lemma map_flat_map_pairs (more : list (fltok * bytes)) :
  map bulk (flat_map (fun p : fltok * bytes => [ft_txt (fst p); snd p]) more) =
  flat_map (fun p : fltok * bytes => [bulk (ft_txt (fst p)); bulk (snd p)]) more.
Proof. induction more as [|p more IH]; [reflexivity|]. cbn [flat_map map app]. rewrite IH. reflexivity. Qed.

Section Decode.
  Variable hstate : Type.
  Variable handle : hstate -> Z -> hcall -> hstate * hresult.
  Variable regexp_src : bytes -> bytes.
  Notation est := (est hstate).
  Notation pass := (pass hstate handle).

  Lemma scan_opts_print : forall l o, forallb sc_word_ok l = true ->
    next_scan_opts regexp_src (map bulk (flat_map print_sc_word l)) o = Some (fold_left (apply_sc_word regexp_src) l o).
  Proof.
    induction l as [|x l IH]; intros o H; [reflexivity|].
    cbn [forallb] in H. apply andb_prop in H. destruct H as [Hx Hok].
    cbn [flat_map fold_left]. rewrite map_app.
    destruct x as [w p|w n|w t v]; cbn [print_sc_word map app next_scan_opts bulk msg_string sc_word_ok apply_sc_word] in *;
      repeat (apply andb_prop in Hx; destruct Hx as [Hx ?]);
      match goal with H1 : word_ok w = true, H2 : String.eqb _ _ = true |- _ => kwc H1 H2 end.
    - apply IH; exact Hok.
    - unfold msg_integer, bulk. match goal with H : inttok_ok _ = true |- _ => rewrite (inttok_atoi _ H) end. apply IH; exact Hok.
    - destruct (scan_type_of t) as [z|]; [|discriminate].
      match goal with H : (z =? v) = true |- _ => apply Z.eqb_eq in H; subst z end. apply IH; exact Hok.
  Qed.

  Lemma expire_opt_print t o : opt_ok ex_word_ok o = true ->
    next_expire_opt (map bulk (match o with Some w => [ex_txt w] | None => [] end)) t = Some (expire_opt_of t o).
  Proof.
    destruct o as [x|]; [|reflexivity]. cbn [opt_ok map next_expire_opt bulk msg_string]. intros H.
    destruct x as [w|w|w|w]; cbn [ex_txt ex_word_ok expire_opt_of] in *; apply andb_prop in H; destruct H as [H1 H2]; kwc H1 H2; reflexivity.
  Qed.

  (* the executor registered for the command a request constructor names *)
  Definition exec_of (r : req) : cstate -> args -> est -> xres * est :=
    match r with
    | QDel _ => x_DEL hstate handle | QExists _ => x_EXISTS hstate handle | QKeys _ => x_KEYS hstate handle | QType _ => x_TYPE hstate handle
    | QTTL _ => x_TTL hstate handle | QGet _ => x_GET hstate handle | QHGetAll _ => x_HGETALL hstate handle | QLLen _ => x_LLEN hstate handle
    | QSMembers _ => x_SMEMBERS hstate handle | QRename _ _ => x_RENAME hstate handle | QRenameNX _ _ => x_RENAMENX hstate handle
    | QExpire _ _ _ => x_EXPIRE hstate handle | QExpireAt _ _ _ => x_EXPIREAT hstate handle | QScan _ _ => x_SCAN hstate handle regexp_src
    | QSet _ _ _ => x_SET hstate handle | QSetNX _ _ => x_SETNX hstate handle | QGetSet _ _ => x_GETSET hstate handle
    | QSetEX _ _ _ => x_SETEX hstate handle | QHDel _ _ => x_HDEL hstate handle | QSAdd _ _ => x_SADD hstate handle
    | QSRem _ _ => x_SREM hstate handle | QZRem _ _ => x_ZREM hstate handle | QLPush _ _ => x_LPUSH hstate handle
    | QLPushX _ _ => x_LPUSHX hstate handle | QRPush _ _ => x_RPUSH hstate handle | QRPushX _ _ => x_RPUSHX hstate handle
    | QHGet _ _ => x_HGET hstate handle | QZScore _ _ => x_ZSCORE hstate handle | QHSet _ _ _ => x_HSET hstate handle
    | QHSetNX _ _ _ => x_HSETNX hstate handle | QLIndex _ _ => x_LINDEX hstate handle | QLPop _ _ => x_LPOP hstate handle
    | QRPop _ _ => x_RPOP hstate handle | QLRange _ _ _ => x_LRANGE hstate handle | QZAdd _ _ _ _ => x_ZADD hstate handle
    | QZIncrBy _ _ _ => x_ZINCRBY hstate handle | QZRangeIdx _ _ _ _ => x_ZRANGE hstate handle | QZRangeScore _ _ _ _ => x_ZRANGE hstate handle
    | QZRangeByScore _ _ _ _ => x_ZRANGEBYSCORE hstate handle
    end.

  Lemma lookup_exec r :
    lookup_cmd hstate (bytes_of_string (name_of r)) (user_table hstate handle regexp_src) = Some (KUser hstate (exec_of r)).
  Proof. destruct r; reflexivity. Qed.

  Lemma name_not_sys r : is_sys (bytes_of_string (name_of r)) = false.
  Proof. destruct r; vm_compute; reflexivity. Qed.

  (* C05: decode (print r) = expect r, for EVERY valid request of the grammar *)
  Theorem decode_print r c s : valid r = true -> exec_of r c (print r) s = pass c (expect regexp_src r) s.
  Proof.
    intros V. destruct r; unfold print; cbn [exec_of valid print_args expect] in *.
    - (* DEL *) unfold x_DEL, x_keys. rewrite strs1_bulks by exact V. reflexivity.
    - unfold x_EXISTS, x_keys. rewrite strs1_bulks by exact V. reflexivity.
    - reflexivity.
    - reflexivity.
    - reflexivity.
    - reflexivity.
    - reflexivity.
    - reflexivity.
    - reflexivity.
    - reflexivity.
    - reflexivity.
    - (* EXPIRE *) repeat (apply andb_prop in V; destruct V as [V ?]).
      unfold x_EXPIRE. rewrite map_app. cbn [map app]. rewrite key1_bulk, int1_tok by assumption.
      repeat match goal with H : (_ <=? _) = true |- _ => apply Z.leb_le in H end.
      destruct (Z.ltb_spec SEC_MAX (it_val ttl)); [lia|]. destruct (Z.ltb_spec (it_val ttl) (- SEC_MAX)); [lia|]. cbn [orb].
      rewrite expire_opt_print by assumption. reflexivity.
    - (* EXPIREAT *) repeat (apply andb_prop in V; destruct V as [V ?]).
      unfold x_EXPIREAT. rewrite map_app. cbn [map app]. rewrite key1_bulk, int1_tok by assumption.
      repeat match goal with H : (_ <=? _) = true |- _ => apply Z.leb_le in H end.
      destruct (Z.ltb_spec UNIX_MAX (it_val ts)); [lia|]. destruct (Z.ltb_spec (it_val ts) (- UNIX_MAX)); [lia|]. cbn [orb].
      rewrite expire_opt_print by assumption. reflexivity.
    - (* SCAN *) apply andb_prop in V. destruct V as [V1 V2].
      unfold x_SCAN. cbn [map]. rewrite int1_tok by assumption. unfold default_scan_opt. rewrite scan_opts_print by assumption. reflexivity.
    - (* SET *) unfold x_SET. rewrite map_app. cbn [map app]. rewrite !key1_bulk.
      rewrite set_opts_print; [reflexivity|].
      unfold set_words_ok in V. apply andb5 in V. destruct V as (V1 & V2 & V3 & V4 & V5).
      unfold set_compat, so_has_exp. cbn. rewrite V1. cbn [andb]. rewrite !Nat.add_0_r. rewrite V2, V3, V4, V5. reflexivity.
    - reflexivity.
    - reflexivity.
    - (* SETEX *) repeat (apply andb_prop in V; destruct V as [V ?]).
      unfold x_SETEX. cbn [map]. rewrite key1_bulk, int1_tok by assumption.
      repeat match goal with H : (_ <=? _) = true |- _ => apply Z.leb_le in H end.
      destruct (Z.ltb_spec (it_val sec) 1); [lia|]. destruct (Z.ltb_spec SEC_MAX (it_val sec)); [lia|]. cbn [orb]. reflexivity.
    - unfold x_HDEL, x_key_strs. cbn [map]. rewrite key1_bulk, strs1_bulks by exact V. reflexivity.
    - unfold x_SADD, x_key_strs. cbn [map]. rewrite key1_bulk, strs1_bulks by exact V. reflexivity.
    - unfold x_SREM, x_key_strs. cbn [map]. rewrite key1_bulk, strs1_bulks by exact V. reflexivity.
    - unfold x_ZREM, x_key_strs. cbn [map]. rewrite key1_bulk, strs1_bulks by exact V. reflexivity.
    - unfold x_LPUSH, x_key_strs. cbn [map]. rewrite key1_bulk, strs1_bulks by exact V. reflexivity.
    - unfold x_LPUSHX, x_key_strs. cbn [map]. rewrite key1_bulk, strs1_bulks by exact V. reflexivity.
    - unfold x_RPUSH, x_key_strs. cbn [map]. rewrite key1_bulk, strs1_bulks by exact V. reflexivity.
    - unfold x_RPUSHX, x_key_strs. cbn [map]. rewrite key1_bulk, strs1_bulks by exact V. reflexivity.
    - reflexivity.
    - reflexivity.
    - reflexivity.
    - reflexivity.
    - (* LINDEX *) unfold x_LINDEX, x_key_int. cbn [map]. rewrite key1_bulk, int1_tok by exact V. reflexivity.
    - (* LPOP *) unfold x_LPOP, x_pop. destruct n as [t|]; cbn [map opt_ok] in *; rewrite key1_bulk.
      + unfold next_integer, bulk, msg_integer. rewrite (inttok_atoi t V). reflexivity.
      + reflexivity.
    - unfold x_RPOP, x_pop. destruct n as [t|]; cbn [map opt_ok] in *; rewrite key1_bulk.
      + unfold next_integer, bulk, msg_integer. rewrite (inttok_atoi t V). reflexivity.
      + reflexivity.
    - (* LRANGE *) apply andb_prop in V. destruct V as [V1 V2].
      unfold x_LRANGE. cbn [map]. rewrite key1_bulk, !int1_tok by assumption. reflexivity.
    - (* ZADD *) repeat (apply andb_prop in V; destruct V as [V ?]).
      unfold x_ZADD. cbn [map]. rewrite key1_bulk. rewrite map_app. cbn [flat_map map app].
      destruct first as [tok mem]. cbn [fst snd] in *.
      rewrite (za_opts_print ws default_zadd_opt tok) by (try assumption; apply negb_true_iff; assumption).
      rewrite map_flat_map_pairs. rewrite za_members_print by assumption. reflexivity.
    - (* ZINCRBY *) unfold x_ZINCRBY. cbn [map]. rewrite key1_bulk. unfold float1, next_string, bulk, msg_string.
      rewrite (fltok_float inc V). reflexivity.
    - (* ZRANGE by index *) repeat (apply andb_prop in V; destruct V as [V ?]).
      unfold x_ZRANGE. rewrite map_app. cbn [map app]. rewrite !key1_bulk. rewrite range_opts_print by assumption.
      rewrite zr_byscore_fold. cbn [default_zrange_opt zr_byscore orb].
      match goal with H : negb (has_byscore ws) = true |- _ => apply negb_true_iff in H; rewrite H end.
      rewrite !inttok_atoi by assumption. reflexivity.
    - (* ZRANGE BYSCORE *) apply andb_prop in V; destruct V as [V ?]. apply andb_prop in V; destruct V as [V ?]. apply andb_prop in V; destruct V as [V ?].
      unfold x_ZRANGE. rewrite map_app. cbn [map app]. rewrite !key1_bulk. rewrite range_opts_print by assumption.
      rewrite zr_byscore_fold. cbn [default_zrange_opt zr_byscore orb].
      match goal with H : has_byscore ws = true |- _ => rewrite H end.
      rewrite !rstok_range by assumption. reflexivity.
    - (* ZRANGEBYSCORE *) apply andb_prop in V; destruct V as [V ?]. apply andb_prop in V; destruct V as [V ?].
      unfold x_ZRANGEBYSCORE. rewrite map_app. cbn [map app]. rewrite key1_bulk.
      unfold rscore1, next_string, bulk, msg_string. rewrite !rstok_range by assumption.
      fold bulk. rewrite range_opts_print by assumption. reflexivity.
  Qed.

  (* ---------- dispatch ---------- *)
  Variable fw_text : bytes -> args -> bytes.
  Notation world := (world hstate).
  Notation execute_command := (execute_command hstate handle regexp_src).
  Notation emit := (emit hstate).

  Lemma is_sys_false up : is_sys up = false ->
    bytes_eqb up (B"AUTH") = false /\ bytes_eqb up (B"PING") = false /\ bytes_eqb up (B"ECHO") = false /\
    bytes_eqb up (B"SELECT") = false /\ bytes_eqb up (B"QUIT") = false /\ bytes_eqb up (B"CONFIG") = false.
  Proof.
    unfold is_sys, sys_names. cbn [existsb]. intros H.
    repeat (apply orb_false_elim in H; destruct H as [? H]). repeat split; assumption.
  Qed.

  (* a registered user command on an authorized connection: command span, the executor, span finish; the connection
     state and the server state are untouched *)
  Lemma execute_user (w : world) cmd a x :
    cs_auth (w_cs _ w) = true -> is_sys (upper cmd) = false ->
    lookup_cmd hstate (upper cmd) (user_table hstate handle regexp_src) = Some (KUser hstate x) ->
    execute_command w cmd a =
    let (r, s') := x (w_cs _ w) a (emit (EvSpanStart (upper cmd)) (w_est _ w)) in
    Ok (r, {| w_cs := w_cs _ w; w_ss := w_ss _ w; w_est := emit EvSpanFinish s' |}).
  Proof.
    intros Hau Hsys Hl. unfold Conn.execute_command. rewrite Hl, Hau, Hsys. cbn [orb negb andb].
    destruct (is_sys_false _ Hsys) as (E1 & E2 & E3 & E4 & E5 & E6). rewrite E1, E2, E3, E4, E5, E6.
    destruct (x (w_cs _ w) a (emit (EvSpanStart (upper cmd)) (w_est _ w))); reflexivity.
  Qed.

  (* C05 (1): a valid request of the grammar, sent with ANY letter case of the command name, on an authorized
     connection: exactly one handler call, `expect r`, on the connection's database; its result is the result *)
  Theorem direct_command (w : world) cmd r :
    cs_auth (w_cs _ w) = true -> upper cmd = bytes_of_string (name_of r) -> valid r = true ->
    execute_command w cmd (print r) =
    let (res, s') := call hstate handle (w_cs _ w) (expect regexp_src r) (emit (EvSpanStart (bytes_of_string (name_of r))) (w_est _ w)) in
    Ok (x_of res, {| w_cs := w_cs _ w; w_ss := w_ss _ w; w_est := emit EvSpanFinish s' |}).
  Proof.
    intros Hau Hup V. rewrite (execute_user w cmd (print r) (exec_of r) Hau).
    - rewrite Hup, (decode_print r _ _ V). unfold Exec.pass.
      destruct (call hstate handle (w_cs _ w) (expect regexp_src r) _) as [res s']. reflexivity.
    - rewrite Hup. apply name_not_sys.
    - rewrite Hup. apply lookup_exec.
  Qed.

  (* C05 (2): a name that is neither built in nor registered by the application: error result, no event at all *)
  Theorem unknown_command (w : world) cmd a :
    is_sys (upper cmd) = false -> lookup_cmd hstate (upper cmd) (user_table hstate handle regexp_src) = None ->
    existsb (bytes_eqb (upper cmd)) (ss_app (w_ss _ w)) = false ->
    execute_command w cmd a = Ok (x_fw, w).
  Proof. intros H1 H2 H3. unfold Conn.execute_command. rewrite H1, H2, H3. reflexivity. Qed.

  (* C05 (3): an executor registered by the application (names are stored upper-cased) is dispatched for any casing *)
  Theorem app_command (w : world) cmd a :
    cs_auth (w_cs _ w) = true -> is_sys (upper cmd) = false ->
    lookup_cmd hstate (upper cmd) (user_table hstate handle regexp_src) = None ->
    existsb (bytes_eqb (upper cmd)) (ss_app (w_ss _ w)) = true ->
    execute_command w cmd a =
    Ok (x_ok (app_reply), {| w_cs := w_cs _ w; w_ss := w_ss _ w;
                             w_est := emit EvSpanFinish (emit (EvApp (upper cmd) a) (emit (EvSpanStart (upper cmd)) (w_est _ w))) |}).
  Proof.
    intros Hau H1 H2 H3. unfold Conn.execute_command. rewrite H1, H2, H3, Hau. cbn [orb negb andb].
    destruct (is_sys_false _ H1) as (E1 & E2 & E3 & E4 & E5 & E6). rewrite E1, E2, E3, E4, E5, E6. reflexivity.
  Qed.

  (* C05 (4): what the handler returns is what the client receives *)
  Theorem reply_passthrough req res m :
    hr_err res = None -> hr_msg res = Some m -> reply_of fw_text req (x_of res) = m.
  Proof. intros H1 H2. unfold reply_of, x_of. cbn [x_err x_msg]. rewrite H1, H2. reflexivity. Qed.

  (* ---------- C10: no partial execution ---------- *)
  (* a command that maps onto one handler operation, given ANY argument list: either it is refused — framework error,
     not a single event, state untouched — or it is exactly one handler call whose result is passed through *)
  Theorem direct_dichotomy r c a s :
    exec_of r c a s = (x_fw, s) \/ exists h, exec_of r c a s = pass c h s.
  Proof.
    destruct r; cbn [exec_of];
      unfold x_DEL, x_EXISTS, x_KEYS, x_TYPE, x_TTL, x_GET, x_HGETALL, x_LLEN, x_SMEMBERS, x_RENAME, x_RENAMENX, x_EXPIRE, x_EXPIREAT,
             x_SCAN, x_SET, x_SETNX, x_GETSET, x_SETEX, x_HDEL, x_SADD, x_SREM, x_ZREM, x_LPUSH, x_LPUSHX, x_RPUSH, x_RPUSHX, x_HGET,
             x_ZSCORE, x_HSET, x_HSETNX, x_hset, x_LINDEX, x_LPOP, x_RPOP, x_LRANGE, x_ZADD, x_ZINCRBY, x_ZRANGE, x_ZRANGEBYSCORE,
             x_keys, x_key_only, x_key_str, x_key_strs, x_key_int, x_pop;
      repeat match goal with |- context [match ?x with _ => _ end] => destruct x eqn:? end;
      first [left; reflexivity | right; eexists; reflexivity].
  Qed.

  (* ---------- C10: a required positional argument is missing ---------- *)
  (* number of leading elements of `print r` without which the request is incomplete (for ZADD: key, the option
     words, the first score and the first member) *)
  Definition required (r : req) : nat :=
    match r with
    | QDel _ | QExists _ | QKeys _ | QType _ | QTTL _ | QGet _ | QHGetAll _ | QLLen _ | QSMembers _ | QScan _ _ | QLPop _ _ | QRPop _ _ => 1
    | QRename _ _ | QRenameNX _ _ | QExpire _ _ _ | QExpireAt _ _ _ | QSet _ _ _ | QSetNX _ _ | QGetSet _ _ | QHDel _ _ | QSAdd _ _ | QSRem _ _
    | QZRem _ _ | QLPush _ _ | QLPushX _ _ | QRPush _ _ | QRPushX _ _ | QHGet _ _ | QZScore _ _ | QLIndex _ _ => 2
    | QSetEX _ _ _ | QHSet _ _ _ | QHSetNX _ _ _ | QLRange _ _ _ | QZIncrBy _ _ _ | QZRangeIdx _ _ _ _ | QZRangeScore _ _ _ _ | QZRangeByScore _ _ _ _ => 3
    | QZAdd _ ws _ _ => 3 + length ws
    end.

  Lemma zadd_opts_trunc : forall ws o j, forallb za_word_ok ws = true ->
    zadd_opts (firstn j (map bulk (map za_txt ws))) o = None.
  Proof.
    induction ws as [|x ws IH]; intros o j Hok; [destruct j; reflexivity|].
    destruct j as [|j]; [reflexivity|].
    cbn [forallb] in Hok. apply andb_prop in Hok. destruct Hok as [Hx Hok]. cbn [map firstn].
    destruct x as [w|w|w|w|w|w]; cbn [za_txt zadd_opts bulk msg_string za_word_ok] in *;
      apply andb_prop in Hx; destruct Hx as [H1 H2]; kwc H1 H2; apply IH; assumption.
  Qed.

  Lemma firstn_map {X Y} (f : X -> Y) l : forall n, firstn n (map f l) = map f (firstn n l).
  Proof. induction l as [|x l IH]; intros [|n]; cbn [map firstn]; try reflexivity. rewrite IH. reflexivity. Qed.

  (* every strict prefix of the required part of a valid request is refused: no handler call, state untouched *)
  Theorem truncated_rejected r c s n : valid r = true -> (n < required r)%nat -> exec_of r c (firstn n (print r)) s = (x_fw, s).
  Proof using hstate handle regexp_src.
    clear fw_text. intros V Hn. unfold print. destruct r; cbn [required] in Hn;
      try (destruct n as [|[|[|n]]]; try lia; cbn [exec_of print_args map app firstn]; reflexivity).
    - (* SETEX *) cbn [valid] in V. repeat (apply andb_prop in V; destruct V as [V ?]).
      destruct n as [|[|[|n]]]; try lia; cbn [exec_of print_args map app firstn]; try reflexivity.
      unfold x_SETEX. rewrite key1_bulk, int1_tok by assumption.
      destruct ((it_val sec <? 1) || (SEC_MAX <? it_val sec)); reflexivity.
    - (* LRANGE *) cbn [valid] in V. apply andb_prop in V. destruct V as [V1 V2].
      destruct n as [|[|[|n]]]; try lia; cbn [exec_of print_args map app firstn]; try reflexivity.
      unfold x_LRANGE. rewrite key1_bulk, int1_tok by assumption. reflexivity.
    - (* ZADD *) cbn [valid] in V. repeat (apply andb_prop in V; destruct V as [V ?]).
      cbn [exec_of print_args map]. destruct n as [|j]; [reflexivity|]. cbn [firstn].
      unfold x_ZADD. rewrite key1_bulk. rewrite map_app.
      destruct first as [tok mem]. cbn [flat_map fst snd app map].
      destruct (Nat.le_gt_cases j (length ws)) as [Hle|Hgt].
      + rewrite firstn_app. rewrite !map_length. replace (j - length ws)%nat with 0%nat by lia. cbn [firstn]. rewrite app_nil_r.
        rewrite zadd_opts_trunc by assumption. reflexivity.
      + assert (j = S (length ws)) by lia. subst j.
        rewrite firstn_app. rewrite !map_length. replace (S (length ws) - length ws)%nat with 1%nat by lia.
        rewrite firstn_all2 by (rewrite !map_length; lia). cbn [firstn].
        rewrite (za_opts_print ws default_zadd_opt tok []) by (try assumption; apply negb_true_iff; assumption). reflexivity.
    - (* ZINCRBY *) cbn [valid] in V.
      destruct n as [|[|[|n]]]; try lia; cbn [exec_of print_args map app firstn]; try reflexivity.
      unfold x_ZINCRBY. rewrite key1_bulk. unfold float1, next_string, bulk, msg_string. rewrite (fltok_float inc V). reflexivity.
    - (* ZRANGEBYSCORE *) cbn [valid] in V. apply andb_prop in V; destruct V as [V ?]. apply andb_prop in V; destruct V as [V ?].
      destruct n as [|[|[|n]]]; try lia; cbn [exec_of print_args map app firstn]; try reflexivity.
      unfold x_ZRANGEBYSCORE. rewrite key1_bulk. unfold rscore1, next_string, bulk, msg_string. rewrite rstok_range by assumption. reflexivity.
  Qed.

  (* ---------- C10: a key/value list with a dangling half ---------- *)
  Lemma next_pairs_odd : forall (l : list bytes), Nat.odd (length l) = true -> exists r, next_pairs (map bulk l) = (inr AEOM, r).
  Proof.
    fix IH 1. intros [|k [|v l]] H.
    - discriminate.
    - eexists. reflexivity.
    - cbn [map next_pairs bulk msg_string]. cbn [length] in H. rewrite Nat.odd_succ, Nat.even_succ in H.
      destruct (IH l H) as [r E]. fold bulk. rewrite E. eexists. reflexivity.
  Qed.

  Lemma next_map1_odd l : Nat.odd (length l) = true -> exists r, next_map1 (map bulk l) = (inr AEOM, r).
  Proof. intros H. destruct (next_pairs_odd l H) as [r E]. unfold next_map1. rewrite E. eexists; reflexivity. Qed.

  Theorem mset_dangling c l s : Nat.odd (length l) = true ->
    x_MSET hstate handle c (map bulk l) s = (x_fw, s) /\ x_MSETNX hstate handle c (map bulk l) s = (x_fw, s).
  Proof. intros H. destruct (next_map1_odd l H) as [r E]. unfold x_MSET, x_MSETNX. rewrite E. split; reflexivity. Qed.

  Theorem hmset_dangling c k l s : Nat.odd (length l) = true -> x_HMSET hstate handle c (map bulk (k :: l)) s = (x_fw, s).
  Proof. intros H. destruct (next_map1_odd l H) as [r E]. unfold x_HMSET. cbn [map]. rewrite key1_bulk, E. reflexivity. Qed.

  Theorem mset_empty c s : x_MSET hstate handle c [] s = (x_fw, s) /\ x_MSETNX hstate handle c [] s = (x_fw, s).
  Proof. split; reflexivity. Qed.

  Theorem config_set_dangling ss w l : word_ok w = true -> w_kw w = "SET"%string -> Nat.odd (length l) = true ->
    x_CONFIG ss (map bulk (w_txt w :: l)) = (x_fw, ss).
  Proof.
    intros H1 H2 H. destruct (next_map1_odd l H) as [r E]. unfold x_CONFIG. cbn [map bulk msg_string].
    assert (H2' : String.eqb (w_kw w) "SET" = true) by (rewrite H2; reflexivity). kwc H1 H2'. fold bulk. rewrite E. reflexivity.
  Qed.

  (* ZADD with a score that has no member *)
  Lemma zadd_members_dangling : forall more score m tok,
    forallb (fun p : fltok * bytes => fltok_ok (fst p)) more = true ->
    zadd_members (bulk m :: flat_map (fun p : fltok * bytes => [bulk (ft_txt (fst p)); bulk (snd p)]) more ++ [bulk tok]) score = None.
  Proof.
    induction more as [|[t mem] more IH]; intros score m tok H.
    - cbn [flat_map app]. rewrite zadd_members_step. destruct (parse_float tok); reflexivity.
    - cbn [forallb fst] in H. apply andb_prop in H. destruct H as [Ht Hm].
      cbn [flat_map app fst snd]. rewrite zadd_members_step, (fltok_float t Ht), (IH (ft_val t) mem tok Hm). reflexivity.
  Qed.

  (* ---------- C10: SET options ---------- *)
  (* an expiry option whose operand is a numeral that is not positive *)
  Theorem set_nonpositive_expiry w n rest o :
    word_ok w = true -> (w_kw w = "EX" \/ w_kw w = "PX" \/ w_kw w = "EXAT" \/ w_kw w = "PXAT")%string ->
    inttok_ok n = true -> it_val n < 1 ->
    next_set_opts (bulk (w_txt w) :: bulk (it_txt n) :: rest) o = None.
  Proof using.
    clear. intros H1 Hk Hn Hz. cbn [next_set_opts bulk msg_string].
    assert (E : forall k, w_kw w = k -> String.eqb (w_kw w) k = true) by (intros k ->; apply String.eqb_refl).
    destruct Hk as [Hk|[Hk|[Hk|Hk]]]; pose proof (E _ Hk) as H2; kwc H1 H2;
      (destruct ((0 <? so_ex o) || (0 <? so_px o) || match so_exat o with Some _ => true | None => false end
                 || match so_pxat o with Some _ => true | None => false end); [reflexivity|]);
      unfold msg_integer, bulk; rewrite (inttok_atoi n Hn); (destruct (Z.ltb_spec (it_val n) 1); [reflexivity|lia]).
  Qed.
End Decode.
