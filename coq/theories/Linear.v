(* Linear.v — linearizability of command histories (C16).
   - seq_exec: the sequential specification of a command = one iteration of the connection loop (Conn.step) with the
     Redis reference primitives as the handler, on an authorized connection on database 0
   - lin: an executable linearizability checker (complete search over minimal pending operations), with a proof that
     a history it accepts is linearizable; it is extracted and judges the histories recorded from the implementation
   - atomic execution (what the command lock of the code provides: Multi.mstep) yields sequential histories
   - without atomicity the property is false: two INCRs whose reads both precede both writes lose an update. *)
From Coq Require Import String Lia Permutation.
From GR Require Import Base Resp Handler Exec Conn Multi Redis ConnFacts.
Open Scope Z_scope.

Definition lin_cs : cstate := {| cs_auth := true; cs_db := 0; cs_user := []; cs_pass := None; cs_tls := None |}.
Definition lin_ss : sstate := {| ss_config := []; ss_auths := []; ss_app := [] |}.
Definition id_src (p : bytes) : bytes := p.
Definition err_text (_ : bytes) (_ : args) : bytes := B"ERR".

(* one command executed alone on store s: the new store and the bytes of the reply *)
Definition seq_exec (s : store) (req : resp) : store * bytes :=
  let w := {| w_cs := lin_cs; w_ss := lin_ss; w_est := {| e_hs := s; e_evs := [] |} |} in
  match step store prim id_src err_text w req with
  | Ok (_, w') =>
    (e_hs _ (w_est _ w'),
     match filter (fun e => match e with EvWrite _ => true | _ => false end) (e_evs _ (w_est _ w')) with
     | EvWrite b :: _ => b
     | _ => []
     end)
  | Panic => (s, [])
  end.

(* an operation of a history: the request, the reply bytes observed, logical times of invocation and response *)
Record op := { o_req : resp; o_rep : bytes; o_inv : Z; o_resp : Z }.

(* replies agree: the same bytes, or both are error replies (error texts are not part of the specification) *)
Definition is_err_reply (b : bytes) : bool := match b with c :: _ => (c =? ch_minus)%N | [] => false end.
Definition reply_eqb (a b : bytes) : bool := (is_err_reply a && is_err_reply b) || bytes_eqb a b.

(* a sequential execution from s in which every operation gets the reply it was observed to get *)
Fixpoint seq_ok (s : store) (l : list op) : Prop :=
  match l with
  | [] => True
  | o :: r => let (s', b) := seq_exec s (o_req o) in reply_eqb b (o_rep o) = true /\ seq_ok s' r
  end.

(* the order respects real time: nothing placed later had already responded before an earlier one was invoked *)
Fixpoint rt_ok (l : list op) : Prop :=
  match l with
  | [] => True
  | o :: r => Forall (fun p => ~ (o_resp p < o_inv o)) r /\ rt_ok r
  end.

Definition linearizable (s : store) (ops : list op) : Prop :=
  exists l, Permutation l ops /\ seq_ok s l /\ rt_ok l.

(* every way of taking one element out of a list *)
Fixpoint selects {A} (l : list A) : list (A * list A) :=
  match l with
  | [] => []
  | x :: r => (x, r) :: map (fun p => (fst p, x :: snd p)) (selects r)
  end.

Lemma selects_perm {A} (l : list A) : forall x r, In (x, r) (selects l) -> Permutation (x :: r) l.
Proof.
  induction l as [|y l IH]; intros x r H; cbn [selects] in H; [contradiction|].
  destruct H as [H|H].
  - inversion H; subst. apply Permutation_refl.
  - apply in_map_iff in H. destruct H as ([x' r'] & E & Hin). cbn [fst snd] in E. inversion E; subst.
    specialize (IH _ _ Hin). eapply Permutation_trans; [apply perm_swap|]. apply perm_skip. exact IH.
Qed.

Definition minimal (o : op) (pending : list op) : bool := forallb (fun p => negb (o_resp p <? o_inv o)) pending.

(* the checker: pick any minimal pending operation whose observed reply is the one the specification gives now *)
Fixpoint lin (fuel : nat) (s : store) (pending : list op) : bool :=
  match pending with
  | [] => true
  | _ =>
    match fuel with
    | O => false
    | S f =>
      existsb (fun p : op * list op =>
                 let (o, rest) := p in
                 minimal o rest &&
                 (let (s', b) := seq_exec s (o_req o) in reply_eqb b (o_rep o) && lin f s' rest))
              (selects pending)
    end
  end.

Lemma bytes_eqb_true a : forall b, bytes_eqb a b = true -> a = b.
Proof.
  induction a as [|x a IH]; intros [|y b] H; cbn [bytes_eqb] in H; try discriminate; [reflexivity|].
  apply andb_prop in H. destruct H as [H1 H2]. apply N.eqb_eq in H1. subst. f_equal. apply IH; exact H2.
Qed.

Lemma bytes_eqb_refl' a : bytes_eqb a a = true.
Proof. induction a as [|x a IH]; [reflexivity|]. cbn [bytes_eqb]. rewrite N.eqb_refl, IH. reflexivity. Qed.

Theorem lin_sound : forall fuel s pending, lin fuel s pending = true -> linearizable s pending.
Proof.
  induction fuel as [|f IH]; intros s pending H.
  - destruct pending; [|discriminate]. exists []. split; [constructor|split; exact I].
  - destruct pending as [|o0 p0]; [exists []; split; [constructor|split; exact I]|].
    cbn [lin] in H. apply existsb_exists in H. destruct H as ([o rest] & Hin & Hc).
    apply andb_prop in Hc. destruct Hc as [Hmin Hc].
    destruct (seq_exec s (o_req o)) as [s' b] eqn:Ex. apply andb_prop in Hc. destruct Hc as [Hb Hl].
    destruct (IH _ _ Hl) as (l & Pl & Sl & Rl).
    exists (o :: l). split; [|split].
    + eapply Permutation_trans; [apply perm_skip; exact Pl|]. apply selects_perm; exact Hin.
    + cbn [seq_ok]. rewrite Ex. split; assumption.
    + cbn [rt_ok]. split; [|exact Rl].
      unfold minimal in Hmin. rewrite forallb_forall in Hmin. apply Forall_forall. intros p Hp.
      assert (In p rest) by (eapply Permutation_in; [exact Pl|exact Hp]).
      specialize (Hmin p H). apply negb_true_iff in Hmin. apply Z.ltb_ge in Hmin. lia.
Qed.

(* ---------- atomic execution: the history in execution order is a sequential one ---------- *)
(* the operations of a run in which each request is executed atomically, one after the other (what holding the
   command lock around handleMessage gives): times are positions in the run *)
Fixpoint atomic_run (s : store) (reqs : list resp) (t : Z) : list op :=
  match reqs with
  | [] => []
  | r :: rest => let (s', b) := seq_exec s r in {| o_req := r; o_rep := b; o_inv := t; o_resp := t |} :: atomic_run s' rest (t + 1)
  end.

Lemma atomic_run_times : forall reqs s t, Forall (fun p => t <= o_inv p /\ o_inv p = o_resp p) (atomic_run s reqs t).
Proof.
  induction reqs as [|r reqs IH]; intros s t; cbn [atomic_run]; [constructor|].
  destruct (seq_exec s r) as [s' b]. constructor; [cbn; lia|].
  eapply Forall_impl; [|apply (IH s' (t + 1))]. cbn. intros p [H1 H2]. lia.
Qed.

Theorem atomic_linearizable : forall reqs s t, linearizable s (atomic_run s reqs t).
Proof.
  intros reqs s t. exists (atomic_run s reqs t). split; [apply Permutation_refl|]. revert s t.
  induction reqs as [|r reqs IH]; intros s t; cbn [atomic_run]; [split; exact I|].
  destruct (seq_exec s r) as [s' b] eqn:E. destruct (IH s' (t + 1)) as [S1 R1]. split.
  - cbn [seq_ok o_req o_rep]. rewrite E. split; [unfold reply_eqb; rewrite (bytes_eqb_refl' b); apply orb_true_r|exact S1].
  - cbn [rt_ok o_inv]. split; [|exact R1].
    eapply Forall_impl; [|apply (atomic_run_times reqs s' (t + 1))]. cbn. intros p [H1 H2]. lia.
Qed.

(* ---------- without atomicity ---------- *)
(* a handler whose Get answers from a snapshot taken earlier: the interleaving Get_A Get_B Set_A Set_B of two INCRs *)
Definition stale (snap : store) (s : store) (id : Z) (c : hcall) : store * hresult :=
  match c with
  | HGet _ => (s, snd (prim snap id c))
  | _ => prim s id c
  end.

Definition incr_req (k : bytes) : resp := RArr [RBulk (Some (B"INCR")); RBulk (Some k)].

Definition run_with (h : store -> Z -> hcall -> store * hresult) (s : store) (req : resp) : store * bytes :=
  let w := {| w_cs := lin_cs; w_ss := lin_ss; w_est := {| e_hs := s; e_evs := [] |} |} in
  match step store h id_src err_text w req with
  | Ok (_, w') =>
    (e_hs _ (w_est _ w'),
     match filter (fun e => match e with EvWrite _ => true | _ => false end) (e_evs _ (w_est _ w')) with
     | EvWrite b :: _ => b
     | _ => []
     end)
  | Panic => (s, [])
  end.

(* both INCRs read 0, both write 1, both reply 1: no sequential order of two INCRs from 0 gives (1, 1) *)
Theorem unlocked_incr_not_linearizable :
  let s0 : store := [] in
  let (s1, r1) := run_with (stale s0) s0 (incr_req (B"k")) in
  let (s2, r2) := run_with (stale s0) s1 (incr_req (B"k")) in
  r1 = B":1" ++ CRLF /\ r2 = B":1" ++ CRLF /\
  ~ linearizable s0 [ {| o_req := incr_req (B"k"); o_rep := r1; o_inv := 0; o_resp := 3 |};
                      {| o_req := incr_req (B"k"); o_rep := r2; o_inv := 1; o_resp := 4 |} ].
Proof.
  cbv zeta. vm_compute (run_with (stale []) [] (incr_req (B"k"))).
  match goal with |- let (s1, r1) := (?a, ?b) in _ => change (let s1 := a in let r1 := b in
     let (s2, r2) := run_with (stale []) s1 (incr_req (B"k")) in
     r1 = B":1" ++ CRLF /\ r2 = B":1" ++ CRLF /\
     ~ linearizable [] [ {| o_req := incr_req (B"k"); o_rep := r1; o_inv := 0; o_resp := 3 |};
                         {| o_req := incr_req (B"k"); o_rep := r2; o_inv := 1; o_resp := 4 |} ]) end.
  cbv zeta.
  match goal with |- let (s2, r2) := ?x in _ => let v := eval vm_compute in x in change x with v end.
  cbv iota beta. split; [reflexivity|]. split; [reflexivity|].
  intros (l & Pl & Sl & _).
  apply Permutation_sym in Pl. apply Permutation_length_2_inv in Pl. destruct Pl as [->| ->]; cbn [seq_ok o_req o_rep] in Sl.
  - destruct (seq_exec [] (incr_req (B"k"))) as [s' b] eqn:E1. destruct Sl as [_ Sl].
    vm_compute in E1. inversion E1; subst s'. clear E1.
    destruct (seq_exec _ (incr_req (B"k"))) as [s'' b'] eqn:E2. destruct Sl as [Hb _]. vm_compute in E2. inversion E2; subst. vm_compute in Hb. discriminate.
  - destruct (seq_exec [] (incr_req (B"k"))) as [s' b] eqn:E1. destruct Sl as [_ Sl].
    vm_compute in E1. inversion E1; subst s'. clear E1.
    destruct (seq_exec _ (incr_req (B"k"))) as [s'' b'] eqn:E2. destruct Sl as [Hb _]. vm_compute in E2. inversion E2; subst. vm_compute in Hb. discriminate.
Qed.
