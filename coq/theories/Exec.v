(* Exec.v — the command executors: redis/core_commander.go, sugar_commander.go, system_commander.go,
   server_auth.go, auth/*.go and the next*Argument helpers of handler_func.go, one definition per Go function,
   after the fix commits.  The application's handler is a Section variable with NO assumed behaviour. *)
From Coq Require Import String.
From GR Require Import Base Resp Handler.
From Coq Require Import QArith.
Open Scope Z_scope.

(* ---------- connection and server state ---------- *)
Inductive authr := AClear (user pass : bytes) | ACert (cn : bytes).

Record cstate := { cs_auth : bool; cs_db : Z; cs_user : bytes; cs_pass : option bytes;
                   cs_tls : option (list bytes) }.     (* Some chain = TLS connection, common names leaf first *)
Record sstate := { ss_config : list (bytes * bytes); ss_auths : list authr; ss_app : list bytes }.

Definition set_auth (c : cstate) (b : bool) : cstate :=
  {| cs_auth := b; cs_db := cs_db c; cs_user := cs_user c; cs_pass := cs_pass c; cs_tls := cs_tls c |}.
Definition set_db (c : cstate) (d : Z) : cstate :=
  {| cs_auth := cs_auth c; cs_db := d; cs_user := cs_user c; cs_pass := cs_pass c; cs_tls := cs_tls c |}.
Definition set_cred (c : cstate) (u p : bytes) : cstate :=
  {| cs_auth := cs_auth c; cs_db := cs_db c; cs_user := u; cs_pass := Some p; cs_tls := cs_tls c |}.

Fixpoint cfg_get (cfg : list (bytes * bytes)) (k : bytes) : option bytes :=
  match cfg with
  | [] => None
  | (k', v) :: r => if bytes_eqb k k' then Some v else cfg_get r k
  end.
Fixpoint cfg_set (cfg : list (bytes * bytes)) (k v : bytes) : list (bytes * bytes) :=
  match cfg with
  | [] => [(k, v)]
  | (k', v') :: r => if bytes_eqb k k' then (k, v) :: r else (k', v') :: cfg_set r k v
  end.
Definition set_config (s : sstate) (cfg : list (bytes * bytes)) : sstate :=
  {| ss_config := cfg; ss_auths := ss_auths s; ss_app := ss_app s |}.

Definition requirepass_key : bytes := B"requirepass".

(* auth/authenticator_clear_passwd.go, authenticator_certificate.go, manager.go *)
Definition authr_ok (c : cstate) (a : authr) : bool :=
  match a with
  | AClear u p =>
    (match cs_user c with [] => true | usr => bytes_eqb usr u end) &&
    (match cs_pass c with None => true | Some pw => bytes_eqb pw p end)
  | ACert cn =>
    match cs_tls c with
    | Some (leaf :: _) => match cn with [] => false | _ => bytes_eqb leaf cn end
    | _ => false
    end
  end.
Definition authenticate (s : sstate) (c : cstate) : bool := forallb (authr_ok c) (ss_auths s).

(* ---------- results and events ---------- *)
Inductive xerr := XQuit | XHandler (txt : bytes) | XFw.       (* ErrQuit / an error the handler returned / a framework error *)
Record xres := { x_msg : option resp; x_err : option xerr }.
Definition x_ok (m : resp) : xres := {| x_msg := Some m; x_err := None |}.
Definition x_fw : xres := {| x_msg := None; x_err := Some XFw |}.
Definition x_of (r : hresult) : xres :=
  {| x_msg := hr_msg r;
     x_err := match hr_err r with None => None | Some HEQuit => Some XQuit | Some (HEText t) => Some (XHandler t) end |}.

Inductive ev :=
| EvRootStart | EvRootFinish
| EvSpanStart (name : bytes) | EvSpanFinish
| EvCall (db : Z) (auth : bool) (c : hcall) (r : hresult)
| EvApp (name : bytes) (a : args)
| EvWrite (b : bytes)
| EvRegister | EvDeregister | EvClose.

Definition int_msg (z : Z) : resp := RInt (itoa z).
Definition ok_msg : resp := RStatus (B"OK").
Definition bulk (s : bytes) : resp := RBulk (Some s).
Definition nil_msg : resp := RBulk None.

(* ---------- argument helpers (handler_func.go) ---------- *)
Fixpoint next_strings (a : args) : (list bytes + aerr) * args :=
  match a with
  | [] => (inl [], [])
  | m :: r =>
    match msg_string m with
    | Some s => match next_strings r with
                | (inl l, r') => (inl (s :: l), r')
                | (inr e, r') => (inr e, r')
                end
    | None => (inr AOther, r)
    end
  end.

(* nextStringArrayArguments: at least one element *)
Definition next_strings1 (a : args) : (list bytes + aerr) * args :=
  match next_strings a with
  | (inl [], r) => (inr AEOM, r)
  | x => x
  end.

(* nextStringMapArguments: key/value pairs in request order *)
Fixpoint next_pairs (a : args) : (list (bytes * bytes) + aerr) * args :=
  match a with
  | [] => (inl [], [])
  | k :: r =>
    match msg_string k with
    | None => (inr AOther, r)
    | Some ks =>
      match r with
      | [] => (inr AEOM, [])
      | v :: r' =>
        match msg_string v with
        | None => (inr AOther, r')
        | Some vs => match next_pairs r' with
                     | (inl l, r'') => (inl ((ks, vs) :: l), r'')
                     | (inr e, r'') => (inr e, r'')
                     end
        end
      end
    end
  end.

(* Go map built from the pairs: one entry per distinct key carrying the LAST value; order = first occurrence
   (Go's iteration order is arbitrary; the correspondence compares the calls of such commands as a multiset) *)
Fixpoint map_set (m : list (bytes * bytes)) (k v : bytes) : list (bytes * bytes) :=
  match m with
  | [] => [(k, v)]
  | (k', v') :: r => if bytes_eqb k k' then (k', v) :: r else (k', v') :: map_set r k v
  end.
Definition map_of_pairs (l : list (bytes * bytes)) : list (bytes * bytes) :=
  fold_left (fun m kv => map_set m (fst kv) (snd kv)) l [].

Definition next_map1 (a : args) : (list (bytes * bytes) + aerr) * args :=
  match next_pairs a with
  | (inl [], r) => (inr AEOM, r)
  | (inl l, r) => (inl (map_of_pairs l), r)
  | (inr e, r) => (inr e, r)
  end.

Definition SEC_MAX : Z := 9223372036.             (* math.MaxInt64 / int64(time.Second) *)
Definition MSEC_MAX : Z := 9223372036854.         (* math.MaxInt64 / int64(time.Millisecond) *)
Definition UNIX_MAX : Z := 9223372036854775.      (* math.MaxInt64 / 1000 *)

Definition kw (s : bytes) (k : string) : bool := bytes_eqb (upper s) (bytes_of_string k).

(* nextSetOptionArguments *)
Fixpoint next_set_opts (a : args) (o : set_opt) : option set_opt :=
  match a with
  | [] => Some o
  | m :: r =>
    match msg_string m with
    | None => None
    | Some s =>
      if kw s "NX" then
        if so_nx o || so_xx o then None
        else next_set_opts r {| so_ex := so_ex o; so_px := so_px o; so_exat := so_exat o; so_pxat := so_pxat o;
                                so_nx := true; so_xx := so_xx o; so_keepttl := so_keepttl o; so_get := so_get o |}
      else if kw s "XX" then
        if so_nx o || so_xx o then None
        else next_set_opts r {| so_ex := so_ex o; so_px := so_px o; so_exat := so_exat o; so_pxat := so_pxat o;
                                so_nx := so_nx o; so_xx := true; so_keepttl := so_keepttl o; so_get := so_get o |}
      else if kw s "EX" || kw s "PX" || kw s "EXAT" || kw s "PXAT" then
        if (0 <? so_ex o) || (0 <? so_px o) || (match so_exat o with Some _ => true | None => false end)
           || (match so_pxat o with Some _ => true | None => false end) then None
        else
          match r with
          | [] => None
          | v :: r' =>
            match msg_integer v with
            | None => None
            | Some n =>
              if n <? 1 then None
              else if kw s "EX" then
                if SEC_MAX <? n then None
                else next_set_opts r' {| so_ex := n * 1000000000; so_px := so_px o; so_exat := so_exat o; so_pxat := so_pxat o;
                                         so_nx := so_nx o; so_xx := so_xx o; so_keepttl := so_keepttl o; so_get := so_get o |}
              else if kw s "PX" then
                if MSEC_MAX <? n then None
                else next_set_opts r' {| so_ex := so_ex o; so_px := n * 1000000; so_exat := so_exat o; so_pxat := so_pxat o;
                                         so_nx := so_nx o; so_xx := so_xx o; so_keepttl := so_keepttl o; so_get := so_get o |}
              else if kw s "EXAT" then
                if UNIX_MAX <? n then None
                else next_set_opts r' {| so_ex := so_ex o; so_px := so_px o; so_exat := Some (n * 1000); so_pxat := so_pxat o;
                                         so_nx := so_nx o; so_xx := so_xx o; so_keepttl := so_keepttl o; so_get := so_get o |}
              else
                next_set_opts r' {| so_ex := so_ex o; so_px := so_px o; so_exat := so_exat o; so_pxat := Some n;
                                    so_nx := so_nx o; so_xx := so_xx o; so_keepttl := so_keepttl o; so_get := so_get o |}
            end
          end
      else if kw s "KEEPTTL" then
        if so_keepttl o then None
        else next_set_opts r {| so_ex := so_ex o; so_px := so_px o; so_exat := so_exat o; so_pxat := so_pxat o;
                                so_nx := so_nx o; so_xx := so_xx o; so_keepttl := true; so_get := so_get o |}
      else if kw s "GET" then
        if so_get o then None
        else next_set_opts r {| so_ex := so_ex o; so_px := so_px o; so_exat := so_exat o; so_pxat := so_pxat o;
                                so_nx := so_nx o; so_xx := so_xx o; so_keepttl := so_keepttl o; so_get := true |}
      else None
    end
  end.

(* nextRangeOptionArguments: unknown words are ignored; LIMIT takes two integers *)
Fixpoint next_range_opts (a : args) (o : zrange_opt) : option zrange_opt :=
  match a with
  | [] => Some o
  | m :: r =>
    match msg_string m with
    | None => None
    | Some s =>
      if kw s "BYSCORE" then
        next_range_opts r {| zr_byscore := true; zr_bylex := zr_bylex o; zr_rev := zr_rev o; zr_withscores := zr_withscores o;
                             zr_minex := zr_minex o; zr_maxex := zr_maxex o; zr_offset := zr_offset o; zr_count := zr_count o |}
      else if kw s "BYLEX" then
        next_range_opts r {| zr_byscore := zr_byscore o; zr_bylex := true; zr_rev := zr_rev o; zr_withscores := zr_withscores o;
                             zr_minex := zr_minex o; zr_maxex := zr_maxex o; zr_offset := zr_offset o; zr_count := zr_count o |}
      else if kw s "REV" then
        next_range_opts r {| zr_byscore := zr_byscore o; zr_bylex := zr_bylex o; zr_rev := true; zr_withscores := zr_withscores o;
                             zr_minex := zr_minex o; zr_maxex := zr_maxex o; zr_offset := zr_offset o; zr_count := zr_count o |}
      else if kw s "WITHSCORES" then
        next_range_opts r {| zr_byscore := zr_byscore o; zr_bylex := zr_bylex o; zr_rev := zr_rev o; zr_withscores := true;
                             zr_minex := zr_minex o; zr_maxex := zr_maxex o; zr_offset := zr_offset o; zr_count := zr_count o |}
      else if kw s "LIMIT" then
        match r with
        | x :: y :: r' =>
          match msg_integer x, msg_integer y with
          | Some off, Some cnt =>
            next_range_opts r' {| zr_byscore := zr_byscore o; zr_bylex := zr_bylex o; zr_rev := zr_rev o; zr_withscores := zr_withscores o;
                                  zr_minex := zr_minex o; zr_maxex := zr_maxex o; zr_offset := off; zr_count := cnt |}
          | _, _ => None
          end
        | _ => None
        end
      else next_range_opts r o
    end
  end.

Definition with_ex (o : zrange_opt) (mn mx : bool) : zrange_opt :=
  {| zr_byscore := zr_byscore o; zr_bylex := zr_bylex o; zr_rev := zr_rev o; zr_withscores := zr_withscores o;
     zr_minex := mn; zr_maxex := mx; zr_offset := zr_offset o; zr_count := zr_count o |}.
Definition with_limit (o : zrange_opt) (off cnt : Z) : zrange_opt :=
  {| zr_byscore := zr_byscore o; zr_bylex := zr_bylex o; zr_rev := zr_rev o; zr_withscores := zr_withscores o;
     zr_minex := zr_minex o; zr_maxex := zr_maxex o; zr_offset := off; zr_count := cnt |}.

(* nextExpireArgument: at most one option word is looked at *)
Definition next_expire_opt (a : args) (t : exp_time) : option expire_opt :=
  match a with
  | [] => Some {| ex_time := t; ex_nx := false; ex_xx := false; ex_gt := false; ex_lt := false |}
  | m :: _ =>
    match msg_string m with
    | None => None
    | Some s =>
      if kw s "NX" then Some {| ex_time := t; ex_nx := true; ex_xx := false; ex_gt := false; ex_lt := false |}
      else if kw s "XX" then Some {| ex_time := t; ex_nx := false; ex_xx := true; ex_gt := false; ex_lt := false |}
      else if kw s "GT" then Some {| ex_time := t; ex_nx := false; ex_xx := false; ex_gt := true; ex_lt := false |}
      else if kw s "LT" then Some {| ex_time := t; ex_nx := false; ex_xx := false; ex_gt := false; ex_lt := true |}
      else None
    end
  end.

(* newScanTypeFromString *)
Definition scan_type_of (s : bytes) : option Z :=
  match s with
  | [] => Some 0
  | _ => if bytes_eqb s (B"SSCAN") then Some 1 else if bytes_eqb s (B"HSCAN") then Some 2
         else if bytes_eqb s (B"ZSCAN") then Some 3 else None
  end.

Section ScanArgs.
  Variable regexp_src : bytes -> bytes.      (* glob.Compile(pattern).String(): Glob.regexp_from_glob *)
  (* nextScanArgument *)
  Fixpoint next_scan_opts (a : args) (o : scan_opt) : option scan_opt :=
    match a with
    | [] => Some o
    | m :: r =>
      match msg_string m with
      | None => None
      | Some s =>
        if kw s "MATCH" then
          match r with
          | p :: r' => match msg_string p with
                       | Some ps => next_scan_opts r' {| sc_match := regexp_src ps; sc_count := sc_count o; sc_type := sc_type o |}
                       | None => None
                       end
          | [] => None
          end
        else if kw s "COUNT" then
          match r with
          | c :: r' => match msg_integer c with
                       | Some n => next_scan_opts r' {| sc_match := sc_match o; sc_count := n; sc_type := sc_type o |}
                       | None => None
                       end
          | [] => None
          end
        else if kw s "TYPE" then
          match r with
          | t :: r' => match msg_string t with
                       | Some ts => match scan_type_of ts with
                                    | Some ty => next_scan_opts r' {| sc_match := sc_match o; sc_count := sc_count o; sc_type := ty |}
                                    | None => None
                                    end
                       | None => None
                       end
          | [] => None
          end
        else next_scan_opts r o
      end
    end.
End ScanArgs.

(* ZADD: option words, then the first score *)
Fixpoint zadd_opts (a : args) (o : zadd_opt) : option (zadd_opt * fl * args) :=
  match a with
  | [] => None
  | m :: r =>
    match msg_string m with
    | None => None
    | Some s =>
      if kw s "NX" then zadd_opts r {| za_xx := za_xx o; za_nx := true; za_lt := za_lt o; za_gt := za_gt o; za_ch := za_ch o; za_incr := za_incr o |}
      else if kw s "XX" then zadd_opts r {| za_xx := true; za_nx := za_nx o; za_lt := za_lt o; za_gt := za_gt o; za_ch := za_ch o; za_incr := za_incr o |}
      else if kw s "GT" then zadd_opts r {| za_xx := za_xx o; za_nx := za_nx o; za_lt := za_lt o; za_gt := true; za_ch := za_ch o; za_incr := za_incr o |}
      else if kw s "LT" then zadd_opts r {| za_xx := za_xx o; za_nx := za_nx o; za_lt := true; za_gt := za_gt o; za_ch := za_ch o; za_incr := za_incr o |}
      else if kw s "CH" then zadd_opts r {| za_xx := za_xx o; za_nx := za_nx o; za_lt := za_lt o; za_gt := za_gt o; za_ch := true; za_incr := za_incr o |}
      else if kw s "INCR" then zadd_opts r {| za_xx := za_xx o; za_nx := za_nx o; za_lt := za_lt o; za_gt := za_gt o; za_ch := za_ch o; za_incr := true |}
      else match parse_float s with
           | Some x => Some (o, x, r)
           | None => None
           end
    end
  end.

(* ZADD: member, then (score member)* ; a dangling score or a missing member is an error *)
Fixpoint zadd_members (a : args) (score : fl) : option (list (fl * bytes)) :=
  match a with
  | [] => None
  | m :: r =>
    match msg_string m with
    | None => None
    | Some mem =>
      match r with
      | [] => Some [(score, mem)]
      | sc :: r' =>
        match msg_string sc with
        | None => None
        | Some ss =>
          match parse_float ss with
          | None => None
          | Some x => match zadd_members r' x with
                      | Some l => Some ((score, mem) :: l)
                      | None => None
                      end
          end
        end
      end
    end
  end.

(* ---------- proto.Array helpers used on handler results ---------- *)
Fixpoint groups {A} (fuel step : nat) (l : list A) : list (list A) :=
  match fuel with
  | O => []
  | S f => match l with [] => [] | _ => firstn step l :: groups f step (skipn step l) end
  end.

(* Array.ReverseBy(step): groups counted from the END; a short leading group goes last *)
Definition reverse_by {A} (step : nat) (l : list A) : list A :=
  let step := match step with O => 1%nat | _ => step end in
  let r := Nat.modulo (List.length l) step in
  concat (rev (groups (List.length l) step (skipn r l))) ++ firstn r l.

(* Array.LimitBy(step, offset, count): groups counted from the FRONT *)
Fixpoint select_groups {A} (gs : list (list A)) (n offset count : Z) : list A :=
  match gs with
  | [] => []
  | g :: r => (if (offset <=? n) && ((count <? 0) || (n - offset <? count)) then g else []) ++ select_groups r (n + 1) offset count
  end.
Definition limit_by {A} (step : nat) (offset count : Z) (l : list A) : list A :=
  let step := match step with O => 1%nat | _ => step end in
  if offset <? 0 then [] else select_groups (groups (List.length l) step l) 0 offset count.

Fixpoint hkeys_loop (l : list resp) : list bytes :=
  match l with
  | [] => []
  | k :: r => match msg_string k with
              | None => []
              | Some s => s :: match r with [] => [] | _ :: r' => hkeys_loop r' end
              end
  end.

Fixpoint hvals_loop (l : list resp) : list bytes :=
  match l with
  | [] => []
  | _ :: r => match r with
              | [] => []
              | v :: r' => match msg_string v with None => [] | Some s => s :: hvals_loop r' end
              end
  end.

Fixpoint sismember_loop (l : list resp) (member : bytes) : bool :=
  match l with
  | [] => false
  | m :: r => match msg_string m with
              | None => false
              | Some s => if bytes_eqb s member then true else sismember_loop r member
              end
  end.

(* GETRANGE index clamping (sugar_commander.go): returns the slice bounds, or None for the empty reply *)
Definition getrange_bounds (strlen start stop : Z) : option (Z * Z) :=
  if (start <? 0) && (stop <? 0) && (stop <? start) then None else
  let start := if start <? 0 then strlen + start else start in
  let stop := if stop <? 0 then strlen + stop else stop in
  let start := if start <? 0 then 0 else start in
  let stop := if stop <? 0 then 0 else stop in
  let stop := if strlen <=? stop then strlen - 1 else stop in
  if (strlen =? 0) || (stop <? start) then None else Some (start, stop + 1).

(* ---------- executors ---------- *)
Section Exec.
  Variable hstate : Type.
  Variable handle : hstate -> Z -> hcall -> hstate * hresult.     (* the application's handler: arbitrary *)
  Variable regexp_src : bytes -> bytes.

  Record est := { e_hs : hstate; e_evs : list ev }.       (* events newest first *)
  Definition emit (e : ev) (s : est) : est := {| e_hs := e_hs s; e_evs := e :: e_evs s |}.

  Definition call (c : cstate) (h : hcall) (s : est) : hresult * est :=
    let (hs', r) := handle (e_hs s) (cs_db c) h in
    (r, {| e_hs := hs'; e_evs := EvCall (cs_db c) (cs_auth c) h r :: e_evs s |}).

  (* "return server.userCommandHandler.X(...)" *)
  Definition pass (c : cstate) (h : hcall) (s : est) : xres * est :=
    let (r, s') := call c h s in (x_of r, s').

  Definition key1 (a : args) : option (bytes * args) :=
    match next_string a with (inl k, r) => Some (k, r) | _ => None end.
  Definition int1 (a : args) : option (Z * args) :=
    match next_integer a with (inl z, r) => Some (z, r) | _ => None end.
  Definition float1 (a : args) : option (fl * args) :=
    match next_string a with
    | (inl s, r) => match parse_float s with Some x => Some (x, r) | None => None end
    | _ => None
    end.
  Definition rscore1 (a : args) : option (fl * bool * args) :=
    match next_string a with
    | (inl s, r) => match parse_range_score s with Some (x, e) => Some (x, e, r) | None => None end
    | _ => None
    end.
  Definition strs1 (a : args) : option (list bytes) :=
    match next_strings1 a with (inl l, _) => Some l | _ => None end.

  Definition x_key_only (mk : bytes -> hcall) (c : cstate) (a : args) (s : est) : xres * est :=
    match key1 a with Some (k, _) => pass c (mk k) s | None => (x_fw, s) end.
  Definition x_keys (mk : list bytes -> hcall) (c : cstate) (a : args) (s : est) : xres * est :=
    match strs1 a with Some l => pass c (mk l) s | None => (x_fw, s) end.
  Definition x_key_strs (mk : bytes -> list bytes -> hcall) (c : cstate) (a : args) (s : est) : xres * est :=
    match key1 a with
    | Some (k, r) => match strs1 r with Some l => pass c (mk k l) s | None => (x_fw, s) end
    | None => (x_fw, s)
    end.
  Definition x_key_str (mk : bytes -> bytes -> hcall) (c : cstate) (a : args) (s : est) : xres * est :=
    match key1 a with
    | Some (k, r) => match key1 r with Some (v, _) => pass c (mk k v) s | None => (x_fw, s) end
    | None => (x_fw, s)
    end.

  Definition x_DEL := x_keys HDel.
  Definition x_EXISTS := x_keys HExists.
  Definition x_KEYS := x_key_only HKeys.
  Definition x_TYPE := x_key_only HType.
  Definition x_TTL := x_key_only HTTL.
  Definition x_RENAME := x_key_str (fun k n => HRename k n false).
  Definition x_RENAMENX := x_key_str (fun k n => HRename k n true).

  Definition x_EXPIRE (c : cstate) (a : args) (s : est) : xres * est :=
    match key1 a with
    | Some (k, r) =>
      match int1 r with
      | Some (ttl, r') =>
        if (SEC_MAX <? ttl) || (ttl <? - SEC_MAX) then (x_fw, s)
        else match next_expire_opt r' (ExpRel ttl) with
             | Some o => pass c (HExpire k o) s
             | None => (x_fw, s)
             end
      | None => (x_fw, s)
      end
    | None => (x_fw, s)
    end.

  Definition x_EXPIREAT (c : cstate) (a : args) (s : est) : xres * est :=
    match key1 a with
    | Some (k, r) =>
      match int1 r with
      | Some (ttl, r') =>
        if (UNIX_MAX <? ttl) || (ttl <? - UNIX_MAX) then (x_fw, s)
        else match next_expire_opt r' (ExpAbs ttl) with
             | Some o => pass c (HExpire k o) s
             | None => (x_fw, s)
             end
      | None => (x_fw, s)
      end
    | None => (x_fw, s)
    end.

  Definition default_scan_opt : scan_opt := {| sc_match := regexp_src [ch_star]; sc_count := 10; sc_type := 0 |}.
  Definition x_SCAN (c : cstate) (a : args) (s : est) : xres * est :=
    match int1 a with
    | Some (cur, r) => match next_scan_opts regexp_src r default_scan_opt with
                       | Some o => pass c (HScan cur o) s
                       | None => (x_fw, s)
                       end
    | None => (x_fw, s)
    end.

  Definition x_GET := x_key_only HGet.

  Definition x_SET (c : cstate) (a : args) (s : est) : xres * est :=
    match key1 a with
    | Some (k, r) =>
      match key1 r with
      | Some (v, r') => match next_set_opts r' default_set_opt with
                        | Some o => pass c (HSet k v o) s
                        | None => (x_fw, s)
                        end
      | None => (x_fw, s)
      end
    | None => (x_fw, s)
    end.

  Definition with_flags (nx get : bool) (ex : Z) : set_opt :=
    {| so_ex := ex; so_px := 0; so_exat := None; so_pxat := None; so_nx := nx; so_xx := false; so_keepttl := false; so_get := get |}.

  Definition x_SETEX (c : cstate) (a : args) (s : est) : xres * est :=
    match key1 a with
    | Some (k, r) =>
      match int1 r with
      | Some (sec, r') =>
        if (sec <? 1) || (SEC_MAX <? sec) then (x_fw, s)
        else match key1 r' with
             | Some (v, _) => pass c (HSet k v (with_flags false false (sec * 1000000000))) s
             | None => (x_fw, s)
             end
      | None => (x_fw, s)
      end
    | None => (x_fw, s)
    end.

  Definition x_GETSET := x_key_str (fun k v => HSet k v (with_flags false true 0)).
  Definition x_SETNX := x_key_str (fun k v => HSet k v (with_flags true false 0)).

  (* for key, val := range dict { Set(...) } — stops at the first handler error *)
  Fixpoint set_each (c : cstate) (mk : bytes -> bytes -> hcall) (l : list (bytes * bytes)) (s : est) : option xerr * est :=
    match l with
    | [] => (None, s)
    | (k, v) :: r =>
      let (res, s') := call c (mk k v) s in
      match hr_err res with
      | Some e => (x_err (x_of res), s')
      | None => set_each c mk r s'
      end
    end.

  Definition x_MSET (c : cstate) (a : args) (s : est) : xres * est :=
    match next_map1 a with
    | (inl d, _) =>
      match set_each c (fun k v => HSet k v default_set_opt) d s with
      | (Some e, s') => ({| x_msg := None; x_err := Some e |}, s')
      | (None, s') => (x_ok ok_msg, s')
      end
    | _ => (x_fw, s)
    end.

  (* MSETNX first loop: Get every key; an error aborts, a non-nil answer replies 0 *)
  Fixpoint msetnx_probe (c : cstate) (l : list (bytes * bytes)) (s : est) : (option xres) * est :=
    match l with
    | [] => (None, s)
    | (k, _) :: r =>
      let (res, s') := call c (HGet k) s in
      match hr_err res with
      | Some e => (Some {| x_msg := None; x_err := x_err (x_of res) |}, s')
      | None => if msg_is_nil (hr_msg res) then msetnx_probe c r s' else (Some (x_ok (int_msg 0)), s')
      end
    end.

  Definition x_MSETNX (c : cstate) (a : args) (s : est) : xres * est :=
    match next_map1 a with
    | (inl d, _) =>
      match msetnx_probe c d s with
      | (Some r, s') => (r, s')
      | (None, s') =>
        match set_each c (fun k v => HSet k v (with_flags true false 0)) d s' with
        | (Some e, s'') => ({| x_msg := None; x_err := Some e |}, s'')
        | (None, s'') => (x_ok (int_msg 1), s'')
        end
      end
    | _ => (x_fw, s)
    end.

  (* MGET / HMGET: one call per key in request order; replies collected; a nil message makes the reply unserializable *)
  Fixpoint get_each (c : cstate) (mk : bytes -> hcall) (l : list bytes) (s : est) (acc : list (option resp)) : (option xerr + list (option resp)) * est :=
    match l with
    | [] => (inr (rev acc), s)
    | k :: r =>
      let (res, s') := call c (mk k) s in
      match hr_err res with
      | Some e => (inl (x_err (x_of res)), s')
      | None => get_each c mk r s' (hr_msg res :: acc)
      end
    end.

  Fixpoint all_some {A} (l : list (option A)) : option (list A) :=
    match l with
    | [] => Some []
    | Some x :: r => option_map (cons x) (all_some r)
    | None :: _ => None
    end.

  Definition collect (r : (option xerr + list (option resp)) * est) : xres * est :=
    match r with
    | (inl e, s') => ({| x_msg := None; x_err := e |}, s')
    | (inr ms, s') => match all_some ms with
                      | Some l => (x_ok (RArr l), s')
                      | None => (x_fw, s')       (* RESPBytes fails on the nil element: an error frame is written *)
                      end
    end.

  Definition x_MGET (c : cstate) (a : args) (s : est) : xres * est :=
    match strs1 a with
    | Some keys => collect (get_each c HGet keys s [])
    | None => (x_fw, s)
    end.

  Definition x_HDEL := x_key_strs HHDel.
  Definition x_HGET := x_key_str HHGet.
  Definition x_HGETALL := x_key_only HHGetAll.

  Definition x_hset (nx : bool) (c : cstate) (a : args) (s : est) : xres * est :=
    match key1 a with
    | Some (h, r) =>
      match key1 r with
      | Some (k, r') => match key1 r' with
                        | Some (v, _) => pass c (HHSet h k v nx) s
                        | None => (x_fw, s)
                        end
      | None => (x_fw, s)
      end
    | None => (x_fw, s)
    end.
  Definition x_HSET := x_hset false.
  Definition x_HSETNX := x_hset true.

  Definition x_HMSET (c : cstate) (a : args) (s : est) : xres * est :=
    match key1 a with
    | Some (h, r) =>
      match next_map1 r with
      | (inl d, _) =>
        match set_each c (fun f v => HHSet h f v false) d s with
        | (Some e, s') => ({| x_msg := None; x_err := Some e |}, s')
        | (None, s') => (x_ok ok_msg, s')
        end
      | _ => (x_fw, s)
      end
    | None => (x_fw, s)
    end.

  Definition x_HMGET (c : cstate) (a : args) (s : est) : xres * est :=
    match key1 a with
    | Some (h, r) =>
      match strs1 r with
      | Some fields => collect (get_each c (HHGet h) fields s [])
      | None => (x_fw, s)
      end
    | None => (x_fw, s)
    end.

  Definition x_key_int (mk : bytes -> Z -> hcall) (c : cstate) (a : args) (s : est) : xres * est :=
    match key1 a with
    | Some (k, r) => match int1 r with Some (i, _) => pass c (mk k i) s | None => (x_fw, s) end
    | None => (x_fw, s)
    end.
  Definition x_LINDEX := x_key_int HLIndex.
  Definition x_LLEN := x_key_only HLLen.

  (* nextPopArguments: the count is optional (default 1) *)
  Definition x_pop (mk : bytes -> Z -> hcall) (c : cstate) (a : args) (s : est) : xres * est :=
    match key1 a with
    | Some (k, r) =>
      match next_integer r with
      | (inl n, _) => pass c (mk k n) s
      | (inr AEOM, _) => pass c (mk k 1) s
      | (inr AOther, _) => (x_fw, s)
      end
    | None => (x_fw, s)
    end.
  Definition x_LPOP := x_pop HLPop.
  Definition x_RPOP := x_pop HRPop.
  Definition x_LPUSH := x_key_strs (fun k l => HLPush k l false).
  Definition x_LPUSHX := x_key_strs (fun k l => HLPush k l true).
  Definition x_RPUSH := x_key_strs (fun k l => HRPush k l false).
  Definition x_RPUSHX := x_key_strs (fun k l => HRPush k l true).

  Definition x_LRANGE (c : cstate) (a : args) (s : est) : xres * est :=
    match key1 a with
    | Some (k, r) =>
      match int1 r with
      | Some (st, r') => match int1 r' with
                         | Some (en, _) => pass c (HLRange k st en) s
                         | None => (x_fw, s)
                         end
      | None => (x_fw, s)
      end
    | None => (x_fw, s)
    end.

  Definition x_SADD := x_key_strs HSAdd.
  Definition x_SMEMBERS := x_key_only HSMembers.
  Definition x_SREM := x_key_strs HSRem.

  Definition x_ZADD (c : cstate) (a : args) (s : est) : xres * est :=
    match key1 a with
    | Some (k, r) =>
      match zadd_opts r default_zadd_opt with
      | Some (o, score, r') =>
        match zadd_members r' score with
        | Some ms => pass c (HZAdd k ms o) s
        | None => (x_fw, s)
        end
      | None => (x_fw, s)
      end
    | None => (x_fw, s)
    end.

  Definition x_ZINCRBY (c : cstate) (a : args) (s : est) : xres * est :=
    match key1 a with
    | Some (k, r) =>
      match float1 r with
      | Some (inc, r') => match key1 r' with
                          | Some (m, _) => pass c (HZIncBy k inc m) s
                          | None => (x_fw, s)
                          end
      | None => (x_fw, s)
      end
    | None => (x_fw, s)
    end.

  Definition x_ZRANGE (c : cstate) (a : args) (s : est) : xres * est :=
    match key1 a with
    | Some (k, r) =>
      match key1 r with
      | Some (st, r') =>
        match key1 r' with
        | Some (en, r'') =>
          match next_range_opts r'' default_zrange_opt with
          | Some o =>
            if zr_byscore o then
              match parse_range_score st, parse_range_score en with
              | Some (mn, mnx), Some (mx, mxx) => pass c (HZRangeByScore k mn mx (with_ex o mnx mxx)) s
              | _, _ => (x_fw, s)
              end
            else
              match atoi st, atoi en with
              | Some i, Some j => pass c (HZRange k i j o) s
              | _, _ => (x_fw, s)
              end
          | None => (x_fw, s)
          end
        | None => (x_fw, s)
        end
      | None => (x_fw, s)
      end
    | None => (x_fw, s)
    end.

  Definition x_ZRANGEBYSCORE (c : cstate) (a : args) (s : est) : xres * est :=
    match key1 a with
    | Some (k, r) =>
      match rscore1 r with
      | Some (mn, mnx, r') =>
        match rscore1 r' with
        | Some (mx, mxx, r'') =>
          match next_range_opts r'' default_zrange_opt with
          | Some o => pass c (HZRangeByScore k mn mx (with_ex o mnx mxx)) s
          | None => (x_fw, s)
          end
        | None => (x_fw, s)
        end
      | None => (x_fw, s)
      end
    | None => (x_fw, s)
    end.

  (* the tail shared by ZREVRANGE and ZREVRANGEBYSCORE: "msg, err := handler...; if err != nil return msg, err;
     array, err := msg.Array(); if err != nil return msg, err; ..." *)
  Definition rev_reply (res : hresult) (f : list resp -> list resp) : xres :=
    match hr_err res with
    | Some _ => x_of res
    | None => match hr_msg res with
              | Some (RArr l) => x_ok (RArr (f l))
              | m => {| x_msg := m; x_err := Some XFw |}
              end
    end.

  Definition x_ZREVRANGE (c : cstate) (a : args) (s : est) : xres * est :=
    match key1 a with
    | Some (k, r) =>
      match int1 r with
      | Some (st, r') =>
        match int1 r' with
        | Some (en, r'') =>
          match next_range_opts r'' default_zrange_opt with
          | Some o =>
            let (res, s') := call c (HZRange k (- en - 1) (- st - 1) o) s in     (* ^stop, ^start *)
            (rev_reply res (reverse_by (if zr_withscores o then 2 else 1)), s')
          | None => (x_fw, s)
          end
        | None => (x_fw, s)
        end
      | None => (x_fw, s)
      end
    | None => (x_fw, s)
    end.

  Definition x_ZREVRANGEBYSCORE (c : cstate) (a : args) (s : est) : xres * est :=
    match key1 a with
    | Some (k, r) =>
      match rscore1 r with
      | Some (mx, mxx, r') =>
        match rscore1 r' with
        | Some (mn, mnx, r'') =>
          match next_range_opts r'' default_zrange_opt with
          | Some o =>
            (* opt.MINEXCLUSIVE = minEx; opt.MAXEXCLUSIVE = maxEx; LIMIT is applied by the framework afterwards *)
            let o' := with_limit (with_ex o mnx mxx) 0 (-1) in
            let (res, s') := call c (HZRangeByScore k mn mx o') s in
            let step := if zr_withscores o then 2%nat else 1%nat in
            (rev_reply res (fun l => limit_by step (zr_offset o) (zr_count o) (reverse_by step l)), s')
          | None => (x_fw, s)
          end
        | None => (x_fw, s)
        end
      | None => (x_fw, s)
      end
    | None => (x_fw, s)
    end.

  Definition x_ZREM := x_key_strs HZRem.
  Definition x_ZSCORE := x_key_str HZScore.

  (* ----- sugar_commander.go ----- *)
  Definition incdec (c : cstate) (k : bytes) (delta : Z) (s : est) : xres * est :=
    let (g, s1) := call c (HGet k) s in
    match hr_err g with
    | Some _ => ({| x_msg := None; x_err := x_err (x_of g) |}, s1)
    | None =>
      let cur : option Z :=
        if msg_is_nil (hr_msg g) then Some 0
        else match hr_msg g with
             | Some m => match msg_integer m with
                         | Some z => match m with
                                     | RInt b | RStatus b | RBulk (Some b) => if bytes_eqb (itoa z) b then Some z else None
                                     | _ => None
                                     end
                         | None => None
                         end
             | None => Some 0
             end in
      match cur with
      | None => (x_fw, s1)
      | Some cv =>
        if ((0 <? delta) && (max64 - delta <? cv)) || ((delta <? 0) && (cv <? min64 - delta)) then (x_fw, s1)
        else
          let nv := cv + delta in
          let (st, s2) := call c (HSet k (itoa nv) default_set_opt) s1 in
          match hr_err st with
          | Some _ => ({| x_msg := None; x_err := x_err (x_of st) |}, s2)
          | None => (x_ok (int_msg nv), s2)
          end
      end
    end.

  Definition x_INCR (c : cstate) (a : args) (s : est) : xres * est :=
    match key1 a with Some (k, _) => incdec c k 1 s | None => (x_fw, s) end.
  Definition x_DECR (c : cstate) (a : args) (s : est) : xres * est :=
    match key1 a with Some (k, _) => incdec c k (-1) s | None => (x_fw, s) end.
  Definition x_INCRBY (c : cstate) (a : args) (s : est) : xres * est :=
    match key1 a with
    | Some (k, r) => match int1 r with Some (n, _) => incdec c k n s | None => (x_fw, s) end
    | None => (x_fw, s)
    end.
  Definition x_DECRBY (c : cstate) (a : args) (s : est) : xres * est :=
    match key1 a with
    | Some (k, r) => match int1 r with
                     | Some (n, _) => if n =? min64 then (x_fw, s) else incdec c k (- n) s
                     | None => (x_fw, s)
                     end
    | None => (x_fw, s)
    end.

  Definition x_APPEND (c : cstate) (a : args) (s : est) : xres * est :=
    match key1 a with
    | Some (k, r) =>
      match key1 r with
      | Some (v, _) =>
        let (g, s1) := call c (HGet k) s in
        match hr_err g with
        | Some _ => ({| x_msg := None; x_err := x_err (x_of g) |}, s1)
        | None =>
          let nv := match hr_msg g with
                    | Some m => match msg_string m with Some old => old ++ v | None => v end
                    | None => v
                    end in
          let (st, s2) := call c (HSet k nv default_set_opt) s1 in
          match hr_err st with
          | Some _ => ({| x_msg := None; x_err := x_err (x_of st) |}, s2)
          | None => (x_ok (int_msg (lenZ nv)), s2)
          end
        end
      | None => (x_fw, s)
      end
    | None => (x_fw, s)
    end.

  Definition x_GETRANGE (c : cstate) (a : args) (s : est) : outcome (xres * est) :=
    match key1 a with
    | Some (k, r) =>
      match int1 r with
      | Some (st, r') =>
        match int1 r' with
        | Some (en, _) =>
          let (g, s1) := call c (HGet k) s in
          match hr_err g with
          | Some _ => Ok ({| x_msg := None; x_err := x_err (x_of g) |}, s1)
          | None =>
            let sv : option bytes :=
              if msg_is_nil (hr_msg g) then Some []
              else match hr_msg g with Some m => msg_string m | None => Some [] end in
            match sv with
            | None => Ok (x_fw, s1)
            | Some v =>
              match getrange_bounds (lenZ v) st en with
              | None => Ok (x_ok (bulk []), s1)
              | Some (lo, hi) => obind (go_slice v lo hi) (fun sl => Ok (x_ok (bulk sl), s1))   (* getVal[start:end+1] *)
              end
            end
          end
        | None => Ok (x_fw, s)
        end
      | None => Ok (x_fw, s)
      end
    | None => Ok (x_fw, s)
    end.

  (* server.executeCommand(conn, NAME, args) from inside a sugar executor: nested command span; the
     authorization test passes (the outer command already passed it, and no executor changes it) *)
  Definition nested (name : string) (x : cstate -> args -> est -> xres * est) (c : cstate) (a : args) (s : est) : xres * est :=
    if cs_auth c then
      let (r, s') := x c a (emit (EvSpanStart (bytes_of_string name)) s) in (r, emit EvSpanFinish s')
    else ({| x_msg := None; x_err := Some XFw |}, emit EvSpanFinish (emit (EvSpanStart (bytes_of_string name)) s)).

  Definition x_STRLEN (c : cstate) (a : args) (s : est) : xres * est :=
    let (g, s') := nested "GET" x_GET c a s in
    match x_err g with
    | Some _ => ({| x_msg := None; x_err := x_err g |}, s')
    | None => match x_msg g with
              | Some m => match msg_string m with
                          | Some v => (x_ok (int_msg (lenZ v)), s')
                          | None => (x_ok (int_msg 0), s')
                          end
              | None => (x_ok (int_msg 0), s')
              end
    end.

  Definition x_HEXISTS (c : cstate) (a : args) (s : est) : xres * est :=
    let (g, s') := nested "HGET" x_HGET c a s in
    match x_err g with
    | Some _ => ({| x_msg := None; x_err := x_err g |}, s')
    | None => match x_msg g with
              | Some m => match msg_string m with
                          | Some _ => (x_ok (int_msg 1), s')
                          | None => (x_ok (int_msg 0), s')
                          end
              | None => (x_ok (int_msg 0), s')
              end
    end.

  Definition x_HSTRLEN (c : cstate) (a : args) (s : est) : xres * est :=
    let (g, s') := nested "HGET" x_HGET c a s in
    match x_err g with
    | Some _ => ({| x_msg := None; x_err := x_err g |}, s')
    | None =>
      if msg_is_nil (x_msg g) then (x_ok (int_msg 0), s')
      else match x_msg g with
           | Some m => match msg_string m with
                       | Some v => (x_ok (int_msg (lenZ v)), s')
                       | None => (x_fw, s')
                       end
           | None => (x_ok (int_msg 0), s')
           end
    end.

  Definition hgetall_map (f : list resp -> list bytes) (c : cstate) (a : args) (s : est) : xres * est :=
    let (g, s') := nested "HGETALL" x_HGETALL c a s in
    match x_err g with
    | Some _ => ({| x_msg := None; x_err := x_err g |}, s')
    | None => match x_msg g with
              | Some (RArr l) => (x_ok (RArr (map bulk (f l))), s')
              | _ => (x_ok (RArr []), s')
              end
    end.
  Definition x_HKEYS := hgetall_map hkeys_loop.
  Definition x_HVALS := hgetall_map hvals_loop.

  Definition x_HLEN (c : cstate) (a : args) (s : est) : xres * est :=
    let (g, s') := nested "HKEYS" x_HKEYS c a s in
    match x_err g with
    | Some _ => ({| x_msg := None; x_err := x_err g |}, s')
    | None => match x_msg g with
              | Some (RArr l) => (x_ok (int_msg (lenZ l)), s')
              | _ => (x_fw, s')
              end
    end.

  Definition count_reply (res : hresult) : xres :=
    match hr_err res with
    | Some _ => {| x_msg := None; x_err := x_err (x_of res) |}
    | None => match hr_msg res with
              | Some (RArr l) => x_ok (int_msg (lenZ l))
              | _ => x_ok (int_msg 0)
              end
    end.

  Definition x_SCARD (c : cstate) (a : args) (s : est) : xres * est :=
    match key1 a with
    | Some (k, _) => let (res, s') := call c (HSMembers k) s in (count_reply res, s')
    | None => (x_fw, s)
    end.

  Definition x_ZCARD (c : cstate) (a : args) (s : est) : xres * est :=
    match key1 a with
    | Some (k, _) => let (res, s') := call c (HZRange k 0 (-1) default_zrange_opt) s in (count_reply res, s')
    | None => (x_fw, s)
    end.

  Definition x_SISMEMBER (c : cstate) (a : args) (s : est) : xres * est :=
    match key1 a with
    | Some (k, r) =>
      match key1 r with
      | Some (m, _) =>
        let (res, s') := call c (HSMembers k) s in
        match hr_err res with
        | Some _ => ({| x_msg := None; x_err := x_err (x_of res) |}, s')
        | None => match hr_msg res with
                  | Some (RArr l) => (x_ok (int_msg (if sismember_loop l m then 1 else 0)), s')
                  | _ => (x_ok (int_msg 0), s')
                  end
        end
      | None => (x_fw, s)
      end
    | None => (x_fw, s)
    end.

  (* ----- system_commander.go / server_auth.go (the server is its own system and auth handler) ----- *)
  Definition x_PING (a : args) : xres :=
    match a with
    | [] => x_ok (RStatus (B"PONG"))
    | m :: _ => match msg_string m with
                | Some [] => x_ok (RStatus (B"PONG"))
                | Some s => x_ok (bulk s)
                | None => x_fw
                end
    end.
  Definition x_ECHO (a : args) : xres :=
    match key1 a with Some (m, _) => x_ok (bulk m) | None => x_fw end.

  Definition x_SELECT (c : cstate) (a : args) : xres * cstate :=
    match int1 a with Some (id, _) => (x_ok ok_msg, set_db c id) | None => (x_fw, c) end.

  Definition x_QUIT : xres := {| x_msg := Some ok_msg; x_err := Some XQuit |}.

  Definition x_AUTH (ss : sstate) (c : cstate) (a : args) : xres * cstate :=
    match next_string a with
    | (inl p1, r) =>
      let creds : option (bytes * bytes) :=
        match r with
        | [] => Some ([], p1)
        | m :: _ => match msg_string m with Some tok => Some (p1, tok) | None => None end
        end in
      match creds with
      | None => (x_fw, c)
      | Some (u, p) =>
        let c1 := set_cred c u p in
        if authenticate ss c1 then (x_ok ok_msg, set_auth c1 true) else (x_fw, c1)
      end
    | _ => (x_fw, c)
    end.

  Definition config_get_reply (ss : sstate) (keys : list bytes) : resp :=
    RArr (flat_map (fun k => [bulk k; bulk (match cfg_get (ss_config ss) k with Some v => v | None => [] end)]) keys).

  Definition x_CONFIG (ss : sstate) (a : args) : xres * sstate :=
    let opt : option (bytes * args) :=
      match a with
      | [] => Some ([], [])
      | m :: r => match msg_string m with Some s => Some (s, r) | None => None end
      end in
    match opt with
    | None => (x_fw, ss)
    | Some (o, r) =>
      if kw o "SET" then
        match next_map1 r with
        | (inl d, _) => (x_ok ok_msg, set_config ss (fold_left (fun cf kv => cfg_set cf (fst kv) (snd kv)) d (ss_config ss)))
        | _ => (x_fw, ss)
        end
      else if kw o "GET" then
        match strs1 r with
        | Some keys => (x_ok (config_get_reply ss keys), ss)
        | None => (x_fw, ss)
        end
      else (x_fw, ss)
    end.

  (* ---------- the executor table ---------- *)
  Inductive cmd_kind :=
  | KUser (x : cstate -> args -> est -> xres * est)
  | KUserP (x : cstate -> args -> est -> outcome (xres * est)).

  Local Open Scope string_scope.
  Definition user_table : list (string * cmd_kind) :=
    [ ("DEL", KUser x_DEL); ("EXPIRE", KUser x_EXPIRE); ("EXPIREAT", KUser x_EXPIREAT); ("EXISTS", KUser x_EXISTS);
      ("KEYS", KUser x_KEYS); ("TYPE", KUser x_TYPE); ("RENAME", KUser x_RENAME); ("RENAMENX", KUser x_RENAMENX);
      ("TTL", KUser x_TTL); ("SCAN", KUser x_SCAN); ("GET", KUser x_GET); ("SET", KUser x_SET); ("SETEX", KUser x_SETEX);
      ("GETSET", KUser x_GETSET); ("MSET", KUser x_MSET); ("MSETNX", KUser x_MSETNX); ("MGET", KUser x_MGET);
      ("SETNX", KUser x_SETNX); ("HDEL", KUser x_HDEL); ("HGET", KUser x_HGET); ("HGETALL", KUser x_HGETALL);
      ("HSET", KUser x_HSET); ("HSETNX", KUser x_HSETNX); ("HMSET", KUser x_HMSET); ("HMGET", KUser x_HMGET);
      ("LINDEX", KUser x_LINDEX); ("LLEN", KUser x_LLEN); ("LPOP", KUser x_LPOP); ("LPUSH", KUser x_LPUSH);
      ("LPUSHX", KUser x_LPUSHX); ("LRANGE", KUser x_LRANGE); ("RPOP", KUser x_RPOP); ("RPUSH", KUser x_RPUSH);
      ("RPUSHX", KUser x_RPUSHX); ("SADD", KUser x_SADD); ("SMEMBERS", KUser x_SMEMBERS); ("SREM", KUser x_SREM);
      ("ZADD", KUser x_ZADD); ("ZINCRBY", KUser x_ZINCRBY); ("ZRANGE", KUser x_ZRANGE); ("ZREVRANGE", KUser x_ZREVRANGE);
      ("ZRANGEBYSCORE", KUser x_ZRANGEBYSCORE); ("ZREVRANGEBYSCORE", KUser x_ZREVRANGEBYSCORE); ("ZREM", KUser x_ZREM);
      ("ZSCORE", KUser x_ZSCORE);
      ("APPEND", KUser x_APPEND); ("DECR", KUser x_DECR); ("DECRBY", KUser x_DECRBY); ("GETRANGE", KUserP x_GETRANGE);
      ("INCR", KUser x_INCR); ("INCRBY", KUser x_INCRBY); ("STRLEN", KUser x_STRLEN);
      ("SUBSTR", KUserP (fun c a s => match x_GETRANGE c a (emit (EvSpanStart (B"GETRANGE")) s) with
                                      | Ok (r, s') => Ok (r, emit EvSpanFinish s') | Panic => Panic end));
      ("HEXISTS", KUser x_HEXISTS); ("HKEYS", KUser x_HKEYS); ("HLEN", KUser x_HLEN); ("HSTRLEN", KUser x_HSTRLEN);
      ("HVALS", KUser x_HVALS); ("SCARD", KUser x_SCARD); ("SISMEMBER", KUser x_SISMEMBER); ("ZCARD", KUser x_ZCARD) ].

  Fixpoint lookup_cmd (name : bytes) (t : list (string * cmd_kind)) : option cmd_kind :=
    match t with
    | [] => None
    | (n, k) :: r => if bytes_eqb name (bytes_of_string n) then Some k else lookup_cmd name r
    end.

  Definition sys_names : list string := ["AUTH"; "PING"; "ECHO"; "SELECT"; "QUIT"; "CONFIG"].
  Local Close Scope string_scope.
  Definition is_sys (name : bytes) : bool := existsb (fun n => bytes_eqb name (bytes_of_string n)) sys_names.
End Exec.
