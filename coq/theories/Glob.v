(* Glob.v — C17.  glob_match: what a Redis glob with only '*' and '?' means (direct recursive matcher).
   regexp_from_glob: the TEXT that redis/glob/glob.go regexpFromGlob builds (after the fix: rune by rune,
   '*' -> ".*", '?' -> ".", anything else -> regexp.QuoteMeta, wrapped in "(?s)^" ... "$").
   re_parse / re_match: parser and matcher for the RE2 fragment that text lies in
   (escaped literal, plain literal, '.', ".*", dot-all, anchored at both ends).
   Domain: ASCII bytes (< 128), where Go runes and bytes coincide. *)
From GR Require Import Base.
Open Scope N_scope.

Definition ch_qm : N := 63.      (* '?' *)
Definition ch_dot : N := 46.     (* '.' *)
Definition ch_bs : N := 92.      (* '\' *)
Definition ch_caret : N := 94.   (* '^' *)
Definition ch_doll : N := 36.    (* '$' *)

(* ---------- specification: glob semantics ---------- *)
Fixpoint glob_match (p : bytes) : bytes -> bool :=
  match p with
  | [] => fun k => match k with [] => true | _ => false end
  | c :: p' =>
    if c =? ch_star then
      (fix star (k : bytes) : bool :=
         glob_match p' k || match k with [] => false | _ :: k' => star k' end)
    else if c =? ch_qm then
      fun k => match k with [] => false | _ :: k' => glob_match p' k' end
    else
      fun k => match k with [] => false | x :: k' => (x =? c) && glob_match p' k' end
  end.

(* ---------- the code: text rewrite ---------- *)
(* regexp.QuoteMeta: the characters  \ . + * ? ( ) | [ ] { } ^ $  get a backslash *)
Definition is_meta (c : N) : bool :=
  existsb (N.eqb c) [92; 46; 43; 42; 63; 40; 41; 124; 91; 93; 123; 125; 94; 36].

Definition conv (c : N) : bytes :=
  if c =? ch_star then [ch_dot; ch_star]
  else if c =? ch_qm then [ch_dot]
  else if is_meta c then [ch_bs; c] else [c].

Definition re_prefix : bytes := [40; 63; 115; 41; 94].   (* "(?s)^" *)

Definition regexp_from_glob (p : bytes) : bytes :=
  re_prefix ++ flat_map conv p ++ [ch_doll].

(* ---------- the target fragment of RE2 ---------- *)
Inductive item := Lit (c : N) | Any | AnyStar.

(* parse the body up to and including the closing '$' *)
Fixpoint re_parse_body (fuel : nat) (s : bytes) : option (list item) :=
  match fuel with
  | O => None
  | S f =>
    match s with
    | [] => None
    | c :: r =>
      if c =? ch_doll then match r with [] => Some [] | _ => None end
      else if c =? ch_bs then
        match r with
        | [] => None
        | d :: r' => if is_meta d then option_map (cons (Lit d)) (re_parse_body f r') else None
        end
      else if c =? ch_dot then
        match r with
        | d :: r' => if d =? ch_star then option_map (cons AnyStar) (re_parse_body f r')
                     else option_map (cons Any) (re_parse_body f r)
        | [] => None
        end
      else if is_meta c then None
      else option_map (cons (Lit c)) (re_parse_body f r)
    end
  end.

Fixpoint strip_prefix (pre s : bytes) : option bytes :=
  match pre, s with
  | [], _ => Some s
  | a :: pre', b :: s' => if a =? b then strip_prefix pre' s' else None
  | _, [] => None
  end.

Definition re_parse (s : bytes) : option (list item) :=
  match strip_prefix re_prefix s with
  | Some body => re_parse_body (S (length body)) body
  | None => None
  end.

(* anchored, dot-all matching of the fragment *)
Fixpoint re_match (r : list item) : bytes -> bool :=
  match r with
  | [] => fun k => match k with [] => true | _ => false end
  | Lit c :: r' => fun k => match k with [] => false | x :: k' => (x =? c) && re_match r' k' end
  | Any :: r' => fun k => match k with [] => false | _ :: k' => re_match r' k' end
  | AnyStar :: r' =>
    (fix star (k : bytes) : bool :=
       re_match r' k || match k with [] => false | _ :: k' => star k' end)
  end.

Definition item_of (c : N) : item :=
  if c =? ch_star then AnyStar else if c =? ch_qm then Any else Lit c.
