(* Redis.v — reference semantics of the primitive handler operations (what "primitive operations that behave like
   Redis" means in C12, the sequential specification of C16, and the reference model of C18): a total function
       prim : store -> db-id -> hcall -> store * hresult
   transcribed from the Redis command reference for the data types and commands of the properties, WITHOUT expiry.
   It is a specification, not a transcription of examples/go-redisd; the bundled example server is compared with it
   by the C18 correspondence run.  Where the handler interface cannot express Redis' reply (LPOP key 1 vs LPOP key;
   SET .. NX vs SETNX) the reply the interface's own sugar commands need is specified and the other form is listed as
   a finding. *)
From Coq Require Import String QArith Lia.
From GR Require Import Base Resp Handler Exec Glob.
Open Scope Z_scope.

Inductive rval :=
| VStr (s : bytes)
| VHash (h : list (bytes * bytes))      (* field -> value, fields unique *)
| VList (l : list bytes)                (* head first *)
| VSet (s : list bytes)                 (* members unique *)
| VZSet (z : list (bytes * fl)).        (* members unique, ascending by (score, member) *)

Definition db := list (bytes * rval).                (* keys unique *)
Definition store := list (Z * db).                   (* database id -> database, ids unique *)

(* ---------- association lists ---------- *)
Fixpoint aget {V} (m : list (bytes * V)) (k : bytes) : option V :=
  match m with
  | [] => None
  | (k', v) :: r => if bytes_eqb k k' then Some v else aget r k
  end.
Fixpoint adel {V} (m : list (bytes * V)) (k : bytes) : list (bytes * V) :=
  match m with
  | [] => []
  | (k', v) :: r => if bytes_eqb k k' then r else (k', v) :: adel r k
  end.
Fixpoint aset {V} (m : list (bytes * V)) (k : bytes) (v : V) : list (bytes * V) :=
  match m with
  | [] => [(k, v)]
  | (k', v') :: r => if bytes_eqb k k' then (k', v) :: r else (k', v') :: aset r k v
  end.
Definition ahas {V} (m : list (bytes * V)) (k : bytes) : bool := match aget m k with Some _ => true | None => false end.

Fixpoint zget (s : store) (id : Z) : db :=
  match s with
  | [] => []
  | (i, d) :: r => if i =? id then d else zget r id
  end.
Fixpoint zput (s : store) (id : Z) (d : db) : store :=
  match s with
  | [] => [(id, d)]
  | (i, d') :: r => if i =? id then (i, d) :: r else (i, d') :: zput r id d
  end.

Fixpoint mem (x : bytes) (l : list bytes) : bool :=
  match l with [] => false | y :: r => bytes_eqb x y || mem x r end.
Fixpoint remove1 (x : bytes) (l : list bytes) : list bytes :=
  match l with [] => [] | y :: r => if bytes_eqb x y then r else y :: remove1 x r end.

(* ---------- scores ---------- *)
Definition fl_lt (a b : fl) : bool :=
  match a, b with
  | FInf true, FInf true => false
  | FInf true, _ => true
  | _, FInf true => false
  | FInf false, _ => false
  | _, FInf false => true
  | FNum p, FNum q => match Qcompare p q with Lt => true | _ => false end
  end.
Definition fl_eq (a b : fl) : bool := negb (fl_lt a b) && negb (fl_lt b a).
Definition fl_le (a b : fl) : bool := negb (fl_lt b a).

(* lexicographic order on byte strings (memcmp, then length) *)
Fixpoint bytes_lt (a b : bytes) : bool :=
  match a, b with
  | [], [] => false
  | [], _ :: _ => true
  | _ :: _, [] => false
  | x :: a', y :: b' => if (x <? y)%N then true else if (y <? x)%N then false else bytes_lt a' b'
  end.

(* (score, member) order of sorted sets *)
Definition zlt (a b : bytes * fl) : bool :=
  fl_lt (snd a) (snd b) || (fl_eq (snd a) (snd b) && bytes_lt (fst a) (fst b)).

Fixpoint zinsert (e : bytes * fl) (z : list (bytes * fl)) : list (bytes * fl) :=
  match z with
  | [] => [e]
  | x :: r => if zlt e x then e :: x :: r else x :: zinsert e r
  end.
Fixpoint zremove (m : bytes) (z : list (bytes * fl)) : list (bytes * fl) :=
  match z with
  | [] => []
  | x :: r => if bytes_eqb m (fst x) then r else x :: zremove m r
  end.
Definition zscore (m : bytes) (z : list (bytes * fl)) : option fl := aget z m.

Definition fl_add (a b : fl) : option fl :=      (* None: not a number *)
  match a, b with
  | FNum p, FNum q => Some (FNum (Qred (p + q)))
  | FInf x, FInf y => if Bool.eqb x y then Some (FInf x) else None
  | FInf x, _ => Some (FInf x)
  | _, FInf y => Some (FInf y)
  end.

(* how a score is written in a reply: the model uses an exact canonical text ("num/den", "+inf", "-inf"); the
   implementation writes strconv.FormatFloat(x, 'g', -1, 64); the correspondence compares them as exact numbers *)
Definition q_text (q : Q) : bytes :=
  let q := Qred q in itoa (Qnum q) ++ [47%N] ++ itoa (Zpos (Qden q)).
Definition fl_text (x : fl) : bytes :=
  match x with
  | FNum q => q_text q
  | FInf true => B"-inf"
  | FInf false => B"+inf"
  end.

(* ---------- replies ---------- *)
Definition ok (m : resp) : hresult := hr_ok m.
Definition err (t : string) : hresult := {| hr_msg := None; hr_err := Some (HEText (bytes_of_string t)) |}.
Definition wrongtype : hresult := err "WRONGTYPE Operation against a key holding the wrong kind of value".
Definition r_int (z : Z) : hresult := ok (int_msg z).
Definition r_nil : hresult := ok nil_msg.
Definition r_bulk (s : bytes) : hresult := ok (bulk s).
Definition r_arr (l : list bytes) : hresult := ok (RArr (map bulk l)).
Definition r_ok : hresult := ok ok_msg.

(* ---------- index ranges (LRANGE, ZRANGE): Redis normalisation ---------- *)
Definition norm_range (len start stop : Z) : option (Z * Z) :=      (* inclusive bounds inside [0, len-1], or None = empty *)
  let start := if start <? 0 then len + start else start in
  let stop := if stop <? 0 then len + stop else stop in
  let start := if start <? 0 then 0 else start in
  let stop := if len <=? stop then len - 1 else stop in
  if (stop <? start) || (len <=? start) then None else Some (start, stop).

Definition slice {A} (l : list A) (len start stop : Z) : list A :=
  match norm_range len start stop with
  | None => []
  | Some (a, b) => firstn (Z.to_nat (b - a + 1)) (skipn (Z.to_nat a) l)
  end.

(* LIMIT offset count over a result list (a negative offset selects nothing, a negative count everything) *)
Definition limit {A} (offset count : Z) (l : list A) : list A :=
  if offset <? 0 then []
  else let r := skipn (Z.to_nat (Z.min offset (lenZ l))) l in          (* clamped: no number larger than the list becomes a nat *)
       if count <? 0 then r else firstn (Z.to_nat (Z.min count (lenZ l))) r.

Definition in_score_range (mn mx : fl) (minex maxex : bool) (x : fl) : bool :=
  (if minex then fl_lt mn x else fl_le mn x) && (if maxex then fl_lt x mx else fl_le x mx).

Definition zreply (withscores : bool) (z : list (bytes * fl)) : hresult :=
  ok (RArr (flat_map (fun e => if withscores then [bulk (fst e); bulk (fl_text (snd e))] else [bulk (fst e)]) z)).

(* ---------- the primitive operations on one database ---------- *)
Definition type_name (v : rval) : string :=
  match v with VStr _ => "string" | VHash _ => "hash" | VList _ => "list" | VSet _ => "set" | VZSet _ => "zset" end.

Fixpoint count_if_b {A} (f : A -> bool) (l : list A) : Z :=
  match l with [] => 0 | x :: r => (if f x then 1 else 0) + count_if_b f r end.

Fixpoint del_keys (d : db) (ks : list bytes) : db * Z :=
  match ks with
  | [] => (d, 0)
  | k :: r => if ahas d k then let (d', n) := del_keys (adel d k) r in (d', n + 1) else del_keys d r
  end.

(* SADD: members already present (or repeated in the call) are not added again *)
Fixpoint sadd (s : list bytes) (ms : list bytes) : list bytes * Z :=
  match ms with
  | [] => (s, 0)
  | m :: r => if mem m s then sadd s r else let (s', n) := sadd (s ++ [m]) r in (s', n + 1)
  end.
Fixpoint srem (s : list bytes) (ms : list bytes) : list bytes * Z :=
  match ms with
  | [] => (s, 0)
  | m :: r => if mem m s then let (s', n) := srem (remove1 m s) r in (s', n + 1) else srem s r
  end.
Fixpoint hdel (h : list (bytes * bytes)) (fs : list bytes) : list (bytes * bytes) * Z :=
  match fs with
  | [] => (h, 0)
  | f :: r => if ahas h f then let (h', n) := hdel (adel h f) r in (h', n + 1) else hdel h r
  end.
Fixpoint zadd (z : list (bytes * fl)) (ms : list (fl * bytes)) : list (bytes * fl) * Z :=
  match ms with
  | [] => (z, 0)
  | (sc, m) :: r =>
    match zscore m z with
    | Some _ => zadd (zinsert (m, sc) (zremove m z)) r
    | None => let (z', n) := zadd (zinsert (m, sc) z) r in (z', n + 1)
    end
  end.
Fixpoint zrem (z : list (bytes * fl)) (ms : list bytes) : list (bytes * fl) * Z :=
  match ms with
  | [] => (z, 0)
  | m :: r => match zscore m z with
              | Some _ => let (z', n) := zrem (zremove m z) r in (z', n + 1)
              | None => zrem z r
              end
  end.

(* a container that became empty is removed with its key *)
Definition put_or_del (d : db) (k : bytes) (v : rval) : db :=
  let empty := match v with VStr _ => false | VHash [] | VList [] | VSet [] | VZSet [] => true | _ => false end in
  if empty then adel d k else aset d k v.

Definition dprim (d : db) (c : hcall) : db * hresult :=
  match c with
  | HDel ks => let (d', n) := del_keys d ks in (d', r_int n)
  | HExists ks => (d, r_int (count_if_b (ahas d) ks))
  | HExpire k _ => (d, r_int (if ahas d k then 1 else 0))                     (* expiry itself is not specified here *)
  | HKeys p => (d, r_arr (filter (fun k => glob_match p k) (map fst d)))
  | HRename k n nx =>
    match aget d k with
    | None => (d, err "ERR no such key")
    | Some v =>
      if nx && ahas d n then (d, r_int 0)
      else if bytes_eqb k n then (d, if nx then r_int 0 else r_ok)
      else (aset (adel d k) n v, if nx then r_int 1 else r_ok)
    end
  | HType k => (d, ok (RStatus (match aget d k with Some v => bytes_of_string (type_name v) | None => B"none" end)))
  | HTTL k => (d, r_int (if ahas d k then -1 else -2))
  | HScan _ _ => (d, ok (RArr [bulk (B"0"); RArr []]))                          (* not specified here *)
  | HSet k v o =>
    if so_xx o && negb (ahas d k) then (d, r_nil)
    else if so_nx o then
      if ahas d k then (d, r_int 0) else (aset d k (VStr v), r_int 1)
    else if so_get o then
      match aget d k with
      | Some (VStr old) => (aset d k (VStr v), r_bulk old)
      | Some _ => (d, wrongtype)
      | None => (aset d k (VStr v), r_nil)
      end
    else (aset d k (VStr v), r_ok)
  | HGet k =>
    match aget d k with
    | Some (VStr s) => (d, r_bulk s)
    | Some _ => (d, wrongtype)
    | None => (d, r_nil)
    end
  | HHDel k fs =>
    match aget d k with
    | Some (VHash h) => let (h', n) := hdel h fs in (put_or_del d k (VHash h'), r_int n)
    | Some _ => (d, wrongtype)
    | None => (d, r_int 0)
    end
  | HHSet k f v nx =>
    match aget d k with
    | Some (VHash h) =>
      if ahas h f then (if nx then (d, r_int 0) else (aset d k (VHash (aset h f v)), r_int 0))
      else (aset d k (VHash (aset h f v)), r_int 1)
    | Some _ => (d, wrongtype)
    | None => (aset d k (VHash [(f, v)]), r_int 1)
    end
  | HHGet k f =>
    match aget d k with
    | Some (VHash h) => (d, match aget h f with Some v => r_bulk v | None => r_nil end)
    | Some _ => (d, wrongtype)
    | None => (d, r_nil)
    end
  | HHGetAll k =>
    match aget d k with
    | Some (VHash h) => (d, ok (RArr (flat_map (fun fv => [bulk (fst fv); bulk (snd fv)]) h)))
    | Some _ => (d, wrongtype)
    | None => (d, ok (RArr []))
    end
  | HLPush k es x =>
    match aget d k with
    | Some (VList l) => let l' := rev es ++ l in (aset d k (VList l'), r_int (lenZ l'))
    | Some _ => (d, wrongtype)
    | None => if x then (d, r_int 0) else match es with [] => (d, r_int 0) | _ => (aset d k (VList (rev es)), r_int (lenZ es)) end
    end
  | HRPush k es x =>
    match aget d k with
    | Some (VList l) => let l' := l ++ es in (aset d k (VList l'), r_int (lenZ l'))
    | Some _ => (d, wrongtype)
    | None => if x then (d, r_int 0) else match es with [] => (d, r_int 0) | _ => (aset d k (VList es), r_int (lenZ es)) end
    end
  | HLPop k n =>
    match aget d k with
    | Some (VList l) =>
      if n <? 1 then (d, r_nil)
      else let m := Z.to_nat (Z.min n (lenZ l)) in                        (* clamped before it becomes a nat *)
           let got := firstn m l in
           (put_or_del d k (VList (skipn m l)),
            if n =? 1 then match got with x :: _ => r_bulk x | [] => r_nil end else r_arr got)
    | Some _ => (d, wrongtype)
    | None => (d, r_nil)
    end
  | HRPop k n =>
    match aget d k with
    | Some (VList l) =>
      if n <? 1 then (d, r_nil)
      else let m := Z.to_nat (Z.min n (lenZ l)) in
           let got := firstn m (rev l) in
           (put_or_del d k (VList (rev (skipn m (rev l)))),
            if n =? 1 then match got with x :: _ => r_bulk x | [] => r_nil end else r_arr got)
    | Some _ => (d, wrongtype)
    | None => (d, r_nil)
    end
  | HLRange k a b =>
    match aget d k with
    | Some (VList l) => (d, r_arr (slice l (lenZ l) a b))
    | Some _ => (d, wrongtype)
    | None => (d, r_arr [])
    end
  | HLIndex k i =>
    match aget d k with
    | Some (VList l) =>
      let idx := if i <? 0 then lenZ l + i else i in
      (d, if (idx <? 0) || (lenZ l <=? idx) then r_nil else match skipn (Z.to_nat idx) l with x :: _ => r_bulk x | [] => r_nil end)
    | Some _ => (d, wrongtype)
    | None => (d, r_nil)
    end
  | HLLen k =>
    match aget d k with
    | Some (VList l) => (d, r_int (lenZ l))
    | Some _ => (d, wrongtype)
    | None => (d, r_int 0)
    end
  | HSAdd k ms =>
    match aget d k with
    | Some (VSet s) => let (s', n) := sadd s ms in (aset d k (VSet s'), r_int n)
    | Some _ => (d, wrongtype)
    | None => let (s', n) := sadd [] ms in (put_or_del d k (VSet s'), r_int n)
    end
  | HSMembers k =>
    match aget d k with
    | Some (VSet s) => (d, r_arr s)
    | Some _ => (d, wrongtype)
    | None => (d, r_arr [])
    end
  | HSRem k ms =>
    match aget d k with
    | Some (VSet s) => let (s', n) := srem s ms in (put_or_del d k (VSet s'), r_int n)
    | Some _ => (d, wrongtype)
    | None => (d, r_int 0)
    end
  | HZAdd k ms _ =>
    match aget d k with
    | Some (VZSet z) => let (z', n) := zadd z ms in (aset d k (VZSet z'), r_int n)
    | Some _ => (d, wrongtype)
    | None => let (z', n) := zadd [] ms in (put_or_del d k (VZSet z'), r_int n)
    end
  | HZRange k a b o =>
    match aget d k with
    | Some (VZSet z) => let zz := if zr_rev o then rev z else z in        (* REV: indexes count from the highest score *)
                        (d, zreply (zr_withscores o) (limit (zr_offset o) (zr_count o) (slice zz (lenZ z) a b)))
    | Some _ => (d, wrongtype)
    | None => (d, ok (RArr []))
    end
  | HZRangeByScore k mn mx o =>
    match aget d k with
    | Some (VZSet z) =>
      (d, zreply (zr_withscores o) (limit (zr_offset o) (zr_count o) (filter (fun e => in_score_range mn mx (zr_minex o) (zr_maxex o) (snd e)) z)))
    | Some _ => (d, wrongtype)
    | None => (d, ok (RArr []))
    end
  | HZRem k ms =>
    match aget d k with
    | Some (VZSet z) => let (z', n) := zrem z ms in (put_or_del d k (VZSet z'), r_int n)
    | Some _ => (d, wrongtype)
    | None => (d, r_int 0)
    end
  | HZScore k m =>
    match aget d k with
    | Some (VZSet z) => (d, match zscore m z with Some x => r_bulk (fl_text x) | None => r_nil end)
    | Some _ => (d, wrongtype)
    | None => (d, r_nil)
    end
  | HZIncBy k inc m =>
    match aget d k with
    | Some (VZSet z) =>
      match fl_add (match zscore m z with Some x => x | None => FNum 0 end) inc with
      | Some x => (aset d k (VZSet (zinsert (m, x) (zremove m z))), r_bulk (fl_text x))
      | None => (d, err "ERR resulting score is not a number (NaN)")
      end
    | Some _ => (d, wrongtype)
    | None => (aset d k (VZSet [(m, inc)]), r_bulk (fl_text inc))
    end
  end.

(* the reference handler: the database is the one selected on the issuing connection *)
Definition prim (s : store) (id : Z) (c : hcall) : store * hresult :=
  let (d', r) := dprim (zget s id) c in (zput s id d', r).
