(* Lockset.v — lock discipline implies that conflicting accesses are ordered by release/acquire (C14).
   Threads emit events under mutex / read-write-mutex semantics.  If every access of a trace is made while its thread
   holds the locks that a static access table promises for it, and the table passes the executable check `check`
   (every two rows that may conflict share a lock, held exclusively by a writer), then any two conflicting accesses of
   different threads are separated by a release of that lock by the first thread followed by an acquisition by the
   second: they are ordered by happens-before, i.e. the trace has no data race.  The table itself is regenerated from
   the Go source on every run (coq/gen/Access.v) and `check table = true` is re-proved by computation. *)
From Coq Require Import List Arith Bool Lia.
Import ListNotations.

(* ---------- traces ---------- *)
Inductive event :=
| Acq (t l : nat) (excl : bool)          (* Lock (excl) / RLock *)
| Rel (t l : nat) (excl : bool)          (* Unlock / RUnlock *)
| Acc (t : nat) (loc inst : nat) (wr : bool).   (* access to field `loc` of object instance `inst` *)

Definition holding := (nat * nat * bool)%type.   (* thread, lock, exclusive *)
Definition lstate := list holding.

Definition h_eq_dec : forall a b : holding, {a = b} + {a <> b}.
Proof. decide equality; [apply Bool.bool_dec|]. decide equality; apply Nat.eq_dec. Defined.

Fixpoint remove_one (h : holding) (s : lstate) : lstate :=
  match s with
  | [] => []
  | x :: r => if h_eq_dec h x then r else x :: remove_one h r
  end.

Definition holds_lock (s : lstate) (l : nat) : Prop := exists t w, In (t, l, w) s.
Definition holds_excl (s : lstate) (l : nat) : Prop := exists t, In (t, l, true) s.

(* mutex semantics: an exclusive acquisition needs the lock free; a shared one needs no exclusive holder *)
Definition step_ok (s : lstate) (e : event) : Prop :=
  match e with
  | Acq t l true => ~ holds_lock s l
  | Acq t l false => ~ holds_excl s l
  | Rel t l w => In (t, l, w) s
  | Acc _ _ _ _ => True
  end.

Definition step (s : lstate) (e : event) : lstate :=
  match e with
  | Acq t l w => (t, l, w) :: s
  | Rel t l w => remove_one (t, l, w) s
  | Acc _ _ _ _ => s
  end.

Fixpoint wf (s : lstate) (tr : list event) : Prop :=
  match tr with
  | [] => True
  | e :: r => step_ok s e /\ wf (step s e) r
  end.

Definition exec (s : lstate) (tr : list event) : lstate := fold_left step tr s.

(* exclusivity: an exclusive holding of l is the only holding of l *)
Definition excl_inv (s : lstate) : Prop :=
  forall t1 t2 l w, In (t1, l, true) s -> In (t2, l, w) s -> t1 = t2 /\ w = true.

Lemma in_remove_one h x s : In x (remove_one h s) -> In x s.
Proof. induction s as [|y s IH]; cbn [remove_one]; [auto|]. destruct (h_eq_dec h y); [intros; right; assumption|]. intros [H|H]; [left; exact H|right; apply IH; exact H]. Qed.

Lemma excl_step s e : excl_inv s -> step_ok s e -> excl_inv (step s e).
Proof.
  intros I Ok. destruct e as [t l w|t l w|t loc inst wr]; cbn [step step_ok] in *; [|intros t1 t2 l0 w0 H1 H2; apply (I t1 t2 l0 w0); eapply in_remove_one; eauto|exact I].
  intros t1 t2 l0 w0 H1 H2. destruct H1 as [H1|H1], H2 as [H2|H2].
  - inversion H1; inversion H2; subst. auto.
  - inversion H1; subst. exfalso. apply Ok. exists t2, w0. exact H2.
  - inversion H2; subst. destruct w0.
    + exfalso. apply Ok. exists t1, true. exact H1.
    + exfalso. apply Ok. exists t1. exact H1.
  - apply (I t1 t2 l0 w0 H1 H2).
Qed.

Lemma exec_app s a b : exec s (a ++ b) = exec (exec s a) b.
Proof. unfold exec. apply fold_left_app. Qed.

Lemma wf_app s a b : wf s (a ++ b) <-> wf s a /\ wf (exec s a) b.
Proof.
  revert s. induction a as [|e a IH]; intros s; cbn [app wf exec fold_left]; [tauto|].
  rewrite IH. unfold exec. tauto.
Qed.

Lemma excl_exec tr : forall s, excl_inv s -> wf s tr -> excl_inv (exec s tr).
Proof.
  induction tr as [|e tr IH]; intros s I W; [exact I|]. cbn [wf] in W. destruct W as [Ok W]. cbn [exec fold_left]. apply IH; [apply excl_step; assumption|exact W].
Qed.

(* phase 2: a holding that is absent at the start and present at the end was acquired on the way *)
Lemma acquired_on_the_way tj l mj : forall rest s, ~ In (tj, l, mj) s -> In (tj, l, mj) (exec s rest) ->
  exists a b, rest = a ++ Acq tj l mj :: b.
Proof.
  induction rest as [|e rest IH]; intros s Hn Hin; cbn [exec fold_left] in Hin; [contradiction|].
  destruct (h_eq_dec (tj, l, mj) (tj, l, mj)) as [_|N]; [|congruence].
  destruct e as [t l0 w|t l0 w|t loc inst wr].
  - destruct (h_eq_dec (t, l0, w) (tj, l, mj)) as [E|NE].
    + inversion E; subst. exists [], rest. reflexivity.
    + destruct (IH (step s (Acq t l0 w))) as (a & b & ->); [cbn [step]; intros [H|H]; [congruence|contradiction]|exact Hin|].
      exists (Acq t l0 w :: a), b. reflexivity.
  - destruct (IH (step s (Rel t l0 w))) as (a & b & ->); [cbn [step]; intros H; apply Hn; eapply in_remove_one; eauto|exact Hin|].
    exists (Rel t l0 w :: a), b. reflexivity.
  - destruct (IH s Hn Hin) as (a & b & ->). exists (Acc t loc inst wr :: a), b. reflexivity.
Qed.

(* phase 1: while ti holds l (one of the two holdings being exclusive) tj cannot hold it; so for tj to hold it at the
   end, ti released it first *)
Lemma released_then_acquired ti tj l mi mj : ti <> tj -> mi || mj = true ->
  forall mid s, excl_inv s -> wf s mid -> In (ti, l, mi) s -> In (tj, l, mj) (exec s mid) ->
  exists a b c, mid = a ++ Rel ti l mi :: b ++ Acq tj l mj :: c.
Proof.
  intros Hne Hm. induction mid as [|e mid IH]; intros s I W Hi Hj.
  - exfalso. cbn [exec fold_left] in Hj. destruct mi.
    + destruct (I ti tj l mj Hi Hj) as [E _]. congruence.
    + cbn [orb] in Hm. subst mj. destruct (I tj ti l false Hj Hi) as [E _]. congruence.
  - cbn [wf] in W. destruct W as [Ok W]. cbn [exec fold_left] in Hj. fold (exec (step s e) mid) in Hj.
    pose proof (excl_step s e I Ok) as I'.
    destruct (in_dec h_eq_dec (ti, l, mi) (step s e)) as [Still|Gone].
    + destruct (IH (step s e) I' W Still Hj) as (a & b & c & ->). exists (e :: a), b, c. reflexivity.
    + (* ti's holding disappeared: e is its release *)
      destruct e as [t l0 w|t l0 w|t loc inst wr]; cbn [step] in *.
      * exfalso. apply Gone. right. exact Hi.
      * destruct (h_eq_dec (t, l0, w) (ti, l, mi)) as [E|NE].
        -- inversion E; subst.
           assert (Hn : ~ In (tj, l, mj) (remove_one (ti, l, mi) s)).
           { intros H. apply in_remove_one in H. destruct mi.
             - destruct (I ti tj l mj Hi H) as [E2 _]. congruence.
             - cbn [orb] in Hm. subst mj. destruct (I tj ti l false H Hi) as [E2 _]. congruence. }
           destruct (acquired_on_the_way tj l mj mid _ Hn Hj) as (b & c & ->). exists [], b, c. reflexivity.
        -- exfalso. apply Gone. clear -Hi NE. induction s as [|x s IHs]; [contradiction|]. cbn [remove_one].
           destruct (h_eq_dec (t, l0, w) x) as [E|N].
           ++ destruct Hi as [Hi|Hi]; [congruence|exact Hi].
           ++ destruct Hi as [Hi|Hi]; [left; exact Hi|right; apply IHs; exact Hi].
      * exfalso. apply Gone. exact Hi.
Qed.

(* ---------- the static access table ---------- *)
(* RApi: the lifecycle calls Start / Stop / Restart (one controlling thread); RQuery: the connection-registry queries, which any
   goroutine may call at any time *)
Inductive role := RApi | RAccept | RConn | RQuery.
Definition role_eqb (a b : role) : bool := match a, b with RApi, RApi | RAccept, RAccept | RConn, RConn | RQuery, RQuery => true | _, _ => false end.

Record row := {
  r_loc : nat;                      (* struct field (static location) *)
  r_role : role;                    (* which kind of thread executes the access site *)
  r_wr : bool;                      (* write? *)
  r_locks : list (nat * bool);      (* locks certainly held at the site, with mode (true = exclusive) *)
  r_own : bool                      (* the object is the accessing connection goroutine's own *)
}.

(* two distinct threads of these roles may run concurrently: everything but two lifecycle threads (Start / Stop / Restart are
   called from one controlling thread; registry queries are not: they are RQuery and run together with everything) *)
Definition may_run_together (a b : role) : bool := negb (role_eqb a RApi && role_eqb b RApi).

Definition common_lock (a b : row) : bool :=
  existsb (fun la => existsb (fun lb => Nat.eqb (fst la) (fst lb) && (snd la || negb (r_wr a)) && (snd lb || negb (r_wr b)) && (snd la || snd lb)) (r_locks b)) (r_locks a).

Definition pair_ok (a b : row) : bool :=
  negb (Nat.eqb (r_loc a) (r_loc b)) || negb (r_wr a || r_wr b) || negb (may_run_together (r_role a) (r_role b)) || (r_own a && r_own b) || common_lock a b.

Definition check (table : list row) : bool := forallb (fun a => forallb (pair_ok a) table) table.

(* ---------- a trace respects a table ---------- *)
(* every access event of thread t is an execution of some row of t's role; it is made while t holds the row's locks; an
   `own` row accesses the instance that belongs to t *)
Definition matches (table : list row) (role_of : nat -> role) (s : lstate) (t loc inst : nat) (wr : bool) (r : row) : Prop :=
  In r table /\ r_loc r = loc /\ r_wr r = wr /\ r_role r = role_of t /\
  (forall l m, In (l, m) (r_locks r) -> In (t, l, m) s) /\ (r_own r = true -> inst = t).

Fixpoint respects (table : list row) (role_of : nat -> role) (s : lstate) (tr : list event) : Prop :=
  match tr with
  | [] => True
  | e :: rest =>
    (match e with Acc t loc inst wr => exists r, matches table role_of s t loc inst wr r | _ => True end) /\
    respects table role_of (step s e) rest
  end.

Lemma respects_app table role_of : forall a s b, respects table role_of s (a ++ b) <-> respects table role_of s a /\ respects table role_of (exec s a) b.
Proof.
  induction a as [|e a IH]; intros s b; cbn [app respects exec fold_left]; [tauto|]. rewrite IH. unfold exec. tauto.
Qed.

(* C14 (generic half): in a well-formed trace that respects a table passing `check`, two conflicting accesses of different
   threads (not both API) are ordered: the first thread releases a lock that protects both and the second acquires it
   before its access *)
Theorem lockset_orders_conflicts table role_of pre ti tj loc inst wi wj mid post :
  check table = true ->
  wf [] (pre ++ Acc ti loc inst wi :: mid ++ Acc tj loc inst wj :: post) ->
  respects table role_of [] (pre ++ Acc ti loc inst wi :: mid ++ Acc tj loc inst wj :: post) ->
  ti <> tj -> wi || wj = true -> may_run_together (role_of ti) (role_of tj) = true ->
  exists l mi mj a b c, mid = a ++ Rel ti l mi :: b ++ Acq tj l mj :: c.
Proof.
  intros Hck W R Hne Hw Hroles.
  apply wf_app in W. destruct W as [W1 W2]. cbn [wf] in W2. destruct W2 as [_ W2]. cbn [step] in W2.
  apply wf_app in W2. destruct W2 as [W2 _].
  apply respects_app in R. destruct R as [_ R]. cbn [respects] in R. destruct R as [(ri & Ri) R]. cbn [step] in R.
  apply respects_app in R. destruct R as [_ R]. cbn [respects] in R. destruct R as [(rj & Rj) _].
  set (s1 := exec [] pre) in *.
  destruct Ri as (Ti & Li & Wi & Roi & Hi & Oi). destruct Rj as (Tj & Lj & Wj & Roj & Hj & Oj).
  unfold check in Hck. rewrite forallb_forall in Hck. specialize (Hck ri Ti). rewrite forallb_forall in Hck. specialize (Hck rj Tj).
  unfold pair_ok in Hck. rewrite Li, Lj, Wi, Wj, Roi, Roj, Nat.eqb_refl, Hw, Hroles in Hck. cbn [negb orb] in Hck.
  apply orb_prop in Hck. destruct Hck as [Hown|Hcl].
  - apply andb_prop in Hown. destruct Hown as [O1 O2]. specialize (Oi O1). specialize (Oj O2). congruence.
  - unfold common_lock in Hcl. apply existsb_exists in Hcl. destruct Hcl as ([l mi] & Ini & Hcl).
    apply existsb_exists in Hcl. destruct Hcl as ([l' mj] & Inj & Hc). cbn [fst snd] in Hc.
    repeat (apply andb_prop in Hc; destruct Hc as [Hc ?]). apply Nat.eqb_eq in Hc. subst l'.
    assert (I1 : excl_inv s1) by (apply excl_exec; [intros ? ? ? ? []|exact W1]).
    destruct (released_then_acquired ti tj l mi mj Hne ltac:(assumption) mid s1 I1 W2 (Hi l mi Ini) (Hj l mj Inj)) as (a & b & c & E).
    exists l, mi, mj, a, b, c. exact E.
Qed.
