(* LoopFacts.v — consequences of ConnFacts for whole connections (Conn.serve): span balance (C20), well-formed
   reply stream (C04), one reply per request in order and QUIT (C03), release (C19), executed only if received
   completely (C11).  All for EVERY application handler. *)
From Coq Require Import String Lia.
From GR Require Import Base BaseFacts Resp RespFacts Handler Exec Conn ConnFacts.
Open Scope Z_scope.

(* ---------- projections of a chronological trace ---------- *)
Definition ev_writes (l : list ev) : list bytes := flat_map (fun e => match e with EvWrite b => [b] | _ => [] end) l.
Definition ev_calls (l : list ev) : list ev := filter (fun e => match e with EvCall _ _ _ _ => true | EvApp _ _ => true | _ => false end) l.
Definition is_conn_ev (e : ev) : bool := match e with EvRegister | EvDeregister | EvClose => true | _ => false end.

Lemma ev_writes_app a b : ev_writes (a ++ b) = ev_writes a ++ ev_writes b.
Proof. unfold ev_writes. apply flat_map_app. Qed.
Lemma ev_writes_cons e l : ev_writes (e :: l) = ev_writes [e] ++ ev_writes l.
Proof. unfold ev_writes. cbn [flat_map]. rewrite app_nil_r. reflexivity. Qed.
Lemma ev_calls_app a b : ev_calls (a ++ b) = ev_calls a ++ ev_calls b.
Proof. unfold ev_calls. apply filter_app. Qed.

(* span balance, as a checker over the chronological trace: at most one root open; children only inside a root;
   a child finish closes an open child; the root is finished with no child open; nothing open at the end *)
Fixpoint bal (l : list ev) (root : bool) (d : nat) : bool :=
  match l with
  | [] => negb root
  | EvRootStart :: r => negb root && bal r true 0
  | EvRootFinish :: r => root && Nat.eqb d 0 && bal r false 0
  | EvSpanStart _ :: r => root && bal r root (S d)
  | EvSpanFinish :: r => root && match d with S d' => bal r root d' | O => false end
  | _ :: r => bal r root d
  end.

Lemma bal_scan l : forall rest d d', scan l d = Some d' -> bal (l ++ rest) true d = bal rest true d'.
Proof.
  induction l as [|e l IH]; intros rest d d' H; cbn [scan app] in *.
  - inversion H; reflexivity.
  - destruct e; try discriminate; cbn [bal andb].
    + apply IH; exact H.
    + destruct d as [|d0]; [discriminate|]. apply IH; exact H.
    + apply IH; exact H.
    + apply IH; exact H.
Qed.

Lemma scan_writes l : forall d d', scan l d = Some d' -> ev_writes l = [].
Proof.
  induction l as [|e l IH]; intros d d' H; [reflexivity|]. cbn [scan] in H.
  destruct e; try discriminate; cbn [ev_writes flat_map app]; try (eapply IH; exact H).
  destruct d; [discriminate|]. eapply IH; exact H.
Qed.

Lemma scan_no_conn l : forall d d', scan l d = Some d' -> existsb is_conn_ev l = false.
Proof.
  induction l as [|e l IH]; intros d d' H; [reflexivity|]. cbn [scan] in H.
  destruct e; try discriminate; cbn [existsb is_conn_ev orb]; try (eapply IH; exact H).
  destruct d; [discriminate|]. eapply IH; exact H.
Qed.

(* ---------- the RESP2 grammar of reply frames (independent of `encode`, no size limits) ---------- *)
Inductive resp2 : bytes -> Prop :=
| r2_status s : no_crlf s = true -> resp2 (ch_plus :: s ++ CRLF)
| r2_error s : no_crlf s = true -> resp2 (ch_minus :: s ++ CRLF)
| r2_int s : no_crlf s = true -> resp2 (ch_colon :: s ++ CRLF)
| r2_null : resp2 (ch_dollar :: ch_minus :: 49%N :: CRLF)
| r2_bulk p : resp2 (ch_dollar :: itoa (lenZ p) ++ CRLF ++ p ++ CRLF)
| r2_arr xs : Forall resp2 xs -> resp2 (ch_star :: itoa (lenZ xs) ++ CRLF ++ concat xs).

Lemma sanitize_no_crlf s : no_crlf (sanitize s) = true.
Proof.
  induction s as [|b s IH]; [reflexivity|]. cbn [sanitize map no_crlf forallb]. fold (sanitize s). fold (no_crlf (sanitize s)).
  rewrite IH, andb_true_r. unfold sanitize_byte.
  destruct ((b =? CR)%N || (b =? LF)%N) eqn:E; [reflexivity|]. rewrite E. reflexivity.
Qed.

(* every value the serializer writes is one frame of the grammar: line payloads never carry CR or LF, the bulk
   prefix is the payload length, the array prefix is the element count *)
Lemma encode_resp2 : forall v, resp2 (encode v).
Proof.
  fix IH 1. intros v. destruct v as [s|s|s|[p|]|l]; cbn [encode].
  - apply r2_status, sanitize_no_crlf.
  - apply r2_error, sanitize_no_crlf.
  - apply r2_int, sanitize_no_crlf.
  - apply r2_bulk.
  - apply r2_null.
  - rewrite flat_map_concat_map. replace (lenZ l) with (lenZ (map encode l)) by (unfold lenZ; rewrite map_length; reflexivity).
    apply r2_arr. induction l as [|x l IHl]; constructor; [apply IH|exact IHl].
Qed.

Lemma length_flat_map_ge (reqs : list resp) : (length reqs <= length (flat_map encode reqs))%nat.
Proof.
  induction reqs as [|v l IH]; [reflexivity|]. cbn [flat_map length]. rewrite app_length.
  pose proof (encode_nonempty v). lia.
Qed.

Section Loop.
  Variable hstate : Type.
  Variable handle : hstate -> Z -> hcall -> hstate * hresult.
  Variable regexp_src : bytes -> bytes.
  Variable fw_text : bytes -> args -> bytes.
  Notation serve := (serve hstate handle regexp_src fw_text).
  Notation serve_loop := (serve_loop hstate handle regexp_src fw_text).
  Notation trace := (trace hstate).
  Notation step := (step hstate handle regexp_src fw_text).
  Notation run_body := (run_body hstate handle regexp_src fw_text).
  Notation run_reqs := (run_reqs hstate handle regexp_src fw_text).
  Notation world := (world hstate).

  (* ----- shape of loop events ----- *)
  Lemma bal_iter inner b rest : good inner -> bal (iter_evs inner b ++ rest) false 0 = bal rest false 0.
  Proof.
    intros G. unfold iter_evs, iter_head. rewrite <- !app_assoc. cbn [app bal negb andb].
    rewrite (bal_scan inner _ 0 0 G). unfold iter_tail. cbn [app bal andb Nat.eqb]. reflexivity.
  Qed.

  Lemma bal_loop its : its_good its -> forall closing rest,
    bal (loop_evs its closing ++ rest) false 0 = bal (closing ++ rest) false 0.
  Proof.
    induction 1 as [|it its G _ IH]; intros closing rest; [reflexivity|].
    unfold loop_evs in *. cbn [flat_map]. rewrite <- !app_assoc. rewrite bal_iter by exact G. rewrite app_assoc. apply IH.
  Qed.

  Lemma writes_iter inner b : good inner -> ev_writes (iter_evs inner b) = [b].
  Proof.
    intros G. unfold iter_evs, iter_head, iter_tail. rewrite !ev_writes_app. rewrite (scan_writes inner 0 0 G). reflexivity.
  Qed.

  Lemma writes_loop its : its_good its -> forall closing, closing = [] \/ closing = loop_closing ->
    ev_writes (loop_evs its closing) = map (fun it => encode (snd it)) its.
  Proof.
    intros G closing Hc. unfold loop_evs. rewrite ev_writes_app.
    replace (ev_writes closing) with (@nil bytes) by (destruct Hc as [->| ->]; reflexivity). rewrite app_nil_r.
    induction G as [|it its Gi _ IH]; [reflexivity|]. cbn [flat_map map]. rewrite ev_writes_app, writes_iter by exact Gi. cbn [app]. f_equal. exact IH.
  Qed.

  Lemma no_conn_iter inner b : good inner -> existsb is_conn_ev (iter_evs inner b) = false.
  Proof.
    intros G. unfold iter_evs, iter_head, iter_tail. rewrite !existsb_app, (scan_no_conn inner 0 0 G). reflexivity.
  Qed.

  Lemma no_conn_loop its : its_good its -> forall closing, closing = [] \/ closing = loop_closing ->
    existsb is_conn_ev (loop_evs its closing) = false.
  Proof.
    intros G closing Hc. unfold loop_evs. rewrite existsb_app.
    replace (existsb is_conn_ev closing) with false by (destruct Hc as [->| ->]; reflexivity). rewrite orb_false_r.
    induction G as [|it its Gi _ IH]; [reflexivity|]. cbn [flat_map]. rewrite existsb_app, no_conn_iter by exact Gi. exact IH.
  Qed.

  (* ----- the whole connection, for EVERY input byte string ----- *)
  (* the trace of a connection that was let_in (plain, or TLS with accepted certificate) *)
  Definition let_in (ss : sstate) (tls : option (list bytes)) : bool :=
    match tls with Some _ => authenticate ss (initial_cstate ss tls) | None => true end.

  Theorem serve_shape ss hs tls input :
    let_in ss tls = true ->
    exists its closing,
      trace (serve ss hs tls input) = [EvRegister] ++ loop_evs its closing ++ [EvDeregister; EvClose] /\
      its_good its /\ (closing = [] \/ closing = loop_closing) /\
      (fst (serve ss hs tls input) = EndQuit \/ fst (serve ss hs tls input) = EndEOS \/ fst (serve ss hs tls input) = EndProtoErr).
  Proof.
    intros Had. unfold Conn.serve.
    set (c := initial_cstate ss tls).
    set (w := {| w_cs := c; w_ss := ss; w_est := Exec.emit hstate EvRegister {| e_hs := hs; e_evs := [] |} |}).
    assert (L : exists its closing,
               e_evs _ (w_est _ (snd (serve_loop (S (length input)) w input))) = rev (loop_evs its closing) ++ [EvRegister] /\
               its_good its /\ (closing = [] \/ closing = loop_closing) /\
               (fst (serve_loop (S (length input)) w input) = EndQuit \/ fst (serve_loop (S (length input)) w input) = EndEOS
                \/ fst (serve_loop (S (length input)) w input) = EndProtoErr)).
    { destruct (serve_loop_any hstate handle regexp_src fw_text (S (length input)) w input) as (its & closing & Ev & G & Hend); [lia|].
      exists its, closing. split; [exact Ev|]. split; [exact G|].
      destruct Hend as [(E1 & E2 & _)|([E1|E1] & E2)]; split; auto. }
    destruct L as (its & closing & Ev & G & Hc & Hend).
    assert (T : forall r : ending * world, r = serve_loop (S (length input)) w input ->
                trace (let (e, w') := r in (e, {| w_cs := w_cs _ w'; w_ss := w_ss _ w';
                                                  w_est := Exec.emit hstate EvClose (Exec.emit hstate EvDeregister (w_est _ w')) |}))
                = [EvRegister] ++ loop_evs its closing ++ [EvDeregister; EvClose]).
    { intros [e w'] Hr. rewrite <- Hr in Ev. unfold Conn.trace. cbn [snd w_est Exec.emit e_evs] in *. rewrite Ev.
      cbn [rev]. rewrite rev_app_distr, rev_involutive. cbn [rev app].
      rewrite <- !app_assoc. reflexivity. }
    destruct tls as [chain|].
    - unfold let_in in Had. fold c in Had. rewrite Had.
      exists its, closing. split; [apply T; reflexivity|]. split; [exact G|]. split; [exact Hc|].
      destruct (serve_loop (S (length input)) w input); exact Hend.
    - exists its, closing. split; [apply T; reflexivity|]. split; [exact G|]. split; [exact Hc|].
      destruct (serve_loop (S (length input)) w input); exact Hend.
  Qed.

  (* a TLS client whose certificate is not accepted: the socket is closed, nothing else happens *)
  Theorem serve_rejected ss hs chain input :
    let_in ss (Some chain) = false -> trace (serve ss hs (Some chain) input) = [EvClose].
  Proof. unfold let_in, Conn.serve. intros ->. reflexivity. Qed.

  (* C20 *)
  Theorem serve_balanced ss hs tls input : bal (trace (serve ss hs tls input)) false 0 = true.
  Proof.
    destruct (let_in ss tls) eqn:A.
    - destruct (serve_shape ss hs tls input A) as (its & closing & -> & G & Hc & _).
      cbn [app bal]. rewrite bal_loop by exact G. destruct Hc as [->| ->]; reflexivity.
    - destruct tls as [chain|]; [|discriminate]. rewrite serve_rejected by exact A. reflexivity.
  Qed.

  (* C19 (model half): registered exactly once at the start iff let_in, deregistered and closed exactly once at the
     end, and nothing in between touches the registry or the socket *)
  Theorem serve_released ss hs tls input :
    (let_in ss tls = true /\ exists mid, trace (serve ss hs tls input) = EvRegister :: mid ++ [EvDeregister; EvClose]
                                          /\ existsb is_conn_ev mid = false) \/
    (let_in ss tls = false /\ trace (serve ss hs tls input) = [EvClose]).
  Proof.
    destruct (let_in ss tls) eqn:A.
    - left. split; [reflexivity|]. destruct (serve_shape ss hs tls input A) as (its & closing & -> & G & Hc & _).
      exists (loop_evs its closing). split; [reflexivity|]. apply no_conn_loop; assumption.
    - right. split; [reflexivity|]. destruct tls as [chain|]; [|discriminate]. apply serve_rejected; exact A.
  Qed.

  (* C04: everything written is a sequence of complete RESP2 frames, one per loop iteration *)
  Theorem serve_writes_framed ss hs tls input :
    exists vs, ev_writes (trace (serve ss hs tls input)) = map encode vs /\ Forall resp2 (map encode vs).
  Proof.
    destruct (let_in ss tls) eqn:A.
    - destruct (serve_shape ss hs tls input A) as (its & closing & -> & G & Hc & _).
      exists (map snd its). rewrite !ev_writes_app. cbn [ev_writes flat_map app]. rewrite app_nil_r.
      rewrite writes_loop by assumption. rewrite map_map. split; [reflexivity|].
      apply Forall_forall. intros b Hb. apply in_map_iff in Hb. destruct Hb as (v & <- & _). apply encode_resp2.
    - destruct tls as [chain|]; [|discriminate]. rewrite serve_rejected by exact A. exists []. split; [reflexivity|constructor].
  Qed.

  (* C07 (1): the connection loop never panics and never diverges, for any input and any handler results *)
  Theorem serve_no_panic ss hs tls input :
    fst (serve ss hs tls input) <> EndPanic /\ fst (serve ss hs tls input) <> EndFuel.
  Proof.
    destruct (let_in ss tls) eqn:A.
    - destruct (serve_shape ss hs tls input A) as (_ & _ & _ & _ & _ & [E|[E|E]]); rewrite E; split; discriminate.
    - destruct tls as [chain|]; [|discriminate]. unfold let_in in A. unfold Conn.serve. rewrite A. split; discriminate.
  Qed.

  (* ----- request sequences ----- *)
  Definition initial_world (ss : sstate) (hs : hstate) : world :=
    {| w_cs := initial_cstate ss None; w_ss := ss; w_est := Exec.emit hstate EvRegister {| e_hs := hs; e_evs := [] |} |}.

  Definition finish (r : ending * world) : ending * world :=
    let (e, w') := r in (e, {| w_cs := w_cs _ w'; w_ss := w_ss _ w';
                               w_est := Exec.emit hstate EvClose (Exec.emit hstate EvDeregister (w_est _ w')) |}).

  (* a plain connection fed the encodings of `reqs` followed by `tail` (nothing, or bytes that do not parse) *)
  Lemma serve_requests ss hs reqs tail :
    forallb wf reqs = true -> forallb size_ok reqs = true -> (tail = [] \/ fst (parse tail) = PErr) ->
    serve ss hs None (flat_map encode reqs ++ tail) = finish (run_reqs (initial_world ss hs) reqs (negb (is_nil tail))).
  Proof.
    intros Hwf Hsz Ht. unfold Conn.serve. fold (initial_world ss hs).
    rewrite (serve_loop_run hstate handle regexp_src fw_text reqs (initial_world ss hs) tail) ; try assumption.
    - reflexivity.
    - rewrite app_length. pose proof (length_flat_map_ge reqs) as H. lia.
  Qed.

  (* ----- C03: one reply per request, in order; QUIT; nothing after QUIT ----- *)
  Definition new_evs (w w' : world) (l : list ev) : Prop := e_evs _ (w_est _ w') = rev l ++ e_evs _ (w_est _ w).

  Theorem requests_one_reply_each ss hs reqs tail :
    forallb wf reqs = true -> forallb size_ok reqs = true -> (tail = [] \/ fst (parse tail) = PErr) ->
    let r := serve ss hs None (flat_map encode reqs ++ tail) in
    exists replies,
      ev_writes (trace r) = map encode replies /\
      Forall2 (fun rep req => exists x, rep = reply_of fw_text req x) replies (firstn (length replies) reqs) /\
      (length replies <= length reqs)%nat /\
      (fst r <> EndQuit -> length replies = length reqs) /\
      (fst r = EndQuit -> replies <> []).
  Proof.
    intros Hwf Hsz Ht r. subst r. rewrite serve_requests by assumption.
    unfold ConnFacts.run_reqs.
    destruct (run_body_spec hstate handle regexp_src fw_text reqs (initial_world ss hs)) as (its & Ev & G & F2 & Len & Hend).
    destruct (run_body (initial_world ss hs) reqs) as [oe w'] eqn:RB. cbn [fst snd] in *.
    exists (map snd its). rewrite map_length.
    assert (HF : Forall2 (fun rep req => exists x, rep = reply_of fw_text req x) (map snd its) (firstn (length its) reqs)).
    { clear -F2. induction F2 as [|it req its rs H _ IH]; cbn [map]; constructor; assumption. }
    destruct Hend as [(-> & Hl)|(-> & Hne)].
    - (* end of stream / protocol error after all requests *)
      unfold finish, Conn.trace, close_iter, open_iter. cbn [snd w_est Exec.emit e_evs fst]. rewrite Ev.
      unfold initial_world. cbn [w_est Exec.emit e_evs rev app]. rewrite !rev_app_distr, rev_involutive. cbn [rev app].
      rewrite ev_writes_cons, !ev_writes_app, writes_loop by auto. cbn [ev_writes flat_map app]. rewrite !app_nil_r.
      rewrite map_map. repeat split; auto.
      + destruct (negb (is_nil tail)); discriminate.
    - unfold finish, Conn.trace. cbn [snd w_est Exec.emit e_evs fst]. rewrite Ev.
      unfold initial_world. cbn [w_est Exec.emit e_evs rev app]. rewrite !rev_app_distr, rev_involutive. cbn [rev app].
      rewrite ev_writes_cons, !ev_writes_app, writes_loop by auto. cbn [ev_writes flat_map app]. rewrite !app_nil_r.
      rewrite map_map. repeat split; auto.
      + intros H; congruence.
      + intros _ H. destruct its; [congruence|discriminate].
  Qed.

  (* what follows the first request answered with the QUIT sentinel is neither executed nor answered: the whole
     result (ending, state, every event) is that of the stream cut right after that request *)
  Theorem nothing_after_quit w l1 q l2 w' :
    run_body w (l1 ++ [q]) = (Some EndQuit, w') -> run_body w (l1 ++ q :: l2) = (Some EndQuit, w').
  Proof.
    intros H. change (q :: l2) with ([q] ++ l2). rewrite app_assoc.
    rewrite (run_body_app hstate handle regexp_src fw_text (l1 ++ [q]) l2 w), H. reflexivity.
  Qed.

  (* the QUIT command itself: reply +OK, loop ends (authorized connection; any letter case) *)
  Theorem quit_command w cmd a :
    cs_auth (w_cs _ w) = true -> upper cmd = B"QUIT" ->
    exists w', step w (RArr (RBulk (Some cmd) :: a)) = Ok (true, w') /\
               exists inner, new_evs w w' (inner ++ iter_tail (encode ok_msg)) /\ ev_calls inner = [].
  Proof.
    intros Hau Hup. unfold Conn.step, Conn.handle_message. cbn [depth Conn.handle_array msg_string].
    unfold Conn.execute_command. rewrite Hup, Hau.
    replace (is_sys (B"QUIT")) with true by (vm_compute; reflexivity). cbn [orb negb andb].
    replace (bytes_eqb (B"QUIT") (B"AUTH")) with false by (vm_compute; reflexivity).
    replace (bytes_eqb (B"QUIT") (B"PING")) with false by (vm_compute; reflexivity).
    replace (bytes_eqb (B"QUIT") (B"ECHO")) with false by (vm_compute; reflexivity).
    replace (bytes_eqb (B"QUIT") (B"SELECT")) with false by (vm_compute; reflexivity).
    replace (bytes_eqb (B"QUIT") (B"QUIT")) with true by (vm_compute; reflexivity).
    eexists. split; [reflexivity|]. exists [EvSpanStart (B"QUIT"); EvSpanFinish]. split; reflexivity.
  Qed.

  (* a handler error that is not the QUIT sentinel becomes an error reply carrying its text and the loop goes on *)
  Theorem handler_error_reply req t m :
    reply_of fw_text req {| x_msg := m; x_err := Some (XHandler t) |} = RError t /\
    is_quit {| x_msg := m; x_err := Some (XHandler t) |} = false.
  Proof. split; reflexivity. Qed.

  (* ----- C11: a stream cut inside a request ----- *)
  Lemma is_request_wf v : is_request v = true -> wf v = true.
  Proof.
    destruct v as [| | | |l]; try discriminate. destruct l as [|x l]; [discriminate|]. unfold is_request. intros H.
    rewrite wf_arr. revert H. generalize (x :: l). intros l0. induction l0 as [|y l0 IH]; [reflexivity|].
    cbn [forallb]. intros H. apply andb_prop in H. destruct H as [H1 H2]. rewrite (IH H2), andb_true_r.
    destruct y as [| | |[p|]|]; try discriminate. reflexivity.
  Qed.

  Lemma requests_wf reqs : forallb is_request reqs = true -> forallb wf reqs = true.
  Proof.
    induction reqs as [|v l IH]; [reflexivity|]. cbn [forallb]. intros H. apply andb_prop in H. destruct H as [H1 H2].
    rewrite (is_request_wf v H1), (IH H2). reflexivity.
  Qed.

  Lemma cut_pipeline : forall (reqs : list resp) (k : nat), (k <= length (flat_map encode reqs))%nat ->
    exists j p, firstn k (flat_map encode reqs) = flat_map encode (firstn j reqs) ++ p /\ (j <= length reqs)%nat /\
                (p = [] \/ exists v q, nth_error reqs j = Some v /\ encode v = p ++ q /\ q <> [] /\ p <> []).
  Proof.
    induction reqs as [|v reqs IH]; intros k Hk.
    - exists 0%nat, []. cbn in *. rewrite firstn_nil. repeat split; auto.
    - cbn [flat_map] in *. rewrite app_length in Hk.
      destruct (Nat.lt_ge_cases k (length (encode v))) as [Hlt|Hge].
      + exists 0%nat, (firstn k (encode v)). cbn [firstn flat_map app]. split; [|split; [lia|]].
        * rewrite firstn_app. replace (k - length (encode v))%nat with 0%nat by lia. cbn [firstn]. rewrite app_nil_r. reflexivity.
        * destruct k as [|k]; [left; reflexivity|]. right. exists v, (skipn (S k) (encode v)). cbn [nth_error].
          split; [reflexivity|]. split; [symmetry; apply firstn_skipn|]. split.
          -- intros H. pose proof (firstn_skipn (S k) (encode v)) as E. rewrite H, app_nil_r in E.
             assert (L : length (firstn (S k) (encode v)) = length (encode v)) by (rewrite E; reflexivity).
             rewrite firstn_length in L. lia.
          -- destruct (encode v) eqn:E; [cbn in Hlt; lia|]. discriminate.
      + destruct (IH (k - length (encode v))%nat) as (j & p & E & Hj & Hp); [lia|].
        exists (S j), p. cbn [firstn flat_map length nth_error]. split; [|split; [lia|exact Hp]].
        rewrite firstn_app, firstn_all2 by lia. rewrite E, app_assoc. reflexivity.
  Qed.

  Lemma firstn_S_nth_error {A} (l : list A) : forall n x, nth_error l n = Some x -> firstn (S n) l = firstn n l ++ [x].
  Proof.
    induction l as [|y l IH]; intros n x H; destruct n; try discriminate; cbn [nth_error firstn app] in *.
    - inversion H; reflexivity.
    - f_equal. apply IH; exact H.
  Qed.

  Lemma forallb_firstn {A} (f : A -> bool) l n : forallb f l = true -> forallb f (firstn n l) = true.
  Proof.
    revert n. induction l as [|x l IH]; intros n H; destruct n; try reflexivity. cbn [firstn forallb] in *.
    apply andb_prop in H. destruct H as [H1 H2]. rewrite H1, (IH n H2). reflexivity.
  Qed.

  Lemma nth_error_forallb {A} (f : A -> bool) l n x : forallb f l = true -> nth_error l n = Some x -> f x = true.
  Proof.
    intros H E. apply nth_error_In in E. rewrite forallb_forall in H. apply H; exact E.
  Qed.

  (* the stream of a pipeline of client requests cut at ANY byte offset k: every event of the connection - handler
     calls, replies, spans, deregistration, close - is exactly what the stream ending right after the last complete
     request produces.  Nothing is executed or answered on behalf of the partial request. *)
  Theorem cut_trace ss hs reqs k :
    forallb is_request reqs = true -> forallb size_ok reqs = true -> (k <= length (flat_map encode reqs))%nat ->
    exists j, (j <= length reqs)%nat /\
      (length (flat_map encode (firstn j reqs)) <= k)%nat /\
      ((j < length reqs)%nat -> (k < length (flat_map encode (firstn (S j) reqs)))%nat) /\
      trace (serve ss hs None (firstn k (flat_map encode reqs))) = trace (serve ss hs None (flat_map encode (firstn j reqs))).
  Proof.
    intros Hr Hs Hk. destruct (cut_pipeline reqs k Hk) as (j & p & E & Hj & Hp).
    exists j. split; [exact Hj|].
    assert (Lk : length (firstn k (flat_map encode reqs)) = k) by (rewrite firstn_length; lia).
    split; [|split].
    - rewrite E, app_length in Lk. lia.
    - intros Hlt. destruct Hp as [->|(v & q & Hn & Ev & Hq & Hpn)].
      + rewrite app_nil_r in E. rewrite E in Lk.
        destruct (nth_error reqs j) as [v|] eqn:Hn; [|apply nth_error_None in Hn; lia].
        rewrite (firstn_S_nth_error _ _ _ Hn). rewrite flat_map_app, app_length. cbn [flat_map]. rewrite app_nil_r.
        pose proof (encode_nonempty v). lia.
      + rewrite (firstn_S_nth_error _ _ _ Hn). rewrite flat_map_app, app_length. cbn [flat_map]. rewrite app_nil_r.
        rewrite E, app_length in Lk. rewrite Ev, app_length. destruct q; [congruence|]. cbn [length]. lia.
    - rewrite E.
      pose proof (forallb_firstn _ _ j (requests_wf reqs Hr)) as Hw. pose proof (forallb_firstn _ _ j Hs) as Hz.
      rewrite (serve_requests ss hs (firstn j reqs) p Hw Hz).
      + rewrite <- (app_nil_r (flat_map encode (firstn j reqs))).
        rewrite (serve_requests ss hs (firstn j reqs) [] Hw Hz) by (left; reflexivity).
        unfold ConnFacts.run_reqs. destruct (run_body (initial_world ss hs) (firstn j reqs)) as [[e|] w']; [reflexivity|].
        destruct (negb (is_nil p)); reflexivity.
      + destruct Hp as [->|(v & q & Hn & Ev & Hq & Hpn)]; [left; reflexivity|right].
        pose proof (prefix_free_request v p q (nth_error_forallb _ _ _ _ Hr Hn) (nth_error_forallb _ _ _ _ Hs Hn) Ev Hq) as P.
        destruct p; [congruence|exact P].
  Qed.
End Loop.
