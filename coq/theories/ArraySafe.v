(* ArraySafe.v — proto.Array.LimitBy and ReverseBy (the helpers behind ZREVRANGE / ZREVRANGEBYSCORE ... LIMIT, redis/proto/array.go)
   cannot panic and cannot overflow (C07, framework side).  As in StoreSafe.v the Go code is written again with the PARTIAL slice
   primitive (go_slice: None = the run-time panic) and WRAPPING int64 arithmetic, in the shape of the Go loops; for every array
   shorter than 2^62 and ALL int64 step / offset / count (a client chooses offset and count freely) the checked LimitBy returns
   exactly what Exec.limit_by returns, and the checked ReverseBy returns a value (its result is tied to Exec.reverse_by by the
   correspondence run). *)
From Coq Require Import String QArith Lia.
From GR Require Import Base Resp Handler Exec Glob Redis Store StoreSafe.
Open Scope Z_scope.

(* ---------- LimitBy ----------
   if step < 1 { step = 1 }; if offset < 0 { return empty }
   l := len(msgs); n := 0
   for begin := 0; begin < l; begin += step {
     if n >= offset && (count < 0 || n-offset < count) { end := min(begin+step, l); out = append(out, msgs[begin:end]...) }
     n++ } *)
Fixpoint c_limit_loop {A} (fuel : nat) (msgs : list A) (step offset count begin n : Z) (acc : list A) : option (list A) :=
  match fuel with
  | O => None
  | S f =>
    if begin <? lenZ msgs then
      match (if (offset <=? n) && ((count <? 0) || (wsub n offset <? count))
             then match go_slice msgs begin (Z.min (wadd begin step) (lenZ msgs)) with Some x => Some (acc ++ x) | None => None end
             else Some acc) with
      | None => None
      | Some acc' => c_limit_loop f msgs step offset count (wadd begin step) (wadd n 1) acc'
      end
    else Some acc
  end.

Definition c_limit_by {A} (msgs : list A) (step offset count : Z) : option (list A) :=
  let step := if step <? 1 then 1 else step in
  if offset <? 0 then Some [] else c_limit_loop (S (length msgs)) msgs step offset count 0 0 [].

Lemma groups_nil {A} fuel step : @groups A fuel step [] = [].
Proof. destruct fuel; reflexivity. Qed.

(* groups with more fuel than elements does not depend on the fuel *)
Lemma groups_fuel {A} (step : nat) : (0 < step)%nat -> forall (fu1 fu2 : nat) (l : list A),
  (length l <= fu1)%nat -> (length l <= fu2)%nat -> groups fu1 step l = groups fu2 step l.
Proof.
  intros Hst. induction fu1 as [|a IHa]; intros fu2 l H1 H2.
  - destruct l; [rewrite !groups_nil; reflexivity|cbn [length] in H1; lia].
  - destruct l as [|y l']; [rewrite !groups_nil; reflexivity|]. destruct fu2 as [|b]; [cbn [length] in H2; lia|].
    cbn [groups]. f_equal. apply IHa; rewrite skipn_length; cbn [length] in *; lia.
Qed.

Lemma skipn_add_local {A} : forall (a b : nat) (l : list A), skipn (a + b) l = skipn b (skipn a l).
Proof.
  induction a as [|a IH]; intros b l; [reflexivity|]. destruct l as [|x l]; [cbn [Nat.add skipn]; rewrite skipn_nil; reflexivity|].
  cbn [Nat.add skipn]. apply IH.
Qed.

Lemma c_limit_loop_ok {A} (msgs : list A) (step offset count : Z) :
  short msgs -> 1 <= step -> i64 step -> 0 <= offset -> i64 offset -> i64 count ->
  forall fuel rest begin n acc,
    rest = skipn (Z.to_nat begin) msgs -> begin = lenZ msgs - lenZ rest -> (begin = 0 \/ step <= lenZ msgs) ->
    0 <= n <= begin -> (length rest < fuel)%nat ->
    c_limit_loop fuel msgs step offset count begin n acc =
    Some (acc ++ select_groups (groups (length rest) (Z.to_nat step) rest) n offset count).
Proof.
  intros Hs Hst Hsi Hoff Hoi Hci. pose proof (lenZ_nonneg msgs) as L0.
  induction fuel as [|f IH]; intros rest begin n acc Hr Hb Hinv Hn Hf; [lia|].
  cbn [c_limit_loop]. destruct rest as [|x r].
  - (* nothing left: begin = l *)
    cbn [length] in *. unfold lenZ in Hb at 2. cbn [length] in Hb.
    replace (begin <? lenZ msgs) with false by (symmetry; apply Z.ltb_ge; lia).
    cbn [groups select_groups]. rewrite app_nil_r. reflexivity.
  - assert (Lr : lenZ (x :: r) = Z.of_nat (length r) + 1) by (unfold lenZ; cbn [length]; lia).
    replace (begin <? lenZ msgs) with true by (symmetry; apply Z.ltb_lt; lia).
    assert (Wb : wadd begin step = begin + step).
    { unfold wadd. apply wrap64_id. i64_tac. destruct Hinv as [->|Hle]; lia. }
    assert (Wn : wadd n 1 = n + 1) by (unfold wadd; apply wrap64_id; i64_tac; lia).
    assert (Wo : wsub n offset = n - offset) by (unfold wsub; apply wrap64_id; i64_tac; lia).
    rewrite Wb, Wn, Wo.
    (* the slice msgs[begin : min(begin+step, l)] is the next group *)
    assert (Sl : go_slice msgs begin (Z.min (begin + step) (lenZ msgs)) = Some (firstn (Z.to_nat step) (x :: r))).
    { unfold go_slice.
      replace ((0 <=? begin) && (begin <=? Z.min (begin + step) (lenZ msgs)) && (Z.min (begin + step) (lenZ msgs) <=? lenZ msgs)) with true
        by (symmetry; rewrite !andb_true_iff, !Z.leb_le; lia).
      rewrite <- Hr. f_equal.
      destruct (Z.le_gt_cases (begin + step) (lenZ msgs)) as [Hle|Hgt].
      - rewrite Z.min_l by lia. f_equal. lia.
      - rewrite Z.min_r by lia. rewrite !firstn_all2; [reflexivity| |]; cbn [length]; unfold lenZ in *; cbn [length] in *; lia. }
    rewrite Sl.
    cbn [length groups]. cbn [select_groups].
    set (g := firstn (Z.to_nat step) (x :: r)).
    set (cond := (offset <=? n) && ((count <? 0) || (n - offset <? count))).
    set (acc' := if cond then acc ++ g else acc).
    replace (if cond then Some (acc ++ g) else Some acc) with (Some acc') by (unfold acc'; destruct cond; reflexivity).
    assert (Eacc : acc' ++ select_groups (groups (length r) (Z.to_nat step) (skipn (Z.to_nat step) (x :: r))) (n + 1) offset count =
                   acc ++ (if cond then g else []) ++ select_groups (groups (length r) (Z.to_nat step) (skipn (Z.to_nat step) (x :: r))) (n + 1) offset count).
    { unfold acc'. destruct cond; [rewrite <- app_assoc; reflexivity|reflexivity]. }
    rewrite <- Eacc. clear Eacc.
    set (rest' := skipn (Z.to_nat step) (x :: r)).
    destruct (Z.le_gt_cases (lenZ msgs) (begin + step)) as [Hend|Hmore].
    + (* the next begin is past the end: the loop stops, and no group is left *)
      assert (R0 : rest' = []).
      { unfold rest'. apply skipn_all2. cbn [length]. unfold lenZ in *. cbn [length] in *. lia. }
      rewrite R0, groups_nil. cbn [select_groups]. rewrite app_nil_r.
      destruct f as [|f']; [cbn [length] in Hf; lia|]. cbn [c_limit_loop].
      replace (begin + step <? lenZ msgs) with false by (symmetry; apply Z.ltb_ge; lia). reflexivity.
    + assert (Lr' : length rest' = (length (x :: r) - Z.to_nat step)%nat) by (unfold rest'; apply skipn_length).
      rewrite (IH rest' (begin + step) (n + 1) acc').
      * f_equal. f_equal. f_equal.
        apply groups_fuel; [lia|lia|cbn [length] in Lr'; lia].
      * unfold rest'. rewrite Hr. rewrite <- skipn_add_local. f_equal. lia.
      * unfold lenZ in *. rewrite Lr'. cbn [length] in *. lia.
      * right. lia.
      * lia.
      * rewrite Lr'. cbn [length] in *. lia.
Qed.

Theorem c_limit_by_ok {A} (msgs : list A) (step offset count : Z) : short msgs -> i64 step -> i64 offset -> i64 count ->
  c_limit_by msgs step offset count = Some (limit_by (Z.to_nat (if step <? 1 then 1 else step)) offset count msgs).
Proof.
  intros Hs H1 H2 H3. unfold c_limit_by, limit_by.
  set (st := if step <? 1 then 1 else step).
  assert (St : 1 <= st /\ i64 st) by (unfold st; destruct (step <? 1) eqn:E; [|apply Z.ltb_ge in E]; i64_tac; lia).
  destruct St as [St1 St2].
  destruct (Z.to_nat st) as [|k] eqn:K; [lia|]. rewrite <- K.
  destruct (offset <? 0) eqn:O; [reflexivity|]. apply Z.ltb_ge in O.
  rewrite (c_limit_loop_ok msgs st offset count Hs St1 St2 O H2 H3 (S (length msgs)) msgs 0 0 []); [reflexivity|reflexivity|lia|left; reflexivity|lia|lia].
Qed.

(* ---------- ReverseBy ----------
   if step < 1 { step = 1 }; l := len(msgs)
   for end := l; end > 0; end -= step { begin := max(end-step, 0); out = append(out, msgs[begin:end]...) } *)
Fixpoint c_reverse_loop {A} (fuel : nat) (msgs : list A) (step end_ : Z) (acc : list A) : option (list A) :=
  match fuel with
  | O => None
  | S f =>
    if 0 <? end_ then
      match go_slice msgs (Z.max (wsub end_ step) 0) end_ with
      | Some x => c_reverse_loop f msgs step (wsub end_ step) (acc ++ x)
      | None => None
      end
    else Some acc
  end.
Definition c_reverse_by {A} (msgs : list A) (step : Z) : option (list A) :=
  let step := if step <? 1 then 1 else step in
  c_reverse_loop (S (length msgs)) msgs step (lenZ msgs) [].

Lemma c_reverse_loop_total {A} (msgs : list A) (step : Z) : short msgs -> 1 <= step -> i64 step ->
  forall fuel end_ acc, end_ <= lenZ msgs -> min64 < end_ -> (Z.to_nat end_ < fuel)%nat -> c_reverse_loop fuel msgs step end_ acc <> None.
Proof.
  intros Hs H1 Hi. pose proof (lenZ_nonneg msgs) as L0.
  induction fuel as [|f IH]; intros end_ acc He Hm Hf; [lia|]. cbn [c_reverse_loop].
  destruct (0 <? end_) eqn:E; [|discriminate]. apply Z.ltb_lt in E.
  assert (W : wsub end_ step = end_ - step) by (unfold wsub; apply wrap64_id; i64_tac; lia).
  rewrite W. unfold go_slice.
  replace ((0 <=? Z.max (end_ - step) 0) && (Z.max (end_ - step) 0 <=? end_) && (end_ <=? lenZ msgs)) with true
    by (symmetry; rewrite !andb_true_iff, !Z.leb_le; lia).
  apply IH; [lia|i64_tac; lia|lia].
Qed.

Theorem c_reverse_by_total {A} (msgs : list A) (step : Z) : short msgs -> i64 step -> c_reverse_by msgs step <> None.
Proof.
  intros Hs Hi. unfold c_reverse_by. pose proof (lenZ_nonneg msgs) as L0.
  apply c_reverse_loop_total; [exact Hs| | |lia|i64_tac; lia|unfold lenZ; lia];
    destruct (step <? 1) eqn:E; [lia|apply Z.ltb_ge in E; lia|i64_tac; lia|exact Hi].
Qed.

Example array_safe_ex :
  c_limit_by [B"a"; B"1"; B"b"; B"2"; B"c"; B"3"] 2 1 max64 = Some [B"b"; B"2"; B"c"; B"3"] /\
  c_limit_by [B"a"; B"b"; B"c"] max64 0 1 = Some [B"a"; B"b"; B"c"] /\
  c_limit_by [B"a"; B"b"; B"c"] min64 min64 min64 = Some [] /\
  c_reverse_by [B"a"; B"1"; B"b"; B"2"; B"c"] 2 = Some [B"2"; B"c"; B"1"; B"b"; B"a"] /\
  c_reverse_by [B"a"; B"b"] max64 = Some [B"a"; B"b"].
Proof. vm_compute. repeat split; reflexivity. Qed.
