(* MultiTLS.v — the password gate (C08) for connections of ANY transport and servers with ANY further authenticators:
   n connections, each plain or TLS with an arbitrary verified certificate chain; a server whose authenticator list
   contains the clear-text password authenticator Start installs, and possibly certificate rules.  A verified
   certificate is not a password: on none of them is a handler invoked before that connection's own AUTH with exactly
   the configured password. *)
From Coq Require Import String Lia.
From GR Require Import Base BaseFacts Resp RespFacts Handler Exec Conn Multi GrammarFacts ConnFacts LoopFacts MultiFacts.
Open Scope Z_scope.

(* AUTH can only succeed with the exact password (default user) when the password authenticator is among the authenticators *)
Lemma authenticate_needs_pw ss pw c u p : In (AClear [] pw) (ss_auths ss) ->
  authenticate ss (set_cred c u p) = true -> u = [] /\ p = pw.
Proof.
  intros Hin H. unfold authenticate in H. rewrite forallb_forall in H. specialize (H _ Hin).
  cbn [authr_ok set_cred cs_user cs_pass] in H. apply andb_prop in H. destruct H as [H1 H2].
  apply bytes_eqb_eq in H2. split; [|exact H2].
  destruct u as [|x u]; [reflexivity|]. cbn [bytes_eqb] in H1. discriminate.
Qed.

Lemma auth_ok_exact ss pw c a : In (AClear [] pw) (ss_auths ss) ->
  fst (x_AUTH ss c a) = x_ok ok_msg -> auth_creds a = Some ([], pw).
Proof.
  intros Hin H. rewrite x_AUTH_spec in H. destruct (auth_creds a) as [[u p]|]; [|discriminate].
  cbn zeta in H. destruct (authenticate ss (set_cred c u p)) eqn:E; [|discriminate].
  destruct (authenticate_needs_pw ss pw c u p Hin E) as [-> ->]. reflexivity.
Qed.

Section MultiTLS.
  Variable hstate : Type.
  Variable handle : hstate -> Z -> hcall -> hstate * hresult.
  Variable regexp_src : bytes -> bytes.
  Variable fw_text : bytes -> args -> bytes.
  Notation msys := (msys hstate).
  Notation mrun := (mrun hstate handle regexp_src fw_text).
  Notation mstep := (mstep hstate handle regexp_src fw_text).
  Notation proc := (proc hstate handle regexp_src fw_text).

  (* n connections, the i-th served with transport state (nth i tl): None = plain TCP, Some chain = TLS with that verified chain *)
  Definition msys_init_tls (ss : sstate) (hs : hstate) (tl : list (option (list bytes))) : msys :=
    {| ms_ss := ss; ms_hs := hs;
       ms_conns := map (fun t => {| mc_cs := initial_cstate ss t; mc_live := true; mc_evs := [EvRegister] |}) tl;
       ms_panic := false |}.

  Lemma cs_array_flip_any fuel auths pw : In (AClear [] pw) auths -> forall c a, cs_auth c = false ->
    cs_auth (cs_array fuel auths c a) = true ->
    exists cmd args, leaf_cmd fuel a = Some (cmd, args) /\ upper cmd = B"AUTH" /\ auth_creds args = Some ([], pw).
  Proof.
    intros Hin. induction fuel as [|f IH]; intros c a Au H; destruct a as [|first rest]; cbn [cs_array leaf_cmd] in *; try congruence.
    - destruct first; try congruence;
        (destruct (msg_string _) as [cmd|] eqn:Em; [|congruence]; apply cs_cmd_auth in H; [|exact Au]; destruct H as [Hu Hx];
         exists cmd, rest; split; [reflexivity|]; split; [exact Hu|];
         apply (auth_ok_exact {| ss_config := []; ss_auths := auths; ss_app := [] |} pw c rest Hin Hx)).
    - destruct first; try congruence;
        try (destruct (msg_string _) as [cmd|] eqn:Em; [|congruence]; apply cs_cmd_auth in H; [|exact Au]; destruct H as [Hu Hx];
             exists cmd, rest; split; [reflexivity|]; split; [exact Hu|];
             apply (auth_ok_exact {| ss_config := []; ss_auths := auths; ss_app := [] |} pw c rest Hin Hx)).
      eapply IH; eauto.
  Qed.

  Lemma fold_flip_any auths pw : In (AClear [] pw) auths -> forall l c, cs_auth c = false ->
    cs_auth (fold_left (cs_step auths) l c) = true -> exists req, In req l /\ exact_auth pw req.
  Proof.
    intros Hin. induction l as [|req l IH]; intros c Au H; cbn [fold_left] in H; [congruence|].
    destruct (cs_auth (cs_step auths c req)) eqn:E.
    - exists req. split; [left; reflexivity|]. destruct req; cbn [cs_step] in E; try congruence.
      cbn [exact_auth]. eapply cs_array_flip_any; eauto.
    - destruct (IH _ E H) as (r & Hi & Hex). exists r. split; [right; exact Hi|exact Hex].
  Qed.

  (* C08 for every transport: on a server that requires password pw — whatever else it requires — under EVERY interleaving
     of the requests of the connections, plain or TLS with any certificate chain: a connection on which any handler
     (or application executor) was invoked has, among its OWN processed requests, an AUTH carrying exactly pw *)
  Theorem password_gate_any_transport ss hs tl pw ops i c' :
    In (AClear [] pw) (ss_auths ss) -> cfg_get (ss_config ss) requirepass_key <> None ->
    nth_error (ms_conns _ (mrun (msys_init_tls ss hs tl) ops)) i = Some c' ->
    ev_calls (rev (mc_evs c')) <> [] ->
    exists req, In req (proc (msys_init_tls ss hs tl) ops i) /\ exact_auth pw req.
  Proof.
    intros Hin Hreq Hn' Hc.
    set (m0 := msys_init_tls ss hs tl).
    assert (Inv0 : calls_imply_auth hstate m0).
    { intros j c Hj Hcalls. unfold m0, msys_init_tls in Hj. cbn [ms_conns] in Hj. apply nth_error_In in Hj. apply in_map_iff in Hj.
      destruct Hj as (t & <- & _). exfalso. apply Hcalls. reflexivity. }
    pose proof (calls_imply_auth_run hstate handle regexp_src fw_text ops _ Inv0 i c' Hn' Hc) as Au.
    destruct (nth_error (ms_conns _ m0) i) as [c|] eqn:Hi.
    - destruct (mrun_cs hstate handle regexp_src fw_text ops m0 i c Hi) as (c2 & Hn2 & Ecs). fold m0 in Hn'. rewrite Hn' in Hn2. inversion Hn2; subst c2.
      assert (Au0 : cs_auth (mc_cs c) = false).
      { unfold m0, msys_init_tls in Hi. cbn [ms_conns] in Hi. apply nth_error_In in Hi. apply in_map_iff in Hi. destruct Hi as (t & <- & _).
        cbn [mc_cs initial_cstate cs_auth]. destruct (cfg_get (ss_config ss) requirepass_key); [reflexivity|congruence]. }
      cbn [ms_ss] in Ecs. rewrite Ecs in Au. eapply fold_flip_any; eauto.
    - exfalso. destruct (nth_error_None (ms_conns _ m0) i) as [L _]. specialize (L Hi).
      assert (X : nth_error (ms_conns _ (mrun m0 ops)) i = None).
      { clear -L. revert L. generalize m0. induction ops as [|o ops IH]; intros m L; [apply nth_error_None; exact L|].
        cbn [Multi.mrun fold_left]. apply (IH (mstep m o)).
        destruct o as [j req|j]; cbn [Multi.mstep]; destruct (nth_error (ms_conns _ m) j) as [c|] eqn:Ej; try exact L;
          destruct (negb (mc_live c)); try exact L; try (destruct (Conn.step _ _ _ _ _ _) as [[q w']|]; try exact L);
          cbn [ms_conns]; rewrite set_nth_length; exact L. }
      fold m0 in Hn'. congruence.
  Qed.
End MultiTLS.
