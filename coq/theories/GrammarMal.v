(* GrammarMal.v — C10, the malformations that GrammarFacts.v does not cover by a general theorem:
   (1) SET options: next_set_opts accepts EXACTLY the option grammar (completeness: the converse of set_opts_print),
       hence every repetition / combination of exclusive options, every bad operand and every unknown word is refused;
   (2) a null (or any non-string) element anywhere in the part of the argument list a command reads is refused,
       for ANY argument list (no validity hypothesis);
   (3) a non-numeric / out-of-range token at a position where a number is required is refused, for ANY argument list. *)
From Coq Require Import String QArith Lia.
From GR Require Import Base BaseFacts Resp Handler Exec Conn Grammar GrammarFacts.
Open Scope Z_scope.

(* ---------- (1) SET options: acceptance implies membership in the grammar ---------- *)
Definition mkw (t : bytes) (k : string) : word := {| w_txt := t; w_kw := k |}.
Definition mki (t : bytes) (z : Z) : inttok := {| it_txt := t; it_val := z |}.

Lemma mkw_ok t k : kw t k = true -> word_ok (mkw t k) = true.
Proof. intros H. exact H. Qed.

Lemma mki_ok t z : atoi t = Some z -> inttok_ok (mki t z) = true.
Proof. intros H. unfold inttok_ok, mki. cbn [it_txt it_val]. rewrite H. apply Z.eqb_refl. Qed.

Ltac iota_if :=
  repeat match goal with
         | H : context [if true then ?a else ?b] |- _ => change (if true then a else b) with a in H
         | H : context [if false then ?a else ?b] |- _ => change (if false then a else b) with b in H
         | |- context [if true then ?a else ?b] => change (if true then a else b) with a
         | |- context [if false then ?a else ?b] => change (if false then a else b) with b
         end.

Ltac compat_tac :=
  try match goal with IH : forall ts : list bytes, _ |- _ => clear IH end;
  unfold set_compat, count_if, so_has_exp in *;
  cbn [forallb filter is_cond is_expiry is_keepttl is_get set_word_ok length
       so_nx so_xx so_ex so_px so_exat so_pxat so_keepttl so_get] in *;
  repeat match goal with
         | |- context [0 <? ?n * ?k] => replace (0 <? n * k) with true by (symmetry; apply Z.ltb_lt; match goal with Hz : 1 <= n |- _ => clear - Hz; lia end)
         | H : context [0 <? ?n * ?k] |- _ =>
             replace (0 <? n * k) with true in H by (symmetry; apply Z.ltb_lt; match goal with Hz : 1 <= n |- _ => clear - Hz; lia end)
         end;
  rewrite ?orb_true_r in *; cbn [orb] in *;
  repeat match goal with H : _ && _ = true |- _ => apply andb_prop in H; destruct H end;
  repeat match goal with H : (_ <=? _)%nat = true |- _ => apply Nat.leb_le in H end;
  repeat (apply andb_true_intro; split);
  try assumption; try reflexivity;
  apply Nat.leb_le;
  repeat match goal with
         | H : ?b = false |- context [if ?b then _ else _] => rewrite H
         | H : ?b = false, H' : context [if ?b then _ else _] |- _ => rewrite H in H'
         end;
  iota_if;
  repeat match goal with
         | |- context [if ?b then 1%nat else 0%nat] => let x := fresh "x" in set (x := if b then 1%nat else 0%nat) in *; clearbody x
         | H : context [if ?b then 1%nat else 0%nat] |- _ => let x := fresh "x" in set (x := if b then 1%nat else 0%nat) in *; clearbody x
         end;
  repeat match goal with H : _ = _ :> bool |- _ => clear H | H : _ = _ :> option _ |- _ => clear H | H : (_ <= _)%Z |- _ => clear H end;
  lia.

Theorem set_opts_complete : forall n ts o o', (length ts <= n)%nat ->
  next_set_opts (map bulk ts) o = Some o' ->
  exists l, ts = flat_map print_set_word l /\ set_compat o l = true /\ o' = fold_left apply_set_word l o.
Proof.
  induction n as [|n IH]; intros ts o o' Hn H.
  { destruct ts; [|cbn in Hn; lia]. cbn in H. injection H as <-. exists []. repeat split.
    unfold set_compat, count_if. cbn. destruct (so_nx o || so_xx o), (so_has_exp o), (so_keepttl o), (so_get o); reflexivity. }
  destruct ts as [|t r].
  { cbn in H. injection H as <-. exists []. repeat split.
    unfold set_compat, count_if. cbn. destruct (so_nx o || so_xx o), (so_has_exp o), (so_keepttl o), (so_get o); reflexivity. }
  cbn [length] in Hn. cbn [map next_set_opts bulk msg_string] in H. fold bulk in H.
  destruct (kw t "NX") eqn:K1.
  { destruct (so_nx o || so_xx o) eqn:F; [discriminate|].
    apply IH in H; [|lia]. destruct H as (l & -> & C & ->).
    exists (SwNX (mkw t "NX") :: l). repeat split.
    pose proof (mkw_ok _ _ K1) as W. compat_tac. }
  destruct (kw t "XX") eqn:K2.
  { destruct (so_nx o || so_xx o) eqn:F; [discriminate|].
    apply IH in H; [|lia]. destruct H as (l & -> & C & ->).
    exists (SwXX (mkw t "XX") :: l). repeat split.
    pose proof (mkw_ok _ _ K2) as W. compat_tac. }
  destruct (kw t "EX" || kw t "PX" || kw t "EXAT" || kw t "PXAT") eqn:KE.
  { fold (so_has_exp o) in H. destruct (so_has_exp o) eqn:F; [discriminate|].
    destruct r as [|v r']; [discriminate|].
    cbn [map] in H. unfold msg_integer at 1, bulk at 1 in H.
    destruct (atoi v) as [z|] eqn:A; [|discriminate].
    destruct (Z.ltb_spec z 1) as [|Hz1]; [discriminate|].
    cbn [length] in Hn.
    destruct (kw t "EX") eqn:E1.
    { destruct (Z.ltb_spec SEC_MAX z) as [|Hz2]; [discriminate|].
      apply IH in H; [|lia]. destruct H as (l & -> & C & ->).
      exists (SwEX (mkw t "EX") (mki v z) :: l). repeat split.
      pose proof (mkw_ok _ _ E1) as W. pose proof (mki_ok _ _ A) as I.
      assert (B1 : (1 <=? z) = true) by (apply Z.leb_le; exact Hz1). assert (B2 : (z <=? SEC_MAX) = true) by (apply Z.leb_le; exact Hz2).
      compat_tac. }
    destruct (kw t "PX") eqn:E2.
    { destruct (Z.ltb_spec MSEC_MAX z) as [|Hz2]; [discriminate|].
      apply IH in H; [|lia]. destruct H as (l & -> & C & ->).
      exists (SwPX (mkw t "PX") (mki v z) :: l). repeat split.
      pose proof (mkw_ok _ _ E2) as W. pose proof (mki_ok _ _ A) as I.
      assert (B1 : (1 <=? z) = true) by (apply Z.leb_le; exact Hz1). assert (B2 : (z <=? MSEC_MAX) = true) by (apply Z.leb_le; exact Hz2).
      compat_tac. }
    destruct (kw t "EXAT") eqn:E3.
    { destruct (Z.ltb_spec UNIX_MAX z) as [|Hz2]; [discriminate|].
      apply IH in H; [|lia]. destruct H as (l & -> & C & ->).
      exists (SwEXAT (mkw t "EXAT") (mki v z) :: l). repeat split.
      pose proof (mkw_ok _ _ E3) as W. pose proof (mki_ok _ _ A) as I.
      assert (B1 : (1 <=? z) = true) by (apply Z.leb_le; exact Hz1). assert (B2 : (z <=? UNIX_MAX) = true) by (apply Z.leb_le; exact Hz2).
      compat_tac. }
    cbn [orb] in KE.
    apply IH in H; [|lia]. destruct H as (l & -> & C & ->).
    exists (SwPXAT (mkw t "PXAT") (mki v z) :: l). repeat split.
    pose proof (mkw_ok _ _ KE) as W. pose proof (mki_ok _ _ A) as I.
    assert (B1 : (1 <=? z) = true) by (apply Z.leb_le; exact Hz1).
    compat_tac. }
  destruct (kw t "KEEPTTL") eqn:K3.
  { destruct (so_keepttl o) eqn:F; [discriminate|].
    apply IH in H; [|lia]. destruct H as (l & -> & C & ->).
    exists (SwKEEPTTL (mkw t "KEEPTTL") :: l). repeat split.
    pose proof (mkw_ok _ _ K3) as W. compat_tac. }
  destruct (kw t "GET") eqn:K4.
  { destruct (so_get o) eqn:F; [discriminate|].
    apply IH in H; [|lia]. destruct H as (l & -> & C & ->).
    exists (SwGET (mkw t "GET") :: l). repeat split.
    pose proof (mkw_ok _ _ K4) as W. compat_tac. }
  discriminate.
Qed.

(* ---------- numerals are never option words ---------- *)
Lemma letter_not_num a r : ((65 <= a /\ a <= 90) \/ (97 <= a /\ a <= 122))%N -> atoi (a :: r) = None.
Proof.
  intros Ha. unfold atoi, ch_minus, ch_plus.
  replace (a =? 45)%N with false by (symmetry; apply N.eqb_neq; lia).
  replace (a =? 43)%N with false by (symmetry; apply N.eqb_neq; lia).
  unfold atoi_digits. cbn [uint_of_bytes]. destruct (uint_of_bytes r) as [u|]; [|reflexivity].
  repeat match goal with
         | |- context [(a =? ?k)%N] => replace (a =? k)%N with false by (symmetry; apply N.eqb_neq; lia)
         end.
  reflexivity.
Qed.

Lemma kw_not_num s k c k' : bytes_of_string k = c :: k' -> (65 <= c /\ c <= 90)%N -> kw s k = true -> atoi s = None.
Proof.
  intros Hk Hc H. unfold kw in H. rewrite Hk in H. destruct s as [|a r]; [discriminate|].
  cbn [upper map bytes_eqb] in H. apply andb_prop in H. destruct H as [H _]. apply N.eqb_eq in H.
  apply letter_not_num. unfold upper_byte in H.
  destruct ((97 <=? a)%N && (a <=? 122)%N) eqn:E.
  - apply andb_prop in E. destruct E as [E1 E2]. apply N.leb_le in E1, E2. right. lia.
  - left. lia.
Qed.

Ltac not_kw H :=   (* H : atoi s = Some z ; turns every `kw s "..."` in the goal into false *)
  repeat match goal with
         | |- context [kw ?s ?k] =>
             let E := fresh "E" in
             destruct (kw s k) eqn:E;
             [ exfalso; eapply kw_not_num in E; [rewrite E in H; discriminate | vm_compute; reflexivity | vm_compute; split; discriminate] | ]
         end.

Definition tok_cond (t : bytes) : bool := kw t "NX" || kw t "XX".
Definition tok_exp (t : bytes) : bool := kw t "EX" || kw t "PX" || kw t "EXAT" || kw t "PXAT".

Lemma count_if_app {A} (f : A -> bool) a b : count_if f (a ++ b) = (count_if f a + count_if f b)%nat.
Proof. unfold count_if. rewrite filter_app, app_length. reflexivity. Qed.

Lemma count_if_cons {A} (f : A -> bool) x l : count_if f (x :: l) = ((if f x then 1 else 0) + count_if f l)%nat.
Proof. unfold count_if. cbn [filter]. destruct (f x); reflexivity. Qed.

Lemma word_counts x : set_word_ok x = true ->
  count_if tok_cond (print_set_word x) = (if is_cond x then 1 else 0)%nat /\
  count_if tok_exp (print_set_word x) = (if is_expiry x then 1 else 0)%nat.
Proof.
  intros Hx.
  destruct x as [w|w|w|w|w n|w n|w n|w n]; cbn [print_set_word set_word_ok is_cond is_expiry] in *;
    repeat (apply andb_prop in Hx; destruct Hx as [Hx ?]);
    rewrite ?count_if_cons; unfold tok_cond, tok_exp;
    match goal with H1 : word_ok w = true, H2 : String.eqb _ _ = true |- _ => kwc H1 H2 end;
    try (split; reflexivity);
    match goal with I : inttok_ok n = true |- _ => pose proof (inttok_atoi n I) as A end;
    not_kw A; cbn [orb]; split; reflexivity.
Qed.

Lemma count_tok_words l : forallb set_word_ok l = true ->
  count_if tok_cond (flat_map print_set_word l) = count_if is_cond l /\
  count_if tok_exp (flat_map print_set_word l) = count_if is_expiry l.
Proof.
  induction l as [|x l IH]; intros H; [split; reflexivity|].
  cbn [forallb] in H. apply andb_prop in H. destruct H as [Hx Hok]. destruct (IH Hok) as [I1 I2].
  destruct (word_counts x Hx) as [W1 W2].
  cbn [flat_map]. rewrite !count_if_app, !count_if_cons, I1, I2, W1, W2. split; reflexivity.
Qed.

(* what `valid (QSet ..)` demands is what next_set_opts demands from the default options *)
Lemma set_compat_default l : set_compat default_set_opt l = set_words_ok l.
Proof.
  unfold set_compat, set_words_ok, so_has_exp, default_set_opt. cbn [so_nx so_xx so_ex so_px so_exat so_pxat so_keepttl so_get orb].
  replace (0 <? 0) with false by reflexivity. cbn [orb]. rewrite !Nat.add_0_r. reflexivity.
Qed.

(* C10: SET with a repeated or combined exclusive option (two of NX/XX, two of EX/PX/EXAT/PXAT) is refused, whatever
   else the option list contains and in whatever order and letter case *)
Theorem set_exclusive_options_rejected ts :
  (2 <= count_if tok_cond ts \/ 2 <= count_if tok_exp ts)%nat ->
  next_set_opts (map bulk ts) default_set_opt = None.
Proof.
  intros H. destruct (next_set_opts (map bulk ts) default_set_opt) as [o'|] eqn:E; [|reflexivity].
  apply (set_opts_complete (length ts)) in E; [|lia]. destruct E as (l & -> & C & _).
  rewrite set_compat_default in C. unfold set_words_ok in C.
  repeat (apply andb_prop in C; destruct C as [C ?]).
  destruct (count_tok_words l C) as [E1 E2]. rewrite E1, E2 in H.
  repeat match goal with H : (_ <=? _)%nat = true |- _ => apply Nat.leb_le in H end. lia.
Qed.

(* ---------- (2) non-string elements ---------- *)
(* a null bulk string, an error, an array: neither Message.String() nor Message.Integer() yields a value *)
Definition novalue (m : resp) : Prop := msg_string m = None /\ msg_integer m = None.

Example null_is_novalue : novalue (RBulk None). Proof. split; reflexivity. Qed.

Lemma next_strings_novalue m : forall a, In m a -> msg_string m = None -> exists r, next_strings a = (inr AOther, r).
Proof.
  induction a as [|x a IH]; intros Hin Hm; [contradiction|]. cbn [next_strings].
  destruct Hin as [->|Hin]; [rewrite Hm; eexists; reflexivity|].
  destruct (msg_string x); [|eexists; reflexivity]. destruct (IH Hin Hm) as [r ->]. eexists; reflexivity.
Qed.

Lemma set_opts_novalue m : novalue m -> forall n a o, (length a <= n)%nat -> In m a -> next_set_opts a o = None.
Proof.
  intros [Hs Hi]. induction n as [|n IH]; intros a o Hn Hin; [destruct a; [contradiction|cbn in Hn; lia]|].
  destruct a as [|x r]; [contradiction|]. cbn [length] in Hn. cbn [next_set_opts].
  destruct Hin as [->|Hin]; [rewrite Hs; reflexivity|].
  destruct (msg_string x) as [t|]; [|reflexivity].
  destruct (kw t "NX"); [destruct (so_nx o || so_xx o); [reflexivity|apply IH; [lia|exact Hin]]|].
  destruct (kw t "XX"); [destruct (so_nx o || so_xx o); [reflexivity|apply IH; [lia|exact Hin]]|].
  destruct (kw t "EX" || kw t "PX" || kw t "EXAT" || kw t "PXAT").
  { match goal with |- (if ?b then _ else _) = _ => destruct b; [reflexivity|] end.
    destruct r as [|v r']; [reflexivity|]. cbn [length] in Hn.
    destruct Hin as [->|Hin]; [rewrite Hi; reflexivity|].
    destruct (msg_integer v) as [z|]; [|reflexivity].
    destruct (z <? 1); [reflexivity|].
    destruct (kw t "EX"); [destruct (SEC_MAX <? z); [reflexivity|apply IH; [lia|exact Hin]]|].
    destruct (kw t "PX"); [destruct (MSEC_MAX <? z); [reflexivity|apply IH; [lia|exact Hin]]|].
    destruct (kw t "EXAT"); [destruct (UNIX_MAX <? z); [reflexivity|apply IH; [lia|exact Hin]]|].
    apply IH; [lia|exact Hin]. }
  destruct (kw t "KEEPTTL"); [destruct (so_keepttl o); [reflexivity|apply IH; [lia|exact Hin]]|].
  destruct (kw t "GET"); [destruct (so_get o); [reflexivity|apply IH; [lia|exact Hin]]|].
  reflexivity.
Qed.

Lemma range_opts_novalue m : novalue m -> forall n a o, (length a <= n)%nat -> In m a -> next_range_opts a o = None.
Proof.
  intros [Hs Hi]. induction n as [|n IH]; intros a o Hn Hin; [destruct a; [contradiction|cbn in Hn; lia]|].
  destruct a as [|x r]; [contradiction|]. cbn [length] in Hn. cbn [next_range_opts].
  destruct Hin as [->|Hin]; [rewrite Hs; reflexivity|].
  destruct (msg_string x) as [t|]; [|reflexivity].
  destruct (kw t "BYSCORE"); [apply IH; [lia|exact Hin]|].
  destruct (kw t "BYLEX"); [apply IH; [lia|exact Hin]|].
  destruct (kw t "REV"); [apply IH; [lia|exact Hin]|].
  destruct (kw t "WITHSCORES"); [apply IH; [lia|exact Hin]|].
  destruct (kw t "LIMIT"); [|apply IH; [lia|exact Hin]].
  destruct r as [|y [|z r']]; try reflexivity. cbn [length] in Hn.
  destruct Hin as [->|[->|Hin]].
  - rewrite Hi. reflexivity.
  - rewrite Hi. destruct (msg_integer y); reflexivity.
  - destruct (msg_integer y); [|reflexivity]. destruct (msg_integer z); [|reflexivity]. apply IH; [lia|exact Hin].
Qed.

Lemma scan_opts_novalue rs m : novalue m -> forall n a o, (length a <= n)%nat -> In m a -> next_scan_opts rs a o = None.
Proof.
  intros [Hs Hi]. induction n as [|n IH]; intros a o Hn Hin; [destruct a; [contradiction|cbn in Hn; lia]|].
  destruct a as [|x r]; [contradiction|]. cbn [length] in Hn. cbn [next_scan_opts].
  destruct Hin as [->|Hin]; [rewrite Hs; reflexivity|].
  destruct (msg_string x) as [t|]; [|reflexivity].
  destruct (kw t "MATCH").
  { destruct r as [|p r']; [reflexivity|]. cbn [length] in Hn. destruct Hin as [->|Hin]; [rewrite Hs; reflexivity|].
    destruct (msg_string p); [|reflexivity]. apply IH; [lia|exact Hin]. }
  destruct (kw t "COUNT").
  { destruct r as [|p r']; [reflexivity|]. cbn [length] in Hn. destruct Hin as [->|Hin]; [rewrite Hi; reflexivity|].
    destruct (msg_integer p); [|reflexivity]. apply IH; [lia|exact Hin]. }
  destruct (kw t "TYPE").
  { destruct r as [|p r']; [reflexivity|]. cbn [length] in Hn. destruct Hin as [->|Hin]; [rewrite Hs; reflexivity|].
    destruct (msg_string p) as [ts|]; [|reflexivity]. destruct (scan_type_of ts); [|reflexivity]. apply IH; [lia|exact Hin]. }
  apply IH; [lia|exact Hin].
Qed.

Lemma zadd_opts_novalue m : msg_string m = None -> forall a o, In m a ->
  zadd_opts a o = None \/ exists o' x r, zadd_opts a o = Some (o', x, r) /\ In m r.
Proof.
  intros Hs. induction a as [|y a IH]; intros o Hin; [contradiction|]. cbn [zadd_opts].
  destruct Hin as [->|Hin]; [rewrite Hs; left; reflexivity|].
  destruct (msg_string y) as [t|]; [|left; reflexivity].
  repeat match goal with |- context [if kw t ?k then _ else _] => destruct (kw t k); [apply IH; exact Hin|] end.
  destruct (parse_float t); [|left; reflexivity]. right. do 3 eexists. split; [reflexivity|exact Hin].
Qed.

Lemma zadd_members_novalue m : msg_string m = None -> forall n a sc, (length a <= n)%nat -> In m a -> zadd_members a sc = None.
Proof.
  intros Hs. induction n as [|n IH]; intros a sc Hn Hin; [destruct a; [contradiction|cbn in Hn; lia]|].
  destruct a as [|x r]; [contradiction|]. cbn [length] in Hn. cbn [zadd_members].
  destruct Hin as [->|Hin]; [rewrite Hs; reflexivity|].
  destruct (msg_string x); [|reflexivity].
  destruct r as [|y r']; [contradiction|]. cbn [length] in Hn.
  destruct Hin as [->|Hin]; [rewrite Hs; reflexivity|].
  destruct (msg_string y) as [ss|]; [|reflexivity]. destruct (parse_float ss); [|reflexivity].
  rewrite (IH r' f); [reflexivity|lia|exact Hin].
Qed.

Section Mal.
  Variable hstate : Type.
  Variable handle : hstate -> Z -> hcall -> hstate * hresult.
  Variable regexp_src : bytes -> bytes.
  Notation est := (est hstate).
  Notation pass := (pass hstate handle).
  Notation exec_of := (exec_of hstate handle regexp_src).

  (* ---------- SET: accepted iff the options are in the grammar ---------- *)
  Theorem set_accepts_only_grammar c k v ts s :
    x_SET hstate handle c (bulk k :: bulk v :: map bulk ts) s = (x_fw, s) \/
    exists ws, valid (QSet k v ws) = true /\ ts = flat_map print_set_word ws /\
               x_SET hstate handle c (bulk k :: bulk v :: map bulk ts) s = pass c (HSet k v (set_opt_of ws)) s.
  Proof.
    unfold x_SET. rewrite !key1_bulk.
    destruct (next_set_opts (map bulk ts) default_set_opt) as [o|] eqn:E; [|left; reflexivity].
    right. apply (set_opts_complete (length ts)) in E; [|lia]. destruct E as (l & -> & C & ->).
    exists l. rewrite set_compat_default in C. repeat split; assumption.
  Qed.

  Theorem set_exclusive_options c k v ts s :
    (2 <= count_if tok_cond ts \/ 2 <= count_if tok_exp ts)%nat ->
    x_SET hstate handle c (bulk k :: bulk v :: map bulk ts) s = (x_fw, s).
  Proof. intros H. unfold x_SET. rewrite !key1_bulk, (set_exclusive_options_rejected ts H). reflexivity. Qed.

  (* ---------- a non-string element where a value is read ---------- *)
  (* the part of the argument list a command reads: fixed-arity commands ignore what follows their last argument *)
  Definition scope (r : req) (a : args) : args :=
    match r with
    | QKeys _ | QType _ | QTTL _ | QGet _ | QHGetAll _ | QLLen _ | QSMembers _ => firstn 1 a
    | QRename _ _ | QRenameNX _ _ | QSetNX _ _ | QGetSet _ _ | QHGet _ _ | QZScore _ _ | QLIndex _ _ | QLPop _ _ | QRPop _ _ => firstn 2 a
    | QExpire _ _ _ | QExpireAt _ _ _ | QSetEX _ _ _ | QHSet _ _ _ | QHSetNX _ _ _ | QLRange _ _ _ | QZIncrBy _ _ _ => firstn 3 a
    | _ => a
    end.

  Lemma strs1_novalue m a : In m a -> msg_string m = None -> strs1 a = None.
  Proof. intros Hin Hs. unfold strs1, next_strings1. destruct (next_strings_novalue m a Hin Hs) as [r ->]. reflexivity. Qed.

  Ltac fixed_arity Hs Hi :=
    repeat (progress (
      cbv beta iota delta [x_KEYS x_TYPE x_TTL x_GET x_HGETALL x_LLEN x_SMEMBERS x_RENAME x_RENAMENX x_SETNX x_GETSET x_HGET x_ZSCORE
           x_LINDEX x_LPOP x_RPOP x_EXPIRE x_EXPIREAT x_SETEX x_HSET x_HSETNX x_hset x_LRANGE x_ZINCRBY
           x_key_only x_key_str x_key_int x_pop key1 int1 float1 next_string next_integer next_expire_opt];
      rewrite ?Hs, ?Hi;
      try match goal with
          | |- context [match msg_string ?x with _ => _ end] => destruct (msg_string x)
          | |- context [match msg_integer ?x with _ => _ end] => destruct (msg_integer x)
          | |- context [match parse_float ?x with _ => _ end] => destruct (parse_float x)
          | |- context [if ?b then _ else _] => destruct b
          end));
    reflexivity.

  Ltac step_str a Hin Hs :=
    destruct a as [|?x a]; [contradiction|]; unfold key1, next_string; cbn beta iota;
    destruct Hin as [->|Hin]; [rewrite Hs; reflexivity|];
    match goal with |- context [msg_string ?y] => destruct (msg_string y); [|reflexivity] end.

  Theorem novalue_rejected r c a s m : In m (scope r a) -> novalue m -> exec_of r c a s = (x_fw, s).
  Proof.
    intros Hin [Hs Hi].
    destruct r; cbn [scope exec_of] in *;
      try (destruct a as [|x0 [|x1 [|x2 a]]]; cbn [firstn In] in Hin;
           repeat match goal with H : _ \/ _ |- _ => destruct H as [H|H] end; try contradiction; subst; fixed_arity Hs Hi).
    - (* DEL *) unfold x_DEL, x_keys. rewrite (strs1_novalue m a Hin Hs). reflexivity.
    - (* EXISTS *) unfold x_EXISTS, x_keys. rewrite (strs1_novalue m a Hin Hs). reflexivity.
    - (* SCAN *) unfold x_SCAN. destruct a as [|x a]; [contradiction|]. unfold int1, next_integer; cbn beta iota.
      destruct Hin as [->|Hin]; [rewrite Hi; reflexivity|]. destruct (msg_integer x); [|reflexivity].
      rewrite (scan_opts_novalue regexp_src m (conj Hs Hi) (length a) a _ (le_n _) Hin). reflexivity.
    - (* SET *) unfold x_SET. step_str a Hin Hs. step_str a Hin Hs.
      rewrite (set_opts_novalue m (conj Hs Hi) (length a) a _ (le_n _) Hin). reflexivity.
    - unfold x_HDEL, x_key_strs. step_str a Hin Hs. rewrite (strs1_novalue m a Hin Hs). reflexivity.
    - unfold x_SADD, x_key_strs. step_str a Hin Hs. rewrite (strs1_novalue m a Hin Hs). reflexivity.
    - unfold x_SREM, x_key_strs. step_str a Hin Hs. rewrite (strs1_novalue m a Hin Hs). reflexivity.
    - unfold x_ZREM, x_key_strs. step_str a Hin Hs. rewrite (strs1_novalue m a Hin Hs). reflexivity.
    - unfold x_LPUSH, x_key_strs. step_str a Hin Hs. rewrite (strs1_novalue m a Hin Hs). reflexivity.
    - unfold x_LPUSHX, x_key_strs. step_str a Hin Hs. rewrite (strs1_novalue m a Hin Hs). reflexivity.
    - unfold x_RPUSH, x_key_strs. step_str a Hin Hs. rewrite (strs1_novalue m a Hin Hs). reflexivity.
    - unfold x_RPUSHX, x_key_strs. step_str a Hin Hs. rewrite (strs1_novalue m a Hin Hs). reflexivity.
    - (* ZADD *) unfold x_ZADD. step_str a Hin Hs.
      destruct (zadd_opts_novalue m Hs a default_zadd_opt Hin) as [->|(o' & sc & r & -> & Hr)]; [reflexivity|].
      rewrite (zadd_members_novalue m Hs (length r) r sc (le_n _) Hr). reflexivity.
    - (* ZRANGE *) unfold x_ZRANGE. step_str a Hin Hs. step_str a Hin Hs. step_str a Hin Hs.
      rewrite (range_opts_novalue m (conj Hs Hi) (length a) a _ (le_n _) Hin). reflexivity.
    - (* ZRANGE BYSCORE *) unfold x_ZRANGE. step_str a Hin Hs. step_str a Hin Hs. step_str a Hin Hs.
      rewrite (range_opts_novalue m (conj Hs Hi) (length a) a _ (le_n _) Hin). reflexivity.
    - (* ZRANGEBYSCORE *) unfold x_ZRANGEBYSCORE. step_str a Hin Hs. unfold rscore1.
      destruct a as [|y a]; [contradiction|]. unfold next_string; cbn beta iota.
      destruct Hin as [->|Hin]; [rewrite Hs; reflexivity|]. destruct (msg_string y) as [ys|]; [|reflexivity].
      destruct (parse_range_score ys) as [[? ?]|]; [|reflexivity].
      destruct a as [|z a]; [contradiction|]. cbn beta iota.
      destruct Hin as [->|Hin]; [rewrite Hs; reflexivity|]. destruct (msg_string z) as [zs|]; [|reflexivity].
      destruct (parse_range_score zs) as [[? ?]|]; [|reflexivity].
      rewrite (range_opts_novalue m (conj Hs Hi) (length a) a _ (le_n _) Hin). reflexivity.
  Qed.

  (* ---------- (3) a token that is not a number where a number is required ---------- *)
  Ltac num_tac Hi :=
    repeat (progress (
      cbv beta iota delta [x_LINDEX x_LPOP x_RPOP x_EXPIRE x_EXPIREAT x_SETEX x_LRANGE x_ZINCRBY x_SCAN x_ZRANGEBYSCORE
           x_key_int x_pop key1 int1 float1 rscore1 next_string next_integer];
      rewrite ?Hi;
      try match goal with
          | |- context [match msg_string ?x with _ => _ end] => destruct (msg_string x) eqn:?
          | |- context [match msg_integer ?x with _ => _ end] => destruct (msg_integer x) eqn:?
          | |- context [match parse_float ?x with _ => _ end] => destruct (parse_float x) eqn:?
          | |- context [match parse_range_score ?x with _ => _ end] => destruct (parse_range_score x) as [[? ?]|] eqn:?
          | |- context [if ?b then _ else _] => destruct b eqn:?
          end)).

  (* positions (after the command name) at which the command requires an integer *)
  Definition int_pos (r : req) : list nat :=
    match r with
    | QExpire _ _ _ | QExpireAt _ _ _ | QSetEX _ _ _ | QLIndex _ _ | QLPop _ _ | QRPop _ _ => [1%nat]
    | QLRange _ _ _ => [1%nat; 2%nat]
    | QScan _ _ => [0%nat]
    | _ => []
    end.

  (* msg_integer m = None: null, non-numeric text, a fraction, or a numeral outside int64 (Atoi range error) *)
  Theorem non_integer_rejected r c a s p m :
    In p (int_pos r) -> nth_error a p = Some m -> msg_integer m = None -> exec_of r c a s = (x_fw, s).
  Proof.
    intros Hp Hn Hi.
    destruct r; cbn [int_pos In] in Hp; try contradiction; cbn [exec_of];
      repeat match goal with H : _ \/ _ |- _ => destruct H as [H|H] end; try contradiction; subst p;
      destruct a as [|x0 [|x1 [|x2 a]]]; cbn [nth_error] in Hn; try discriminate; injection Hn as ->;
      num_tac Hi; reflexivity.
  Qed.

  (* a numeral outside the range the command accepts (seconds / timestamps that would overflow a duration) *)
  Definition int_range (r : req) : option (Z * Z) :=
    match r with
    | QExpire _ _ _ => Some (- SEC_MAX, SEC_MAX)
    | QExpireAt _ _ _ => Some (- UNIX_MAX, UNIX_MAX)
    | QSetEX _ _ _ => Some (1, SEC_MAX)
    | _ => None
    end.

  Theorem out_of_range_rejected r c a s m z lo hi :
    int_range r = Some (lo, hi) -> nth_error a 1 = Some m -> msg_integer m = Some z -> (z < lo \/ hi < z) ->
    exec_of r c a s = (x_fw, s).
  Proof.
    intros Hr Hn Hi Hz.
    destruct r; cbn [int_range] in Hr; try discriminate; injection Hr as <- <-; cbn [exec_of];
      destruct a as [|x0 [|x1 a]]; cbn [nth_error] in Hn; try discriminate; injection Hn as ->;
      num_tac Hi; try reflexivity; exfalso;
      repeat match goal with
             | H : (_ || _) = false |- _ => apply orb_false_elim in H; destruct H
             | H : (_ <? _) = false |- _ => apply Z.ltb_ge in H
             end; unfold SEC_MAX, UNIX_MAX in *; lia.
  Qed.

  Definition nofloat (m : resp) : Prop := forall t, msg_string m = Some t -> parse_float t = None.
  Definition norange (m : resp) : Prop := forall t, msg_string m = Some t -> parse_range_score t = None.

  Theorem zincrby_non_float_rejected c a s m : nth_error a 1 = Some m -> nofloat m -> x_ZINCRBY hstate handle c a s = (x_fw, s).
  Proof.
    intros Hn Hf. destruct a as [|x0 [|x1 a]]; cbn [nth_error] in Hn; try discriminate; injection Hn as ->.
    unfold x_ZINCRBY, key1, float1, next_string. destruct (msg_string x0); [|reflexivity].
    destruct (msg_string m) as [t|] eqn:E; [|reflexivity]. rewrite (Hf t E). reflexivity.
  Qed.

  Theorem zrangebyscore_bad_bound_rejected c a s p m :
    (p = 1 \/ p = 2)%nat -> nth_error a p = Some m -> norange m -> x_ZRANGEBYSCORE hstate handle c a s = (x_fw, s).
  Proof.
    intros Hp Hn Hf. destruct a as [|x0 [|x1 [|x2 a]]]; destruct Hp; subst p; cbn [nth_error] in Hn; try discriminate; injection Hn as ->;
      unfold x_ZRANGEBYSCORE, key1, rscore1, next_string; (destruct (msg_string x0); [|reflexivity]).
    - destruct (msg_string m) as [t|] eqn:E; [|reflexivity]. rewrite (Hf t E). reflexivity.
    - destruct (msg_string m) as [t|] eqn:E; [|reflexivity]. rewrite (Hf t E). reflexivity.
    - destruct (msg_string x1) as [t1|]; [|reflexivity]. destruct (parse_range_score t1) as [[? ?]|]; [|reflexivity].
      destruct (msg_string m) as [t|] eqn:E; [|reflexivity]. rewrite (Hf t E). reflexivity.
  Qed.

  (* ZRANGE reads its bounds as integers, or as score bounds when BYSCORE is among the options: a token that is neither *)
  Theorem zrange_bad_bound_rejected c a s p m :
    (p = 1 \/ p = 2)%nat -> nth_error a p = Some m ->
    (forall t, msg_string m = Some t -> atoi t = None /\ parse_range_score t = None) ->
    x_ZRANGE hstate handle c a s = (x_fw, s).
  Proof.
    intros Hp Hn Hf. unfold x_ZRANGE, key1, next_string.
    destruct a as [|x0 [|x1 [|x2 a]]]; destruct Hp; subst p; cbn [nth_error] in Hn; try discriminate; injection Hn as ->;
      (destruct (msg_string x0); [|reflexivity]).
    - destruct (msg_string m) as [t|] eqn:E; reflexivity.
    - destruct (msg_string m) as [t|] eqn:E; [|reflexivity]. destruct (Hf t eq_refl) as [F1 F2].
      destruct (msg_string x2); [|reflexivity]. destruct (next_range_opts a default_zrange_opt); [|reflexivity].
      rewrite F1, F2. destruct (zr_byscore z); reflexivity.
    - destruct (msg_string x1) as [t1|]; [|reflexivity].
      destruct (msg_string m) as [t|] eqn:E; [|reflexivity]. destruct (Hf t eq_refl) as [F1 F2].
      destruct (next_range_opts a default_zrange_opt); [|reflexivity].
      rewrite F1, F2. destruct (zr_byscore z); [destruct (parse_range_score t1) as [[? ?]|]|destruct (atoi t1)]; reflexivity.
  Qed.

  (* ZADD: a score token that is not a float numeral (first score: and not an option word) *)
  Theorem zadd_bad_first_score_rejected c k ws m t rest s :
    forallb za_word_ok ws = true -> msg_string m = Some t -> is_za_kw t = false -> parse_float t = None ->
    x_ZADD hstate handle c (bulk k :: map bulk (map za_txt ws) ++ m :: rest) s = (x_fw, s).
  Proof.
    intros Hok Hm Hk Hf. unfold x_ZADD. rewrite key1_bulk.
    assert (E : forall o, zadd_opts (map bulk (map za_txt ws) ++ m :: rest) o = None).
    { induction ws as [|x ws IH]; intros o.
      - cbn [map app zadd_opts]. rewrite Hm. unfold is_za_kw in Hk.
        repeat (apply orb_false_elim in Hk; destruct Hk as [Hk ?]).
        repeat match goal with H : kw _ _ = false |- _ => rewrite H; clear H end. rewrite Hf. reflexivity.
      - cbn [forallb] in Hok. apply andb_prop in Hok. destruct Hok as [Hx Hok]. cbn [map app].
        destruct x as [w|w|w|w|w|w]; cbn [za_txt zadd_opts bulk msg_string za_word_ok] in *;
          apply andb_prop in Hx; destruct Hx as [H1 H2]; kwc H1 H2; apply IH; assumption. }
    rewrite E. reflexivity.
  Qed.

  Theorem zadd_bad_later_score_rejected : forall more score mem m t rest,
    forallb (fun p : fltok * bytes => fltok_ok (fst p)) more = true -> msg_string m = Some t -> parse_float t = None ->
    zadd_members (bulk mem :: flat_map (fun p : fltok * bytes => [bulk (ft_txt (fst p)); bulk (snd p)]) more ++ m :: rest) score = None.
  Proof.
    induction more as [|[tk mb] more IH]; intros score mem m t rest H Hm Hf.
    - cbn [flat_map app zadd_members bulk msg_string]. rewrite Hm, Hf. reflexivity.
    - cbn [forallb fst] in H. apply andb_prop in H. destruct H as [Ht Hmore].
      cbn [flat_map app fst snd]. rewrite zadd_members_step, (fltok_float tk Ht), (IH (ft_val tk) mb m t rest Hmore Hm Hf). reflexivity.
  Qed.

  (* option operands: LIMIT offset count (ZRANGE, ZRANGEBYSCORE, ZREVRANGE...), COUNT n (SCAN) *)
  Lemma range_opts_app : forall l rest o, forallb zr_word_ok l = true ->
    next_range_opts (map bulk (flat_map print_zr_word l) ++ rest) o = next_range_opts rest (fold_left apply_zr_word l o).
  Proof.
    induction l as [|x l IH]; intros rest o H; [reflexivity|].
    cbn [forallb] in H. apply andb_prop in H. destruct H as [Hx Hok].
    cbn [flat_map fold_left]. rewrite map_app, <- app_assoc.
    destruct x as [w|w|w|w|w a b]; cbn [print_zr_word map app next_range_opts bulk msg_string zr_word_ok apply_zr_word] in *;
      repeat (apply andb_prop in Hx; destruct Hx as [Hx ?]);
      match goal with H1 : word_ok w = true, H2 : String.eqb _ _ = true |- _ => kwc H1 H2 end; try (apply IH; exact Hok).
    unfold msg_integer, bulk.
    repeat match goal with H : inttok_ok _ = true |- _ => rewrite (inttok_atoi _ H); clear H end.
    apply IH; exact Hok.
  Qed.

  Theorem limit_bad_operand_rejected l w x y rest o :
    forallb zr_word_ok l = true -> kw w "LIMIT" = true -> (msg_integer x = None \/ msg_integer y = None) ->
    next_range_opts (map bulk (flat_map print_zr_word l) ++ bulk w :: x :: y :: rest) o = None.
  Proof.
    intros Hl Hw Hxy. rewrite range_opts_app by exact Hl. cbn [next_range_opts bulk msg_string].
    assert (W : word_ok (mkw w "LIMIT") = true) by exact Hw.
    assert (W2 : String.eqb (w_kw (mkw w "LIMIT")) "LIMIT" = true) by reflexivity.
    change w with (w_txt (mkw w "LIMIT")). kwc W W2.
    destruct Hxy as [->| ->]; [reflexivity|]. destruct (msg_integer x); reflexivity.
  Qed.

  Lemma scan_opts_app : forall l rest o, forallb sc_word_ok l = true ->
    next_scan_opts regexp_src (map bulk (flat_map print_sc_word l) ++ rest) o =
    next_scan_opts regexp_src rest (fold_left (apply_sc_word regexp_src) l o).
  Proof.
    induction l as [|x l IH]; intros rest o H; [reflexivity|].
    cbn [forallb] in H. apply andb_prop in H. destruct H as [Hx Hok].
    cbn [flat_map fold_left]. rewrite map_app, <- app_assoc.
    destruct x as [w p|w n|w t v]; cbn [print_sc_word map app next_scan_opts bulk msg_string sc_word_ok apply_sc_word] in *;
      repeat (apply andb_prop in Hx; destruct Hx as [Hx ?]);
      match goal with H1 : word_ok w = true, H2 : String.eqb _ _ = true |- _ => kwc H1 H2 end.
    - apply IH; exact Hok.
    - unfold msg_integer, bulk. match goal with H : inttok_ok _ = true |- _ => rewrite (inttok_atoi _ H) end. apply IH; exact Hok.
    - destruct (scan_type_of t) as [z|]; [|discriminate].
      match goal with H : (z =? v) = true |- _ => apply Z.eqb_eq in H; subst z end. apply IH; exact Hok.
  Qed.

  Theorem scan_count_bad_operand_rejected l w x rest o :
    forallb sc_word_ok l = true -> kw w "COUNT" = true -> msg_integer x = None ->
    next_scan_opts regexp_src (map bulk (flat_map print_sc_word l) ++ bulk w :: x :: rest) o = None.
  Proof.
    intros Hl Hw Hx. rewrite scan_opts_app by exact Hl. cbn [next_scan_opts bulk msg_string].
    assert (W : word_ok (mkw w "COUNT") = true) by exact Hw.
    assert (W2 : String.eqb (w_kw (mkw w "COUNT")) "COUNT" = true) by reflexivity.
    change w with (w_txt (mkw w "COUNT")). kwc W W2. rewrite Hx. reflexivity.
  Qed.
End Mal.
