(* Base.v — bytes, Go int (64-bit), strconv.Itoa / strconv.Atoi, run-time failure as a value.
   Model only; proofs are in BaseFacts.v. *)
From Coq Require Export List ZArith NArith Bool Lia.
From Coq Require Import Decimal DecimalZ DecimalN DecimalPos.
Export ListNotations.
Open Scope Z_scope.

Definition byte := N.
Definition bytes := list N.

Definition CR : N := 13%N.
Definition LF : N := 10%N.
Definition CRLF : bytes := [CR; LF].
Definition SP : N := 32%N.
Definition ch_star : N := 42%N.    (* '*' *)
Definition ch_dollar : N := 36%N.  (* '$' *)
Definition ch_plus : N := 43%N.    (* '+' *)
Definition ch_minus : N := 45%N.   (* '-' *)
Definition ch_colon : N := 58%N.   (* ':' *)
Definition ch_zero : N := 48%N.    (* '0' *)

Fixpoint bytes_eqb (a b : bytes) : bool :=
  match a, b with
  | [], [] => true
  | x :: a', y :: b' => N.eqb x y && bytes_eqb a' b'
  | _, _ => false
  end.

(* ---------- Go int: 64-bit two's complement ---------- *)
Definition min64 : Z := - 2 ^ 63.
Definition max64 : Z := 2 ^ 63 - 1.
Definition in64 (z : Z) : bool := (min64 <=? z) && (z <=? max64).
Definition wrap64 (z : Z) : Z := ((z + 2 ^ 63) mod 2 ^ 64) - 2 ^ 63.

(* ---------- run-time failure is a value ---------- *)
Inductive outcome (A : Type) : Type :=
| Ok (a : A)
| Panic.                         (* Go run-time panic: index/slice out of range, nil dereference, makeslice *)
Arguments Ok {A} a.
Arguments Panic {A}.

Definition obind {A B} (o : outcome A) (f : A -> outcome B) : outcome B :=
  match o with Ok a => f a | Panic => Panic end.

(* s[a:b] on a Go string/slice of length len: panics unless 0 <= a <= b <= len *)
Definition go_slice {A} (l : list A) (a b : Z) : outcome (list A) :=
  if (0 <=? a) && (a <=? b) && (b <=? Z.of_nat (length l))
  then Ok (firstn (Z.to_nat (b - a)) (skipn (Z.to_nat a) l))
  else Panic.

(* ---------- decimal digits ---------- *)
Fixpoint bytes_of_uint (u : Decimal.uint) : bytes :=
  match u with
  | Nil => []
  | D0 u => 48%N :: bytes_of_uint u
  | D1 u => 49%N :: bytes_of_uint u
  | D2 u => 50%N :: bytes_of_uint u
  | D3 u => 51%N :: bytes_of_uint u
  | D4 u => 52%N :: bytes_of_uint u
  | D5 u => 53%N :: bytes_of_uint u
  | D6 u => 54%N :: bytes_of_uint u
  | D7 u => 55%N :: bytes_of_uint u
  | D8 u => 56%N :: bytes_of_uint u
  | D9 u => 57%N :: bytes_of_uint u
  end.

Definition is_digit (b : N) : bool := (48 <=? b)%N && (b <=? 57)%N.

Fixpoint uint_of_bytes (bs : bytes) : option Decimal.uint :=
  match bs with
  | [] => Some Nil
  | b :: r =>
    match uint_of_bytes r with
    | None => None
    | Some u =>
      if (b =? 48)%N then Some (D0 u) else
      if (b =? 49)%N then Some (D1 u) else
      if (b =? 50)%N then Some (D2 u) else
      if (b =? 51)%N then Some (D3 u) else
      if (b =? 52)%N then Some (D4 u) else
      if (b =? 53)%N then Some (D5 u) else
      if (b =? 54)%N then Some (D6 u) else
      if (b =? 55)%N then Some (D7 u) else
      if (b =? 56)%N then Some (D8 u) else
      if (b =? 57)%N then Some (D9 u) else None
    end
  end.

(* strconv.Itoa *)
Definition itoa (z : Z) : bytes :=
  match Z.to_int z with
  | Decimal.Pos u => bytes_of_uint u
  | Decimal.Neg u => ch_minus :: bytes_of_uint u
  end.

(* strconv.Atoi on a 64-bit platform: optional sign, at least one digit, only digits
   (leading zeros accepted), value inside int64; anything else is an error (None). *)
Definition atoi_digits (neg : bool) (ds : bytes) : option Z :=
  match ds with
  | [] => None
  | _ =>
    match uint_of_bytes ds with
    | None => None
    | Some u =>
      let m := Z.of_N (N.of_uint u) in
      let z := if neg then - m else m in
      if in64 z then Some z else None
    end
  end.

Definition atoi (bs : bytes) : option Z :=
  match bs with
  | [] => None
  | b :: r =>
    if (b =? ch_minus)%N then atoi_digits true r
    else if (b =? ch_plus)%N then atoi_digits false r
    else atoi_digits false bs
  end.

(* ASCII upper-casing (strings.ToUpper restricted to ASCII; see DESIGN 4/C05) *)
Definition upper_byte (b : N) : N := if (97 <=? b)%N && (b <=? 122)%N then (b - 32)%N else b.
Definition upper (bs : bytes) : bytes := map upper_byte bs.

(* string literal helper: bytes of an ASCII Coq string *)
From Coq Require Import String Ascii.
Fixpoint bytes_of_string (s : string) : bytes :=
  match s with
  | EmptyString => []
  | String a r => N_of_ascii a :: bytes_of_string r
  end.
Notation "'B' s" := (bytes_of_string s%string) (at level 0, s at level 0, only parsing).
