(* GlobFacts.v — the text built by regexp_from_glob parses into the fragment, and the fragment's
   matcher agrees with glob_match on every key. *)
From GR Require Import Base Glob.
Open Scope N_scope.

Lemma is_meta_false c : is_meta c = false ->
  (c =? ch_doll) = false /\ (c =? ch_bs) = false /\ (c =? ch_dot) = false /\ (c =? ch_star) = false /\ (c =? ch_qm) = false.
Proof.
  unfold is_meta. cbn [existsb]. intros H.
  repeat match type of H with (_ || _) = false => apply orb_false_iff in H; destruct H as [? H] end.
  unfold ch_doll, ch_bs, ch_dot, ch_star, ch_qm. repeat split; assumption.
Qed.

Lemma is_meta_true_not c : is_meta c = true -> True. Proof. trivial. Qed.

Definition head_not_star (s : bytes) : Prop :=
  match s with d :: _ => (d =? ch_star) = false | [] => False end.

Lemma conv_head_not_star c rest : head_not_star (conv c ++ rest).
Proof.
  unfold conv. destruct (c =? ch_star) eqn:E1; [reflexivity|].
  destruct (c =? ch_qm) eqn:E2; [reflexivity|].
  destruct (is_meta c) eqn:E3; [reflexivity|]. cbn. exact E1.
Qed.

Lemma body_head_not_star p : head_not_star (flat_map conv p ++ [ch_doll]).
Proof.
  destruct p as [|c p]; cbn [flat_map]; [reflexivity|].
  rewrite <- app_assoc. apply conv_head_not_star.
Qed.

Lemma parse_body p : forall fuel,
  (length (flat_map conv p) + 1 <= fuel)%nat ->
  re_parse_body fuel (flat_map conv p ++ [ch_doll]) = Some (map item_of p).
Proof.
  induction p as [|c p IH]; intros fuel Hf.
  - cbn in Hf. destruct fuel as [|f]; [lia|]. reflexivity.
  - cbn [flat_map map] in *. rewrite app_length in Hf. rewrite <- app_assoc.
    pose proof (body_head_not_star p) as Hh.
    set (body := flat_map conv p) in *.
    unfold conv in *. unfold item_of at 1.
    destruct (c =? ch_star) eqn:E1.
    + cbn [length app] in *. destruct fuel as [|f]; [lia|].
      cbn [re_parse_body]. change (ch_dot =? ch_doll) with false. change (ch_dot =? ch_bs) with false.
      change (ch_dot =? ch_dot) with true. change (ch_star =? ch_star) with true. cbn iota.
      rewrite IH by lia. reflexivity.
    + destruct (c =? ch_qm) eqn:E2.
      * cbn [length app] in *. destruct fuel as [|f]; [lia|].
        specialize (IH f ltac:(lia)).
        destruct (body ++ [ch_doll]) as [|d r'] eqn:Er; [contradiction|].
        cbn in Hh.
        cbn [re_parse_body]. change (ch_dot =? ch_doll) with false. change (ch_dot =? ch_bs) with false.
        change (ch_dot =? ch_dot) with true. cbn iota. rewrite Hh. rewrite IH. reflexivity.
      * destruct (is_meta c) eqn:E3.
        -- cbn [length app] in *. destruct fuel as [|f]; [lia|].
           cbn [re_parse_body]. change (ch_bs =? ch_doll) with false. change (ch_bs =? ch_bs) with true. cbn iota.
           rewrite E3. rewrite IH by lia. reflexivity.
        -- cbn [length app] in *. destruct fuel as [|f]; [lia|].
           destruct (is_meta_false c E3) as (A1 & A2 & A3 & _).
           cbn [re_parse_body]. rewrite A1, A2, A3, E3. rewrite IH by lia. reflexivity.
Qed.

Lemma strip_prefix_app pre s : strip_prefix pre (pre ++ s) = Some s.
Proof. induction pre as [|a pre IH]; cbn; [reflexivity|]. rewrite N.eqb_refl. exact IH. Qed.

Lemma re_parse_regexp_from_glob p : re_parse (regexp_from_glob p) = Some (map item_of p).
Proof.
  unfold re_parse, regexp_from_glob. rewrite strip_prefix_app.
  apply parse_body. rewrite app_length. cbn. lia.
Qed.

Lemma re_match_items p : forall k, re_match (map item_of p) k = glob_match p k.
Proof.
  induction p as [|c p IH]; intros k; [reflexivity|].
  cbn [map]. unfold item_of at 1. cbn [glob_match].
  destruct (c =? ch_star) eqn:E1.
  - cbn [re_match]. induction k as [|x k IHk].
    + rewrite IH. reflexivity.
    + rewrite IH. f_equal. exact IHk.
  - destruct (c =? ch_qm) eqn:E2.
    + cbn [re_match]. destruct k; [reflexivity|apply IH].
    + cbn [re_match]. destruct k; [reflexivity|]. rewrite IH. reflexivity.
Qed.

(* C17, main statement: for EVERY pattern and key the rewritten text is inside the fragment (so it
   compiles), and matching it — anchored, dot-all — is exactly glob matching. *)
Theorem glob_regexp_correct p k :
  exists r, re_parse (regexp_from_glob p) = Some r /\ re_match r k = glob_match p k.
Proof. exists (map item_of p). split; [apply re_parse_regexp_from_glob|apply re_match_items]. Qed.

(* what glob_match means, stated independently as a relation (sanity of the specification) *)
Inductive gm : bytes -> bytes -> Prop :=
| gm_nil : gm [] []
| gm_star_skip p k : gm p k -> gm (ch_star :: p) k
| gm_star_eat p x k : gm (ch_star :: p) k -> gm (ch_star :: p) (x :: k)
| gm_qm p x k : gm p k -> gm (ch_qm :: p) (x :: k)
| gm_lit c p k : (c =? ch_star) = false -> (c =? ch_qm) = false -> gm p k -> gm (c :: p) (c :: k).

Theorem glob_match_spec p : forall k, glob_match p k = true <-> gm p k.
Proof.
  induction p as [|c p IH]; intros k.
  - destruct k; cbn; split; intros H; try constructor; try discriminate. inversion H.
  - cbn [glob_match]. destruct (c =? ch_star) eqn:E1.
    + apply N.eqb_eq in E1; subst c.
      induction k as [|x k IHk].
      * rewrite orb_false_r. rewrite IH. split; intros H; [constructor; assumption|].
        inversion H; subst; assumption.
      * rewrite orb_true_iff. rewrite IH, IHk. split.
        -- intros [H|H]; [apply gm_star_skip|apply gm_star_eat]; assumption.
        -- intros H. inversion H; subst; auto. 
           all: try (match goal with H : (ch_star =? ch_star) = false |- _ => discriminate H end).
    + destruct (c =? ch_qm) eqn:E2.
      * apply N.eqb_eq in E2; subst c. destruct k as [|x k].
        -- split; intros H; [discriminate|inversion H; subst; discriminate].
        -- rewrite IH. split; intros H; [constructor; assumption|].
           inversion H; subst; try assumption; try discriminate.
      * destruct k as [|x k].
        -- split; intros H; [discriminate|]. inversion H; subst; try discriminate.
        -- rewrite andb_true_iff, N.eqb_eq, IH. split.
           ++ intros [-> H]. apply gm_lit; assumption.
           ++ intros H. inversion H; subst; try discriminate; auto.
              all: try (rewrite N.eqb_refl in E1; discriminate); try (rewrite N.eqb_refl in E2; discriminate).
Qed.
