(* LifecycleThms.v — the invariant holds in every state reachable under ANY schedule, and what it means where the API
   promises something. *)
From Coq Require Import List Arith Bool Lia.
Import ListNotations.
From GR Require Import Lifecycle LifecycleFacts.

Theorem inv_step s l s' : Inv s -> lstep s l = Some s' -> Inv s'.
Proof.
  intros I H. destruct l.
  - eapply inv_start_begin; eauto.
  - eapply inv_start_open; eauto.
  - eapply inv_spawn_plain; eauto.
  - eapply inv_spawn_tls; eauto.
  - eapply inv_stop_begin; eauto.
  - eapply inv_stop_close_lis; eauto.
  - eapply inv_stop_wait_accept; eauto.
  - eapply inv_stop_close_reg; eauto.
  - eapply inv_stop_close_conns; eauto.
  - eapply inv_stop_wait_conns; eauto.
  - eapply inv_accept_ok; eauto.
  - eapply inv_accept_fail; eauto.
  - eapply inv_handshake_fail; eauto.
  - eapply inv_enter; eauto.
  - eapply inv_reject; eauto.
  - eapply inv_finish; eauto.
Qed.

Theorem inv_run : forall ls s, Inv s -> Inv (lrun s ls).
Proof.
  induction ls as [|l ls IH]; intros s I; [exact I|]. cbn [lrun fold_left].
  destruct (lstep s l) as [s'|] eqn:E; [apply IH; eapply inv_step; eauto|apply IH; exact I].
Qed.

(* every state reachable from a fresh server, under every schedule of API steps, accept-loop steps, connection-goroutine
   steps and client arrivals, satisfies the invariant *)
Theorem reachable_inv p t ls : Inv (lrun (init p t) ls).
Proof. apply inv_run, inv_init. Qed.

(* C15 (2): whenever Stop has returned (the API thread is at PStopped) no listener is open, the registry is empty, every
   accept loop has returned and every connection goroutine has returned with its socket closed *)
Theorem stopped_clean s : Inv s -> pc s = PStopped ->
  open_lis s = [] /\ (forall a, In a (loops s) -> al_done a = true) /\
  (conn_wg s = 0 -> registry s = [] /\ forall c, In c (conns s) -> ct_st c = CDone /\ ct_open c = false).
Proof.
  intros I P. split; [|split].
  - apply (i_closed s I). unfold stopped_phase. rewrite P. auto 10.
  - apply (i_noloops s I). unfold no_loop_phase. rewrite P. auto 10.
  - intros W.
    assert (AD : forall c, In c (conns s) -> ct_st c = CDone).
    { intros c Hc. pose proof (i_cwg s I) as A. rewrite W in A. symmetry in A. pose proof (count_zero not_done (conns s) A c Hc) as Z.
      unfold not_done in Z. destruct (ct_st c); try discriminate; reflexivity. }
    split.
    + destruct (registry s) as [|id r] eqn:R; [reflexivity|]. exfalso.
      destruct (i_reg s I id) as (c & Hc & _ & St); [rewrite R; left; reflexivity|]. rewrite (AD c Hc) in St. discriminate.
    + intros c Hc. split; [exact (AD c Hc)|]. apply (i_done s I c Hc). exact (AD c Hc).
Qed.

(* the step that lets Stop return is enabled only when the connection WaitGroup is zero, so at the moment Stop returns
   the strong conclusion holds *)
Theorem stop_returns_clean s s' : Inv s -> lstep s LStopWaitConns = Some s' ->
  pc s' = PStopped /\ open_lis s' = [] /\ registry s' = [] /\ (forall a, In a (loops s') -> al_done a = true) /\
  (forall c, In c (conns s') -> ct_st c = CDone /\ ct_open c = false).
Proof.
  intros I H. pose proof (inv_step s _ s' I H) as I'.
  cbn [lstep] in H. destruct (pc s) eqn:P; try discriminate. destruct (conn_wg s) eqn:W; try discriminate. inversion H; subst; clear H.
  destruct (stopped_clean _ I' eq_refl) as (A & B & C). destruct (C eq_refl) as [C1 C2]. cbn in *. auto.
Qed.

(* C15 (1): whenever Start has returned and Stop has not begun (PRunning), every enabled port has an open listener held by
   an accept loop that has not returned — so a client arriving on it is accepted (LAcceptOk is enabled) *)
Theorem running_serves s : Inv s -> pc s = PRunning ->
  (cfg_plain s = true -> exists l, fld_plain s = Some l /\ lstep s (LAcceptOk l) <> None) /\
  (cfg_tls s = true -> exists l, fld_tls s = Some l /\ lstep s (LAcceptOk l) <> None).
Proof.
  intros I P.
  assert (En : forall fld, serving s fld -> exists l, fld = Some l /\ lstep s (LAcceptOk l) <> None).
  { intros fld (l & E & Hin & a & Ha & A1 & A2). exists l. split; [exact E|]. cbn [lstep].
    destruct (find_loop l (loops s)) as [a'|] eqn:FL.
    - apply mem_nat_in in Hin. rewrite Hin. destruct (stopping s); discriminate.
    - exfalso. unfold find_loop in FL. apply (find_none _ _ FL a) in Ha. rewrite A1, Nat.eqb_refl, A2 in Ha. discriminate. }
  split; intros Hc.
  - destruct (fld_plain s) as [l|] eqn:F; [|exfalso; apply (i_cfg_p s I ltac:(rewrite P; auto 10) Hc); exact F].
    rewrite <- F. apply En. apply (i_run_p s I ltac:(rewrite P; auto 10) l F).
  - destruct (fld_tls s) as [l|] eqn:F; [|exfalso; apply (i_cfg_t s I ltac:(rewrite P; auto 10) Hc); exact F].
    rewrite <- F. apply En. apply (i_run_t s I ltac:(rewrite P; auto 10) l F).
Qed.

(* C15 (3): outside Stop's close phase the registry holds exactly the connections between registration and
   deregistration *)
Theorem registry_exact s : Inv s -> exact_phase (pc s) ->
  forall id, In id (registry s) <-> exists c, In c (conns s) /\ ct_id c = id /\ ct_st c = CRegistered.
Proof.
  intros I P id. split; [apply (i_reg s I)|]. intros (c & Hc & <- & St). apply (i_exact s I P c Hc St).
Qed.

(* C09 (2) / C19: a failed handshake or a rejected certificate ends that one connection — socket closed, goroutine done,
   never registered — and changes nothing else: listeners, accept loops, registry and every other connection stay as
   they were *)
Theorem handshake_failure_contained s s' id : lstep s (LHandshakeFail id) = Some s' \/ lstep s (LReject id) = Some s' ->
  open_lis s' = open_lis s /\ fld_plain s' = fld_plain s /\ fld_tls s' = fld_tls s /\ loops s' = loops s /\ registry s' = registry s /\
  accept_wg s' = accept_wg s /\ pc s' = pc s /\
  (forall c, In c (conns s) -> ct_id c <> id -> In c (conns s')) /\
  (forall c, In c (conns s') -> ct_id c = id -> ct_st c = CDone /\ ct_open c = false).
Proof.
  intros H. assert (E : lstep s (LHandshakeFail id) = Some s') by (destruct H as [H|H]; exact H). clear H.
  cbn [lstep] in E. destruct (find_conn id (conns s)) as [c|] eqn:FC; try discriminate.
  destruct (ct_st c); try discriminate. destruct (ct_tls c); try discriminate. inversion E; subst; clear E. cbn.
  repeat split; try reflexivity.
  - intros c0 Hc0 Hne. replace c0 with (if Nat.eqb (ct_id c0) id then finish_conn c0 else c0); [apply in_set_conn_intro; exact Hc0|].
    destruct (Nat.eqb (ct_id c0) id) eqn:E1; [apply Nat.eqb_eq in E1; congruence|reflexivity].
  - apply in_set_conn in H. destruct H as (c1 & Hc1 & ->). destruct (Nat.eqb (ct_id c1) id) eqn:E1; [reflexivity|apply Nat.eqb_neq in E1; cbn in *; congruence].
  - apply in_set_conn in H. destruct H as (c1 & Hc1 & ->). destruct (Nat.eqb (ct_id c1) id) eqn:E1; [reflexivity|apply Nat.eqb_neq in E1; cbn in *; congruence].
Qed.

(* an executable schedule: Start, two clients (one plain let_in, one TLS whose handshake fails), Stop *)
Example lifecycle_ex :
  let ls := [LStartBegin; LStartOpen; LStartSpawnPlain; LStartSpawnTLS; LAcceptOk 0; LAcceptOk 1; LEnter 2; LHandshakeFail 3;
             LStopBegin; LStopCloseLis; LAcceptFail 0; LAcceptFail 1; LStopWaitAccept; LStopCloseReg; LStopCloseConns; LFinish 2; LStopWaitConns] in
  let s := lrun (init true true) ls in
  pc s = PStopped /\ registry s = [] /\ open_lis s = [] /\ conn_wg s = 0 /\ accept_wg s = 0 /\ length (conns s) = 2.
Proof. vm_compute. repeat split; reflexivity. Qed.

(* ---------- an executable scheduler for the correspondence run (C15): API calls run to completion, goroutines run to
   quiescence after each one; what it predicts for a sequence of lifecycle calls and client arrivals is compared with
   what the real server shows ---------- *)
Inductive lop := OStart | OStop | ORestart | OPlain | OTLS | ODisc | OReject | OHsFail.
Inductive lobs := ObsRet (ok : bool) | ObsReg (n : nat) | ObsSkip.

Definition is_running (s : sys) : bool := match pc s with PRunning => true | _ => false end.
Definition is_stopped (s : sys) : bool := match pc s with PStopped => true | _ => false end.

Definition do_start (s : sys) : sys := lrun s [LStartBegin; LStartOpen; LStartSpawnPlain; LStartSpawnTLS].
Definition do_stop (s : sys) : sys :=
  let s1 := lrun s [LStopBegin; LStopCloseLis] in
  let s2 := lrun s1 (map (fun a => LAcceptFail (al_lis a)) (loops s1) ++ [LStopWaitAccept; LStopCloseReg; LStopCloseConns]) in
  lrun s2 (map (fun c => LFinish (ct_id c)) (conns s2) ++ map (fun c => LHandshakeFail (ct_id c)) (conns s2) ++ [LStopWaitConns]).

Definition life_op (st : sys * list nat) (o : lop) : (sys * list nat) * lobs :=
  let (s, clients) := st in
  match o with
  | OStart =>      (* Start on a server that is not stopped returns an error and changes nothing: it keeps serving until Stop *)
    if is_stopped s then let s' := do_start s in ((s', clients), ObsRet (is_running s')) else (st, ObsRet false)
  | OStop => let s' := do_stop s in ((s', []), ObsRet (is_stopped s'))
  | ORestart => let s1 := if is_running s then do_stop s else s in let s' := do_start s1 in ((s', []), ObsRet (is_running s'))
  | OPlain =>
    match is_running s, fld_plain s with
    | true, Some l => let id := next_id s in let s' := lrun s [LAcceptOk l; LEnter id] in ((s', clients ++ [id]), ObsReg (length (registry s')))
    | _, _ => (st, ObsSkip)
    end
  | OTLS =>
    match is_running s, fld_tls s with
    | true, Some l => let id := next_id s in let s' := lrun s [LAcceptOk l; LEnter id] in ((s', clients ++ [id]), ObsReg (length (registry s')))
    | _, _ => (st, ObsSkip)
    end
  | OReject =>      (* a TLS client whose certificate the authenticators refuse: accepted, then released without registration *)
    match is_running s, fld_tls s with
    | true, Some l => let id := next_id s in let s' := lrun s [LAcceptOk l; LReject id] in ((s', clients), ObsReg (length (registry s')))
    | _, _ => (st, ObsSkip)
    end
  | OHsFail =>      (* a client whose TLS handshake fails *)
    match is_running s, fld_tls s with
    | true, Some l => let id := next_id s in let s' := lrun s [LAcceptOk l; LHandshakeFail id] in ((s', clients), ObsReg (length (registry s')))
    | _, _ => (st, ObsSkip)
    end
  | ODisc =>
    match clients with
    | id :: rest => let s' := lrun s [LFinish id] in ((s', rest), ObsReg (length (registry s')))
    | [] => (st, ObsSkip)
    end
  end.

Fixpoint life_run (st : sys * list nat) (ops : list lop) : list lobs :=
  match ops with
  | [] => []
  | o :: r => let (st', ob) := life_op st o in ob :: life_run st' r
  end.

Definition life_model (p t : bool) (ops : list lop) : list lobs := life_run (init p t, []) ops.

Example life_model_ex : life_model true true [OStart; OPlain; OStart; OTLS; ODisc; ORestart; OPlain; OStop; OStop] =
  [ObsRet true; ObsReg 1; ObsRet false; ObsReg 2; ObsReg 1; ObsRet true; ObsReg 1; ObsRet true; ObsRet true].
Proof. vm_compute. reflexivity. Qed.
