(* Conn.v — one connection: redis/server_handler.go executeCommand, redis/server.go handleArrayMessage /
   handleMessage / responseMessage / receive, with the span events of the tracer and the deferred
   deregistration and close.  Everything is parameterised by an arbitrary application handler. *)
From Coq Require Import String.
From GR Require Import Base Resp Handler Exec.
Open Scope Z_scope.

Section Conn.
  Variable hstate : Type.
  Variable handle : hstate -> Z -> hcall -> hstate * hresult.
  Variable regexp_src : bytes -> bytes.
  Variable fw_text : bytes -> args -> bytes.   (* text of a framework-generated error: ANY function of the request *)

  Notation est := (est hstate).
  Notation emit := (emit hstate).

  Record world := { w_cs : cstate; w_ss : sstate; w_est : est }.

  Definition app_reply : resp := RStatus (B"APP").

  (* executeCommand *)
  Definition execute_command (w : world) (cmd : bytes) (a : args) : outcome (xres * world) :=
    let up := upper cmd in
    let c := w_cs w in
    let ss := w_ss w in
    let s := w_est w in
    let found := is_sys up || (match lookup_cmd hstate up (user_table hstate handle regexp_src) with Some _ => true | None => false end)
                 || existsb (bytes_eqb up) (ss_app ss) in
    if negb found then Ok (x_fw, w)        (* NewErrorNotSupportedMessage: an error reply, no span *)
    else
      let s1 := emit (EvSpanStart up) s in
      if negb (cs_auth c) && negb (bytes_eqb up (B"AUTH")) then
        Ok (x_fw, {| w_cs := c; w_ss := ss; w_est := emit EvSpanFinish s1 |})     (* ErrNotAuthrized *)
      else
        let fin (r : xres) (c' : cstate) (ss' : sstate) (s' : est) : outcome (xres * world) :=
          Ok (r, {| w_cs := c'; w_ss := ss'; w_est := emit EvSpanFinish s' |}) in
        if bytes_eqb up (B"AUTH") then let (r, c') := x_AUTH ss c a in fin r c' ss s1
        else if bytes_eqb up (B"PING") then fin (x_PING a) c ss s1
        else if bytes_eqb up (B"ECHO") then fin (x_ECHO a) c ss s1
        else if bytes_eqb up (B"SELECT") then let (r, c') := x_SELECT c a in fin r c' ss s1
        else if bytes_eqb up (B"QUIT") then fin x_QUIT c ss s1
        else if bytes_eqb up (B"CONFIG") then let (r, ss') := x_CONFIG ss a in fin r c ss' s1
        else
          match lookup_cmd hstate up (user_table hstate handle regexp_src) with
          | Some (KUser _ x) => let (r, s') := x c a s1 in fin r c ss s'
          | Some (KUserP _ x) => match x c a s1 with
                                 | Ok (r, s') => fin r c ss s'
                                 | Panic => Panic
                                 end
          | None => fin (x_ok app_reply) c ss (emit (EvApp up a) s1)      (* executor registered by the application *)
          end.

  (* handleArrayMessage: first element = command name; a nested array is re-dispatched *)
  Fixpoint handle_array (fuel : nat) (w : world) (a : args) : outcome (xres * world) :=
    match a with
    | [] => Ok (x_fw, w)                                  (* empty command *)
    | first :: rest =>
      match first with
      | RArr nested =>
        match fuel with
        | O => Ok (x_fw, w)
        | S f => handle_array f w nested
        end
      | _ =>
        match msg_string first with
        | Some cmd => execute_command w cmd rest
        | None => Ok (x_fw, w)
        end
      end
    end.

  Fixpoint depth (v : resp) : nat :=
    match v with
    | RArr l => S (fold_right (fun x m => Nat.max (depth x) m) O l)
    | _ => O
    end.

  (* handleMessage: only arrays are commands; anything else yields (nil, nil) *)
  Definition handle_message (w : world) (req : resp) : outcome (xres * world) :=
    match req with
    | RArr a => handle_array (depth req) w a
    | _ => Ok ({| x_msg := None; x_err := None |}, w)
    end.

  (* the reply receive() writes for a result: exactly one RESP value *)
  Definition reply_of (req : resp) (r : xres) : resp :=
    let txt := fw_text [] (match req with RArr a => a | _ => [req] end) in
    match x_err r with
    | Some (XHandler t) => RError t
    | Some XFw => RError txt
    | Some XQuit | None =>
      match x_msg r with
      | Some m => m
      | None => RError (B"internal system error")
      end
    end.

  Definition is_quit (r : xres) : bool := match x_err r with Some XQuit => true | _ => false end.

  (* one loop iteration after a request has been parsed *)
  Definition step (w : world) (req : resp) : outcome (bool * world) :=      (* bool: the loop ends (QUIT) *)
    match handle_message w req with
    | Panic => Panic
    | Ok (r, w') =>
      let s1 := emit (EvSpanStart (B"response")) (w_est w') in
      let s2 := emit (EvWrite (encode (reply_of req r))) s1 in
      let s3 := emit EvRootFinish (emit EvSpanFinish s2) in
      Ok (is_quit r, {| w_cs := w_cs w'; w_ss := w_ss w'; w_est := s3 |})
    end.

  Inductive ending := EndEOS | EndProtoErr | EndQuit | EndPanic | EndFuel.

  (* the receive loop over a flat input (the bytes the client sends before closing its side) *)
  Fixpoint serve_loop (fuel : nat) (w : world) (input : bytes) : ending * world :=
    match fuel with
    | O => (EndFuel, w)
    | S f =>
      let s0 := emit EvSpanFinish (emit (EvSpanStart (B"parse")) (emit EvRootStart (w_est w))) in
      let w0 := {| w_cs := w_cs w; w_ss := w_ss w; w_est := s0 |} in
      match parse input with
      | (PValue req, rest) =>
        match step w0 req with
        | Panic => (EndPanic, w0)
        | Ok (true, w') => (EndQuit, w')
        | Ok (false, w') => serve_loop f w' rest
        end
      | (PEOS, _) => (EndEOS, {| w_cs := w_cs w; w_ss := w_ss w; w_est := emit EvRootFinish s0 |})
      | (PErr, _) => (EndProtoErr, {| w_cs := w_cs w; w_ss := w_ss w; w_est := emit EvRootFinish s0 |})
      | (PPanic, _) => (EndPanic, w0)
      | (POutOfFuel, _) => (EndFuel, w0)
      end
    end.

  (* receive(): initial authorization, TLS entry, registration, loop, deferred deregistration and close *)
  Definition initial_cstate (ss : sstate) (tls : option (list bytes)) : cstate :=
    {| cs_auth := match cfg_get (ss_config ss) requirepass_key with Some _ => false | None => true end;
       cs_db := 0; cs_user := []; cs_pass := None; cs_tls := tls |}.

  Definition serve (ss : sstate) (hs : hstate) (tls : option (list bytes)) (input : bytes) : ending * world :=
    let c := initial_cstate ss tls in
    let s0 := {| e_hs := hs; e_evs := [] |} in
    match tls with
    | Some _ =>
      if authenticate ss c then
        let (e, w) := serve_loop (S (length input)) {| w_cs := c; w_ss := ss; w_est := emit EvRegister s0 |} input in
        (e, {| w_cs := w_cs w; w_ss := w_ss w; w_est := emit EvClose (emit EvDeregister (w_est w)) |})
      else (EndProtoErr, {| w_cs := c; w_ss := ss; w_est := emit EvClose s0 |})     (* invalid client certificates *)
    | None =>
      let (e, w) := serve_loop (S (length input)) {| w_cs := c; w_ss := ss; w_est := emit EvRegister s0 |} input in
      (e, {| w_cs := w_cs w; w_ss := w_ss w; w_est := emit EvClose (emit EvDeregister (w_est w)) |})
    end.

  Definition trace (r : ending * world) : list ev := rev (e_evs _ (w_est (snd r))).
End Conn.
