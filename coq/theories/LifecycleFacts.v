(* LifecycleFacts.v — an inductive invariant of the lifecycle transition system, for every schedule, and what it gives
   at the points the API promises something (C15), for connection release (C19) and for failed handshakes (C09). *)
From Coq Require Import List Arith Bool Lia.
Import ListNotations.
From GR Require Import Lifecycle.

(* ---------- list facts ---------- *)
Lemma find_conn_in id l c : find_conn id l = Some c -> In c l /\ ct_id c = id.
Proof. unfold find_conn. intros H. apply find_some in H. destruct H as [H1 H2]. apply Nat.eqb_eq in H2. auto. Qed.

Lemma ids_set_conn id f l : (forall c, ct_id (f c) = ct_id c) -> map ct_id (set_conn id f l) = map ct_id l.
Proof. intros Hf. unfold set_conn. rewrite map_map. apply map_ext. intros c. destruct (Nat.eqb (ct_id c) id); [apply Hf|reflexivity]. Qed.

Lemma in_set_conn id f l c' : In c' (set_conn id f l) -> exists c, In c l /\ c' = (if Nat.eqb (ct_id c) id then f c else c).
Proof. unfold set_conn. intros H. apply in_map_iff in H. destruct H as (c & E & Hin). exists c. auto. Qed.

Lemma in_set_conn_intro id f l c : In c l -> In (if Nat.eqb (ct_id c) id then f c else c) (set_conn id f l).
Proof. intros H. unfold set_conn. apply in_map_iff. exists c. auto. Qed.

Lemma count_cons {A} (f : A -> bool) x l : count f (x :: l) = (if f x then 1 else 0) + count f l.
Proof. unfold count. cbn [filter]. destruct (f x); reflexivity. Qed.

Lemma count_set_conn_done id l c : NoDup (map ct_id l) -> In c l -> ct_id c = id -> not_done c = true ->
  S (count not_done (set_conn id finish_conn l)) = count not_done l.
Proof.
  induction l as [|x l IH]; intros Hnd Hin Hid Hc; [contradiction|].
  cbn [map] in Hnd. inversion Hnd as [|? ? Hx Hnd']; subst. cbn [set_conn map]. fold (set_conn (ct_id c) finish_conn l). rewrite !count_cons.
  destruct Hin as [->|Hin].
  - rewrite Nat.eqb_refl. cbn [not_done finish_conn ct_st]. rewrite Hc.
    replace (set_conn (ct_id c) finish_conn l) with l; [lia|].
    unfold set_conn. rewrite <- (map_id l) at 1. apply map_ext_in. intros y Hy.
    destruct (Nat.eqb (ct_id y) (ct_id c)) eqn:E; [|reflexivity]. apply Nat.eqb_eq in E. exfalso. apply Hx. rewrite <- E. apply in_map. exact Hy.
  - destruct (Nat.eqb (ct_id x) (ct_id c)) eqn:E.
    + apply Nat.eqb_eq in E. exfalso. apply Hx. rewrite E. apply in_map. exact Hin.
    + rewrite <- (IH Hnd' Hin eq_refl Hc). destruct (not_done x); lia.
Qed.

Lemma count_set_conn_keep id f l : (forall c, not_done (f c) = not_done c) -> count not_done (set_conn id f l) = count not_done l.
Proof.
  intros Hf. induction l as [|x l IH]; [reflexivity|]. cbn [set_conn map]. fold (set_conn id f l). rewrite !count_cons, IH.
  destruct (Nat.eqb (ct_id x) id); [rewrite Hf|]; reflexivity.
Qed.

Lemma count_set_conn_tracked id l c : NoDup (map ct_id l) -> In c l -> ct_id c = id -> ct_st c = CTracked ->
  count not_done (set_conn id register_conn l) = count not_done l.
Proof.
  induction l as [|x l IH]; intros Hnd Hin Hid Hc; [contradiction|].
  cbn [map] in Hnd. inversion Hnd as [|? ? Hx Hnd']; subst. cbn [set_conn map]. fold (set_conn (ct_id c) register_conn l). rewrite !count_cons.
  destruct Hin as [->|Hin].
  - rewrite Nat.eqb_refl. unfold not_done at 1 3. cbn [register_conn ct_st]. rewrite Hc.
    replace (set_conn (ct_id c) register_conn l) with l; [reflexivity|].
    unfold set_conn. rewrite <- (map_id l) at 1. apply map_ext_in. intros y Hy.
    destruct (Nat.eqb (ct_id y) (ct_id c)) eqn:E; [|reflexivity]. apply Nat.eqb_eq in E. exfalso. apply Hx. rewrite <- E. apply in_map. exact Hy.
  - destruct (Nat.eqb (ct_id x) (ct_id c)) eqn:E.
    + apply Nat.eqb_eq in E. exfalso. apply Hx. rewrite E. apply in_map. exact Hin.
    + rewrite (IH Hnd' Hin eq_refl Hc). reflexivity.
Qed.

Lemma count_map_close l : count not_done (map close_conn l) = count not_done l.
Proof. induction l as [|x l IH]; [reflexivity|]. cbn [map]. rewrite !count_cons, IH. reflexivity. Qed.

Lemma count_zero {A} (f : A -> bool) l : count f l = 0 -> forall x, In x l -> f x = false.
Proof.
  induction l as [|y l IH]; intros H x Hin; [contradiction|]. rewrite count_cons in H. destruct (f y) eqn:E; [discriminate|].
  destruct Hin as [->|Hin]; [exact E|apply IH; [exact H|exact Hin]].
Qed.

Lemma find_loop_in lis l a : find_loop lis l = Some a -> In a l /\ al_lis a = lis /\ al_done a = false.
Proof.
  unfold find_loop. intros H. apply find_some in H. destruct H as [H1 H2]. apply andb_prop in H2. destruct H2 as [H2 H3].
  apply Nat.eqb_eq in H2. apply negb_true_iff in H3. auto.
Qed.

Lemma lis_set_loop_done lis l : map al_lis (set_loop_done lis l) = map al_lis l.
Proof. unfold set_loop_done. rewrite map_map. apply map_ext. intros a. destruct (Nat.eqb (al_lis a) lis); reflexivity. Qed.

Lemma in_set_loop_done lis l a' : In a' (set_loop_done lis l) ->
  exists a, In a l /\ a' = (if Nat.eqb (al_lis a) lis then {| al_lis := al_lis a; al_tls := al_tls a; al_done := true |} else a).
Proof. unfold set_loop_done. intros H. apply in_map_iff in H. destruct H as (a & E & Hin). exists a. auto. Qed.

Lemma count_set_loop_done lis l a : NoDup (map al_lis l) -> In a l -> al_lis a = lis -> al_done a = false ->
  S (count loop_live (set_loop_done lis l)) = count loop_live l.
Proof.
  induction l as [|x l IH]; intros Hnd Hin Hid Hc; [contradiction|].
  cbn [map] in Hnd. inversion Hnd as [|? ? Hx Hnd']; subst. cbn [set_loop_done map]. fold (set_loop_done (al_lis a) l). rewrite !count_cons.
  destruct Hin as [->|Hin].
  - rewrite Nat.eqb_refl. unfold loop_live at 1 3. cbn [al_done]. rewrite Hc. cbn [negb].
    replace (set_loop_done (al_lis a) l) with l; [lia|].
    unfold set_loop_done. rewrite <- (map_id l) at 1. apply map_ext_in. intros y Hy.
    destruct (Nat.eqb (al_lis y) (al_lis a)) eqn:E; [|reflexivity]. apply Nat.eqb_eq in E. exfalso. apply Hx. rewrite <- E. apply in_map. exact Hy.
  - destruct (Nat.eqb (al_lis x) (al_lis a)) eqn:E.
    + apply Nat.eqb_eq in E. exfalso. apply Hx. rewrite E. apply in_map. exact Hin.
    + rewrite <- (IH Hnd' Hin eq_refl Hc). destruct (loop_live x); lia.
Qed.

Lemma mem_nat_in x l : mem_nat x l = true <-> In x l.
Proof.
  unfold mem_nat. rewrite existsb_exists. split.
  - intros (y & Hy & E). apply Nat.eqb_eq in E. subst. exact Hy.
  - intros H. exists x. split; [exact H|apply Nat.eqb_refl].
Qed.

Lemma in_remove_nat x y l : In y (remove_nat x l) <-> In y l /\ y <> x.
Proof.
  unfold remove_nat. rewrite filter_In. split; intros [H1 H2]; split; auto.
  - apply negb_true_iff in H2. apply Nat.eqb_neq in H2. auto.
  - apply negb_true_iff. apply Nat.eqb_neq. auto.
Qed.

(* ---------- the invariant ---------- *)
Definition stopped_phase (p : apc) : Prop := p = PStop2 \/ p = PStop3 \/ p = PStop3r \/ p = PStop4 \/ p = PStopped \/ p = PStart1.
Definition no_loop_phase (p : apc) : Prop := p = PStop3 \/ p = PStop3r \/ p = PStop4 \/ p = PStopped \/ p = PStart1 \/ p = PStart2.
(* the registry is exact except between Stop's first snapshot and its return *)
Definition exact_phase (p : apc) : Prop := p <> PStop3r /\ p <> PStop4.
Definition serving (s : sys) (fld : option nat) : Prop :=
  exists l, fld = Some l /\ In l (open_lis s) /\ exists a, In a (loops s) /\ al_lis a = l /\ al_done a = false.

Record Inv (s : sys) : Prop := {
  i_nodup : NoDup (map ct_id (conns s));
  i_ids : forall c, In c (conns s) -> ct_id c < next_id s;
  i_cwg : conn_wg s = count not_done (conns s);
  i_reg : forall id, In id (registry s) -> exists c, In c (conns s) /\ ct_id c = id /\ ct_st c = CRegistered;
  i_done : forall c, In c (conns s) -> ct_st c = CDone -> ct_open c = false;
  i_lnodup : NoDup (map al_lis (loops s));
  i_lids : forall a, In a (loops s) -> al_lis a < next_id s;
  i_awg : accept_wg s = count loop_live (loops s);
  i_open : forall l, In l (open_lis s) -> l < next_id s /\ (fld_plain s = Some l \/ fld_tls s = Some l);
  i_flds : forall l, fld_plain s = Some l \/ fld_tls s = Some l -> l < next_id s;
  i_fld_ne : forall l, fld_plain s = Some l -> fld_tls s = Some l -> False;
  i_closed : stopped_phase (pc s) -> open_lis s = [] /\ fld_plain s = None /\ fld_tls s = None;
  i_noloops : no_loop_phase (pc s) -> forall a, In a (loops s) -> al_done a = true;
  i_fresh_p : pc s = PStart2 -> forall l, fld_plain s = Some l -> (forall a, In a (loops s) -> al_lis a <> l) /\ In l (open_lis s);
  i_fresh_t : pc s = PStart2 \/ pc s = PStart3 -> forall l, fld_tls s = Some l -> (forall a, In a (loops s) -> al_lis a <> l) /\ In l (open_lis s);
  i_cfg_p : pc s = PStart2 \/ pc s = PStart3 \/ pc s = PRunning \/ pc s = PStop1 -> cfg_plain s = true -> fld_plain s <> None;
  i_cfg_t : pc s = PStart2 \/ pc s = PStart3 \/ pc s = PRunning \/ pc s = PStop1 -> cfg_tls s = true -> fld_tls s <> None;
  i_run_p : pc s = PStart3 \/ pc s = PRunning \/ pc s = PStop1 -> forall l, fld_plain s = Some l -> serving s (fld_plain s);
  i_run_t : pc s = PRunning \/ pc s = PStop1 -> forall l, fld_tls s = Some l -> serving s (fld_tls s);
  i_exact : exact_phase (pc s) -> forall c, In c (conns s) -> ct_st c = CRegistered -> In (ct_id c) (registry s);
  (* a socket stays tracked until its goroutine returns: what Stop's second snapshot relies on *)
  i_live : forall c, In c (conns s) -> not_done c = true -> In (ct_id c) (live s)
}.

Ltac split_or H := repeat (destruct H as [H|H]; try discriminate); try discriminate.

Lemma inv_init p t : Inv (init p t).
Proof.
  constructor; cbn [init open_lis fld_plain fld_tls stopping registry live loops conns accept_wg conn_wg next_id pc cfg_plain cfg_tls map];
    try solve [constructor]; try solve [intros; contradiction]; try solve [reflexivity];
    try solve [intros ? [H|H]; discriminate]; try solve [intros; discriminate];
    try solve [intros H; split_or H]; try solve [intros H ? ?; split_or H]; try solve [intros H ?; split_or H].
  - intros _. auto.
Qed.

Ltac projs := cbn [open_lis fld_plain fld_tls stopping registry live loops conns accept_wg conn_wg next_id pc cfg_plain cfg_tls] in *.

(* clauses that carry over unchanged *)
Ltac keep I :=
  first [ exact (i_nodup _ I) | exact (i_ids _ I) | exact (i_cwg _ I) | exact (i_reg _ I) | exact (i_done _ I) | exact (i_lnodup _ I)
        | exact (i_lids _ I) | exact (i_awg _ I) | exact (i_open _ I) | exact (i_flds _ I) | exact (i_fld_ne _ I) | exact (i_live _ I) ].

Ltac phase_false := let H := fresh in intros H; unfold stopped_phase, no_loop_phase in *; split_or H.

Lemma inv_start_begin s s' : Inv s -> lstep s LStartBegin = Some s' -> Inv s'.
Proof.
  intros I H. cbn [lstep] in H. destruct (pc s) eqn:P; try discriminate. inversion H; subst; clear H.
  destruct (i_closed s I) as (C1 & C2 & C3); [unfold stopped_phase; rewrite P; auto 10|].
  constructor; projs; try keep I.
  - intros _. auto.
  - intros _. apply (i_noloops s I). unfold no_loop_phase. rewrite P. auto 10.
  - discriminate.
  - intros H; split_or H.
  - intros H; split_or H.
  - intros H; split_or H.
  - intros H; split_or H.
  - intros H; split_or H.
  - intros _. apply (i_exact s I). rewrite P. split; discriminate.
Qed.

Lemma inv_start_open s s' : Inv s -> lstep s LStartOpen = Some s' -> Inv s'.
Proof.
  intros I H. cbn [lstep] in H. destruct (pc s) eqn:P; try discriminate. inversion H; subst; clear H.
  destruct (i_closed s I) as (C1 & C2 & C3); [unfold stopped_phase; rewrite P; auto 10|].
  assert (NL : forall a, In a (loops s) -> al_done a = true) by (apply (i_noloops s I); unfold no_loop_phase; rewrite P; auto 10).
  constructor; projs; try keep I.
  - intros c Hc. pose proof (i_ids s I c Hc). lia.
  - intros a Ha. pose proof (i_lids s I a Ha). lia.
  - rewrite C1, app_nil_r. intros l Hl. destruct (cfg_plain s), (cfg_tls s); cbn [opt_list app In] in Hl.
    + destruct Hl as [<-|[<-|[]]]; split; auto; lia.
    + destruct Hl as [<-|[]]; split; auto; lia.
    + destruct Hl as [<-|[]]; split; auto; lia.
    + contradiction.
  - intros l [Hl|Hl]; [destruct (cfg_plain s)|destruct (cfg_tls s)]; inversion Hl; lia.
  - intros l H1 H2. destruct (cfg_plain s), (cfg_tls s); try discriminate. inversion H1; inversion H2; lia.
  - phase_false.
  - intros _. exact NL.
  - intros _ l Hl. destruct (cfg_plain s); [|discriminate]. inversion Hl; subst. split.
    + intros a Ha E. pose proof (i_lids s I a Ha). lia.
    + cbn [opt_list app In]. auto.
  - intros _ l Hl. destruct (cfg_tls s); [|discriminate]. inversion Hl; subst. split.
    + intros a Ha E. pose proof (i_lids s I a Ha). lia.
    + apply in_or_app. right. apply in_or_app. left. cbn. auto.
  - intros _ Hc. rewrite Hc. discriminate.
  - intros _ Hc. rewrite Hc. discriminate.
  - intros H; split_or H.
  - intros H; split_or H.
  - intros _. apply (i_exact s I). rewrite P. split; discriminate.
Qed.

Lemma serving_mono (s s' : sys) fld : open_lis s' = open_lis s -> (forall a, In a (loops s) -> In a (loops s')) -> serving s fld -> serving s' fld.
Proof. intros Ho Hl (l & E & Hin & a & Ha & A1 & A2). exists l. rewrite Ho. split; [exact E|]. split; [exact Hin|]. exists a. auto. Qed.

Ltac orP P := rewrite P; auto 8.

(* --- generated by tools/gen_lifecycle_proofs.py --- *)
Lemma inv_spawn_plain s s' : Inv s -> lstep s LStartSpawnPlain = Some s' -> Inv s'.
Proof.
  intros I H. cbn [lstep] in H. destruct (pc s) eqn:P; try discriminate.
  destruct (fld_plain s) as [lis|] eqn:F; inversion H; subst; clear H.
  - destruct (i_fresh_p s I P lis F) as [Fr Op].
    constructor; projs; [
      (try rewrite <- F; keep I)
    | (try rewrite <- F; keep I)
    | (try rewrite <- F; keep I)
    | (try rewrite <- F; keep I)
    | (try rewrite <- F; keep I)
    | (try rewrite <- F; cbn [map al_lis]; constructor; [intros Hin; apply in_map_iff in Hin; destruct Hin as (a & E & Ha); exact (Fr a Ha E)|exact (i_lnodup s I)])
    | (try rewrite <- F; intros a [<-|Ha]; [cbn [al_lis]; apply (i_flds s I); auto|apply (i_lids s I); exact Ha])
    | (try rewrite <- F; rewrite count_cons; cbn [loop_live al_done negb]; rewrite (i_awg s I); reflexivity)
    | (try rewrite <- F; keep I)
    | (try rewrite <- F; keep I)
    | (try rewrite <- F; keep I)
    | (try rewrite <- F; phase_false)
    | (try rewrite <- F; phase_false)
    | (try rewrite <- F; discriminate)
    | (try rewrite <- F; intros _ l Hl; destruct (i_fresh_t s I (or_introl P) l Hl) as [Ft Ot]; split; [intros a [<-|Ha]; [cbn [al_lis]; intros E; subst; exact (i_fld_ne s I l F Hl)|exact (Ft a Ha)]|exact Ot])
    | (try rewrite <- F; intros _; apply (i_cfg_p s I); orP P)
    | (try rewrite <- F; intros _; apply (i_cfg_t s I); orP P)
    | (try rewrite <- F; intros _ l Hl; exists lis; split; [exact F|]; split; [exact Op|]; eexists; split; [left; reflexivity|]; split; reflexivity)
    | (try rewrite <- F; intros H; split_or H)
    | (try rewrite <- F; intros _; apply (i_exact s I); rewrite P; split; discriminate)
    | (keep I) ].
  - constructor; projs; [
      (keep I)
    | (keep I)
    | (keep I)
    | (keep I)
    | (keep I)
    | (keep I)
    | (keep I)
    | (keep I)
    | (intros l Hl; destruct (i_open s I l Hl) as [A1 A2]; rewrite F in A2; auto)
    | (intros l Hl; apply (i_flds s I); rewrite F; exact Hl)
    | (discriminate)
    | (phase_false)
    | (phase_false)
    | (discriminate)
    | (intros _; apply (i_fresh_t s I); auto)
    | (intros _ Hc; exfalso; apply (i_cfg_p s I ltac:(orP P) Hc); exact F)
    | (intros _; apply (i_cfg_t s I); orP P)
    | (intros _ l Hl; discriminate)
    | (intros H; split_or H)
    | (intros _; apply (i_exact s I); rewrite P; split; discriminate)
    | (keep I) ].
Qed.

Lemma inv_spawn_tls s s' : Inv s -> lstep s LStartSpawnTLS = Some s' -> Inv s'.
Proof.
  intros I H. cbn [lstep] in H. destruct (pc s) eqn:P; try discriminate.
  destruct (fld_tls s) as [lis|] eqn:F; inversion H; subst; clear H.
  - destruct (i_fresh_t s I (or_intror P) lis F) as [Fr Op].
    constructor; projs; [
      (try rewrite <- F; keep I)
    | (try rewrite <- F; keep I)
    | (try rewrite <- F; keep I)
    | (try rewrite <- F; keep I)
    | (try rewrite <- F; keep I)
    | (try rewrite <- F; cbn [map al_lis]; constructor; [intros Hin; apply in_map_iff in Hin; destruct Hin as (a & E & Ha); exact (Fr a Ha E)|exact (i_lnodup s I)])
    | (try rewrite <- F; intros a [<-|Ha]; [cbn [al_lis]; apply (i_flds s I); auto|apply (i_lids s I); exact Ha])
    | (try rewrite <- F; rewrite count_cons; cbn [loop_live al_done negb]; rewrite (i_awg s I); reflexivity)
    | (try rewrite <- F; keep I)
    | (try rewrite <- F; keep I)
    | (try rewrite <- F; keep I)
    | (try rewrite <- F; phase_false)
    | (try rewrite <- F; phase_false)
    | (try rewrite <- F; discriminate)
    | (try rewrite <- F; intros H; split_or H)
    | (try rewrite <- F; intros _; apply (i_cfg_p s I); orP P)
    | (try rewrite <- F; intros _; apply (i_cfg_t s I); orP P)
    | (try rewrite <- F; intros _ l Hl; destruct (i_run_p s I (or_introl P) l Hl) as (l0 & E & Hin & a & Ha & A1 & A2); exists l0; split; [exact E|]; split; [exact Hin|]; exists a; split; [right; exact Ha|auto])
    | (try rewrite <- F; intros _ l Hl; exists lis; split; [exact F|]; split; [exact Op|]; eexists; split; [left; reflexivity|]; split; reflexivity)
    | (try rewrite <- F; intros _; apply (i_exact s I); rewrite P; split; discriminate)
    | (keep I) ].
  - constructor; projs; [
      (keep I)
    | (keep I)
    | (keep I)
    | (keep I)
    | (keep I)
    | (keep I)
    | (keep I)
    | (keep I)
    | (intros l Hl; destruct (i_open s I l Hl) as [A1 A2]; rewrite F in A2; auto)
    | (intros l Hl; apply (i_flds s I); rewrite F; exact Hl)
    | (intros l _ Hl; discriminate)
    | (phase_false)
    | (phase_false)
    | (discriminate)
    | (intros H; split_or H)
    | (intros _; apply (i_cfg_p s I); orP P)
    | (intros _ Hc; exfalso; apply (i_cfg_t s I ltac:(orP P) Hc); exact F)
    | (intros _; apply (i_run_p s I); auto)
    | (intros _ l Hl; discriminate)
    | (intros _; apply (i_exact s I); rewrite P; split; discriminate)
    | (keep I) ].
Qed.

Lemma inv_stop_begin s s' : Inv s -> lstep s LStopBegin = Some s' -> Inv s'.
Proof.
  intros I H. cbn [lstep] in H. destruct (pc s) eqn:P; try discriminate. inversion H; subst; clear H.
  constructor; projs; [
      (keep I)
    | (keep I)
    | (keep I)
    | (keep I)
    | (keep I)
    | (keep I)
    | (keep I)
    | (keep I)
    | (keep I)
    | (keep I)
    | (keep I)
    | (phase_false)
    | (phase_false)
    | (discriminate)
    | (intros H; split_or H)
    | (intros _; apply (i_cfg_p s I); orP P)
    | (intros _; apply (i_cfg_t s I); orP P)
    | (intros _; apply (i_run_p s I); orP P)
    | (intros _; apply (i_run_t s I); orP P)
    | (intros _; apply (i_exact s I); rewrite P; split; discriminate)
    | (keep I) ].
Qed.

Lemma inv_stop_close_lis s s' : Inv s -> lstep s LStopCloseLis = Some s' -> Inv s'.
Proof.
  intros I H. cbn [lstep] in H. destruct (pc s) eqn:P; try discriminate. inversion H; subst; clear H.
  assert (E : filter (fun x => negb (mem_nat x (opt_list (fld_plain s) ++ opt_list (fld_tls s)))) (open_lis s) = []).
  { destruct (filter _ (open_lis s)) as [|x r] eqn:Fi; [reflexivity|]. exfalso.
    assert (Hx : In x (x :: r)) by (left; reflexivity). rewrite <- Fi in Hx. apply filter_In in Hx. destruct Hx as [Hx1 Hx2].
    apply negb_true_iff in Hx2. destruct (i_open s I x Hx1) as [_ [Hf|Hf]]; rewrite Hf in Hx2; cbn [opt_list app] in Hx2.
    - cbn [mem_nat existsb] in Hx2. rewrite Nat.eqb_refl in Hx2. discriminate.
    - assert (M : mem_nat x (opt_list (fld_plain s) ++ [x]) = true) by (apply mem_nat_in; apply in_or_app; right; left; reflexivity). congruence. }
  rewrite E.
  constructor; projs; [
      (keep I)
    | (keep I)
    | (keep I)
    | (keep I)
    | (keep I)
    | (keep I)
    | (keep I)
    | (keep I)
    | (intros l [])
    | (intros l [Hl|Hl]; discriminate)
    | (intros l Hl; discriminate)
    | (intros _; auto)
    | (phase_false)
    | (discriminate)
    | (intros H; split_or H)
    | (intros H; split_or H)
    | (intros H; split_or H)
    | (intros H; split_or H)
    | (intros H; split_or H)
    | (intros _; apply (i_exact s I); rewrite P; split; discriminate)
    | (keep I) ].
Qed.

Lemma inv_stop_wait_accept s s' : Inv s -> lstep s LStopWaitAccept = Some s' -> Inv s'.
Proof.
  intros I H. cbn [lstep] in H. destruct (pc s) eqn:P; try discriminate. destruct (accept_wg s) eqn:W; try discriminate. inversion H; subst; clear H.
  assert (NL : forall a, In a (loops s) -> al_done a = true).
  { intros a Ha. pose proof (i_awg s I) as A. rewrite W in A. symmetry in A. pose proof (count_zero loop_live (loops s) A a Ha) as Z.
    unfold loop_live in Z. apply negb_false_iff in Z. exact Z. }
  constructor; projs; [
      (keep I)
    | (keep I)
    | (keep I)
    | (keep I)
    | (keep I)
    | (keep I)
    | (keep I)
    | (rewrite <- W; exact (i_awg s I))
    | (keep I)
    | (keep I)
    | (keep I)
    | (intros _; apply (i_closed s I); unfold stopped_phase; orP P)
    | (intros _; exact NL)
    | (discriminate)
    | (intros H; split_or H)
    | (intros H; split_or H)
    | (intros H; split_or H)
    | (intros H; split_or H)
    | (intros H; split_or H)
    | (intros _; apply (i_exact s I); rewrite P; split; discriminate)
    | (keep I) ].
Qed.

Lemma close_reg_id reg c : ct_id (close_reg reg c) = ct_id c.
Proof. unfold close_reg. destruct (mem_nat (ct_id c) reg); reflexivity. Qed.
Lemma close_reg_st reg c : ct_st (close_reg reg c) = ct_st c.
Proof. unfold close_reg. destruct (mem_nat (ct_id c) reg); reflexivity. Qed.
Lemma count_map_close_reg reg l : count not_done (map (close_reg reg) l) = count not_done l.
Proof.
  induction l as [|x l IH]; [reflexivity|]. cbn [map]. rewrite !count_cons, IH. unfold not_done. rewrite close_reg_st. reflexivity.
Qed.

Lemma inv_stop_close_reg s s' : Inv s -> lstep s LStopCloseReg = Some s' -> Inv s'.
Proof.
  intros I H. cbn [lstep] in H. destruct (pc s) eqn:P; try discriminate. inversion H; subst; clear H.
  constructor; projs; [
      (rewrite map_map; rewrite (map_ext _ ct_id (close_reg_id (registry s))); exact (i_nodup s I))
    | (intros c Hc; apply in_map_iff in Hc; destruct Hc as (c0 & <- & Hc0); rewrite close_reg_id; apply (i_ids s I); exact Hc0)
    | (rewrite count_map_close_reg; exact (i_cwg s I))
    | (intros id [])
    | (intros c Hc Hd; apply in_map_iff in Hc; destruct Hc as (c0 & <- & Hc0); rewrite close_reg_st in Hd; unfold close_reg;
       destruct (mem_nat (ct_id c0) (registry s)); [reflexivity|exact (i_done s I c0 Hc0 Hd)])
    | (keep I)
    | (keep I)
    | (keep I)
    | (keep I)
    | (keep I)
    | (keep I)
    | (intros _; apply (i_closed s I); unfold stopped_phase; orP P)
    | (intros _; apply (i_noloops s I); unfold no_loop_phase; orP P)
    | (discriminate)
    | (intros H; split_or H)
    | (intros H; split_or H)
    | (intros H; split_or H)
    | (intros H; split_or H)
    | (intros H; split_or H)
    | (intros [H _]; exfalso; apply H; reflexivity)
    | (intros c Hc Hn; apply in_map_iff in Hc; destruct Hc as (c0 & <- & Hc0); rewrite close_reg_id; apply (i_live s I c0 Hc0); unfold not_done in *; rewrite close_reg_st in Hn; exact Hn) ].
Qed.

Lemma inv_stop_close_conns s s' : Inv s -> lstep s LStopCloseConns = Some s' -> Inv s'.
Proof.
  intros I H. cbn [lstep] in H. destruct (pc s) eqn:P; try discriminate. inversion H; subst; clear H.
  constructor; projs; [
      (rewrite map_map; rewrite (map_ext _ ct_id (close_reg_id (live s))); exact (i_nodup s I))
    | (intros c Hc; apply in_map_iff in Hc; destruct Hc as (c0 & <- & Hc0); rewrite close_reg_id; apply (i_ids s I); exact Hc0)
    | (rewrite count_map_close_reg; exact (i_cwg s I))
    | (intros id Hid; destruct (i_reg s I id Hid) as (c & Hc & E1 & E2); exists (close_reg (live s) c); split; [apply in_map; exact Hc|split; [rewrite close_reg_id; exact E1|rewrite close_reg_st; exact E2]])
    | (intros c Hc Hd; apply in_map_iff in Hc; destruct Hc as (c0 & <- & Hc0); rewrite close_reg_st in Hd; unfold close_reg;
       destruct (mem_nat (ct_id c0) (live s)); [reflexivity|exact (i_done s I c0 Hc0 Hd)])
    | (keep I)
    | (keep I)
    | (keep I)
    | (keep I)
    | (keep I)
    | (keep I)
    | (intros _; apply (i_closed s I); unfold stopped_phase; orP P)
    | (intros _; apply (i_noloops s I); unfold no_loop_phase; orP P)
    | (discriminate)
    | (intros H; split_or H)
    | (intros H; split_or H)
    | (intros H; split_or H)
    | (intros H; split_or H)
    | (intros H; split_or H)
    | (intros [_ H]; exfalso; apply H; reflexivity)
    | (intros c Hc Hn; apply in_map_iff in Hc; destruct Hc as (c0 & <- & Hc0); rewrite close_reg_id; apply (i_live s I c0 Hc0); unfold not_done in *; rewrite close_reg_st in Hn; exact Hn) ].
Qed.

Lemma inv_stop_wait_conns s s' : Inv s -> lstep s LStopWaitConns = Some s' -> Inv s'.
Proof.
  intros I H. cbn [lstep] in H. destruct (pc s) eqn:P; try discriminate. destruct (conn_wg s) eqn:W; try discriminate. inversion H; subst; clear H.
  assert (AD : forall c, In c (conns s) -> ct_st c = CDone).
  { intros c Hc. pose proof (i_cwg s I) as A. rewrite W in A. symmetry in A. pose proof (count_zero not_done (conns s) A c Hc) as Z.
    unfold not_done in Z. destruct (ct_st c); try discriminate; reflexivity. }
  constructor; projs; [
      (keep I)
    | (keep I)
    | (rewrite <- W; exact (i_cwg s I))
    | (keep I)
    | (keep I)
    | (keep I)
    | (keep I)
    | (keep I)
    | (keep I)
    | (keep I)
    | (keep I)
    | (intros _; apply (i_closed s I); unfold stopped_phase; orP P)
    | (intros _; apply (i_noloops s I); unfold no_loop_phase; orP P)
    | (discriminate)
    | (intros H; split_or H)
    | (intros H; split_or H)
    | (intros H; split_or H)
    | (intros H; split_or H)
    | (intros H; split_or H)
    | (intros _ c Hc Hs; rewrite (AD c Hc) in Hs; discriminate)
    | (keep I) ].
Qed.

Lemma nodup_same_id l a b : NoDup (map ct_id l) -> In a l -> In b l -> ct_id a = ct_id b -> a = b.
Proof.
  induction l as [|x l IH]; intros Hnd Ha Hb E; [contradiction|]. cbn [map] in Hnd. inversion Hnd as [|? ? Hx Hnd']; subst.
  destruct Ha as [->|Ha], Hb as [->|Hb]; try reflexivity.
  - exfalso. apply Hx. rewrite E. apply in_map. exact Hb.
  - exfalso. apply Hx. rewrite <- E. apply in_map. exact Ha.
  - apply IH; assumption.
Qed.

Lemma inv_accept_ok lis s s' : Inv s -> lstep s (LAcceptOk lis) = Some s' -> Inv s'.
Proof.
  intros I H. cbn [lstep] in H. destruct (find_loop lis (loops s)) as [a|] eqn:FL; try discriminate.
  destruct (mem_nat lis (open_lis s)) eqn:M; try discriminate. destruct (stopping s) eqn:St; inversion H; subst; clear H; unfold serving in *.
  - constructor; projs; [
      (keep I)
    | (intros c Hc; pose proof (i_ids s I c Hc); lia)
    | (keep I)
    | (keep I)
    | (keep I)
    | (keep I)
    | (intros a0 Ha0; pose proof (i_lids s I a0 Ha0); lia)
    | (keep I)
    | (intros l Hl; destruct (i_open s I l Hl); split; [lia|assumption])
    | (intros l Hl; pose proof (i_flds s I l Hl); lia)
    | (keep I)
    | (intros Hp; exact (i_closed s I Hp))
    | (intros Hp; exact (i_noloops s I Hp))
    | (intros Hp; exact (i_fresh_p s I Hp))
    | (intros Hp; exact (i_fresh_t s I Hp))
    | (intros Hp; exact (i_cfg_p s I Hp))
    | (intros Hp; exact (i_cfg_t s I Hp))
    | (intros Hp; exact (i_run_p s I Hp))
    | (intros Hp; exact (i_run_t s I Hp))
    | (intros Hp; exact (i_exact s I Hp))
    | (keep I) ].
  - constructor; projs; [
      (cbn [map ct_id]; constructor; [intros Hin; apply in_map_iff in Hin; destruct Hin as (c0 & E0 & Hc0); pose proof (i_ids s I c0 Hc0); lia|exact (i_nodup s I)])
    | (intros c [<-|Hc]; [cbn [ct_id]; lia|pose proof (i_ids s I c Hc); lia])
    | (rewrite count_cons; cbn [not_done ct_st]; rewrite (i_cwg s I); reflexivity)
    | (intros id Hid; destruct (i_reg s I id Hid) as (c0 & H1 & H2 & H3); exists c0; split; [right; exact H1|auto])
    | (intros c [<-|Hc] Hd; [discriminate|exact (i_done s I c Hc Hd)])
    | (keep I)
    | (intros a0 Ha0; pose proof (i_lids s I a0 Ha0); lia)
    | (keep I)
    | (intros l Hl; destruct (i_open s I l Hl); split; [lia|assumption])
    | (intros l Hl; pose proof (i_flds s I l Hl); lia)
    | (keep I)
    | (intros Hp; exact (i_closed s I Hp))
    | (intros Hp; exact (i_noloops s I Hp))
    | (intros Hp; exact (i_fresh_p s I Hp))
    | (intros Hp; exact (i_fresh_t s I Hp))
    | (intros Hp; exact (i_cfg_p s I Hp))
    | (intros Hp; exact (i_cfg_t s I Hp))
    | (intros Hp; exact (i_run_p s I Hp))
    | (intros Hp; exact (i_run_t s I Hp))
    | (intros Hp c [<-|Hc] Hs; [discriminate|exact (i_exact s I Hp c Hc Hs)])
    | (intros c [<-|Hc] Hn; [left; reflexivity|right; exact (i_live s I c Hc Hn)]) ].
Qed.

Lemma inv_accept_fail lis s s' : Inv s -> lstep s (LAcceptFail lis) = Some s' -> Inv s'.
Proof.
  intros I H. cbn [lstep] in H. destruct (find_loop lis (loops s)) as [a|] eqn:FL; try discriminate.
  destruct (mem_nat lis (open_lis s)) eqn:M; try discriminate. inversion H; subst; clear H.
  apply find_loop_in in FL. destruct FL as (A1 & A2 & A3).
  assert (NM : ~ In lis (open_lis s)) by (intros Hin; apply mem_nat_in in Hin; congruence).
  unfold serving in *.
  constructor; projs; [
      (keep I)
    | (keep I)
    | (keep I)
    | (keep I)
    | (keep I)
    | (rewrite lis_set_loop_done; exact (i_lnodup s I))
    | (intros a0 Ha0; apply in_set_loop_done in Ha0; destruct Ha0 as (a1 & Ha1 & ->); pose proof (i_lids s I a1 Ha1); destruct (Nat.eqb (al_lis a1) lis); cbn [al_lis]; lia)
    | (pose proof (count_set_loop_done lis (loops s) a (i_lnodup s I) A1 A2 A3) as Cn; rewrite (i_awg s I), <- Cn; reflexivity)
    | (keep I)
    | (keep I)
    | (keep I)
    | (intros Hp; exact (i_closed s I Hp))
    | (intros Hp a0 Ha0; apply in_set_loop_done in Ha0; destruct Ha0 as (a1 & Ha1 & ->); destruct (Nat.eqb (al_lis a1) lis); [reflexivity|exact (i_noloops s I Hp a1 Ha1)])
    | (intros Hp l Hl; destruct (i_fresh_p s I Hp l Hl) as [Fr Op]; split; [|exact Op]; intros a0 Ha0; apply in_set_loop_done in Ha0; destruct Ha0 as (a1 & Ha1 & ->); pose proof (Fr a1 Ha1); destruct (Nat.eqb (al_lis a1) lis); cbn [al_lis]; assumption)
    | (intros Hp l Hl; destruct (i_fresh_t s I Hp l Hl) as [Fr Op]; split; [|exact Op]; intros a0 Ha0; apply in_set_loop_done in Ha0; destruct Ha0 as (a1 & Ha1 & ->); pose proof (Fr a1 Ha1); destruct (Nat.eqb (al_lis a1) lis); cbn [al_lis]; assumption)
    | (intros Hp; exact (i_cfg_p s I Hp))
    | (intros Hp; exact (i_cfg_t s I Hp))
    | (intros Hp l Hl; destruct (i_run_p s I Hp l Hl) as (l0 & E0 & Hin & a0 & Ha0 & B1 & B2); unfold serving; projs; exists l0; split; [exact E0|]; split; [exact Hin|]; exists a0; split; [|auto]; replace a0 with (if Nat.eqb (al_lis a0) lis then {| al_lis := al_lis a0; al_tls := al_tls a0; al_done := true |} else a0); [unfold set_loop_done; apply in_map_iff; exists a0; split; [reflexivity|exact Ha0]|]; destruct (Nat.eqb (al_lis a0) lis) eqn:E1; [|reflexivity]; apply Nat.eqb_eq in E1; exfalso; apply NM; rewrite <- E1, B1; exact Hin)
    | (intros Hp l Hl; destruct (i_run_t s I Hp l Hl) as (l0 & E0 & Hin & a0 & Ha0 & B1 & B2); unfold serving; projs; exists l0; split; [exact E0|]; split; [exact Hin|]; exists a0; split; [|auto]; replace a0 with (if Nat.eqb (al_lis a0) lis then {| al_lis := al_lis a0; al_tls := al_tls a0; al_done := true |} else a0); [unfold set_loop_done; apply in_map_iff; exists a0; split; [reflexivity|exact Ha0]|]; destruct (Nat.eqb (al_lis a0) lis) eqn:E1; [|reflexivity]; apply Nat.eqb_eq in E1; exfalso; apply NM; rewrite <- E1, B1; exact Hin)
    | (intros Hp; exact (i_exact s I Hp))
    | (keep I) ].
Qed.

Lemma inv_handshake_fail id s s' : Inv s -> lstep s (LHandshakeFail id) = Some s' -> Inv s'.
Proof.
  intros I H. cbn [lstep] in H. destruct (find_conn id (conns s)) as [c|] eqn:FC; try discriminate.
  destruct (ct_st c) eqn:St; try discriminate. destruct (ct_tls c) eqn:Tl; try discriminate. inversion H; subst; clear H.
  apply find_conn_in in FC. destruct FC as (C1 & C2). assert (ND : not_done c = true) by (unfold not_done; rewrite St; reflexivity).
  unfold serving in *.
  constructor; projs; [
      (rewrite ids_set_conn by reflexivity; exact (i_nodup s I))
    | (intros c0 Hc0; apply in_set_conn in Hc0; destruct Hc0 as (c1 & Hc1 & ->); pose proof (i_ids s I c1 Hc1); destruct (Nat.eqb (ct_id c1) id); cbn [finish_conn ct_id]; lia)
    | (pose proof (count_set_conn_done id (conns s) c (i_nodup s I) C1 C2 ND) as Cn; rewrite (i_cwg s I), <- Cn; reflexivity)
    | (intros id0 Hid0; destruct (i_reg s I id0 Hid0) as (c0 & H1 & H2 & H3); exists c0; split; [|auto]; replace c0 with (if Nat.eqb (ct_id c0) id then finish_conn c0 else c0); [apply in_set_conn_intro; exact H1|]; destruct (Nat.eqb (ct_id c0) id) eqn:E1; [|reflexivity]; apply Nat.eqb_eq in E1; exfalso; assert (c0 = c) by (apply (nodup_same_id (conns s)); [exact (i_nodup s I)|exact H1|exact C1|congruence]); subst c0; congruence)
    | (intros c0 Hc0 Hd; apply in_set_conn in Hc0; destruct Hc0 as (c1 & Hc1 & ->); destruct (Nat.eqb (ct_id c1) id); [reflexivity|exact (i_done s I c1 Hc1 Hd)])
    | (keep I)
    | (keep I)
    | (keep I)
    | (keep I)
    | (keep I)
    | (keep I)
    | (intros Hp; exact (i_closed s I Hp))
    | (intros Hp; exact (i_noloops s I Hp))
    | (intros Hp; exact (i_fresh_p s I Hp))
    | (intros Hp; exact (i_fresh_t s I Hp))
    | (intros Hp; exact (i_cfg_p s I Hp))
    | (intros Hp; exact (i_cfg_t s I Hp))
    | (intros Hp; exact (i_run_p s I Hp))
    | (intros Hp; exact (i_run_t s I Hp))
    | (intros Hp c0 Hc0 Hs; apply in_set_conn in Hc0; destruct Hc0 as (c1 & Hc1 & ->); destruct (Nat.eqb (ct_id c1) id); [discriminate|exact (i_exact s I Hp c1 Hc1 Hs)])
    | (intros c0 Hc0 Hn; apply in_set_conn in Hc0; destruct Hc0 as (c1 & Hc1 & ->); destruct (Nat.eqb (ct_id c1) id) eqn:E1; [discriminate|apply in_remove_nat; split; [exact (i_live s I c1 Hc1 Hn)|apply Nat.eqb_neq; exact E1]]) ].
Qed.

Lemma inv_reject id s s' : Inv s -> lstep s (LReject id) = Some s' -> Inv s'.
Proof.
  intros I H. cbn [lstep] in H. destruct (find_conn id (conns s)) as [c|] eqn:FC; try discriminate.
  destruct (ct_st c) eqn:St; try discriminate. destruct (ct_tls c) eqn:Tl; try discriminate. inversion H; subst; clear H.
  apply find_conn_in in FC. destruct FC as (C1 & C2). assert (ND : not_done c = true) by (unfold not_done; rewrite St; reflexivity).
  unfold serving in *.
  constructor; projs; [
      (rewrite ids_set_conn by reflexivity; exact (i_nodup s I))
    | (intros c0 Hc0; apply in_set_conn in Hc0; destruct Hc0 as (c1 & Hc1 & ->); pose proof (i_ids s I c1 Hc1); destruct (Nat.eqb (ct_id c1) id); cbn [finish_conn ct_id]; lia)
    | (pose proof (count_set_conn_done id (conns s) c (i_nodup s I) C1 C2 ND) as Cn; rewrite (i_cwg s I), <- Cn; reflexivity)
    | (intros id0 Hid0; destruct (i_reg s I id0 Hid0) as (c0 & H1 & H2 & H3); exists c0; split; [|auto]; replace c0 with (if Nat.eqb (ct_id c0) id then finish_conn c0 else c0); [apply in_set_conn_intro; exact H1|]; destruct (Nat.eqb (ct_id c0) id) eqn:E1; [|reflexivity]; apply Nat.eqb_eq in E1; exfalso; assert (c0 = c) by (apply (nodup_same_id (conns s)); [exact (i_nodup s I)|exact H1|exact C1|congruence]); subst c0; congruence)
    | (intros c0 Hc0 Hd; apply in_set_conn in Hc0; destruct Hc0 as (c1 & Hc1 & ->); destruct (Nat.eqb (ct_id c1) id); [reflexivity|exact (i_done s I c1 Hc1 Hd)])
    | (keep I)
    | (keep I)
    | (keep I)
    | (keep I)
    | (keep I)
    | (keep I)
    | (intros Hp; exact (i_closed s I Hp))
    | (intros Hp; exact (i_noloops s I Hp))
    | (intros Hp; exact (i_fresh_p s I Hp))
    | (intros Hp; exact (i_fresh_t s I Hp))
    | (intros Hp; exact (i_cfg_p s I Hp))
    | (intros Hp; exact (i_cfg_t s I Hp))
    | (intros Hp; exact (i_run_p s I Hp))
    | (intros Hp; exact (i_run_t s I Hp))
    | (intros Hp c0 Hc0 Hs; apply in_set_conn in Hc0; destruct Hc0 as (c1 & Hc1 & ->); destruct (Nat.eqb (ct_id c1) id); [discriminate|exact (i_exact s I Hp c1 Hc1 Hs)])
    | (intros c0 Hc0 Hn; apply in_set_conn in Hc0; destruct Hc0 as (c1 & Hc1 & ->); destruct (Nat.eqb (ct_id c1) id) eqn:E1; [discriminate|apply in_remove_nat; split; [exact (i_live s I c1 Hc1 Hn)|apply Nat.eqb_neq; exact E1]]) ].
Qed.

Lemma inv_enter id s s' : Inv s -> lstep s (LEnter id) = Some s' -> Inv s'.
Proof.
  intros I H. cbn [lstep] in H. destruct (find_conn id (conns s)) as [c|] eqn:FC; try discriminate.
  destruct (ct_st c) eqn:St; try discriminate. inversion H; subst; clear H.
  apply find_conn_in in FC. destruct FC as (C1 & C2).
  unfold serving in *.
  constructor; projs; [
      (rewrite ids_set_conn by reflexivity; exact (i_nodup s I))
    | (intros c0 Hc0; apply in_set_conn in Hc0; destruct Hc0 as (c1 & Hc1 & ->); pose proof (i_ids s I c1 Hc1); destruct (Nat.eqb (ct_id c1) id); cbn [register_conn ct_id]; lia)
    | (rewrite (count_set_conn_tracked id (conns s) c (i_nodup s I) C1 C2 St); exact (i_cwg s I))
    | (intros id0 [<-|Hid0]; [exists (register_conn c); split; [|split; [exact C2|reflexivity]]; pose proof (in_set_conn_intro id register_conn (conns s) c C1) as Hi; rewrite C2, Nat.eqb_refl in Hi; exact Hi|]; destruct (i_reg s I id0 Hid0) as (c0 & H1 & H2 & H3); exists c0; split; [|auto]; replace c0 with (if Nat.eqb (ct_id c0) id then register_conn c0 else c0); [apply in_set_conn_intro; exact H1|]; destruct (Nat.eqb (ct_id c0) id) eqn:E1; [|reflexivity]; apply Nat.eqb_eq in E1; exfalso; assert (c0 = c) by (apply (nodup_same_id (conns s)); [exact (i_nodup s I)|exact H1|exact C1|congruence]); subst c0; congruence)
    | (intros c0 Hc0 Hd; apply in_set_conn in Hc0; destruct Hc0 as (c1 & Hc1 & ->); destruct (Nat.eqb (ct_id c1) id); [discriminate|exact (i_done s I c1 Hc1 Hd)])
    | (keep I)
    | (keep I)
    | (keep I)
    | (keep I)
    | (keep I)
    | (keep I)
    | (intros Hp; exact (i_closed s I Hp))
    | (intros Hp; exact (i_noloops s I Hp))
    | (intros Hp; exact (i_fresh_p s I Hp))
    | (intros Hp; exact (i_fresh_t s I Hp))
    | (intros Hp; exact (i_cfg_p s I Hp))
    | (intros Hp; exact (i_cfg_t s I Hp))
    | (intros Hp; exact (i_run_p s I Hp))
    | (intros Hp; exact (i_run_t s I Hp))
    | (intros Hp c0 Hc0 Hs; apply in_set_conn in Hc0; destruct Hc0 as (c1 & Hc1 & ->); destruct (Nat.eqb (ct_id c1) id) eqn:E1; [left; cbn [register_conn ct_id]; apply Nat.eqb_eq in E1; symmetry; exact E1|right; exact (i_exact s I Hp c1 Hc1 Hs)])
    | (intros c0 Hc0 Hn; apply in_set_conn in Hc0; destruct Hc0 as (c1 & Hc1 & ->); destruct (Nat.eqb (ct_id c1) id) eqn:E1; [cbn [register_conn ct_id]; apply (i_live s I c1 Hc1); apply Nat.eqb_eq in E1; rewrite (nodup_same_id (conns s) c1 c (i_nodup s I) Hc1 C1 (eq_trans E1 (eq_sym C2))); unfold not_done; rewrite St; reflexivity|exact (i_live s I c1 Hc1 Hn)]) ].
Qed.

Lemma inv_finish id s s' : Inv s -> lstep s (LFinish id) = Some s' -> Inv s'.
Proof.
  intros I H. cbn [lstep] in H. destruct (find_conn id (conns s)) as [c|] eqn:FC; try discriminate.
  destruct (ct_st c) eqn:St; try discriminate. inversion H; subst; clear H.
  apply find_conn_in in FC. destruct FC as (C1 & C2). assert (ND : not_done c = true) by (unfold not_done; rewrite St; reflexivity).
  unfold serving in *.
  constructor; projs; [
      (rewrite ids_set_conn by reflexivity; exact (i_nodup s I))
    | (intros c0 Hc0; apply in_set_conn in Hc0; destruct Hc0 as (c1 & Hc1 & ->); pose proof (i_ids s I c1 Hc1); destruct (Nat.eqb (ct_id c1) id); cbn [finish_conn ct_id]; lia)
    | (pose proof (count_set_conn_done id (conns s) c (i_nodup s I) C1 C2 ND) as Cn; rewrite (i_cwg s I), <- Cn; reflexivity)
    | (intros id0 Hid0; apply in_remove_nat in Hid0; destruct Hid0 as [Hid0 Hne]; destruct (i_reg s I id0 Hid0) as (c0 & H1 & H2 & H3); exists c0; split; [|auto]; replace c0 with (if Nat.eqb (ct_id c0) id then finish_conn c0 else c0); [apply in_set_conn_intro; exact H1|]; destruct (Nat.eqb (ct_id c0) id) eqn:E1; [|reflexivity]; apply Nat.eqb_eq in E1; congruence)
    | (intros c0 Hc0 Hd; apply in_set_conn in Hc0; destruct Hc0 as (c1 & Hc1 & ->); destruct (Nat.eqb (ct_id c1) id); [reflexivity|exact (i_done s I c1 Hc1 Hd)])
    | (keep I)
    | (keep I)
    | (keep I)
    | (keep I)
    | (keep I)
    | (keep I)
    | (intros Hp; exact (i_closed s I Hp))
    | (intros Hp; exact (i_noloops s I Hp))
    | (intros Hp; exact (i_fresh_p s I Hp))
    | (intros Hp; exact (i_fresh_t s I Hp))
    | (intros Hp; exact (i_cfg_p s I Hp))
    | (intros Hp; exact (i_cfg_t s I Hp))
    | (intros Hp; exact (i_run_p s I Hp))
    | (intros Hp; exact (i_run_t s I Hp))
    | (intros Hp c0 Hc0 Hs; apply in_set_conn in Hc0; destruct Hc0 as (c1 & Hc1 & ->); destruct (Nat.eqb (ct_id c1) id) eqn:E1; [discriminate|]; apply in_remove_nat; split; [exact (i_exact s I Hp c1 Hc1 Hs)|apply Nat.eqb_neq; exact E1])
    | (intros c0 Hc0 Hn; apply in_set_conn in Hc0; destruct Hc0 as (c1 & Hc1 & ->); destruct (Nat.eqb (ct_id c1) id) eqn:E1; [discriminate|apply in_remove_nat; split; [exact (i_live s I c1 Hc1 Hn)|apply Nat.eqb_neq; exact E1]]) ].
Qed.

