(* RespFacts.v — theorems about Resp.v (C01 C02 C06 and the prefix lemmas of C11).
   The statements of the named theorems are fixed; everything is proved (closed under the global context). *)
From GR Require Import Base BaseFacts Resp.
From Coq Require Decimal DecimalPos DecimalFacts.
From Coq Require Import ZifyBool ZifyN ZifyNat.
Open Scope Z_scope.

(* custom induction principle for the nested type *)
Section RespInd.
  Variable P : resp -> Prop.
  Hypothesis Hs : forall s, P (RStatus s).
  Hypothesis He : forall s, P (RError s).
  Hypothesis Hi : forall s, P (RInt s).
  Hypothesis Hb : forall p, P (RBulk p).
  Hypothesis Ha : forall l, Forall P l -> P (RArr l).
  Fixpoint resp_ind' (v : resp) : P v :=
    match v with
    | RStatus s => Hs s | RError s => He s | RInt s => Hi s | RBulk p => Hb p
    | RArr l => Ha l ((fix go (l : list resp) : Forall P l :=
                         match l with [] => Forall_nil P | x :: r => Forall_cons x (resp_ind' x) (go r) end) l)
    end.
End RespInd.

(* ====================================================================== *)
(* auxiliary material                                                     *)
(* ====================================================================== *)

(* ---------- constants, as numerals for lia ---------- *)
Lemma MAX_BULK_val : MAX_BULK = 536870912. Proof. reflexivity. Qed.
Lemma ALLOC_CAP_val : ALLOC_CAP = 67108864. Proof. reflexivity. Qed.
Lemma MAX_PREALLOC_val : MAX_PREALLOC = 1024. Proof. reflexivity. Qed.
Lemma max64_val : max64 = 9223372036854775807. Proof. reflexivity. Qed.

Lemma go_make_ok_prealloc n : 0 <= n -> go_make_ok (Z.min n MAX_PREALLOC) = true.
Proof.
  intros Hn. unfold go_make_ok. rewrite ALLOC_CAP_val, MAX_PREALLOC_val. lia.
Qed.

(* ---------- one-step unfoldings of the byte-list helpers ---------- *)
Lemma split_at_eq n l :
  split_at n l =
  if (n =? 0)%N then Some ([], l) else
  match l with
  | [] => None
  | x :: r => match split_at (N.pred n) r with
              | Some (a, b) => Some (x :: a, b)
              | None => None
              end
  end.
Proof. destruct l; reflexivity. Qed.

Lemma rd_nextn_eq n r :
  rd_nextn n r =
  if (n =? 0)%N then Some ([], r) else
  match r with
  | [] => None
  | c :: r' =>
    let k := N.of_nat (length c) in
    if (k <=? n)%N then
      match rd_nextn (n - k) r' with
      | Some (a, r'') => Some (c ++ a, r'')
      | None => None
      end
    else Some (take_n c n, skipn (N.to_nat n) c :: r')
  end.
Proof. destruct r; reflexivity. Qed.

(* ====================================================================== *)
(* the parser over an arbitrary byte source: structure and fuel monotony  *)
(* ====================================================================== *)
Section Gen.
  Variable St : Type.
  Variable next1 : St -> option (N * St).
  Variable nextn : N -> St -> option (bytes * St).
  Local Notation RL := (read_line St next1).
  Local Notation PG := (parse_gen St next1 nextn).
  Local Notation PE := (parse_elems St next1 nextn).
  Local Notation PB := (parse_bulk St next1 nextn).

  (* "read a line, then continue with body" — the shape shared by all five value types *)
  Definition with_line (f : nat) (s1 : St) (body : bytes -> St -> pres * St) : pres * St :=
    match RL f s1 [] with
    | LFuel => (POutOfFuel, s1)
    | LErr => (PErr, s1)
    | LOk ln s2 => body ln s2
    end.

  Definition val_body (k : bytes -> resp) (ln : bytes) (s2 : St) : pres * St := (PValue (k ln), s2).

  Definition arr_body (f : nat) (ln : bytes) (s2 : St) : pres * St :=
    match atoi ln with
    | None => (PErr, s2)
    | Some n =>
      if n <? 0 then (PValue (RArr []), s2)
      else if go_make_ok (Z.min n MAX_PREALLOC) then PE f n s2 []
      else (PPanic, s2)
    end.

  Definition bulk_body (ln : bytes) (s1 : St) : pres * St :=
    match atoi ln with
    | None => (PErr, s1)
    | Some n =>
      if n <? 0 then (PValue (RBulk None), s1)
      else if MAX_BULK <? n then (PErr, s1)
      else
        match nextn (Z.to_N (n + 2)) s1 with
        | None => (PErr, s1)
        | Some (b, s2) =>
          match nth_byte b (Z.to_N n), nth_byte b (Z.to_N (n + 1)) with
          | Some c, Some d =>
            if (c =? CR)%N && (d =? LF)%N then (PValue (RBulk (Some (take_n b (Z.to_N n)))), s2)
            else (PErr, s2)
          | _, _ => (PPanic, s2)
          end
        end
    end.

  Definition parse_tag (f : nat) (t : N) (s1 : St) : pres * St :=
    if (t =? ch_star)%N then with_line f s1 (arr_body f)
    else if (t =? ch_dollar)%N then with_line f s1 bulk_body
    else if (t =? ch_plus)%N then with_line f s1 (val_body RStatus)
    else if (t =? ch_minus)%N then with_line f s1 (val_body RError)
    else if (t =? ch_colon)%N then with_line f s1 (val_body RInt)
    else (PErr, s1).

  Lemma read_line_0 s acc : RL 0 s acc = LFuel.
  Proof. reflexivity. Qed.

  Lemma read_line_S f s acc :
    RL (S f) s acc =
    match next1 s with
    | None => LOk (rev acc) s
    | Some (b, s') =>
      if (b =? CR)%N then
        match next1 s' with
        | Some (c, s'') => if (c =? LF)%N then LOk (rev acc) s'' else LErr
        | None => LErr
        end
      else RL f s' (b :: acc)
    end.
  Proof. reflexivity. Qed.

  Lemma parse_gen_0 s : PG 0 s = (POutOfFuel, s).
  Proof. reflexivity. Qed.

  Lemma parse_gen_S f s :
    PG (S f) s = match next1 s with None => (PEOS, s) | Some (t, s1) => parse_tag f t s1 end.
  Proof. reflexivity. Qed.

  Lemma parse_elems_0 n s acc : PE 0 n s acc = (POutOfFuel, s).
  Proof. reflexivity. Qed.

  Lemma parse_elems_S f n s acc :
    PE (S f) n s acc =
    if n <=? 0 then (PValue (RArr (rev acc)), s)
    else match PG f s with
         | (PValue v, s') => PE f (n - 1) s' (v :: acc)
         | (PEOS, s') => (PErr, s')
         | (r, s') => (r, s')
         end.
  Proof. reflexivity. Qed.

  (* after a non-value element result, parse_elems returns it (EOS turned into an error) *)
  Definition elem_fail (r : pres) : pres := match r with PEOS => PErr | _ => r end.

  Lemma parse_elems_S' f n s acc :
    PE (S f) n s acc =
    if n <=? 0 then (PValue (RArr (rev acc)), s)
    else match fst (PG f s) with
         | PValue v => PE f (n - 1) (snd (PG f s)) (v :: acc)
         | r => (elem_fail r, snd (PG f s))
         end.
  Proof.
    rewrite parse_elems_S. destruct (n <=? 0); [reflexivity|].
    destruct (PG f s) as [r s']. destruct r; reflexivity.
  Qed.

  (* ---------- fuel monotony ---------- *)
  Lemma read_line_mono f : forall g s acc, (f <= g)%nat ->
    RL f s acc <> LFuel -> RL g s acc = RL f s acc.
  Proof.
    induction f as [|f IH]; intros g s acc Hle H.
    - rewrite read_line_0 in H. congruence.
    - destruct g as [|g]; [lia|]. rewrite !read_line_S in *.
      destruct (next1 s) as [[b s1]|]; [|reflexivity].
      destruct (b =? CR)%N; [reflexivity|]. apply IH; [lia|assumption].
  Qed.

  Lemma with_line_mono f g s body body' : (f <= g)%nat ->
    (forall ln s2, fst (body ln s2) <> POutOfFuel -> body' ln s2 = body ln s2) ->
    fst (with_line f s body) <> POutOfFuel -> with_line g s body' = with_line f s body.
  Proof.
    intros Hle Hb H. unfold with_line in *.
    assert (Hrl : RL f s [] <> LFuel).
    { intros E. rewrite E in H. apply H. reflexivity. }
    rewrite (read_line_mono f g s [] Hle Hrl).
    destruct (RL f s []) as [ln s2| |]; [apply Hb; exact H|reflexivity|reflexivity].
  Qed.

  Lemma arr_body_mono f g ln s2 :
    (forall n s acc, fst (PE f n s acc) <> POutOfFuel -> PE g n s acc = PE f n s acc) ->
    fst (arr_body f ln s2) <> POutOfFuel -> arr_body g ln s2 = arr_body f ln s2.
  Proof.
    intros He H. unfold arr_body in *. destruct (atoi ln) as [n|]; [|reflexivity].
    destruct (n <? 0); [reflexivity|].
    destruct (go_make_ok (Z.min n MAX_PREALLOC)); [|reflexivity]. apply He; exact H.
  Qed.

  Lemma parse_tag_mono f g t s :  (f <= g)%nat ->
    (forall n s acc, fst (PE f n s acc) <> POutOfFuel -> PE g n s acc = PE f n s acc) ->
    fst (parse_tag f t s) <> POutOfFuel -> parse_tag g t s = parse_tag f t s.
  Proof.
    intros Hle He H. unfold parse_tag in *.
    destruct (t =? ch_star)%N.
    { apply with_line_mono; [exact Hle| |exact H]. intros ln s2. apply arr_body_mono; exact He. }
    destruct (t =? ch_dollar)%N.
    { apply with_line_mono; [exact Hle| |exact H]. reflexivity. }
    destruct (t =? ch_plus)%N.
    { apply with_line_mono; [exact Hle| |exact H]. reflexivity. }
    destruct (t =? ch_minus)%N.
    { apply with_line_mono; [exact Hle| |exact H]. reflexivity. }
    destruct (t =? ch_colon)%N.
    { apply with_line_mono; [exact Hle| |exact H]. reflexivity. }
    reflexivity.
  Qed.

  Lemma parse_mono_both f :
    (forall g s, (f <= g)%nat -> fst (PG f s) <> POutOfFuel -> PG g s = PG f s) /\
    (forall g n s acc, (f <= g)%nat -> fst (PE f n s acc) <> POutOfFuel -> PE g n s acc = PE f n s acc).
  Proof.
    induction f as [|f [IHg IHe]].
    - split.
      + intros g s _ H. rewrite parse_gen_0 in H. exfalso; apply H; reflexivity.
      + intros g n s acc _ H. rewrite parse_elems_0 in H. exfalso; apply H; reflexivity.
    - split.
      + intros g s Hle H. destruct g as [|g]; [lia|]. rewrite !parse_gen_S in *.
        destruct (next1 s) as [[t s1]|]; [|reflexivity].
        apply parse_tag_mono; [lia| |exact H].
        intros n s0 acc H0. apply IHe; [lia|exact H0].
      + intros g n s acc Hle H. destruct g as [|g]; [lia|]. rewrite !parse_elems_S' in *.
        destruct (n <=? 0); [reflexivity|].
        assert (Hg : fst (PG f s) <> POutOfFuel).
        { intros E. rewrite E in H. apply H. reflexivity. }
        rewrite (IHg g s) by (try lia; exact Hg).
        destruct (fst (PG f s)) as [v| | | |]; try reflexivity.
        apply IHe; [lia|exact H].
  Qed.

  Lemma parse_gen_mono f g s : (f <= g)%nat -> fst (PG f s) <> POutOfFuel -> PG g s = PG f s.
  Proof. intros. apply (proj1 (parse_mono_both f)); assumption. Qed.

  (* ---------- end of stream is only ever reported before the first byte ---------- *)
  Lemma parse_elems_not_eos f : forall n s acc, fst (PE f n s acc) <> PEOS.
  Proof.
    induction f as [|f IH]; intros n s acc.
    - rewrite parse_elems_0. discriminate.
    - rewrite parse_elems_S'. destruct (n <=? 0); [discriminate|].
      destruct (fst (PG f s)); try discriminate. apply IH.
  Qed.

  Lemma with_line_not_eos f s body :
    (forall ln s2, fst (body ln s2) <> PEOS) -> fst (with_line f s body) <> PEOS.
  Proof.
    intros Hb. unfold with_line. destruct (RL f s []); [apply Hb|discriminate|discriminate].
  Qed.

  Lemma bulk_body_not_eos ln s : fst (bulk_body ln s) <> PEOS.
  Proof.
    unfold bulk_body. destruct (atoi ln) as [n|]; [|discriminate].
    destruct (n <? 0); [discriminate|]. destruct (MAX_BULK <? n); [discriminate|].
    destruct (nextn (Z.to_N (n + 2)) s) as [[b s2]|]; [|discriminate].
    destruct (nth_byte b (Z.to_N n)); [|discriminate].
    destruct (nth_byte b (Z.to_N (n + 1))); [|discriminate].
    destruct (_ && _); discriminate.
  Qed.

  Lemma parse_tag_not_eos f t s : fst (parse_tag f t s) <> PEOS.
  Proof.
    unfold parse_tag.
    destruct (t =? ch_star)%N.
    { apply with_line_not_eos. intros ln s2. unfold arr_body.
      destruct (atoi ln) as [n|]; [|discriminate]. destruct (n <? 0); [discriminate|].
      destruct (go_make_ok _); [apply parse_elems_not_eos|discriminate]. }
    destruct (t =? ch_dollar)%N.
    { apply with_line_not_eos. apply bulk_body_not_eos. }
    destruct (t =? ch_plus)%N; [apply with_line_not_eos; discriminate|].
    destruct (t =? ch_minus)%N; [apply with_line_not_eos; discriminate|].
    destruct (t =? ch_colon)%N; [apply with_line_not_eos; discriminate|].
    discriminate.
  Qed.
End Gen.

Arguments with_line {St} next1 f s1 body.
Arguments val_body {St} k ln s2.
Arguments arr_body {St} next1 nextn f ln s2.
Arguments bulk_body {St} nextn ln s1.
Arguments parse_tag {St} next1 nextn f t s1.

(* ====================================================================== *)
(* simulation between two byte sources (C02)                              *)
(* ====================================================================== *)
Section Sim.
  Variables SA SB : Type.
  Variable n1A : SA -> option (N * SA).
  Variable nnA : N -> SA -> option (bytes * SA).
  Variable n1B : SB -> option (N * SB).
  Variable nnB : N -> SB -> option (bytes * SB).
  Variable R : SA -> SB -> Prop.

  Definition rel_opt {X : Type} (x : option (X * SA)) (y : option (X * SB)) : Prop :=
    match x, y with
    | None, None => True
    | Some (a, s), Some (b, t) => a = b /\ R s t
    | _, _ => False
    end.

  Hypothesis H1 : forall s t, R s t -> rel_opt (n1A s) (n1B t).
  Hypothesis Hn : forall n s t, R s t -> rel_opt (nnA n s) (nnB n t).

  Definition rel_res (x : pres * SA) (y : pres * SB) : Prop := fst x = fst y /\ R (snd x) (snd y).

  Definition rel_l (x : lres SA) (y : lres SB) : Prop :=
    match x, y with
    | LOk l s, LOk l' t => l = l' /\ R s t
    | LErr, LErr => True
    | LFuel, LFuel => True
    | _, _ => False
    end.

  Lemma rel_res_intro r s t : R s t -> rel_res (r, s) (r, t).
  Proof. intros HR. split; [reflexivity|exact HR]. Qed.

  Lemma read_line_sim f : forall s t acc, R s t ->
    rel_l (read_line SA n1A f s acc) (read_line SB n1B f t acc).
  Proof.
    induction f as [|f IH]; intros s t acc HR.
    - exact I.
    - rewrite !read_line_S. pose proof (H1 s t HR) as Hx. unfold rel_opt in Hx.
      destruct (n1A s) as [[b s1]|]; destruct (n1B t) as [[b' t1]|]; try contradiction;
        [|split; [reflexivity|exact HR]].
      destruct Hx as [<- HR1]. destruct (b =? CR)%N; [|apply IH; exact HR1].
      pose proof (H1 s1 t1 HR1) as Hy. unfold rel_opt in Hy.
      destruct (n1A s1) as [[c s2]|]; destruct (n1B t1) as [[c' t2]|]; try contradiction; [|exact I].
      destruct Hy as [<- HR2]. destruct (c =? LF)%N; [|exact I]. split; [reflexivity|exact HR2].
  Qed.

  Lemma with_line_sim f s t bodyA bodyB : R s t ->
    (forall ln s2 t2, R s2 t2 -> rel_res (bodyA ln s2) (bodyB ln t2)) ->
    rel_res (with_line n1A f s bodyA) (with_line n1B f t bodyB).
  Proof.
    intros HR Hb. unfold with_line. pose proof (read_line_sim f s t [] HR) as Hx. unfold rel_l in Hx.
    destruct (read_line SA n1A f s []) as [ln s2| |]; destruct (read_line SB n1B f t []) as [ln' t2| |];
      try contradiction.
    - destruct Hx as [<- HR2]. apply Hb; exact HR2.
    - apply rel_res_intro; exact HR.
    - apply rel_res_intro; exact HR.
  Qed.

  Lemma bulk_body_sim ln s t : R s t -> rel_res (bulk_body nnA ln s) (bulk_body nnB ln t).
  Proof.
    intros HR. unfold bulk_body. destruct (atoi ln) as [n|]; [|apply rel_res_intro; exact HR].
    destruct (n <? 0); [apply rel_res_intro; exact HR|].
    destruct (MAX_BULK <? n); [apply rel_res_intro; exact HR|].
    pose proof (Hn (Z.to_N (n + 2)) s t HR) as Hx. unfold rel_opt in Hx.
    destruct (nnA (Z.to_N (n + 2)) s) as [[b s2]|]; destruct (nnB (Z.to_N (n + 2)) t) as [[b' t2]|];
      try contradiction; [|apply rel_res_intro; exact HR].
    destruct Hx as [<- HR2].
    destruct (nth_byte b (Z.to_N n)) as [c|]; [|apply rel_res_intro; exact HR2].
    destruct (nth_byte b (Z.to_N (n + 1))) as [d|]; [|apply rel_res_intro; exact HR2].
    destruct ((c =? CR)%N && (d =? LF)%N); apply rel_res_intro; exact HR2.
  Qed.

  Lemma arr_body_sim f ln s t :
    (forall n s t acc, R s t -> rel_res (parse_elems SA n1A nnA f n s acc) (parse_elems SB n1B nnB f n t acc)) ->
    R s t -> rel_res (arr_body n1A nnA f ln s) (arr_body n1B nnB f ln t).
  Proof.
    intros He HR. unfold arr_body. destruct (atoi ln) as [n|]; [|apply rel_res_intro; exact HR].
    destruct (n <? 0); [apply rel_res_intro; exact HR|].
    destruct (go_make_ok (Z.min n MAX_PREALLOC)); [|apply rel_res_intro; exact HR].
    apply He; exact HR.
  Qed.

  Lemma parse_tag_sim f c s t :
    (forall n s t acc, R s t -> rel_res (parse_elems SA n1A nnA f n s acc) (parse_elems SB n1B nnB f n t acc)) ->
    R s t -> rel_res (parse_tag n1A nnA f c s) (parse_tag n1B nnB f c t).
  Proof.
    intros He HR. unfold parse_tag.
    destruct (c =? ch_star)%N.
    { apply with_line_sim; [exact HR|]. intros ln s2 t2 HR2. apply arr_body_sim; [exact He|exact HR2]. }
    destruct (c =? ch_dollar)%N.
    { apply with_line_sim; [exact HR|]. intros ln s2 t2 HR2. apply bulk_body_sim; exact HR2. }
    destruct (c =? ch_plus)%N.
    { apply with_line_sim; [exact HR|]. intros ln s2 t2 HR2. apply rel_res_intro; exact HR2. }
    destruct (c =? ch_minus)%N.
    { apply with_line_sim; [exact HR|]. intros ln s2 t2 HR2. apply rel_res_intro; exact HR2. }
    destruct (c =? ch_colon)%N.
    { apply with_line_sim; [exact HR|]. intros ln s2 t2 HR2. apply rel_res_intro; exact HR2. }
    apply rel_res_intro; exact HR.
  Qed.

  Lemma parse_sim_both f :
    (forall s t, R s t -> rel_res (parse_gen SA n1A nnA f s) (parse_gen SB n1B nnB f t)) /\
    (forall n s t acc, R s t -> rel_res (parse_elems SA n1A nnA f n s acc) (parse_elems SB n1B nnB f n t acc)).
  Proof.
    induction f as [|f [IHg IHe]].
    - split.
      + intros s t HR. apply rel_res_intro; exact HR.
      + intros n s t acc HR. apply rel_res_intro; exact HR.
    - split.
      + intros s t HR. rewrite !parse_gen_S. pose proof (H1 s t HR) as Hx. unfold rel_opt in Hx.
        destruct (n1A s) as [[c s1]|]; destruct (n1B t) as [[c' t1]|]; try contradiction;
          [|apply rel_res_intro; exact HR].
        destruct Hx as [<- HR1]. apply parse_tag_sim; [exact IHe|exact HR1].
      + intros n s t acc HR. rewrite !parse_elems_S'.
        destruct (n <=? 0); [apply rel_res_intro; exact HR|].
        destruct (IHg s t HR) as [Hf Hs]. rewrite <- Hf.
        destruct (fst (parse_gen SA n1A nnA f s)) as [v| | | |];
          try (apply rel_res_intro; exact Hs).
        apply IHe; exact Hs.
  Qed.

  Lemma parse_gen_sim f s t : R s t -> rel_res (parse_gen SA n1A nnA f s) (parse_gen SB n1B nnB f t).
  Proof. apply (proj1 (parse_sim_both f)). Qed.
End Sim.

Arguments rel_opt {SA SB} R {X} x y.
Arguments rel_res {SA SB} R x y.

(* ====================================================================== *)
(* byte-list helpers                                                      *)
(* ====================================================================== *)
Lemma split_at_spec : forall s n a b,
  split_at n s = Some (a, b) -> s = a ++ b /\ length a = N.to_nat n.
Proof.
  induction s as [|x s IH]; intros n a b H; rewrite split_at_eq in H;
    destruct (N.eqb_spec n 0) as [->|Hn].
  - inversion H; subst. split; reflexivity.
  - discriminate.
  - inversion H; subst. split; reflexivity.
  - destruct (split_at (N.pred n) s) as [[a' b']|] eqn:E; [|discriminate].
    inversion H; subst. destruct (IH _ _ _ E) as [-> Hl]. split; [reflexivity|].
    cbn [length]. lia.
Qed.

Lemma split_at_ext ext : forall s n a b,
  split_at n s = Some (a, b) -> split_at n (s ++ ext) = Some (a, b ++ ext).
Proof.
  induction s as [|x s IH]; intros n a b H; rewrite split_at_eq in H; rewrite split_at_eq;
    destruct (N.eqb_spec n 0) as [->|Hn].
  - inversion H; subst; reflexivity.
  - discriminate.
  - inversion H; subst; reflexivity.
  - cbn [app]. destruct (split_at (N.pred n) s) as [[a' b']|] eqn:E; [|discriminate].
    inversion H; subst. rewrite (IH _ _ _ E). reflexivity.
Qed.

Lemma split_at_exact : forall a n b, n = N.of_nat (length a) -> split_at n (a ++ b) = Some (a, b).
Proof.
  induction a as [|x a IH]; intros n b Hn; rewrite split_at_eq.
  - cbn [length] in Hn. subst n. reflexivity.
  - cbn [length] in Hn. destruct (N.eqb_spec n 0) as [E|E]; [lia|].
    cbn [app]. rewrite IH by lia. reflexivity.
Qed.

Lemma split_at_app_ge : forall c n s, (N.of_nat (length c) <= n)%N ->
  split_at n (c ++ s) =
  match split_at (n - N.of_nat (length c)) s with Some (a, b) => Some (c ++ a, b) | None => None end.
Proof.
  induction c as [|x c IH]; intros n s Hn.
  - cbn [length app]. replace (n - N.of_nat 0)%N with n by lia.
    destruct (split_at n s) as [[a b]|]; reflexivity.
  - cbn [length] in *. rewrite split_at_eq. destruct (N.eqb_spec n 0) as [E|E]; [lia|].
    cbn [app]. rewrite IH by lia.
    replace (N.pred n - N.of_nat (length c))%N with (n - N.of_nat (S (length c)))%N by lia.
    destruct (split_at (n - N.of_nat (S (length c))) s) as [[a b]|]; reflexivity.
Qed.

Lemma split_at_app_lt : forall c n s, (n < N.of_nat (length c))%N ->
  split_at n (c ++ s) = Some (take_n c n, skipn (N.to_nat n) c ++ s).
Proof.
  induction c as [|x c IH]; intros n s Hn.
  - cbn [length] in Hn. lia.
  - cbn [length] in Hn. rewrite split_at_eq. cbn [take_n app].
    destruct (N.eqb_spec n 0) as [E|E].
    + subst n. reflexivity.
    + rewrite IH by lia. replace (N.to_nat n) with (S (N.to_nat (N.pred n))) by lia.
      reflexivity.
Qed.

Lemma nth_byte_app_exact : forall a n x b, n = N.of_nat (length a) -> nth_byte (a ++ x :: b) n = Some x.
Proof.
  induction a as [|y a IH]; intros n x b Hn; cbn [length] in Hn; cbn [app nth_byte].
  - subst n. reflexivity.
  - destruct (N.eqb_spec n 0) as [E|E]; [lia|]. apply IH. lia.
Qed.

Lemma nth_byte_lt : forall a k, (N.to_nat k < length a)%nat -> exists c, nth_byte a k = Some c.
Proof.
  induction a as [|y a IH]; intros k Hk; cbn [length] in Hk; [lia|]. cbn [nth_byte].
  destruct (N.eqb_spec k 0) as [E|E]; [eexists; reflexivity|]. apply IH. lia.
Qed.

Lemma take_n_app_exact : forall a n b, n = N.of_nat (length a) -> take_n (a ++ b) n = a.
Proof.
  induction a as [|y a IH]; intros n b Hn; cbn [length] in Hn; cbn [app].
  - subst n. destruct b; reflexivity.
  - cbn [take_n]. destruct (N.eqb_spec n 0) as [E|E]; [lia|]. f_equal. apply IH. lia.
Qed.

Lemma sanitize_id s : no_crlf s = true -> sanitize s = s.
Proof.
  unfold no_crlf, sanitize. induction s as [|b s IH]; cbn [forallb map]; intros H; [reflexivity|].
  apply andb_prop in H. destruct H as [Hb Hs]. rewrite (IH Hs). unfold sanitize_byte.
  destruct ((b =? CR)%N || (b =? LF)%N); [discriminate|reflexivity].
Qed.

Lemma no_crlf_no_cr s : no_crlf s = true -> ~ In CR s.
Proof.
  unfold no_crlf. induction s as [|b s IH]; cbn [forallb In]; intros H; [tauto|].
  apply andb_prop in H. destruct H as [Hb Hs]. intros [E|Hin]; [|exact (IH Hs Hin)].
  subst b. rewrite N.eqb_refl in Hb. discriminate.
Qed.

(* ====================================================================== *)
(* the flat instance                                                      *)
(* ====================================================================== *)
Local Notation FRL := (read_line bytes flat_next1).
Local Notation FPG := (parse_gen bytes flat_next1 flat_nextn).
Local Notation FPE := (parse_elems bytes flat_next1 flat_nextn).
Local Notation FWL := (with_line flat_next1).
Local Notation FBB := (bulk_body flat_nextn).
Local Notation FAB := (arr_body flat_next1 flat_nextn).
Local Notation FPT := (parse_tag flat_next1 flat_nextn).

(* a line read either stopped at CR LF, or (leniency) ran into the end of the input *)
Lemma read_line_flat_spec f : forall s acc ln s2,
  FRL f s acc = LOk ln s2 ->
  exists l, ln = rev acc ++ l /\ (s = l ++ CR :: LF :: s2 \/ (s = l /\ s2 = [])).
Proof.
  induction f as [|f IH]; intros s acc ln s2 H.
  - rewrite read_line_0 in H. discriminate.
  - rewrite read_line_S in H. destruct s as [|b s1]; cbn [flat_next1] in H.
    { inversion H; subst. exists []. split; [rewrite app_nil_r; reflexivity|right; split; reflexivity]. }
    destruct (N.eqb_spec b CR) as [->|Hb].
    + destruct s1 as [|c s1']; cbn [flat_next1] in H; [discriminate|].
      destruct (N.eqb_spec c LF) as [->|Hc]; [|discriminate].
      inversion H; subst. exists []. split; [rewrite app_nil_r; reflexivity|left; reflexivity].
    + destruct (IH _ _ _ _ H) as (l & -> & Hs). exists (b :: l).
      split; [cbn [rev]; rewrite <- app_assoc; reflexivity|].
      destruct Hs as [->|[-> ->]]; [left; reflexivity|right; split; reflexivity].
Qed.

Lemma read_line_flat_ext ext f : forall s acc ln s2,
  FRL f s acc = LOk ln s2 -> s2 <> [] -> FRL f (s ++ ext) acc = LOk ln (s2 ++ ext).
Proof.
  induction f as [|f IH]; intros s acc ln s2 H Hne.
  - rewrite read_line_0 in H. discriminate.
  - rewrite read_line_S in H. rewrite read_line_S.
    destruct s as [|b s1]; cbn [app flat_next1] in H.
    { inversion H; subst. congruence. }
    cbn [app flat_next1]. destruct (b =? CR)%N.
    + destruct s1 as [|c s1']; cbn [app flat_next1] in *; [discriminate|].
      destruct (c =? LF)%N; [|discriminate]. inversion H; subst. reflexivity.
    + apply IH; [exact H|exact Hne].
Qed.

Lemma read_line_flat_ok : forall ln f rest acc, ~ In CR ln -> (length ln < f)%nat ->
  FRL f (ln ++ CR :: LF :: rest) acc = LOk (rev acc ++ ln) rest.
Proof.
  induction ln as [|b ln IH]; intros f rest acc Hcr Hf; (destruct f as [|f]; [cbn [length] in Hf; lia|]);
    rewrite read_line_S; cbn [app flat_next1].
  - rewrite !N.eqb_refl. rewrite app_nil_r. reflexivity.
  - destruct (N.eqb_spec b CR) as [E|E]; [exfalso; apply Hcr; left; exact E|].
    rewrite IH.
    + cbn [rev]. rewrite <- app_assoc. reflexivity.
    + intros Hin. apply Hcr. right. exact Hin.
    + cbn [length] in Hf. lia.
Qed.

Lemma read_line_flat_nofuel f : forall s acc, (length s < f)%nat -> FRL f s acc <> LFuel.
Proof.
  induction f as [|f IH]; intros s acc Hl; [lia|]. rewrite read_line_S.
  destruct s as [|b s1]; cbn [flat_next1]; [discriminate|].
  destruct (b =? CR)%N.
  - destruct s1 as [|c s1']; cbn [flat_next1]; [discriminate|]. destruct (c =? LF)%N; discriminate.
  - apply IH. cbn [length] in Hl. lia.
Qed.

Lemma with_line_flat_inv f s body v s' :
  FWL f s body = (PValue v, s') ->
  exists ln s2, (exists l, s = l ++ s2) /\ FRL f s [] = LOk ln s2 /\ body ln s2 = (PValue v, s').
Proof.
  unfold with_line. intros H. destruct (FRL f s []) as [ln s2| |] eqn:E; try discriminate.
  destruct (read_line_flat_spec _ _ _ _ _ E) as (l & _ & Hs).
  exists ln, s2. repeat split; try assumption.
  destruct Hs as [->|[-> ->]].
  - exists (l ++ [CR; LF]). rewrite <- app_assoc. reflexivity.
  - exists l. rewrite app_nil_r. reflexivity.
Qed.

(* ---------- consumption ---------- *)
Lemma with_line_flat_consumes f s body v s' :
  (forall ln s2, body ln s2 = (PValue v, s') -> exists c, s2 = c ++ s') ->
  FWL f s body = (PValue v, s') -> exists c, s = c ++ s'.
Proof.
  intros Hb H. destruct (with_line_flat_inv _ _ _ _ _ H) as (ln & s2 & [l ->] & _ & Hbody).
  destruct (Hb _ _ Hbody) as [c ->]. exists (l ++ c).
  rewrite <- app_assoc. reflexivity.
Qed.

Lemma bulk_body_flat_consumes ln s v s' : FBB ln s = (PValue v, s') -> exists c, s = c ++ s'.
Proof.
  intros H. unfold bulk_body in H. destruct (atoi ln) as [n|]; [|discriminate].
  destruct (n <? 0). { inversion H; subst. exists []; reflexivity. }
  destruct (MAX_BULK <? n); [discriminate|].
  unfold flat_nextn in H.
  destruct (split_at (Z.to_N (n + 2)) s) as [[b s2]|] eqn:E; [|discriminate].
  destruct (nth_byte b (Z.to_N n)) as [c|]; [|discriminate].
  destruct (nth_byte b (Z.to_N (n + 1))) as [d|]; [|discriminate].
  destruct ((c =? CR)%N && (d =? LF)%N); [|discriminate].
  inversion H; subst. apply split_at_spec in E. destruct E as [-> _]. exists b; reflexivity.
Qed.

Lemma val_body_consumes k ln (s2 : bytes) v s' : val_body k ln s2 = (PValue v, s') -> exists c, s2 = c ++ s'.
Proof. unfold val_body. intros H. inversion H; subst. exists []; reflexivity. Qed.

Lemma parse_tag_flat_consumes f t s v s' :
  (forall n s acc, FPE f n s acc = (PValue v, s') -> exists c, s = c ++ s') ->
  FPT f t s = (PValue v, s') -> exists c, s = c ++ s'.
Proof.
  intros He H. unfold parse_tag in H.
  destruct (t =? ch_star)%N.
  { revert H. apply with_line_flat_consumes. intros ln s2 Hb. unfold arr_body in Hb.
    destruct (atoi ln) as [n|]; [|discriminate].
    destruct (n <? 0). { inversion Hb; subst. exists []; reflexivity. }
    destruct (go_make_ok _); [|discriminate]. eapply He; exact Hb. }
  destruct (t =? ch_dollar)%N.
  { revert H. apply with_line_flat_consumes. intros ln s2. apply bulk_body_flat_consumes. }
  destruct (t =? ch_plus)%N.
  { revert H. apply with_line_flat_consumes. intros ln s2. apply val_body_consumes. }
  destruct (t =? ch_minus)%N.
  { revert H. apply with_line_flat_consumes. intros ln s2. apply val_body_consumes. }
  destruct (t =? ch_colon)%N.
  { revert H. apply with_line_flat_consumes. intros ln s2. apply val_body_consumes. }
  discriminate.
Qed.

Lemma parse_consumes_both f :
  (forall s v s', FPG f s = (PValue v, s') -> exists c, c <> [] /\ s = c ++ s') /\
  (forall n s acc v s', FPE f n s acc = (PValue v, s') -> exists c, s = c ++ s').
Proof.
  induction f as [|f [IHg IHe]].
  - split.
    + intros s v s' H. rewrite parse_gen_0 in H. discriminate.
    + intros n s acc v s' H. rewrite parse_elems_0 in H. discriminate.
  - split.
    + intros s v s' H. rewrite parse_gen_S in H.
      destruct s as [|t s1]; cbn [flat_next1] in H; [discriminate|].
      apply parse_tag_flat_consumes in H.
      * destruct H as [c ->]. exists (t :: c). split; [discriminate|reflexivity].
      * intros n s acc. apply IHe.
    + intros n s acc v s' H. rewrite parse_elems_S in H.
      destruct (n <=? 0). { inversion H; subst. exists []; reflexivity. }
      destruct (FPG f s) as [r s1] eqn:E. destruct r as [w| | | |]; try discriminate.
      destruct (IHg _ _ _ E) as (c & _ & ->). destruct (IHe _ _ _ _ _ H) as [c' ->].
      exists (c ++ c'). rewrite app_assoc. reflexivity.
Qed.

(* ---------- totality ---------- *)
Definition okr (r : pres) : Prop := r <> POutOfFuel /\ r <> PPanic.

Lemma with_line_flat_total f s body : (length s < f)%nat ->
  (forall ln s2, (length s2 + 2 <= length s)%nat \/ (s2 = [] /\ ln = s) -> okr (fst (body ln s2))) ->
  okr (fst (FWL f s body)).
Proof.
  intros Hf Hb. unfold with_line. destruct (FRL f s []) as [ln s2| |] eqn:E.
  - apply Hb. destruct (read_line_flat_spec _ _ _ _ _ E) as (l & Hln & [->|[-> ->]]).
    + left. rewrite app_length. cbn [length]. lia.
    + right. split; [reflexivity|exact Hln].
  - split; discriminate.
  - exfalso. eapply read_line_flat_nofuel; [exact Hf|exact E].
Qed.

Lemma bulk_body_flat_total ln s : okr (fst (FBB ln s)).
Proof.
  unfold bulk_body. destruct (atoi ln) as [n|]; [|split; discriminate].
  destruct (Z.ltb_spec n 0) as [Hn|Hn]; [split; discriminate|].
  destruct (MAX_BULK <? n); [split; discriminate|].
  unfold flat_nextn.
  destruct (split_at (Z.to_N (n + 2)) s) as [[b s2]|] eqn:E; [|split; discriminate].
  apply split_at_spec in E. destruct E as [_ Hl].
  destruct (nth_byte_lt b (Z.to_N n)) as [c ->]; [lia|].
  destruct (nth_byte_lt b (Z.to_N (n + 1))) as [d ->]; [lia|].
  destruct ((c =? CR)%N && (d =? LF)%N); split; discriminate.
Qed.

Lemma parse_tag_flat_total f t s : (length s < f)%nat ->
  (forall n s2 acc, (length s2 + 1 < f)%nat -> okr (fst (FPE f n s2 acc))) ->
  okr (fst (FPT f t s)).
Proof.
  intros Hf He. unfold parse_tag.
  destruct (t =? ch_star)%N.
  { apply with_line_flat_total; [exact Hf|]. intros ln s2 Hl. unfold arr_body.
    assert (Hl' : ln = [] \/ (length s2 + 1 < f)%nat).
    { destruct Hl as [Hl|[-> ->]]; [right; lia|]. destruct s as [|b s]; [left; reflexivity|].
      right. cbn [length] in *. lia. }
    destruct Hl' as [->|Hl']; [split; discriminate|].
    destruct (atoi ln) as [n|]; [|split; discriminate].
    destruct (Z.ltb_spec n 0) as [Hn|Hn]; [split; discriminate|].
    rewrite go_make_ok_prealloc by exact Hn. apply He; exact Hl'. }
  destruct (t =? ch_dollar)%N.
  { apply with_line_flat_total; [exact Hf|]. intros ln s2 _. apply bulk_body_flat_total. }
  destruct (t =? ch_plus)%N.
  { apply with_line_flat_total; [exact Hf|]. intros ln s2 _. split; discriminate. }
  destruct (t =? ch_minus)%N.
  { apply with_line_flat_total; [exact Hf|]. intros ln s2 _. split; discriminate. }
  destruct (t =? ch_colon)%N.
  { apply with_line_flat_total; [exact Hf|]. intros ln s2 _. split; discriminate. }
  split; discriminate.
Qed.

Lemma parse_total_both f :
  (forall s, (length s < f)%nat -> okr (fst (FPG f s))) /\
  (forall n s acc, (length s + 1 < f)%nat -> okr (fst (FPE f n s acc))).
Proof.
  induction f as [|f [IHg IHe]].
  - split; intros; lia.
  - split.
    + intros s Hf. rewrite parse_gen_S.
      destruct s as [|t s1]; cbn [flat_next1]; [split; discriminate|]. cbn [length] in Hf.
      apply parse_tag_flat_total; [lia|]. intros n s2 acc Hl. apply IHe. exact Hl.
    + intros n s acc Hf. rewrite parse_elems_S.
      destruct (n <=? 0); [split; discriminate|].
      assert (Hg : okr (fst (FPG f s))) by (apply IHg; lia).
      destruct (FPG f s) as [r s1] eqn:E. cbn [fst] in Hg. destruct Hg as [Hg1 Hg2].
      destruct r as [w| | | |]; try (split; discriminate); try congruence.
      destruct (proj1 (parse_consumes_both f) _ _ _ E) as (c & Hc & ->).
      apply IHe. rewrite app_length in Hf. destruct c as [|x c]; [congruence|]. cbn [length] in Hf. lia.
Qed.

(* ---------- stability under extension ---------- *)
Lemma with_line_flat_ext ext f s body body' v s' : s' <> [] ->
  (forall ln s2, body ln s2 = (PValue v, s') ->
                 (exists c, s2 = c ++ s') /\ body' ln (s2 ++ ext) = (PValue v, s' ++ ext)) ->
  FWL f s body = (PValue v, s') -> FWL f (s ++ ext) body' = (PValue v, s' ++ ext).
Proof.
  intros Hne Hb H. destruct (with_line_flat_inv _ _ _ _ _ H) as (ln & s2 & _ & Hrl & Hbody).
  destruct (Hb _ _ Hbody) as [[c Hc] Hb'].
  assert (Hs2 : s2 <> []).
  { intros E. rewrite E in Hc. symmetry in Hc. apply app_eq_nil in Hc. apply Hne. exact (proj2 Hc). }
  unfold with_line. rewrite (read_line_flat_ext ext _ _ _ _ _ Hrl Hs2). exact Hb'.
Qed.

Lemma bulk_body_flat_ext ext ln s v s' :
  FBB ln s = (PValue v, s') -> FBB ln (s ++ ext) = (PValue v, s' ++ ext).
Proof.
  unfold bulk_body. intros H. destruct (atoi ln) as [n|]; [|discriminate].
  destruct (n <? 0). { inversion H; subst. reflexivity. }
  destruct (MAX_BULK <? n); [discriminate|].
  unfold flat_nextn in *.
  destruct (split_at (Z.to_N (n + 2)) s) as [[b s2]|] eqn:E; [|discriminate].
  rewrite (split_at_ext ext _ _ _ _ E).
  destruct (nth_byte b (Z.to_N n)) as [c|]; [|discriminate].
  destruct (nth_byte b (Z.to_N (n + 1))) as [d|]; [|discriminate].
  destruct ((c =? CR)%N && (d =? LF)%N); [|discriminate].
  inversion H; subst. reflexivity.
Qed.

Lemma val_body_ext ext k ln (s2 : bytes) v s' :
  val_body k ln s2 = (PValue v, s') -> val_body k ln (s2 ++ ext) = (PValue v, s' ++ ext).
Proof. unfold val_body. intros H. inversion H; subst. reflexivity. Qed.

Lemma parse_tag_flat_ext ext f t s v s' : s' <> [] ->
  (forall n s acc, FPE f n s acc = (PValue v, s') ->
                   (exists c, s = c ++ s') /\ FPE f n (s ++ ext) acc = (PValue v, s' ++ ext)) ->
  FPT f t s = (PValue v, s') -> FPT f t (s ++ ext) = (PValue v, s' ++ ext).
Proof.
  intros Hne He H. unfold parse_tag in *.
  destruct (t =? ch_star)%N.
  { revert H. apply with_line_flat_ext; [exact Hne|]. intros ln s2 Hb. unfold arr_body in *.
    destruct (atoi ln) as [n|]; [|discriminate].
    destruct (n <? 0). { inversion Hb; subst. split; [exists []|]; reflexivity. }
    destruct (go_make_ok _); [|discriminate]. apply He; exact Hb. }
  destruct (t =? ch_dollar)%N.
  { revert H. apply with_line_flat_ext; [exact Hne|]. intros ln s2 Hb.
    split; [eapply bulk_body_flat_consumes; exact Hb|apply bulk_body_flat_ext; exact Hb]. }
  destruct (t =? ch_plus)%N.
  { revert H. apply with_line_flat_ext; [exact Hne|]. intros ln s2 Hb.
    split; [eapply val_body_consumes; exact Hb|apply val_body_ext; exact Hb]. }
  destruct (t =? ch_minus)%N.
  { revert H. apply with_line_flat_ext; [exact Hne|]. intros ln s2 Hb.
    split; [eapply val_body_consumes; exact Hb|apply val_body_ext; exact Hb]. }
  destruct (t =? ch_colon)%N.
  { revert H. apply with_line_flat_ext; [exact Hne|]. intros ln s2 Hb.
    split; [eapply val_body_consumes; exact Hb|apply val_body_ext; exact Hb]. }
  discriminate.
Qed.

Lemma parse_ext_both ext f :
  (forall s v s', FPG f s = (PValue v, s') -> s' <> [] -> FPG f (s ++ ext) = (PValue v, s' ++ ext)) /\
  (forall n s acc v s', FPE f n s acc = (PValue v, s') -> s' <> [] ->
                        FPE f n (s ++ ext) acc = (PValue v, s' ++ ext)).
Proof.
  induction f as [|f [IHg IHe]].
  - split.
    + intros s v s' H. rewrite parse_gen_0 in H. discriminate.
    + intros n s acc v s' H. rewrite parse_elems_0 in H. discriminate.
  - split.
    + intros s v s' H Hne. rewrite parse_gen_S in H. rewrite parse_gen_S.
      destruct s as [|t s1]; cbn [app flat_next1] in *; [discriminate|].
      apply parse_tag_flat_ext; [exact Hne| |exact H]. intros n s acc He.
      split; [eapply (proj2 (parse_consumes_both f)); exact He|apply IHe; [exact He|exact Hne]].
    + intros n s acc v s' H Hne. rewrite parse_elems_S in H. rewrite parse_elems_S.
      destruct (n <=? 0). { inversion H; subst. reflexivity. }
      destruct (FPG f s) as [r s1] eqn:E. destruct r as [w| | | |]; try discriminate.
      destruct (proj2 (parse_consumes_both f) _ _ _ _ _ H) as [c Hc].
      assert (Hs1 : s1 <> []).
      { intros E1. rewrite E1 in Hc. symmetry in Hc. apply app_eq_nil in Hc. apply Hne. exact (proj2 Hc). }
      rewrite (IHg _ _ _ E Hs1). apply IHe; [exact H|exact Hne].
Qed.

(* ---------- round trip, piecewise ---------- *)
Lemma encode_nonempty v : (0 < length (encode v))%nat.
Proof. destruct v as [s|s|s|[p|]|l]; cbn [encode length]; lia. Qed.

Lemma in64_small z : 0 <= z -> z <= max64 -> in64 z = true.
Proof.
  intros H0 H1. replace z with (Z.of_nat (Z.to_nat z)) by lia. apply in64_of_nat_small. lia.
Qed.

Lemma int_line_flat f z rest body : (length (itoa z) < f)%nat ->
  FWL f (itoa z ++ CRLF ++ rest) body = body (itoa z) rest.
Proof.
  intros Hf. unfold with_line. change (CRLF ++ rest) with (CR :: LF :: rest).
  rewrite read_line_flat_ok; [reflexivity|apply itoa_no_cr|exact Hf].
Qed.

Lemma val_line_flat f k s rest : no_crlf s = true -> (length s < f)%nat ->
  FWL f (sanitize s ++ CRLF ++ rest) (val_body k) = (PValue (k s), rest).
Proof.
  intros Hs Hf. unfold with_line. rewrite (sanitize_id s Hs). change (CRLF ++ rest) with (CR :: LF :: rest).
  rewrite read_line_flat_ok; [reflexivity|apply no_crlf_no_cr; exact Hs|exact Hf].
Qed.

Lemma bulk_body_ok p rest : lenZ p <= MAX_BULK ->
  FBB (itoa (lenZ p)) (p ++ CRLF ++ rest) = (PValue (RBulk (Some p)), rest).
Proof.
  intros Hp. unfold bulk_body. pose proof MAX_BULK_val as HM. pose proof max64_val as H64.
  assert (H0 : 0 <= lenZ p) by (unfold lenZ; lia).
  rewrite atoi_itoa by (apply in64_small; lia).
  destruct (Z.ltb_spec (lenZ p) 0) as [Hn|_]; [lia|].
  destruct (Z.ltb_spec MAX_BULK (lenZ p)) as [Hn|_]; [lia|].
  unfold flat_nextn. rewrite app_assoc.
  rewrite split_at_exact by (rewrite app_length; unfold lenZ, CRLF; cbn [length]; lia).
  unfold CRLF.
  rewrite (nth_byte_app_exact p (Z.to_N (lenZ p)) CR [LF]) by (unfold lenZ; lia).
  replace (p ++ [CR; LF]) with ((p ++ [CR]) ++ LF :: []) at 1 by (rewrite <- app_assoc; reflexivity).
  rewrite (nth_byte_app_exact (p ++ [CR]) (Z.to_N (lenZ p + 1)) LF [])
    by (rewrite app_length; unfold lenZ; cbn [length]; lia).
  rewrite !N.eqb_refl. cbn [andb].
  rewrite take_n_app_exact by (unfold lenZ; lia). reflexivity.
Qed.

Lemma parse_elems_flat_ok : forall l,
  Forall (fun v => forall rest f, wf v = true -> size_ok v = true -> (length (encode v) < f)%nat ->
                   FPG f (encode v ++ rest) = (PValue v, rest)) l ->
  forallb wf l = true -> forallb size_ok l = true ->
  forall f rest acc, (length (flat_map encode l) + 1 < f)%nat ->
  FPE f (lenZ l) (flat_map encode l ++ rest) acc = (PValue (RArr (rev acc ++ l)), rest).
Proof.
  induction 1 as [|x l Hx _ IH]; intros Hwf Hsz f rest acc Hf; (destruct f as [|f]; [lia|]);
    rewrite parse_elems_S.
  - change (lenZ (@nil resp)) with 0. cbn [flat_map app Z.leb Z.compare]. rewrite app_nil_r. reflexivity.
  - cbn [forallb] in Hwf, Hsz. apply andb_prop in Hwf. apply andb_prop in Hsz.
    destruct Hwf as [Hwx Hwl]. destruct Hsz as [Hsx Hsl].
    cbn [flat_map] in *. rewrite app_length in Hf. pose proof (encode_nonempty x) as Hne.
    destruct (Z.leb_spec (lenZ (x :: l)) 0) as [Hn|_]; [unfold lenZ in Hn; cbn [length] in Hn; lia|].
    rewrite <- app_assoc. rewrite (Hx _ f Hwx Hsx) by lia.
    replace (lenZ (x :: l) - 1) with (lenZ l) by (unfold lenZ; cbn [length]; lia).
    rewrite (IH Hwl Hsl) by lia. cbn [rev]. rewrite <- app_assoc. reflexivity.
Qed.

Lemma parse_tag_star (f : nat) (s : bytes) : FPT f ch_star s = FWL f s (FAB f).
Proof. reflexivity. Qed.
Lemma parse_tag_dollar (f : nat) (s : bytes) : FPT f ch_dollar s = FWL f s FBB.
Proof. reflexivity. Qed.
Lemma parse_tag_plus (f : nat) (s : bytes) : FPT f ch_plus s = FWL f s (val_body RStatus).
Proof. reflexivity. Qed.
Lemma parse_tag_minus (f : nat) (s : bytes) : FPT f ch_minus s = FWL f s (val_body RError).
Proof. reflexivity. Qed.
Lemma parse_tag_colon (f : nat) (s : bytes) : FPT f ch_colon s = FWL f s (val_body RInt).
Proof. reflexivity. Qed.

Lemma wf_arr l : wf (RArr l) = forallb wf l.
Proof. reflexivity. Qed.
Lemma size_ok_arr l : size_ok (RArr l) = (lenZ l <=? max64) && forallb size_ok l.
Proof. reflexivity. Qed.

(* ====================================================================== *)
(* the theorems                                                           *)
(* ====================================================================== *)

(* ---------- C01 ---------- *)
(* round trip with explicit fuel: any fuel above the length of the encoding is enough, whatever follows *)
Lemma roundtrip_fuel : forall v rest f,
  wf v = true -> size_ok v = true -> (length (encode v) < f)%nat ->
  parse_fuel f (encode v ++ rest) = (PValue v, rest).
Proof.
  unfold parse_fuel.
  induction v as [s|s|s|p|l IHl] using resp_ind'; intros rest f Hwf Hsz Hf;
    (destruct f as [|f]; [lia|]); rewrite parse_gen_S.
  - cbn [encode app flat_next1 wf length] in *. rewrite parse_tag_plus, <- app_assoc.
    rewrite app_length in Hf. unfold sanitize in Hf. rewrite map_length in Hf. unfold CRLF in Hf.
    cbn [length] in Hf. apply val_line_flat; [exact Hwf|lia].
  - cbn [encode app flat_next1 wf length] in *. rewrite parse_tag_minus, <- app_assoc.
    rewrite app_length in Hf. unfold sanitize in Hf. rewrite map_length in Hf. unfold CRLF in Hf.
    cbn [length] in Hf. apply val_line_flat; [exact Hwf|lia].
  - cbn [encode app flat_next1 wf length] in *. rewrite parse_tag_colon, <- app_assoc.
    rewrite app_length in Hf. unfold sanitize in Hf. rewrite map_length in Hf. unfold CRLF in Hf.
    cbn [length] in Hf. apply val_line_flat; [exact Hwf|lia].
  - destruct p as [p|].
    + cbn [encode app flat_next1 length size_ok] in *. rewrite parse_tag_dollar.
      rewrite <- !app_assoc. rewrite !app_length in Hf.
      rewrite int_line_flat by lia. apply bulk_body_ok. lia.
    + cbn [encode app flat_next1 length] in *. rewrite parse_tag_dollar.
      rewrite <- !app_assoc. rewrite !app_length in Hf.
      rewrite int_line_flat by lia. reflexivity.
  - rewrite wf_arr in Hwf. rewrite size_ok_arr in Hsz. apply andb_prop in Hsz. destruct Hsz as [Hlen Hsz].
    cbn [encode app flat_next1 length] in *. rewrite parse_tag_star.
    rewrite <- !app_assoc. rewrite !app_length in Hf.
    rewrite int_line_flat by lia. unfold arr_body.
    assert (H0 : 0 <= lenZ l) by (unfold lenZ; lia).
    rewrite atoi_itoa by (apply in64_small; lia).
    destruct (Z.ltb_spec (lenZ l) 0) as [Hn|_]; [lia|].
    rewrite go_make_ok_prealloc by exact H0.
    rewrite (parse_elems_flat_ok l IHl Hwf Hsz) by (unfold CRLF in Hf; cbn [length] in Hf; lia).
    reflexivity.
Qed.

Theorem parse_encode : forall v rest,
  wf v = true -> size_ok v = true -> parse (encode v ++ rest) = (PValue v, rest).
Proof.
  intros v rest Hwf Hsz. unfold parse. apply roundtrip_fuel; [exact Hwf|exact Hsz|].
  rewrite app_length. lia.
Qed.

(* bulk strings are binary-safe: NO hypothesis on the payload bytes *)
Theorem bulk_binary_safe : forall p rest,
  lenZ p <= MAX_BULK ->
  encode (RBulk (Some p)) = ch_dollar :: itoa (lenZ p) ++ CRLF ++ p ++ CRLF /\
  parse (encode (RBulk (Some p)) ++ rest) = (PValue (RBulk (Some p)), rest).
Proof.
  intros p rest Hp. split; [reflexivity|]. apply parse_encode; [reflexivity|].
  cbn [size_ok]. lia.
Qed.

(* induction principle for the nested grammar *)
Section CanonInd.
  Variable P : bytes -> Prop.
  Hypothesis Hst : forall s, no_crlf s = true -> P (ch_plus :: s ++ CRLF).
  Hypothesis Her : forall s, no_crlf s = true -> P (ch_minus :: s ++ CRLF).
  Hypothesis Hin : forall s, no_crlf s = true -> P (ch_colon :: s ++ CRLF).
  Hypothesis Hnu : P (ch_dollar :: ch_minus :: 49%N :: CRLF).
  Hypothesis Hbu : forall p, lenZ p <= MAX_BULK -> P (ch_dollar :: itoa (lenZ p) ++ CRLF ++ p ++ CRLF).
  Hypothesis Har : forall xs, lenZ xs <= max64 -> Forall canon xs -> Forall P xs ->
                              P (ch_star :: itoa (lenZ xs) ++ CRLF ++ concat xs).
  Fixpoint canon_ind' (bs : bytes) (c : canon bs) {struct c} : P bs :=
    match c in canon b return P b with
    | canon_status s H => Hst s H
    | canon_error s H => Her s H
    | canon_int s H => Hin s H
    | canon_null => Hnu
    | canon_bulk p H => Hbu p H
    | canon_arr xs Hl F =>
      Har xs Hl F ((fix go (l : list bytes) (F : Forall canon l) {struct F} : Forall P l :=
                      match F in Forall _ l0 return Forall P l0 with
                      | Forall_nil _ => Forall_nil P
                      | Forall_cons x Hx Fr => Forall_cons x (canon_ind' x Hx) (go _ Fr)
                      end) xs F)
    end.
End CanonInd.

Lemma canon_collect : forall xs,
  Forall (fun bs => exists v, wf v = true /\ size_ok v = true /\ parse bs = (PValue v, []) /\ encode v = bs) xs ->
  exists l, forallb wf l = true /\ forallb size_ok l = true /\ map encode l = xs.
Proof.
  induction 1 as [|x xs (v & Hw & Hs & _ & He) _ (l & Hwl & Hsl & Hel)].
  - exists []. repeat split; reflexivity.
  - exists (v :: l). rewrite map_cons. cbn [forallb]. rewrite Hw, Hs, Hwl, Hsl, He.
    repeat split; try reflexivity. f_equal. exact Hel.
Qed.

(* canonical input is reproduced exactly by parse-then-serialize *)
Theorem canon_reencode : forall bs, canon bs ->
  exists v, wf v = true /\ size_ok v = true /\ parse bs = (PValue v, []) /\ encode v = bs.
Proof.
  assert (K : forall v, wf v = true -> size_ok v = true ->
              exists v', wf v' = true /\ size_ok v' = true /\ parse (encode v) = (PValue v', []) /\ encode v' = encode v).
  { intros v Hw Hs. exists v. repeat split; try assumption.
    rewrite <- (app_nil_r (encode v)) at 1. apply parse_encode; assumption. }
  induction 1 as [s Hs|s Hs|s Hs| |p Hp|xs Hl F IH] using canon_ind'.
  - rewrite <- (sanitize_id s Hs). apply (K (RStatus s)); [exact Hs|reflexivity].
  - rewrite <- (sanitize_id s Hs). apply (K (RError s)); [exact Hs|reflexivity].
  - rewrite <- (sanitize_id s Hs). apply (K (RInt s)); [exact Hs|reflexivity].
  - apply (K (RBulk None)); reflexivity.
  - apply (K (RBulk (Some p))); [reflexivity|]. cbn [size_ok]. lia.
  - destruct (canon_collect xs IH) as (l & Hwl & Hsl & Hel).
    assert (Hlen : lenZ l = lenZ xs) by (unfold lenZ; rewrite <- Hel, map_length; reflexivity).
    replace (ch_star :: itoa (lenZ xs) ++ CRLF ++ concat xs) with (encode (RArr l)).
    + apply K; [rewrite wf_arr; exact Hwl|]. rewrite size_ok_arr, Hsl, Hlen.
      apply andb_true_intro. split; [lia|reflexivity].
    + cbn [encode]. rewrite Hlen, flat_map_concat_map. subst xs. reflexivity.
Qed.

(* ---------- C06: totality ---------- *)
(* consumption: a value result consumed a non-empty prefix *)
Lemma parse_fuel_consumes : forall f s v s',
  parse_fuel f s = (PValue v, s') -> exists c, c <> [] /\ s = c ++ s'.
Proof. intros f. exact (proj1 (parse_consumes_both f)). Qed.

Theorem parse_fuel_total : forall f s, (length s < f)%nat ->
  fst (parse_fuel f s) <> POutOfFuel /\ fst (parse_fuel f s) <> PPanic.
Proof. intros f s Hf. exact (proj1 (parse_total_both f) s Hf). Qed.

Theorem parse_total : forall s,
  match fst (parse s) with PValue _ | PEOS | PErr => True | PPanic | POutOfFuel => False end.
Proof.
  intros s. unfold parse. destruct (parse_fuel_total (S (length s)) s) as [H1 H2]; [lia|].
  destruct (fst (parse_fuel (S (length s)) s)); try exact I; congruence.
Qed.

(* fuel monotonicity *)
Lemma parse_fuel_mono : forall f g s r s', (f <= g)%nat ->
  parse_fuel f s = (r, s') -> r <> POutOfFuel -> parse_fuel g s = (r, s').
Proof.
  intros f g s r s' Hle H Hr. unfold parse_fuel in *. rewrite <- H.
  apply parse_gen_mono; [exact Hle|]. rewrite H. exact Hr.
Qed.

(* ---------- C02: chunking independence ---------- *)
Definition rd_rel (r : reader) (s : bytes) : Prop := rd_flat r = s.

Lemma rd_next1_rel : forall r s, rd_rel r s -> rel_opt rd_rel (rd_next1 r) (flat_next1 s).
Proof.
  unfold rd_rel, rd_flat. intros r s <-. induction r as [|c r IH].
  - exact I.
  - destruct c as [|b c]; cbn [rd_next1 concat app flat_next1].
    + exact IH.
    + split; reflexivity.
Qed.

Lemma rd_nextn_rel : forall n r s, rd_rel r s -> rel_opt rd_rel (rd_nextn n r) (flat_nextn n s).
Proof.
  unfold rd_rel, rd_flat, flat_nextn. intros n r s <-. revert n.
  induction r as [|c r IH]; intros n; rewrite rd_nextn_eq.
  - rewrite split_at_eq. cbn [concat]. destruct (n =? 0)%N; [split; reflexivity|exact I].
  - destruct (N.eqb_spec n 0) as [->|Hn].
    + rewrite split_at_eq. cbn [N.eqb]. split; reflexivity.
    + cbn zeta. cbn [concat]. destruct (N.leb_spec (N.of_nat (length c)) n) as [Hk|Hk].
      * rewrite split_at_app_ge by exact Hk. specialize (IH (n - N.of_nat (length c))%N).
        unfold rel_opt in IH.
        destruct (rd_nextn (n - N.of_nat (length c)) r) as [[a r2]|];
          destruct (split_at (n - N.of_nat (length c)) (concat r)) as [[a' s2]|]; try contradiction.
        -- destruct IH as [<- <-]. split; reflexivity.
        -- exact I.
      * rewrite split_at_app_lt by exact Hk. split; reflexivity.
Qed.

(* the chunked parser and the flat parser agree on every reader: same outcome, related remainder *)
Theorem parse_rd_flat_fuel : forall f r,
  fst (parse_rd_fuel f r) = fst (parse_fuel f (rd_flat r)) /\
  rd_flat (snd (parse_rd_fuel f r)) = snd (parse_fuel f (rd_flat r)).
Proof.
  intros f r. unfold parse_rd_fuel, parse_fuel.
  exact (parse_gen_sim reader bytes rd_next1 rd_nextn flat_next1 flat_nextn rd_rel
           rd_next1_rel rd_nextn_rel f r (rd_flat r) eq_refl).
Qed.

Theorem parse_rd_flat : forall r,
  fst (parse_rd r) = fst (parse (rd_flat r)) /\ rd_flat (snd (parse_rd r)) = snd (parse (rd_flat r)).
Proof. intros r. unfold parse_rd, parse. apply parse_rd_flat_fuel. Qed.

Lemma parse_all_S f s :
  parse_all (S f) s =
  match parse s with
  | (PValue v, s') => let (vs, e) := parse_all f s' in (v :: vs, e)
  | (r, _) => ([], r)
  end.
Proof. reflexivity. Qed.

Lemma parse_all_rd_S f r :
  parse_all_rd (S f) r =
  match parse_rd r with
  | (PValue v, r') => let (vs, e) := parse_all_rd f r' in (v :: vs, e)
  | (x, _) => ([], x)
  end.
Proof. reflexivity. Qed.

(* any partition of the byte stream of a value sequence parses to exactly those values, then EOS *)
Theorem parse_all_stream : forall vs,
  forallb wf vs = true -> forallb size_ok vs = true ->
  parse_all (Datatypes.S (length vs)) (flat_map encode vs) = (vs, PEOS).
Proof.
  induction vs as [|v vs IH]; intros Hwf Hsz.
  - reflexivity.
  - cbn [forallb] in Hwf, Hsz. apply andb_prop in Hwf. apply andb_prop in Hsz.
    destruct Hwf as [Hwv Hwl]. destruct Hsz as [Hsv Hsl].
    cbn [length flat_map]. rewrite parse_all_S. rewrite (parse_encode v _ Hwv Hsv).
    rewrite (IH Hwl Hsl). reflexivity.
Qed.

Lemma parse_all_rd_flat : forall f r, parse_all_rd f r = parse_all f (rd_flat r).
Proof.
  induction f as [|f IH]; intros r; [reflexivity|].
  rewrite parse_all_S, parse_all_rd_S. destruct (parse_rd_flat r) as [H1 H2].
  destruct (parse_rd r) as [x r']. destruct (parse (rd_flat r)) as [y s']. cbn [fst snd] in H1, H2.
  subst y s'. destruct x as [v| | | |]; try reflexivity. rewrite IH. reflexivity.
Qed.

Theorem parse_all_chunking : forall vs r,
  forallb wf vs = true -> forallb size_ok vs = true ->
  rd_flat r = flat_map encode vs ->
  parse_all_rd (Datatypes.S (length vs)) r = (vs, PEOS).
Proof.
  intros vs r Hwf Hsz Hr. rewrite parse_all_rd_flat, Hr. apply parse_all_stream; assumption.
Qed.

(* ---------- C11: prefix-freedom ---------- *)
(* a value result that left something unread is stable under extension of the input *)
Lemma parse_extend : forall s v s' ext,
  parse s = (PValue v, s') -> s' <> [] -> parse (s ++ ext) = (PValue v, s' ++ ext).
Proof.
  intros s v s' ext H Hne. unfold parse in *.
  apply (parse_fuel_mono (S (length s))).
  - rewrite app_length. lia.
  - unfold parse_fuel in *. apply (proj1 (parse_ext_both ext (S (length s)))); [exact H|exact Hne].
  - discriminate.
Qed.

(* -- decimal facts: a positive number is printed without a leading zero -- *)
Lemma pos_to_uint_head p : match Pos.to_uint p with Decimal.Nil | Decimal.D0 _ => False | _ => True end.
Proof.
  pose proof (DecimalPos.Unsigned.to_of (Pos.to_uint p)) as H.
  rewrite DecimalPos.Unsigned.of_to in H. cbn [N.to_uint] in H.
  pose proof (DecimalPos.Unsigned.to_uint_nonzero p) as Hz.
  pose proof (DecimalFacts.nzhead_nonzero (Pos.to_uint p)) as Hh.
  unfold Decimal.unorm in H.
  destruct (Decimal.nzhead (Pos.to_uint p)) as [|u|u|u|u|u|u|u|u|u|u] eqn:E.
  - exfalso. apply Hz. exact H.
  - exfalso. apply (Hh u). reflexivity.
  - rewrite H. exact I.
  - rewrite H. exact I.
  - rewrite H. exact I.
  - rewrite H. exact I.
  - rewrite H. exact I.
  - rewrite H. exact I.
  - rewrite H. exact I.
  - rewrite H. exact I.
  - rewrite H. exact I.
Qed.

Lemma itoa_pos_head k : 1 <= k -> exists b r, itoa k = b :: r /\ (49 <= b <= 57)%N.
Proof.
  intros Hk. destruct k as [|p|p]; try lia. unfold itoa. cbn [Z.to_int].
  pose proof (pos_to_uint_head p) as H.
  destruct (Pos.to_uint p); try contradiction; cbn [bytes_of_uint];
    eexists _, _; (split; [reflexivity|lia]).
Qed.

Lemma itoa_nonneg_digits n : 0 <= n -> Forall (fun b => is_digit b = true) (itoa n).
Proof.
  intros Hn. unfold itoa.
  destruct (to_int_cases n) as [[_ (u & -> & _)]|[Hneg _]]; [apply bytes_of_uint_digits|lia].
Qed.

Lemma uint_of_bytes_nz_head b r u : (49 <= b <= 57)%N ->
  uint_of_bytes (b :: r) = Some u -> exists q, N.of_uint u = N.pos q.
Proof.
  intros Hb H. cbn [uint_of_bytes] in H. destruct (uint_of_bytes r) as [u0|]; [|discriminate].
  destruct (N.eqb_spec b 48) as [E|_]; [lia|].
  repeat (match type of H with (if ?c then _ else _) = _ => destruct c end;
          [inversion H; subst; eexists; reflexivity|]).
  discriminate.
Qed.

Lemma atoi_nz_head b r m : (49 <= b <= 57)%N -> atoi (b :: r) = Some m -> 1 <= m.
Proof.
  intros Hb H. unfold atoi in H.
  destruct (N.eqb_spec b ch_minus) as [E|_]; [unfold ch_minus in E; lia|].
  destruct (N.eqb_spec b ch_plus) as [E|_]; [unfold ch_plus in E; lia|].
  unfold atoi_digits in H. cbv beta iota in H.
  destruct (uint_of_bytes (b :: r)) as [u|] eqn:E; [|discriminate].
  apply uint_of_bytes_nz_head in E; [|exact Hb]. destruct E as [q Hq].
  cbv zeta in H. rewrite Hq in H. destruct (in64 _); [|discriminate]. inversion H. lia.
Qed.

Lemma atoi_digit_head_nonneg b r m : is_digit b = true -> atoi (b :: r) = Some m -> 0 <= m.
Proof.
  intros Hb H. unfold is_digit in Hb. unfold atoi in H.
  destruct (N.eqb_spec b ch_minus) as [E|_]; [unfold ch_minus in E; lia|].
  destruct (N.eqb_spec b ch_plus) as [E|_]; [unfold ch_plus in E; lia|].
  unfold atoi_digits in H. cbv beta iota in H.
  destruct (uint_of_bytes (b :: r)) as [u|]; [|discriminate].
  cbv zeta in H. destruct (in64 _); [|discriminate]. inversion H. lia.
Qed.

(* -- the lenient line reader at the end of the input -- *)
Lemma read_line_flat_eos : forall d f acc, ~ In CR d -> (length d < f)%nat ->
  FRL f d acc = LOk (rev acc ++ d) [].
Proof.
  induction d as [|b d IH]; intros f acc Hcr Hf; (destruct f as [|f]; [cbn [length] in Hf; lia|]);
    rewrite read_line_S; cbn [flat_next1].
  - rewrite app_nil_r. reflexivity.
  - destruct (N.eqb_spec b CR) as [E|E]; [exfalso; apply Hcr; left; exact E|].
    rewrite IH.
    + cbn [rev]. rewrite <- app_assoc. reflexivity.
    + intros Hin. apply Hcr. right. exact Hin.
    + cbn [length] in Hf. lia.
Qed.

Lemma read_line_flat_cr_eos : forall d f acc, ~ In CR d -> (length d < f)%nat ->
  FRL f (d ++ [CR]) acc = LErr.
Proof.
  induction d as [|b d IH]; intros f acc Hcr Hf; (destruct f as [|f]; [cbn [length] in Hf; lia|]);
    rewrite read_line_S; cbn [app flat_next1].
  - rewrite N.eqb_refl. reflexivity.
  - destruct (N.eqb_spec b CR) as [E|E]; [exfalso; apply Hcr; left; exact E|].
    apply IH.
    + intros Hin. apply Hcr. right. exact Hin.
    + cbn [length] in Hf. lia.
Qed.

(* where a cut can fall in "line CR LF body" *)
Lemma cut_line (d body p q : bytes) : d ++ CR :: LF :: body = p ++ q ->
  (exists d', d = p ++ d') \/ p = d ++ [CR] \/ (exists p2, p = d ++ CR :: LF :: p2 /\ body = p2 ++ q).
Proof.
  intros H. apply app_eq_app in H. destruct H as [m [[H1 H2]|[H1 H2]]].
  - left. exists m. exact H1.
  - destruct m as [|c m].
    + left. exists []. rewrite app_nil_r in *. symmetry. exact H1.
    + cbn [app] in H2. inversion H2 as [[Hc H3]]. subst c. destruct m as [|c m].
      * right. left. exact H1.
      * cbn [app] in H3. inversion H3 as [[Hc H4]]. subst c. right. right. exists m.
        split; [exact H1|reflexivity].
Qed.

Lemma split_at_short n s : (length s < N.to_nat n)%nat -> split_at n s = None.
Proof.
  intros Hl. destruct (split_at n s) as [[a b]|] eqn:E; [|reflexivity].
  apply split_at_spec in E. destruct E as [-> Ha]. rewrite app_length in Hl. lia.
Qed.

Lemma not_in_app_l (x : N) (a b : bytes) : ~ In x (a ++ b) -> ~ In x a.
Proof. intros H Hin. apply H. apply in_or_app. left. exact Hin. Qed.

(* a strict non-empty prefix of a bulk string is an error *)
Lemma bulk_prefix_err x p q f : lenZ x <= MAX_BULK ->
  encode (RBulk (Some x)) = p ++ q -> q <> [] -> p <> [] -> (length p < f)%nat ->
  fst (FPG f p) = PErr.
Proof.
  intros Hx He Hq Hp Hf. pose proof MAX_BULK_val as HM. pose proof max64_val as H64.
  assert (H0 : 0 <= lenZ x) by (unfold lenZ; lia).
  destruct p as [|t p1]; [congruence|]. cbn [encode app] in He. inversion He as [[Ht He1]]. clear He.
  destruct f as [|f]; [lia|]. cbn [length] in Hf. rewrite parse_gen_S. cbn [flat_next1].
  rewrite parse_tag_dollar. unfold with_line.
  change (CRLF ++ x ++ CRLF) with (CR :: LF :: x ++ CRLF) in He1.
  apply cut_line in He1. destruct He1 as [[d' Hd]|[Hd|[p2 [Hd Hb]]]].
  - assert (Hcr : ~ In CR p1).
    { apply (not_in_app_l _ _ d'). rewrite <- Hd. apply itoa_no_cr. }
    rewrite read_line_flat_eos by (try exact Hcr; lia). cbn [rev app]. unfold bulk_body.
    destruct p1 as [|b r]; [reflexivity|].
    destruct (atoi (b :: r)) as [m|] eqn:Ea; [|reflexivity].
    assert (Hm : 0 <= m).
    { apply (atoi_digit_head_nonneg b r m); [|exact Ea].
      pose proof (itoa_nonneg_digits (lenZ x) H0) as Hdig. rewrite Hd in Hdig.
      cbn [app] in Hdig. inversion Hdig; assumption. }
    destruct (Z.ltb_spec m 0) as [Hlt|_]; [lia|].
    destruct (MAX_BULK <? m); [reflexivity|].
    unfold flat_nextn. rewrite split_at_short by (cbn [length]; lia). reflexivity.
  - subst p1. rewrite read_line_flat_cr_eos; [reflexivity|apply itoa_no_cr|].
    rewrite app_length in Hf. cbn [length] in Hf. lia.
  - subst p1. rewrite !app_length in Hf. cbn [length] in Hf.
    rewrite read_line_flat_ok by (try apply itoa_no_cr; lia). cbn [rev app]. unfold bulk_body.
    rewrite atoi_itoa by (apply in64_small; lia).
    destruct (Z.ltb_spec (lenZ x) 0) as [Hlt|_]; [lia|].
    destruct (Z.ltb_spec MAX_BULK (lenZ x)) as [Hlt|_]; [lia|].
    unfold flat_nextn. rewrite split_at_short; [reflexivity|].
    assert (Hl : length (x ++ CRLF) = (length p2 + length q)%nat) by (rewrite Hb, app_length; reflexivity).
    rewrite app_length in Hl. unfold CRLF in Hl. cbn [length] in Hl.
    destruct q as [|c q]; [congruence|]. cbn [length] in Hl. unfold lenZ. lia.
Qed.

Lemma lenZ_cons {A} (x : A) l : lenZ (x :: l) = lenZ l + 1.
Proof. unfold lenZ. cbn [length]. lia. Qed.

(* cutting the element sequence of a request anywhere before its end *)
Lemma elems_prefix_err : forall l, forallb is_bulk_some l = true -> forallb size_ok l = true ->
  forall p q f acc, flat_map encode l = p ++ q -> q <> [] -> (length p + 1 < f)%nat ->
  fst (FPE f (lenZ l) p acc) = PErr.
Proof.
  induction l as [|x l IH]; intros Hb Hs p q f acc He Hq Hf.
  - cbn [flat_map] in He. symmetry in He. apply app_eq_nil in He. exfalso. apply Hq. exact (proj2 He).
  - destruct f as [|f]; [lia|]. rewrite parse_elems_S'.
    cbn [forallb] in Hb, Hs. apply andb_prop in Hb. apply andb_prop in Hs.
    destruct Hb as [Hbx Hbl]. destruct Hs as [Hsx Hsl].
    destruct x as [s|s|s|[y|]|l0]; try discriminate.
    rewrite lenZ_cons. assert (H0 : 0 <= lenZ l) by (unfold lenZ; lia).
    destruct (Z.leb_spec (lenZ l + 1) 0) as [Hn|_]; [lia|].
    cbn [flat_map] in He. apply app_eq_app in He. destruct He as [m [[H1 H2]|[H1 H2]]].
    + destruct m as [|c m].
      * (* the cut is exactly after this element *)
        rewrite app_nil_r in H1. cbn [app] in H2. subst p.
        rewrite <- (app_nil_r (encode (RBulk (Some y)))).
        pose proof (roundtrip_fuel (RBulk (Some y)) [] f eq_refl Hsx) as Hrt. unfold parse_fuel in Hrt.
        rewrite Hrt by lia. cbn [fst snd].
        replace (lenZ l + 1 - 1) with (lenZ l) by lia.
        apply (IH Hbl Hsl [] q); [symmetry; exact H2|exact Hq|].
        pose proof (encode_nonempty (RBulk (Some y))). cbn [length]. lia.
      * destruct p as [|t p1].
        -- destruct f as [|f]; [cbn [length] in Hf; lia|]. rewrite parse_gen_S. reflexivity.
        -- rewrite (bulk_prefix_err y (t :: p1) (c :: m) f); [reflexivity| |exact H1|discriminate|discriminate|lia].
           cbn [size_ok] in Hsx. lia.
    + subst p. rewrite app_length in Hf.
      pose proof (roundtrip_fuel (RBulk (Some y)) m f eq_refl Hsx) as Hrt. unfold parse_fuel in Hrt.
      rewrite Hrt by lia. cbn [fst snd].
      replace (lenZ l + 1 - 1) with (lenZ l) by lia.
      apply (IH Hbl Hsl m q); [exact H2|exact Hq|].
      pose proof (encode_nonempty (RBulk (Some y))). lia.
Qed.

(* a strict prefix of a client request never parses to a value: it is end-of-stream (empty) or an error *)
Theorem prefix_free_request : forall v p q,
  is_request v = true -> size_ok v = true -> encode v = p ++ q -> q <> [] ->
  fst (parse p) = (match p with [] => PEOS | _ => PErr end).
Proof.
  intros v p q Hr Hs He Hq. destruct p as [|t p1]; [reflexivity|].
  destruct v as [s|s|s|o|[|x l]]; try discriminate.
  unfold is_request in Hr. rewrite size_ok_arr in Hs. apply andb_prop in Hs. destruct Hs as [Hlen Hs].
  assert (Hk : 1 <= lenZ (x :: l)) by (rewrite lenZ_cons; unfold lenZ; lia).
  remember (x :: l) as L eqn:EL. clear EL x l.
  pose proof max64_val as H64.
  cbn [encode app] in He. inversion He as [[Ht He1]]. clear He.
  unfold parse, parse_fuel. cbn [length]. rewrite parse_gen_S. cbn [flat_next1].
  rewrite parse_tag_star. unfold with_line.
  change (CRLF ++ flat_map encode L) with (CR :: LF :: flat_map encode L) in He1.
  apply cut_line in He1. destruct He1 as [[d' Hd]|[Hd|[p2 [Hd Hb]]]].
  - assert (Hcr : ~ In CR p1).
    { apply (not_in_app_l _ _ d'). rewrite <- Hd. apply itoa_no_cr. }
    rewrite read_line_flat_eos by (try exact Hcr; lia). cbn [rev app]. unfold arr_body.
    destruct p1 as [|b r]; [reflexivity|].
    destruct (atoi (b :: r)) as [m|] eqn:Ea; [|reflexivity].
    assert (Hm : 1 <= m).
    { apply (atoi_nz_head b r m); [|exact Ea].
      destruct (itoa_pos_head _ Hk) as (b0 & r0 & Hi & Hb0). rewrite Hi in Hd. cbn [app] in Hd.
      inversion Hd; subst. exact Hb0. }
    destruct (Z.ltb_spec m 0) as [Hlt|_]; [lia|].
    rewrite go_make_ok_prealloc by lia. cbn [length].
    rewrite parse_elems_S. destruct (Z.leb_spec m 0) as [Hle|_]; [lia|].
    rewrite parse_gen_S. reflexivity.
  - subst p1. rewrite read_line_flat_cr_eos; [reflexivity|apply itoa_no_cr|].
    rewrite app_length. cbn [length]. lia.
  - subst p1. rewrite read_line_flat_ok by (try apply itoa_no_cr; rewrite app_length; lia).
    cbn [rev app]. unfold arr_body.
    rewrite atoi_itoa by (apply in64_small; lia).
    destruct (Z.ltb_spec (lenZ L) 0) as [Hlt|_]; [lia|].
    rewrite go_make_ok_prealloc by lia.
    apply (elems_prefix_err L Hr Hs p2 q); [exact Hb|exact Hq|].
    rewrite app_length. cbn [length]. lia.
Qed.
