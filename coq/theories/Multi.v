(* Multi.v — several connections over one server and one application state.  A system step is one request of
   one connection (requests are executed one at a time: Server.commandMutex), or the end of a connection. *)
From Coq Require Import String.
From GR Require Import Base Resp Handler Exec Conn.
Open Scope Z_scope.

Section Multi.
  Variable hstate : Type.
  Variable handle : hstate -> Z -> hcall -> hstate * hresult.
  Variable regexp_src : bytes -> bytes.
  Variable fw_text : bytes -> args -> bytes.

  Record mconn := { mc_cs : cstate; mc_live : bool; mc_evs : list ev }.        (* events newest first *)
  Record msys := { ms_ss : sstate; ms_hs : hstate; ms_conns : list mconn; ms_panic : bool }.

  Inductive mop := MReq (i : nat) (req : resp) | MEnd (i : nat).

  Definition new_conn (ss : sstate) : mconn :=
    {| mc_cs := initial_cstate ss None; mc_live := true; mc_evs := [EvRegister] |}.

  Definition msys_init (ss : sstate) (hs : hstate) (n : nat) : msys :=
    {| ms_ss := ss; ms_hs := hs; ms_conns := repeat (new_conn ss) n; ms_panic := false |}.

  Fixpoint set_nth {A} (l : list A) (i : nat) (x : A) : list A :=
    match l, i with
    | [], _ => []
    | _ :: r, O => x :: r
    | y :: r, S j => y :: set_nth r j x
    end.

  Definition parse_evs : list ev := [EvSpanFinish; EvSpanStart (B"parse"); EvRootStart].   (* newest first *)

  Definition mstep (m : msys) (o : mop) : msys :=
    match o with
    | MReq i req =>
      match nth_error (ms_conns m) i with
      | Some c =>
        if negb (mc_live c) then m else
        let w := {| w_cs := mc_cs c; w_ss := ms_ss m; w_est := {| e_hs := ms_hs m; e_evs := parse_evs ++ mc_evs c |} |} in
        match step hstate handle regexp_src fw_text w req with
        | Panic => {| ms_ss := ms_ss m; ms_hs := ms_hs m; ms_conns := ms_conns m; ms_panic := true |}
        | Ok (quit, w') =>
          let evs := e_evs _ (w_est _ w') in
          let c' := if quit then {| mc_cs := w_cs _ w'; mc_live := false; mc_evs := EvClose :: EvDeregister :: evs |}
                    else {| mc_cs := w_cs _ w'; mc_live := true; mc_evs := evs |} in
          {| ms_ss := w_ss _ w'; ms_hs := e_hs _ (w_est _ w'); ms_conns := set_nth (ms_conns m) i c'; ms_panic := ms_panic m |}
        end
      | None => m
      end
    | MEnd i =>
      match nth_error (ms_conns m) i with
      | Some c =>
        if negb (mc_live c) then m else
        let c' := {| mc_cs := mc_cs c; mc_live := false;
                     mc_evs := EvClose :: EvDeregister :: EvRootFinish :: parse_evs ++ mc_evs c |} in
        {| ms_ss := ms_ss m; ms_hs := ms_hs m; ms_conns := set_nth (ms_conns m) i c'; ms_panic := ms_panic m |}
      | None => m
      end
    end.

  Definition mrun (m : msys) (ops : list mop) : msys := fold_left mstep ops m.
End Multi.
