(* LifecycleLive.v — Stop terminates (C15): once Stop has closed the listeners, every execution of the system — whatever
   the accept loops, the connection goroutines and the clients do, in whatever order — is finite, cannot get stuck before
   Stop returns, and none of the steps Stop waits for depends on a peer (every socket Stop waits on is closed).
   The argument is a measure that every enabled step strictly decreases:
       mu s = rank of Stop's program counter + (2 per tracked, 1 per registered connection goroutine) + live accept loops *)
From Coq Require Import List Arith Bool Lia.
Import ListNotations.
From GR Require Import Lifecycle LifecycleFacts LifecycleThms.

Definition stop_wait (p : apc) : bool := match p with PStop2 | PStop3 | PStop3r | PStop4 => true | _ => false end.
Definition rank (p : apc) : nat := match p with PStop2 => 4 | PStop3 => 3 | PStop3r => 2 | PStop4 => 1 | _ => 0 end.
Definition ccost (c : cthread) : nat := match ct_st c with CTracked => 2 | CRegistered => 1 | CDone => 0 end.
Definition csum (l : list cthread) : nat := list_sum (map ccost l).
Definition mu (s : sys) : nat := rank (pc s) + csum (conns s) + count loop_live (loops s).

Lemma csum_cons c l : csum (c :: l) = ccost c + csum l.
Proof. reflexivity. Qed.

Lemma set_conn_other id f l : ~ In id (map ct_id l) -> set_conn id f l = l.
Proof.
  intros H. unfold set_conn. rewrite <- (map_id l) at 2. apply map_ext_in. intros y Hy.
  destruct (Nat.eqb (ct_id y) id) eqn:E; [|reflexivity]. apply Nat.eqb_eq in E. exfalso. apply H. rewrite <- E. apply in_map. exact Hy.
Qed.

Lemma csum_set_conn id f l c : NoDup (map ct_id l) -> In c l -> ct_id c = id ->
  csum (set_conn id f l) + ccost c = csum l + ccost (f c).
Proof.
  induction l as [|x l IH]; intros Hnd Hin Hid; [contradiction|].
  cbn [map] in Hnd. inversion Hnd as [|? ? Hx Hnd']; subst. cbn [set_conn map]. fold (set_conn (ct_id c) f l). rewrite !csum_cons.
  destruct Hin as [->|Hin].
  - rewrite Nat.eqb_refl. rewrite (set_conn_other _ f l Hx). lia.
  - destruct (Nat.eqb (ct_id x) (ct_id c)) eqn:E.
    + apply Nat.eqb_eq in E. exfalso. apply Hx. rewrite E. apply in_map. exact Hin.
    + pose proof (IH Hnd' Hin eq_refl). lia.
Qed.

Lemma csum_map_close l : csum (map close_conn l) = csum l.
Proof. induction l as [|x l IH]; [reflexivity|]. cbn [map]. rewrite !csum_cons, IH. reflexivity. Qed.

Lemma csum_map_close_reg reg l : csum (map (close_reg reg) l) = csum l.
Proof. induction l as [|x l IH]; [reflexivity|]. cbn [map]. rewrite !csum_cons, IH. unfold ccost. rewrite close_reg_st. reflexivity. Qed.

Lemma find_conn_some id l c : NoDup (map ct_id l) -> In c l -> ct_id c = id -> find_conn id l = Some c.
Proof.
  induction l as [|x l IH]; intros Hnd Hin Hid; [contradiction|].
  cbn [map] in Hnd. inversion Hnd as [|? ? Hx Hnd']; subst. unfold find_conn. cbn [find]. fold (find_conn (ct_id c) l).
  destruct Hin as [->|Hin].
  - rewrite Nat.eqb_refl. reflexivity.
  - destruct (Nat.eqb (ct_id x) (ct_id c)) eqn:E.
    + apply Nat.eqb_eq in E. exfalso. apply Hx. rewrite E. apply in_map. exact Hin.
    + apply IH; auto.
Qed.

Lemma count_pos_ex {A} (f : A -> bool) l : count f l <> 0 -> exists x, In x l /\ f x = true.
Proof.
  induction l as [|y l IH]; intros H; [exfalso; apply H; reflexivity|]. rewrite count_cons in H.
  destruct (f y) eqn:E; [exists y; split; [left; reflexivity|exact E]|].
  destruct (IH H) as (x & Hx & Fx). exists x. split; [right; exact Hx|exact Fx].
Qed.

Lemma find_loop_some lis l a : NoDup (map al_lis l) -> In a l -> al_lis a = lis -> al_done a = false -> find_loop lis l <> None.
Proof.
  intros _ Hin Hid Hd E. unfold find_loop in E.
  pose proof (find_none _ _ E a Hin) as N. cbv beta in N. rewrite Hid, Nat.eqb_refl, Hd in N. discriminate.
Qed.

(* ---------- no accept succeeds once the listeners are closed ---------- *)
Lemma no_accept_when_closed s lis : Inv s -> stop_wait (pc s) = true -> lstep s (LAcceptOk lis) = None.
Proof.
  intros I W. cbn [lstep]. destruct (find_loop lis (loops s)) as [a|]; [|reflexivity].
  destruct (i_closed s I) as (O & _ & _).
  { unfold stopped_phase. destruct (pc s); try discriminate; auto. }
  rewrite O. reflexivity.
Qed.

(* ---------- (1) every enabled step after the listeners are closed strictly decreases the measure ---------- *)
Theorem stop_measure_decreases s l s' : Inv s -> stop_wait (pc s) = true -> lstep s l = Some s' -> mu s' < mu s.
Proof.
  intros I W H. destruct l.
  - cbn [lstep] in H. destruct (pc s); discriminate.
  - cbn [lstep] in H. destruct (pc s); discriminate.
  - cbn [lstep] in H. destruct (pc s); discriminate.
  - cbn [lstep] in H. destruct (pc s); discriminate.
  - cbn [lstep] in H. destruct (pc s); discriminate.
  - cbn [lstep] in H. destruct (pc s); discriminate.
  - cbn [lstep] in H. destruct (pc s) eqn:P; try discriminate. destruct (accept_wg s); [|discriminate].
    inversion H; subst s'. unfold mu. projs. rewrite P. cbn [rank]. lia.
  - cbn [lstep] in H. destruct (pc s) eqn:P; try discriminate.
    inversion H; subst s'. unfold mu. projs. rewrite P, csum_map_close_reg. cbn [rank]. lia.
  - cbn [lstep] in H. destruct (pc s) eqn:P; try discriminate.
    inversion H; subst s'. unfold mu. projs. rewrite P, csum_map_close_reg. cbn [rank]. lia.
  - cbn [lstep] in H. destruct (pc s) eqn:P; try discriminate. destruct (conn_wg s); [|discriminate].
    inversion H; subst s'. unfold mu. projs. rewrite P. cbn [rank]. lia.
  - rewrite (no_accept_when_closed s lis I W) in H. discriminate.
  - cbn [lstep] in H. destruct (find_loop lis (loops s)) as [a|] eqn:F; [|discriminate].
    destruct (mem_nat lis (open_lis s)); [discriminate|]. inversion H; subst s'. unfold mu. projs.
    destruct (find_loop_in _ _ _ F) as (Hin & Hl & Hd).
    pose proof (count_set_loop_done lis (loops s) a (i_lnodup s I) Hin Hl Hd). lia.
  - cbn [lstep] in H. destruct (find_conn id (conns s)) as [c|] eqn:F; [|discriminate].
    destruct (ct_st c) eqn:St; try discriminate. destruct (ct_tls c); [|discriminate]. inversion H; subst s'. unfold mu. projs.
    destruct (find_conn_in _ _ _ F) as (Hin & Hid).
    pose proof (csum_set_conn id finish_conn (conns s) c (i_nodup s I) Hin Hid) as E.
    unfold ccost at 1 2 in E. cbn [finish_conn ct_st] in E. rewrite St in E. lia.
  - cbn [lstep] in H. destruct (find_conn id (conns s)) as [c|] eqn:F; [|discriminate].
    destruct (ct_st c) eqn:St; try discriminate. inversion H; subst s'. unfold mu. projs.
    destruct (find_conn_in _ _ _ F) as (Hin & Hid).
    pose proof (csum_set_conn id register_conn (conns s) c (i_nodup s I) Hin Hid) as E.
    unfold ccost at 1 2 in E. cbn [register_conn ct_st] in E. rewrite St in E. lia.
  - cbn [lstep] in H. destruct (find_conn id (conns s)) as [c|] eqn:F; [|discriminate].
    destruct (ct_st c) eqn:St; try discriminate. destruct (ct_tls c); [|discriminate]. inversion H; subst s'. unfold mu. projs.
    destruct (find_conn_in _ _ _ F) as (Hin & Hid).
    pose proof (csum_set_conn id finish_conn (conns s) c (i_nodup s I) Hin Hid) as E.
    unfold ccost at 1 2 in E. cbn [finish_conn ct_st] in E. rewrite St in E. lia.
  - cbn [lstep] in H. destruct (find_conn id (conns s)) as [c|] eqn:F; [|discriminate].
    destruct (ct_st c) eqn:St; try discriminate. inversion H; subst s'. unfold mu. projs.
    destruct (find_conn_in _ _ _ F) as (Hin & Hid).
    pose proof (csum_set_conn id finish_conn (conns s) c (i_nodup s I) Hin Hid) as E.
    unfold ccost at 1 2 in E. cbn [finish_conn ct_st] in E. rewrite St in E. lia.
Qed.

(* ---------- (2) Stop is never stuck: while it has not returned some step is enabled ---------- *)
Theorem stop_progress s : Inv s -> stop_wait (pc s) = true -> exists l s', lstep s l = Some s'.
Proof.
  intros I W. destruct (pc s) eqn:P; try discriminate.
  - (* PStop2: either the WaitGroup is zero, or a live loop whose listener is closed can fail its Accept *)
    destruct (accept_wg s) as [|n] eqn:A.
    + exists LStopWaitAccept. cbn [lstep]. rewrite P, A. eauto.
    + pose proof (i_awg s I) as Aw. rewrite A in Aw.
      destruct (count_pos_ex loop_live (loops s)) as (a & Hin & Hl); [lia|].
      unfold loop_live in Hl. apply negb_true_iff in Hl.
      exists (LAcceptFail (al_lis a)). cbn [lstep].
      destruct (find_loop (al_lis a) (loops s)) as [b|] eqn:F.
      * destruct (i_closed s I) as (O & _ & _); [unfold stopped_phase; rewrite P; auto|]. rewrite O. cbn [mem_nat existsb]. eauto.
      * exfalso. exact (find_loop_some _ _ a (i_lnodup s I) Hin eq_refl Hl F).
  - exists LStopCloseReg. cbn [lstep]. rewrite P. eauto.
  - exists LStopCloseConns. cbn [lstep]. rewrite P. eauto.
  - (* PStop4: either the WaitGroup is zero, or some goroutine has not returned and its next step is enabled *)
    destruct (conn_wg s) as [|n] eqn:A.
    + exists LStopWaitConns. cbn [lstep]. rewrite P, A. eauto.
    + pose proof (i_cwg s I) as Cw. rewrite A in Cw.
      destruct (count_pos_ex not_done (conns s)) as (c & Hin & Hn); [lia|].
      pose proof (find_conn_some (ct_id c) (conns s) c (i_nodup s I) Hin eq_refl) as F.
      unfold not_done in Hn. destruct (ct_st c) eqn:St; try discriminate.
      * exists (LEnter (ct_id c)). cbn [lstep]. rewrite F, St. eauto.
      * exists (LFinish (ct_id c)). cbn [lstep]. rewrite F, St. eauto.
Qed.

(* ---------- (3) what Stop waits for does not depend on any peer: from the close phase on every socket is closed -------- *)
Definition all_closed (s : sys) : Prop := pc s = PStop4 -> forall c, In c (conns s) -> ct_open c = false.

Lemma all_closed_step s l s' : Inv s -> all_closed s -> lstep s l = Some s' -> all_closed s'.
Proof.
  intros I C H P'. destruct l; cbn [lstep] in H.
  - destruct (pc s); try discriminate; inversion H; subst s'; discriminate.
  - destruct (pc s); try discriminate; inversion H; subst s'; discriminate.
  - destruct (pc s); try discriminate; destruct (fld_plain s); inversion H; subst s'; discriminate.
  - destruct (pc s); try discriminate; destruct (fld_tls s); inversion H; subst s'; discriminate.
  - destruct (pc s); try discriminate; inversion H; subst s'; discriminate.
  - destruct (pc s); try discriminate; inversion H; subst s'; discriminate.
  - destruct (pc s); try discriminate; destruct (accept_wg s); try discriminate; inversion H; subst s'; discriminate.
  - destruct (pc s); try discriminate; inversion H; subst s'; discriminate.
  - destruct (pc s); try discriminate. inversion H; subst s'. projs. intros c Hc.
    apply in_map_iff in Hc. destruct Hc as (c0 & <- & Hc0). unfold close_reg.
    destruct (mem_nat (ct_id c0) (live s)) eqn:M; [reflexivity|].
    (* not tracked any more: its goroutine has returned (i_live), so its socket is closed (i_done) *)
    destruct (not_done c0) eqn:N.
    + pose proof (i_live s I c0 Hc0 N) as L. apply mem_nat_in in L. congruence.
    + apply (i_done s I c0 Hc0). unfold not_done in N. destruct (ct_st c0); try discriminate; reflexivity.
  - destruct (pc s); try discriminate; destruct (conn_wg s); try discriminate; inversion H; subst s'; discriminate.
  - destruct (find_loop lis (loops s)) as [a|] eqn:F; [|discriminate].
    destruct (find_loop_in _ _ _ F) as (Hin & _ & Hd).
    destruct (mem_nat lis (open_lis s)); [|discriminate].
    assert (P : pc s = PStop4) by (destruct (stopping s); inversion H; subst s'; exact P').
    exfalso. rewrite (i_noloops s I) in Hd; [discriminate| |exact Hin]. unfold no_loop_phase. rewrite P. auto.
  - destruct (find_loop lis (loops s)) as [a|]; [|discriminate]. destruct (mem_nat lis (open_lis s)); [discriminate|].
    inversion H; subst s'. projs. exact (C P').
  - destruct (find_conn id (conns s)) as [c|]; [|discriminate]. destruct (ct_st c); try discriminate. destruct (ct_tls c); [|discriminate].
    inversion H; subst s'. projs. intros c' Hc'. apply in_set_conn in Hc'. destruct Hc' as (c0 & Hin & ->).
    destruct (Nat.eqb (ct_id c0) id); [reflexivity|exact (C P' c0 Hin)].
  - destruct (find_conn id (conns s)) as [c|]; [|discriminate]. destruct (ct_st c); try discriminate.
    inversion H; subst s'. projs. intros c' Hc'. apply in_set_conn in Hc'. destruct Hc' as (c0 & Hin & ->).
    destruct (Nat.eqb (ct_id c0) id); [cbn [register_conn ct_open]|]; exact (C P' c0 Hin).
  - destruct (find_conn id (conns s)) as [c|]; [|discriminate]. destruct (ct_st c); try discriminate. destruct (ct_tls c); [|discriminate].
    inversion H; subst s'. projs. intros c' Hc'. apply in_set_conn in Hc'. destruct Hc' as (c0 & Hin & ->).
    destruct (Nat.eqb (ct_id c0) id); [reflexivity|exact (C P' c0 Hin)].
  - destruct (find_conn id (conns s)) as [c|]; [|discriminate]. destruct (ct_st c); try discriminate.
    inversion H; subst s'. projs. intros c' Hc'. apply in_set_conn in Hc'. destruct Hc' as (c0 & Hin & ->).
    destruct (Nat.eqb (ct_id c0) id); [reflexivity|exact (C P' c0 Hin)].
Qed.

Theorem reachable_all_closed p t ls : all_closed (lrun (init p t) ls).
Proof.
  assert (G : forall ls s, Inv s -> all_closed s -> all_closed (lrun s ls)).
  { induction ls0 as [|l ls0 IH]; intros s I C; [exact C|]. cbn [lrun fold_left].
    destruct (lstep s l) as [s'|] eqn:E; [|apply IH; assumption].
    apply IH; [eapply inv_step; eauto|eapply all_closed_step; eauto]. }
  apply G; [apply inv_init|]. intros P. discriminate.
Qed.

(* ---------- executions: lists of labels each of which is enabled when its turn comes ---------- *)
Fixpoint exec (s : sys) (ls : list label) : option sys :=
  match ls with
  | [] => Some s
  | l :: ls' => match lstep s l with Some s' => if stop_wait (pc s) then exec s' ls' else None | None => None end
  end.
(* exec only follows the system while Stop is waiting (after the listeners were closed, before it returns) *)

Lemma exec_inv : forall ls s s', Inv s -> exec s ls = Some s' -> Inv s'.
Proof.
  induction ls as [|l ls IH]; intros s s' I H; cbn [exec] in H; [inversion H; subst; exact I|].
  destruct (lstep s l) as [s1|] eqn:E; [|discriminate]. destruct (stop_wait (pc s)); [|discriminate].
  eapply IH; [eapply inv_step; eauto|exact H].
Qed.

(* Stop terminates: every execution that starts after Stop has closed the listeners has at most mu s steps; and as long
   as Stop has not returned at its end it can be extended — so every maximal execution ends with Stop having returned *)
Theorem stop_terminates : forall ls s s', Inv s -> stop_wait (pc s) = true -> exec s ls = Some s' ->
  length ls + mu s' <= mu s /\ (stop_wait (pc s') = true -> exists l s'', lstep s' l = Some s'').
Proof.
  induction ls as [|l ls IH]; intros s s' I W H; cbn [exec] in H.
  - inversion H; subst s'. split; [cbn [length]; lia|]. intros W'. apply stop_progress; assumption.
  - destruct (lstep s l) as [s1|] eqn:E; [|discriminate]. rewrite W in H.
    pose proof (stop_measure_decreases s l s1 I W E) as D. pose proof (inv_step s l s1 I E) as I1.
    destruct (stop_wait (pc s1)) eqn:W1.
    + destruct (IH s1 s' I1 W1 H) as (L & Pg). split; [cbn [length]; lia|exact Pg].
    + (* Stop has returned after this step: nothing further is followed *)
      destruct ls as [|l2 ls2]; cbn [exec] in H.
      * inversion H; subst s'. split; [cbn [length]; lia|]. intros W'. rewrite W1 in W'. discriminate.
      * destruct (lstep s1 l2); [rewrite W1 in H|]; discriminate.
Qed.

(* the only way out of the waiting phases is Stop's return *)
Lemma stop_wait_exit s l s' : stop_wait (pc s) = true -> lstep s l = Some s' -> stop_wait (pc s') = false -> pc s' = PStopped.
Proof.
  intros W H W'. destruct l; cbn [lstep] in H;
    repeat match type of H with
           | context [match ?x with _ => _ end] => destruct x eqn:?; try discriminate
           end; inversion H; subst s'; projs; cbn [stop_wait] in *; try reflexivity; try congruence.
Qed.

Lemma exec_end : forall ls s s', stop_wait (pc s) = true -> exec s ls = Some s' -> stop_wait (pc s') = true \/ pc s' = PStopped.
Proof.
  induction ls as [|l ls IH]; intros s s' W H; cbn [exec] in H; [inversion H; subst; auto|].
  destruct (lstep s l) as [s1|] eqn:E; [|discriminate]. rewrite W in H.
  destruct (stop_wait (pc s1)) eqn:W1; [eapply IH; eauto|].
  destruct ls as [|l2 ls2]; cbn [exec] in H.
  - inversion H; subst s'. right. eapply stop_wait_exit; eauto.
  - destruct (lstep s1 l2); [rewrite W1 in H|]; discriminate.
Qed.

(* C15, liveness half: from any state reachable under any schedule in which Stop has closed the listeners, every
   execution is bounded by the measure, ends with Stop returned or can still move, and in the phase in which Stop waits
   for the connection goroutines every socket is closed (no step it waits for is a peer's to take) *)
Theorem stop_returns_under_every_schedule p t sched ls s' :
  let s := lrun (init p t) sched in
  stop_wait (pc s) = true -> exec s ls = Some s' ->
  length ls <= mu s /\ (pc s' = PStopped \/ exists l s'', lstep s' l = Some s'') /\
  (pc s' = PStop4 -> forall c, In c (conns s') -> ct_open c = false).
Proof.
  cbv zeta. intros W H. pose proof (reachable_inv p t sched) as I.
  destruct (stop_terminates ls _ s' I W H) as (L & Pg). split; [lia|]. split.
  - destruct (exec_end ls _ s' W H) as [W'|P]; [right; exact (Pg W')|left; exact P].
  - assert (G : forall ls s s', Inv s -> all_closed s -> exec s ls = Some s' -> all_closed s').
    { clear. induction ls as [|l ls IH]; intros s s' I C H; cbn [exec] in H; [inversion H; subst; exact C|].
      destruct (lstep s l) as [s1|] eqn:E; [|discriminate]. destruct (stop_wait (pc s)); [|discriminate].
      eapply IH; [eapply inv_step; eauto|eapply all_closed_step; eauto|exact H]. }
    exact (G ls _ s' I (reachable_all_closed p t sched) H).
Qed.

(* Stop's own first two steps never wait *)
Lemma stop_begin_enabled s : pc s = PRunning -> lstep s LStopBegin <> None.
Proof. intros P. cbn [lstep]. rewrite P. discriminate. Qed.
Lemma stop_close_lis_enabled s : pc s = PStop1 -> exists s', lstep s LStopCloseLis = Some s' /\ stop_wait (pc s') = true.
Proof. intros P. cbn [lstep]. rewrite P. eexists. split; [reflexivity|reflexivity]. Qed.

Example live_ex :
  let s := lrun (init true true) [LStartBegin; LStartOpen; LStartSpawnPlain; LStartSpawnTLS; LAcceptOk 0; LAcceptOk 1; LAcceptOk 0; LEnter 2;
                                  LStopBegin; LStopCloseLis] in
  stop_wait (pc s) = true /\ mu s = 11 /\
  exists ls s', exec s ls = Some s' /\ pc s' = PStopped /\ length ls = 10.
Proof.
  cbv zeta. split; [vm_compute; reflexivity|]. split; [vm_compute; reflexivity|].
  exists [LAcceptFail 0; LAcceptFail 1; LStopWaitAccept; LStopCloseReg; LStopCloseConns; LFinish 2; LHandshakeFail 3; LEnter 4; LFinish 4; LStopWaitConns].
  vm_compute. eexists. split; [reflexivity|]. split; reflexivity.
Qed.
