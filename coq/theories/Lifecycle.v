(* Lifecycle.v — Start / Stop / Restart, accept loops, connection goroutines, the live-connection set, the registry and
   the two WaitGroups of redis/server.go as a small-step transition system over ALL schedules (C15, C19, C09 (2)).
   One label = one atomic step of one thread between two synchronisation points of the code:
     API thread     Start: clear `stopping`; open listeners; spawn the accept loops; return
                    Stop:  set `stopping`; close the listeners; wait for the accept loops; close the registered
                           connections (snapshot of the registry); close the tracked sockets (snapshot of liveConns =
                           the sockets of the connection goroutines that have not finished); wait for the connection
                           goroutines; return
     accept loop    Accept succeeds (trackConn: refuse when stopping, else track + spawn) / Accept fails (exit, Done)
     connection     (TLS) handshake fails -> close, untrack, Done | let_in -> AddConn | certificate rejected -> close,
                    untrack, Done | loop ends (client gone, QUIT, error, socket closed by Stop) -> RemoveConn, Close,
                    untrack, Done
   Waiting is enabledness: "wait for X" can be taken only when the WaitGroup counter is zero. *)
From Coq Require Import List Arith Bool Lia.
Import ListNotations.

Inductive cstage := CTracked | CRegistered | CDone.
Record cthread := { ct_id : nat; ct_tls : bool; ct_st : cstage; ct_open : bool (* socket open *) }.
Record aloop := { al_lis : nat; al_tls : bool; al_done : bool }.

Inductive apc :=
| PStopped | PStart1 (* stopping cleared *) | PStart2 (* listeners open *) | PStart3 (* plain loop spawned *) | PRunning
| PStop1 (* stopping set *) | PStop2 (* listeners closed *) | PStop3 (* accept loops gone *) | PStop3r (* registered connections closed, registry emptied *)
| PStop4 (* tracked sockets closed *).

Record sys := {
  open_lis : list nat;                (* OS listeners that are open *)
  fld_plain : option nat;             (* server.portListener *)
  fld_tls : option nat;               (* server.tlsPortListener *)
  stopping : bool;
  registry : list nat;                (* ConnManager *)
  live : list nat;                    (* liveConns: ids of the accepted sockets Stop can still close (tracked until their goroutine returns) *)
  loops : list aloop;
  conns : list cthread;
  accept_wg : nat;
  conn_wg : nat;
  next_id : nat;
  pc : apc;
  cfg_plain : bool; cfg_tls : bool    (* which ports are enabled *)
}.

Definition init (p t : bool) : sys :=
  {| open_lis := []; fld_plain := None; fld_tls := None; stopping := false; registry := []; live := []; loops := []; conns := [];
     accept_wg := 0; conn_wg := 0; next_id := 0; pc := PStopped; cfg_plain := p; cfg_tls := t |}.

Inductive label :=
| LStartBegin | LStartOpen | LStartSpawnPlain | LStartSpawnTLS
| LStopBegin | LStopCloseLis | LStopWaitAccept | LStopCloseReg | LStopCloseConns | LStopWaitConns
| LAcceptOk (lis : nat) | LAcceptFail (lis : nat)
| LHandshakeFail (id : nat) | LEnter (id : nat) | LReject (id : nat) | LFinish (id : nat).

Definition remove_nat (x : nat) (l : list nat) : list nat := filter (fun y => negb (Nat.eqb x y)) l.
Definition mem_nat (x : nat) (l : list nat) : bool := existsb (Nat.eqb x) l.

Definition set_conn (id : nat) (f : cthread -> cthread) (l : list cthread) : list cthread :=
  map (fun c => if Nat.eqb (ct_id c) id then f c else c) l.
Definition find_conn (id : nat) (l : list cthread) : option cthread := find (fun c => Nat.eqb (ct_id c) id) l.
Definition finish_conn (c : cthread) : cthread := {| ct_id := ct_id c; ct_tls := ct_tls c; ct_st := CDone; ct_open := false |}.
Definition register_conn (c : cthread) : cthread := {| ct_id := ct_id c; ct_tls := ct_tls c; ct_st := CRegistered; ct_open := ct_open c |}.
Definition close_conn (c : cthread) : cthread := {| ct_id := ct_id c; ct_tls := ct_tls c; ct_st := ct_st c; ct_open := false |}.
(* ConnManager.Close on its snapshot of the registry: the registered connections are closed *)
Definition close_reg (reg : list nat) (c : cthread) : cthread := if mem_nat (ct_id c) reg then close_conn c else c.

Definition set_loop_done (lis : nat) (l : list aloop) : list aloop :=
  map (fun a => if Nat.eqb (al_lis a) lis then {| al_lis := al_lis a; al_tls := al_tls a; al_done := true |} else a) l.
Definition find_loop (lis : nat) (l : list aloop) : option aloop := find (fun a => Nat.eqb (al_lis a) lis && negb (al_done a)) l.

Definition opt_list (o : option nat) : list nat := match o with Some x => [x] | None => [] end.


(* the step function: None = the label is not enabled in s *)
Definition lstep (s : sys) (l : label) : option sys :=
  match l with
  | LStartBegin =>
    match pc s with
    | PStopped => Some {| open_lis := open_lis s; fld_plain := fld_plain s; fld_tls := fld_tls s; stopping := false; registry := registry s;
                          live := live s; loops := loops s; conns := conns s; accept_wg := accept_wg s; conn_wg := conn_wg s; next_id := next_id s; pc := PStart1;
                          cfg_plain := cfg_plain s; cfg_tls := cfg_tls s |}
    | _ => None
    end
  | LStartOpen =>
    match pc s with
    | PStart1 =>
      let n := next_id s in
      let lp := if cfg_plain s then Some n else None in
      let lt := if cfg_tls s then Some (S n) else None in
      Some {| open_lis := opt_list lp ++ opt_list lt ++ open_lis s; fld_plain := lp; fld_tls := lt; stopping := stopping s; registry := registry s;
              live := live s; loops := loops s; conns := conns s; accept_wg := accept_wg s; conn_wg := conn_wg s; next_id := S (S n); pc := PStart2;
              cfg_plain := cfg_plain s; cfg_tls := cfg_tls s |}
    | _ => None
    end
  | LStartSpawnPlain =>
    match pc s with
    | PStart2 =>
      match fld_plain s with
      | Some lis => Some {| open_lis := open_lis s; fld_plain := fld_plain s; fld_tls := fld_tls s; stopping := stopping s; registry := registry s;
                            live := live s; loops := {| al_lis := lis; al_tls := false; al_done := false |} :: loops s; conns := conns s; accept_wg := S (accept_wg s);
                            conn_wg := conn_wg s; next_id := next_id s; pc := PStart3; cfg_plain := cfg_plain s; cfg_tls := cfg_tls s |}
      | None => Some {| open_lis := open_lis s; fld_plain := fld_plain s; fld_tls := fld_tls s; stopping := stopping s; registry := registry s;
                        live := live s; loops := loops s; conns := conns s; accept_wg := accept_wg s; conn_wg := conn_wg s; next_id := next_id s; pc := PStart3;
                        cfg_plain := cfg_plain s; cfg_tls := cfg_tls s |}
      end
    | _ => None
    end
  | LStartSpawnTLS =>
    match pc s with
    | PStart3 =>
      match fld_tls s with
      | Some lis => Some {| open_lis := open_lis s; fld_plain := fld_plain s; fld_tls := fld_tls s; stopping := stopping s; registry := registry s;
                            live := live s; loops := {| al_lis := lis; al_tls := true; al_done := false |} :: loops s; conns := conns s; accept_wg := S (accept_wg s);
                            conn_wg := conn_wg s; next_id := next_id s; pc := PRunning; cfg_plain := cfg_plain s; cfg_tls := cfg_tls s |}
      | None => Some {| open_lis := open_lis s; fld_plain := fld_plain s; fld_tls := fld_tls s; stopping := stopping s; registry := registry s;
                        live := live s; loops := loops s; conns := conns s; accept_wg := accept_wg s; conn_wg := conn_wg s; next_id := next_id s; pc := PRunning;
                        cfg_plain := cfg_plain s; cfg_tls := cfg_tls s |}
      end
    | _ => None
    end
  | LStopBegin =>
    match pc s with
    | PRunning => Some {| open_lis := open_lis s; fld_plain := fld_plain s; fld_tls := fld_tls s; stopping := true; registry := registry s;
                          live := live s; loops := loops s; conns := conns s; accept_wg := accept_wg s; conn_wg := conn_wg s; next_id := next_id s; pc := PStop1;
                          cfg_plain := cfg_plain s; cfg_tls := cfg_tls s |}
    | _ => None
    end
  | LStopCloseLis =>
    match pc s with
    | PStop1 =>
      let gone := opt_list (fld_plain s) ++ opt_list (fld_tls s) in
      Some {| open_lis := filter (fun x => negb (mem_nat x gone)) (open_lis s); fld_plain := None; fld_tls := None; stopping := stopping s;
              registry := registry s; live := live s; loops := loops s; conns := conns s; accept_wg := accept_wg s; conn_wg := conn_wg s; next_id := next_id s; pc := PStop2;
              cfg_plain := cfg_plain s; cfg_tls := cfg_tls s |}
    | _ => None
    end
  | LStopWaitAccept =>
    match pc s, accept_wg s with
    | PStop2, O => Some {| open_lis := open_lis s; fld_plain := fld_plain s; fld_tls := fld_tls s; stopping := stopping s; registry := registry s;
                           live := live s; loops := loops s; conns := conns s; accept_wg := 0; conn_wg := conn_wg s; next_id := next_id s; pc := PStop3;
                           cfg_plain := cfg_plain s; cfg_tls := cfg_tls s |}
    | _, _ => None
    end
  | LStopCloseReg =>
    match pc s with
    | PStop3 =>
      (* ConnManager.Close: a snapshot of the registry; every connection in it is closed and removed from the registry *)
      Some {| open_lis := open_lis s; fld_plain := fld_plain s; fld_tls := fld_tls s; stopping := stopping s; registry := [];
              live := live s; loops := loops s; conns := map (close_reg (registry s)) (conns s);
              accept_wg := accept_wg s; conn_wg := conn_wg s; next_id := next_id s; pc := PStop3r; cfg_plain := cfg_plain s; cfg_tls := cfg_tls s |}
    | _ => None
    end
  | LStopCloseConns =>
    match pc s with
    | PStop3r =>
      (* then a snapshot of the tracked sockets (liveConns): every socket in it is closed - also that of a connection which
         registered after the first snapshot; it removes itself from the registry when it finishes.  That this reaches every
         goroutine that has not finished is the invariant i_live (a socket stays tracked until its goroutine returns) *)
      Some {| open_lis := open_lis s; fld_plain := fld_plain s; fld_tls := fld_tls s; stopping := stopping s; registry := registry s;
              live := live s; loops := loops s; conns := map (close_reg (live s)) (conns s);
              accept_wg := accept_wg s; conn_wg := conn_wg s; next_id := next_id s; pc := PStop4; cfg_plain := cfg_plain s; cfg_tls := cfg_tls s |}
    | _ => None
    end
  | LStopWaitConns =>
    match pc s, conn_wg s with
    | PStop4, O => Some {| open_lis := open_lis s; fld_plain := fld_plain s; fld_tls := fld_tls s; stopping := stopping s; registry := registry s;
                           live := live s; loops := loops s; conns := conns s; accept_wg := accept_wg s; conn_wg := 0; next_id := next_id s; pc := PStopped;
                           cfg_plain := cfg_plain s; cfg_tls := cfg_tls s |}
    | _, _ => None
    end
  | LAcceptOk lis =>
    match find_loop lis (loops s) with
    | Some a =>
      if mem_nat lis (open_lis s) then
        let id := next_id s in
        if stopping s then      (* trackConn refuses: the socket is closed at once, no goroutine *)
          Some {| open_lis := open_lis s; fld_plain := fld_plain s; fld_tls := fld_tls s; stopping := stopping s; registry := registry s;
                  live := live s; loops := loops s; conns := conns s; accept_wg := accept_wg s; conn_wg := conn_wg s; next_id := S id; pc := pc s;
                  cfg_plain := cfg_plain s; cfg_tls := cfg_tls s |}
        else
          Some {| open_lis := open_lis s; fld_plain := fld_plain s; fld_tls := fld_tls s; stopping := stopping s; registry := registry s;
                  live := id :: live s; loops := loops s; conns := {| ct_id := id; ct_tls := al_tls a; ct_st := CTracked; ct_open := true |} :: conns s;
                  accept_wg := accept_wg s; conn_wg := S (conn_wg s); next_id := S id; pc := pc s; cfg_plain := cfg_plain s; cfg_tls := cfg_tls s |}
      else None
    | None => None
    end
  | LAcceptFail lis =>
    match find_loop lis (loops s) with
    | Some a =>
      if mem_nat lis (open_lis s) then None      (* Accept only fails once the listener is closed *)
      else Some {| open_lis := open_lis s; fld_plain := fld_plain s; fld_tls := fld_tls s; stopping := stopping s; registry := registry s;
                   live := live s; loops := set_loop_done lis (loops s); conns := conns s; accept_wg := pred (accept_wg s); conn_wg := conn_wg s; next_id := next_id s;
                   pc := pc s; cfg_plain := cfg_plain s; cfg_tls := cfg_tls s |}
    | None => None
    end
  | LHandshakeFail id | LReject id =>
    match find_conn id (conns s) with
    | Some c =>
      match ct_st c, ct_tls c with
      | CTracked, true =>
        Some {| open_lis := open_lis s; fld_plain := fld_plain s; fld_tls := fld_tls s; stopping := stopping s; registry := registry s;
                live := remove_nat id (live s); loops := loops s; conns := set_conn id finish_conn (conns s); accept_wg := accept_wg s; conn_wg := pred (conn_wg s); next_id := next_id s;
                pc := pc s; cfg_plain := cfg_plain s; cfg_tls := cfg_tls s |}
      | _, _ => None
      end
    | None => None
    end
  | LEnter id =>
    match find_conn id (conns s) with
    | Some c =>
      match ct_st c with
      | CTracked =>
        Some {| open_lis := open_lis s; fld_plain := fld_plain s; fld_tls := fld_tls s; stopping := stopping s; registry := id :: registry s;
                live := live s; loops := loops s; conns := set_conn id register_conn (conns s); accept_wg := accept_wg s; conn_wg := conn_wg s; next_id := next_id s;
                pc := pc s; cfg_plain := cfg_plain s; cfg_tls := cfg_tls s |}
      | _ => None
      end
    | None => None
    end
  | LFinish id =>
    match find_conn id (conns s) with
    | Some c =>
      match ct_st c with
      | CRegistered =>
        Some {| open_lis := open_lis s; fld_plain := fld_plain s; fld_tls := fld_tls s; stopping := stopping s; registry := remove_nat id (registry s); live := remove_nat id (live s); loops := loops s; conns := set_conn id finish_conn (conns s); accept_wg := accept_wg s;
                conn_wg := pred (conn_wg s); next_id := next_id s; pc := pc s; cfg_plain := cfg_plain s; cfg_tls := cfg_tls s |}
      | _ => None
      end
    | None => None
    end
  end.

(* a run: labels that are not enabled are skipped (the schedule is any list of labels) *)
Definition lrun (s : sys) (ls : list label) : sys :=
  fold_left (fun st l => match lstep st l with Some st' => st' | None => st end) ls s.

Definition not_done (c : cthread) : bool := match ct_st c with CDone => false | _ => true end.
Definition loop_live (a : aloop) : bool := negb (al_done a).
Definition count {A} (f : A -> bool) (l : list A) : nat := length (filter f l).
