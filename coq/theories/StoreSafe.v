(* StoreSafe.v — the index arithmetic of the bundled example store cannot panic and cannot overflow (C07 for the example
   store; C18's use of unbounded integers justified).
   Store.v models the slice code of examples/go-redisd/server with TOTAL list functions (firstn / skipn clamp silently)
   and unbounded Z.  The Go code is neither: `s[lo:hi]` and `s[i]` panic outside the bounds — a panic in a handler kills
   the server process — and `int` wraps at 2^63.  Here the same functions are written again with the PARTIAL Go
   primitives (go_slice, go_index : None = the run-time panic) and WRAPPING int64 arithmetic (wadd, wsub), in the shape
   of the Go code; the theorems say: for every list shorter than 2^62 and ALL int64 arguments the checked function does
   not panic and returns exactly what the total function of Store.v returns.  So on every argument a client can send no
   index expression of the store is out of range and no intermediate value wraps. *)
From Coq Require Import String QArith Lia.
From GR Require Import Base Resp Handler Exec Glob Redis Store.
Open Scope Z_scope.

Definition i64 (z : Z) : Prop := min64 <= z <= max64.
Definition wadd (a b : Z) : Z := wrap64 (a + b).
Definition wsub (a b : Z) : Z := wrap64 (a - b).

Lemma wrap64_id z : i64 z -> wrap64 z = z.
Proof. unfold i64, wrap64, min64, max64. intros H. rewrite Z.mod_small; lia. Qed.

(* Go: s[lo:hi] (capacity = length here: the store never keeps spare capacity visible to a read) and s[i] *)
Definition go_slice {A} (l : list A) (lo hi : Z) : option (list A) :=
  if (0 <=? lo) && (lo <=? hi) && (hi <=? lenZ l) then Some (firstn (Z.to_nat (hi - lo)) (skipn (Z.to_nat lo) l)) else None.
Definition go_index {A} (l : list A) (i : Z) : option A :=
  if (0 <=? i) && (i <? lenZ l) then nth_error l (Z.to_nat i) else None.

Definition short {A} (l : list A) : Prop := lenZ l < 2 ^ 62.

Lemma lenZ_nonneg {A} (l : list A) : 0 <= lenZ l.
Proof. unfold lenZ. lia. Qed.

Ltac i64_tac := unfold i64, short, min64, max64 in *.

(* ---------- limitZSetMembers ---------- *)
Definition c_limit {A} (offset count : Z) (l : list A) : option (list A) :=
  let len := lenZ l in
  let offset := if (offset <? 0) || (len <? offset) then len else offset in
  let end_ := if (0 <=? count) && (count <? wsub len offset) then wadd offset count else len in
  go_slice l offset end_.

Theorem c_limit_ok {A} (offset count : Z) (l : list A) : i64 offset -> i64 count -> short l ->
  c_limit offset count l = Some (g_limit offset count l).
Proof.
  intros Ho Hc Hs. pose proof (lenZ_nonneg l) as L0. unfold c_limit, g_limit.
  set (off := if (offset <? 0) || (lenZ l <? offset) then lenZ l else offset).
  assert (Hoff : 0 <= off <= lenZ l).
  { unfold off. destruct (offset <? 0) eqn:E1; cbn [orb]; [lia|]. destruct (lenZ l <? offset) eqn:E2; [lia|].
    apply Z.ltb_ge in E1, E2. lia. }
  assert (W : wsub (lenZ l) off = lenZ l - off) by (unfold wsub; apply wrap64_id; i64_tac; lia).
  rewrite W.
  destruct ((0 <=? count) && (count <? lenZ l - off)) eqn:E.
  - apply andb_prop in E. destruct E as [E1 E2]. apply Z.leb_le in E1. apply Z.ltb_lt in E2.
    assert (W2 : wadd off count = off + count) by (unfold wadd; apply wrap64_id; i64_tac; lia).
    rewrite W2. unfold go_slice.
    replace ((0 <=? off) && (off <=? off + count) && (off + count <=? lenZ l)) with true
      by (symmetry; rewrite !andb_true_iff, !Z.leb_le; lia).
    reflexivity.
  - unfold go_slice.
    replace ((0 <=? off) && (off <=? lenZ l) && (lenZ l <=? lenZ l)) with true
      by (symmetry; rewrite !andb_true_iff, !Z.leb_le; lia).
    reflexivity.
Qed.

(* ---------- for n := start; n <= stop; n++ { mems = append(mems, l[n]) } ---------- *)
Fixpoint c_loop {A} (fuel : nat) (l : list A) (n stop : Z) (acc : list A) : option (list A) :=
  match fuel with
  | O => None
  | S f => if n <=? stop then match go_index l n with Some x => c_loop f l (wadd n 1) stop (acc ++ [x]) | None => None end
           else Some acc
  end.

Lemma firstn_S_skipn {A} (l : list A) (n k : nat) x : nth_error l n = Some x ->
  firstn (S k) (skipn n l) = x :: firstn k (skipn (S n) l).
Proof.
  revert n. induction l as [|y l IH]; intros n H; [destruct n; discriminate|].
  destruct n as [|n]; cbn [nth_error] in H.
  - inversion H; subst. reflexivity.
  - cbn [skipn]. apply IH. exact H.
Qed.

Lemma c_loop_ok {A} (l : list A) : short l -> forall fuel n stop acc, 0 <= n -> stop < lenZ l -> (Z.to_nat (stop - n + 1) < fuel)%nat ->
  c_loop fuel l n stop acc = Some (acc ++ (if n <=? stop then firstn (Z.to_nat (stop - n + 1)) (skipn (Z.to_nat n) l) else [])).
Proof.
  intros Hs. induction fuel as [|f IH]; intros n stop acc Hn Hst Hf; [lia|]. cbn [c_loop].
  destruct (n <=? stop) eqn:E; [|rewrite app_nil_r; reflexivity]. apply Z.leb_le in E.
  unfold go_index. replace ((0 <=? n) && (n <? lenZ l)) with true by (symmetry; rewrite andb_true_iff, Z.leb_le, Z.ltb_lt; lia).
  destruct (nth_error l (Z.to_nat n)) as [x|] eqn:Nx.
  - assert (W : wadd n 1 = n + 1) by (unfold wadd; apply wrap64_id; i64_tac; lia). rewrite W.
    rewrite IH by lia. f_equal. rewrite <- app_assoc. f_equal. cbn [app].
    replace (Z.to_nat (stop - n + 1)) with (S (Z.to_nat (stop - (n + 1) + 1))) by lia.
    rewrite (firstn_S_skipn l (Z.to_nat n) _ x Nx). replace (Z.to_nat (n + 1)) with (S (Z.to_nat n)) by lia.
    destruct (n + 1 <=? stop) eqn:E2; [reflexivity|]. apply Z.leb_gt in E2. replace (Z.to_nat (stop - (n + 1) + 1)) with 0%nat by lia. reflexivity.
  - exfalso. apply nth_error_None in Nx. unfold lenZ in *. lia.
Qed.

Lemma c_loop_slice {A} (l : list A) start stop : short l -> 0 <= start -> stop < lenZ l ->
  c_loop (S (length l)) l start stop [] = Some (g_loop_slice l start stop).
Proof.
  intros Hs H0 H1. rewrite (c_loop_ok l Hs) by (unfold lenZ in *; lia). reflexivity.
Qed.

(* ---------- ZSet.Range ---------- *)
Definition c_zrange (z : list (bytes * fl)) (start stop : Z) (o : zrange_opt) : option (list (bytes * fl)) :=
  let len := lenZ z in
  let start := if start <? 0 then wadd len start else start in
  let stop := if stop <? 0 then wadd len stop else stop in
  let start := if start <? 0 then 0 else start in
  let stop := if wsub len 1 <? stop then wsub len 1 else stop in
  let (start, stop) := if zr_rev o then (wsub (wsub len 1) stop, wsub (wsub len 1) start) else (start, stop) in
  match c_loop (S (length z)) z start stop [] with
  | None => None
  | Some mems => c_limit (zr_offset o) (zr_count o) (if zr_rev o then rev mems else mems)    (* reverseZSetMembers swaps i and len-1-i for i < len/2 *)
  end.

Lemma g_loop_slice_short {A} (l : list A) a b : short l -> short (g_loop_slice l a b).
Proof.
  unfold short, g_loop_slice, lenZ. intros H. destruct (a <=? b); cbn [length]; [|lia].
  rewrite firstn_length, skipn_length. lia.
Qed.

Theorem c_zrange_ok z start stop o : i64 start -> i64 stop -> i64 (zr_offset o) -> i64 (zr_count o) -> short z ->
  c_zrange z start stop o = Some (g_zrange z start stop o).
Proof.
  intros H1 H2 H3 H4 Hs. pose proof (lenZ_nonneg z) as L0. unfold c_zrange, g_zrange.
  assert (Wa : forall x, i64 x -> x < 0 -> wadd (lenZ z) x = lenZ z + x) by (intros x Hx Hn; unfold wadd; apply wrap64_id; i64_tac; lia).
  assert (W1 : wsub (lenZ z) 1 = lenZ z - 1) by (unfold wsub; apply wrap64_id; i64_tac; lia).
  rewrite W1.
  set (s1 := if start <? 0 then wadd (lenZ z) start else start).
  set (s1' := if start <? 0 then lenZ z + start else start).
  assert (E1 : s1 = s1') by (unfold s1, s1'; destruct (start <? 0) eqn:E; [apply Wa; [exact H1|apply Z.ltb_lt; exact E]|reflexivity]).
  set (t1 := if stop <? 0 then wadd (lenZ z) stop else stop).
  set (t1' := if stop <? 0 then lenZ z + stop else stop).
  assert (E2 : t1 = t1') by (unfold t1, t1'; destruct (stop <? 0) eqn:E; [apply Wa; [exact H2|apply Z.ltb_lt; exact E]|reflexivity]).
  rewrite E1, E2.
  assert (R1 : i64 s1') by (unfold s1'; destruct (start <? 0) eqn:E; [apply Z.ltb_lt in E|]; i64_tac; lia).
  assert (R2 : min64 + lenZ z <= t1' <= max64) by (unfold t1'; destruct (stop <? 0) eqn:E; [apply Z.ltb_lt in E|]; i64_tac; lia).
  set (s2 := if s1' <? 0 then 0 else s1').
  set (t2 := if lenZ z - 1 <? t1' then lenZ z - 1 else t1').
  assert (S2 : 0 <= s2 <= max64) by (unfold s2; destruct (s1' <? 0) eqn:E; [|apply Z.ltb_ge in E]; i64_tac; lia).
  assert (T2 : min64 + lenZ z <= t2 <= lenZ z - 1) by (unfold t2; destruct (lenZ z - 1 <? t1') eqn:E; [|apply Z.ltb_ge in E]; i64_tac; lia).
  destruct (zr_rev o).
  - assert (Wb : wsub (lenZ z - 1) t2 = lenZ z - 1 - t2) by (unfold wsub; apply wrap64_id; i64_tac; lia).
    assert (Wc : wsub (lenZ z - 1) s2 = lenZ z - 1 - s2) by (unfold wsub; apply wrap64_id; i64_tac; lia).
    rewrite Wb, Wc, c_loop_slice by (try exact Hs; lia).
    apply c_limit_ok; [exact H3|exact H4|]. pose proof (g_loop_slice_short z (lenZ z - 1 - t2) (lenZ z - 1 - s2) Hs) as G. unfold short, lenZ in *. rewrite rev_length. exact G.
  - rewrite c_loop_slice by (try exact Hs; lia).
    apply c_limit_ok; [exact H3|exact H4|]. apply g_loop_slice_short; exact Hs.
Qed.

(* ---------- List.Range ---------- *)
Definition c_lrange (l : list bytes) (start stop : Z) : option (list bytes) :=
  let len := lenZ l in
  let start := if start <? 0 then wadd len start else start in
  let stop := if stop <? 0 then wadd len stop else stop in
  let start := if start <? 0 then 0 else start in
  let stop := if wsub len 1 <? stop then wsub len 1 else stop in
  c_loop (S (length l)) l start stop [].

Theorem c_lrange_ok l start stop : i64 start -> i64 stop -> short l -> c_lrange l start stop = Some (g_lrange l start stop).
Proof.
  intros H1 H2 Hs. pose proof (lenZ_nonneg l) as L0. unfold c_lrange, g_lrange.
  assert (Wa : forall x, i64 x -> x < 0 -> wadd (lenZ l) x = lenZ l + x) by (intros x Hx Hn; unfold wadd; apply wrap64_id; i64_tac; lia).
  assert (W1 : wsub (lenZ l) 1 = lenZ l - 1) by (unfold wsub; apply wrap64_id; i64_tac; lia).
  rewrite W1.
  replace (if start <? 0 then wadd (lenZ l) start else start) with (if start <? 0 then lenZ l + start else start)
    by (destruct (start <? 0) eqn:E; [symmetry; apply Wa; [exact H1|apply Z.ltb_lt; exact E]|reflexivity]).
  replace (if stop <? 0 then wadd (lenZ l) stop else stop) with (if stop <? 0 then lenZ l + stop else stop)
    by (destruct (stop <? 0) eqn:E; [symmetry; apply Wa; [exact H2|apply Z.ltb_lt; exact E]|reflexivity]).
  apply c_loop_slice; [exact Hs| |].
  - destruct ((if start <? 0 then lenZ l + start else start) <? 0) eqn:E; [lia|apply Z.ltb_ge in E; exact E].
  - destruct (lenZ l - 1 <? (if stop <? 0 then lenZ l + stop else stop)) eqn:E; [lia|apply Z.ltb_ge in E; lia].
Qed.

(* ---------- List.Index ---------- *)
Definition c_lindex (l : list bytes) (idx : Z) : option (option bytes) :=
  let idx := if idx <? 0 then wadd (lenZ l) idx else idx in
  if (idx <? 0) || (wsub (lenZ l) 1 <? idx) then Some None
  else match go_index l idx with Some x => Some (Some x) | None => None end.

Theorem c_lindex_ok l idx : i64 idx -> short l -> c_lindex l idx = Some (g_lindex l idx).
Proof.
  intros H1 Hs. pose proof (lenZ_nonneg l) as L0. unfold c_lindex, g_lindex.
  assert (W1 : wsub (lenZ l) 1 = lenZ l - 1) by (unfold wsub; apply wrap64_id; i64_tac; lia).
  rewrite W1.
  replace (if idx <? 0 then wadd (lenZ l) idx else idx) with (if idx <? 0 then lenZ l + idx else idx)
    by (destruct (idx <? 0) eqn:E; [apply Z.ltb_lt in E; symmetry; unfold wadd; apply wrap64_id; i64_tac; lia|reflexivity]).
  set (i := if idx <? 0 then lenZ l + idx else idx).
  destruct ((i <? 0) || (lenZ l - 1 <? i)) eqn:E; [reflexivity|].
  apply orb_false_elim in E. destruct E as [E1 E2]. apply Z.ltb_ge in E1, E2.
  unfold go_index. replace ((0 <=? i) && (i <? lenZ l)) with true by (symmetry; rewrite andb_true_iff, Z.leb_le, Z.ltb_lt; lia).
  destruct (nth_error l (Z.to_nat i)) eqn:N; [reflexivity|]. exfalso. apply nth_error_None in N. unfold lenZ in *. lia.
Qed.

(* ---------- List.LPop / RPop ---------- *)
(* for n := 0; n < count; n++ { elems = append(elems, l[0]); l = l[1:] } *)
Fixpoint c_lpop_loop (n : nat) (l : list bytes) : option (list bytes * list bytes) :=
  match n with
  | O => Some ([], l)
  | S n' => match go_index l 0, go_slice l 1 (lenZ l) with
            | Some x, Some r => match c_lpop_loop n' r with Some (e, l') => Some (x :: e, l') | None => None end
            | _, _ => None
            end
  end.
(* for n := 0; n < count; n++ { elems = append(elems, l[len-1]); l = l[:len-1] } *)
Fixpoint c_rpop_loop (n : nat) (l : list bytes) : option (list bytes * list bytes) :=
  match n with
  | O => Some ([], l)
  | S n' => match go_index l (wsub (lenZ l) 1), go_slice l 0 (wsub (lenZ l) 1) with
            | Some x, Some r => match c_rpop_loop n' r with Some (e, l') => Some (x :: e, l') | None => None end
            | _, _ => None
            end
  end.
Definition c_pop (left : bool) (l : list bytes) (count : Z) : option (option (list bytes) * list bytes) :=
  if count <? 1 then Some (None, l)
  else let count := if lenZ l <? count then lenZ l else count in
       match (if left then c_lpop_loop else c_rpop_loop) (Z.to_nat count) l with
       | Some (e, l') => Some (Some e, l')
       | None => None
       end.

Lemma c_lpop_loop_ok : forall n l, (n <= length l)%nat -> c_lpop_loop n l = Some (g_lpop_loop n l).
Proof.
  induction n as [|n IH]; intros l H; [reflexivity|]. destruct l as [|x r]; [cbn [length] in H; lia|].
  cbn [c_lpop_loop g_lpop_loop]. unfold go_index, go_slice, lenZ. cbn [length] in *.
  replace ((0 <=? 0) && (0 <? Z.of_nat (S (length r)))) with true by (symmetry; rewrite andb_true_iff, Z.leb_le, Z.ltb_lt; lia).
  replace ((0 <=? 1) && (1 <=? Z.of_nat (S (length r))) && (Z.of_nat (S (length r)) <=? Z.of_nat (S (length r)))) with true
    by (symmetry; rewrite !andb_true_iff, !Z.leb_le; lia).
  cbn [Z.to_nat nth_error]. replace (Z.to_nat (Z.of_nat (S (length r)) - 1)) with (length r) by lia.
  change (Pos.to_nat 1) with 1%nat. cbn [skipn]. rewrite firstn_all. rewrite IH by lia.
  destruct (g_lpop_loop n r). reflexivity.
Qed.

Lemma c_rpop_loop_ok : forall n l, short l -> (n <= length l)%nat -> c_rpop_loop n l = Some (g_rpop_loop n l).
Proof.
  induction n as [|n IH]; intros l Hs H; [reflexivity|].
  destruct (rev l) as [|x rr] eqn:R.
  { apply (f_equal (@length bytes)) in R. rewrite rev_length in R. cbn [length] in R. lia. }
  assert (El : l = rev rr ++ [x]) by (rewrite <- (rev_involutive l), R; reflexivity).
  cbn [c_rpop_loop g_rpop_loop]. rewrite R.
  assert (W : wsub (lenZ l) 1 = lenZ l - 1) by (unfold wsub; apply wrap64_id; pose proof (lenZ_nonneg l); i64_tac; lia).
  rewrite W. unfold go_index, go_slice.
  assert (Ln : lenZ l = Z.of_nat (length rr) + 1) by (rewrite El; unfold lenZ; rewrite app_length, rev_length; cbn [length]; lia).
  replace ((0 <=? lenZ l - 1) && (lenZ l - 1 <? lenZ l)) with true by (symmetry; rewrite andb_true_iff, Z.leb_le, Z.ltb_lt; lia).
  replace ((0 <=? 0) && (0 <=? lenZ l - 1) && (lenZ l - 1 <=? lenZ l)) with true by (symmetry; rewrite !andb_true_iff, !Z.leb_le; lia).
  replace (Z.to_nat (lenZ l - 1)) with (length (rev rr)) by (rewrite rev_length; lia).
  replace (Z.to_nat (lenZ l - 1 - 0)) with (length (rev rr)) by (rewrite rev_length; lia).
  cbn [Z.to_nat skipn].
  replace (nth_error l (length (rev rr))) with (Some x)
    by (rewrite El at 1; rewrite nth_error_app2, Nat.sub_diag by lia; reflexivity).
  replace (firstn (length (rev rr)) l) with (rev rr)
    by (rewrite El at 1; rewrite firstn_app, Nat.sub_diag, firstn_all, firstn_O, app_nil_r; reflexivity).
  rewrite IH.
  - destruct (g_rpop_loop n (rev rr)). reflexivity.
  - unfold short, lenZ in *. rewrite rev_length. lia.
  - rewrite rev_length. rewrite El in H. rewrite app_length, rev_length in H. cbn [length] in H. lia.
Qed.

Theorem c_pop_ok left l count : i64 count -> short l -> c_pop left l count = Some (g_pop left l count).
Proof.
  intros Hc Hs. unfold c_pop, g_pop. destruct (count <? 1) eqn:E; [reflexivity|]. apply Z.ltb_ge in E.
  set (cnt := if lenZ l <? count then lenZ l else count).
  assert (Hn : (Z.to_nat cnt <= length l)%nat).
  { unfold cnt. destruct (lenZ l <? count) eqn:E2; [|apply Z.ltb_ge in E2]; unfold lenZ in *; lia. }
  destruct left.
  - rewrite c_lpop_loop_ok by exact Hn. destruct (g_lpop_loop (Z.to_nat cnt) l). reflexivity.
  - rewrite c_rpop_loop_ok by (try exact Hs; exact Hn). destruct (g_rpop_loop (Z.to_nat cnt) l). reflexivity.
Qed.

(* ---------- ZSet.Add: members = append(members, nil); copy(members[pos+1:], members[pos:]); members[pos] = nm ---------- *)
Lemma g_find_pos_le e z : (g_find_pos e z <= length z)%nat.
Proof. induction z as [|x r IH]; cbn [g_find_pos length]; [lia|]. destruct (zlt e x); lia. Qed.

(* the two slice expressions and the index are in range of the grown slice (length + 1) *)
Theorem zadd_insert_in_range (e : bytes * fl) (z : list (bytes * fl)) (nil_ : bytes * fl) :
  let pos := Z.of_nat (g_find_pos e z) in
  let grown := z ++ [nil_] in
  go_slice grown (pos + 1) (lenZ grown) <> None /\ go_slice grown pos (lenZ grown) <> None /\ go_index grown pos <> None.
Proof.
  cbv zeta. pose proof (g_find_pos_le e z) as P. unfold go_slice, go_index, lenZ. rewrite app_length. cbn [length].
  repeat split.
  - replace ((0 <=? Z.of_nat (g_find_pos e z) + 1) && (Z.of_nat (g_find_pos e z) + 1 <=? Z.of_nat (length z + 1)) && (Z.of_nat (length z + 1) <=? Z.of_nat (length z + 1)))
      with true by (symmetry; rewrite !andb_true_iff, !Z.leb_le; lia). discriminate.
  - replace ((0 <=? Z.of_nat (g_find_pos e z)) && (Z.of_nat (g_find_pos e z) <=? Z.of_nat (length z + 1)) && (Z.of_nat (length z + 1) <=? Z.of_nat (length z + 1)))
      with true by (symmetry; rewrite !andb_true_iff, !Z.leb_le; lia). discriminate.
  - replace ((0 <=? Z.of_nat (g_find_pos e z)) && (Z.of_nat (g_find_pos e z) <? Z.of_nat (length z + 1)))
      with true by (symmetry; rewrite andb_true_iff, Z.leb_le, Z.ltb_lt; lia).
    rewrite Nat2Z.id. intros N. apply nth_error_None in N. rewrite app_length in N. cbn [length] in N. lia.
Qed.

(* ---------- non-vacuity, and the checked functions do tell a panic: the code as it was before 4d3cec5 ---------- *)
(* limitZSetMembers as found: `mems[opt.Offset : opt.Offset+opt.Count]` when 0 <= count, no clamping *)
Definition c_limit_as_found {A} (offset count : Z) (l : list A) : option (list A) :=
  if 0 <=? count then go_slice l offset (wadd offset count) else Some l.
Example c_limit_as_found_panics : c_limit_as_found 5 2 [B"a"; B"b"; B"c"] = None /\ c_limit 5 2 [B"a"; B"b"; B"c"] = Some [].
Proof. vm_compute. auto. Qed.

Example safe_ex :
  c_zrange [(B"a", FNum 1); (B"b", FNum 2); (B"c", FNum 3)] (-2) max64 {| zr_withscores := false; zr_minex := false; zr_maxex := false; zr_offset := 1; zr_count := max64; zr_rev := true; zr_byscore := false; zr_bylex := false |}
    = Some [(B"a", FNum 1)] /\
  c_pop false [B"x"; B"y"; B"z"] max64 = Some (Some [B"z"; B"y"; B"x"], []) /\
  c_lindex [B"x"; B"y"] min64 = Some None.
Proof. vm_compute. auto. Qed.
