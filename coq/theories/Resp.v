(* Resp.v — RESP2 values, the serializer (proto.Message.RESPBytes / Array.RESPBytes) and the parser
   (proto.Parser.Next and helpers), the latter written ONCE over an abstract byte source so that the same
   definition runs on a flat byte string and on a chunked transport (C02).
   Mirrors the code after the fix commits F1-F4:
     - end of stream inside a line before CR yields the partial line (kept leniency, proto tests rely on it);
       after CR, LF is required                                                   (parser.go nextLineBytes)
     - a bulk body is read incrementally, declared lengths above 512 MiB refused (parser.go nextLengthBytes)
     - end of stream inside an array is an error; pre-allocation is capped       (array.go newArrayWithParser)
     - line-type payloads are written with CR/LF replaced by a space             (message.go RESPBytes) *)
From GR Require Import Base.
Open Scope Z_scope.

Inductive resp : Type :=
| RStatus (s : bytes)
| RError (s : bytes)
| RInt (s : bytes)            (* payload kept raw, as proto.Message does *)
| RBulk (p : option bytes)    (* None = null bulk *)
| RArr (l : list resp).

(* ---------- serializer ---------- *)
Definition sanitize_byte (b : N) : N := if (b =? CR)%N || (b =? LF)%N then SP else b.
Definition sanitize (s : bytes) : bytes := map sanitize_byte s.
Definition lenZ {A} (l : list A) : Z := Z.of_nat (length l).

Fixpoint encode (v : resp) : bytes :=
  match v with
  | RStatus s => ch_plus :: sanitize s ++ CRLF
  | RError s => ch_minus :: sanitize s ++ CRLF
  | RInt s => ch_colon :: sanitize s ++ CRLF
  | RBulk None => ch_dollar :: itoa (-1) ++ CRLF
  | RBulk (Some p) => ch_dollar :: itoa (lenZ p) ++ CRLF ++ p ++ CRLF
  | RArr l => ch_star :: itoa (lenZ l) ++ CRLF ++ flat_map encode l
  end.

(* ---------- parser ---------- *)
Inductive pres : Type :=
| PValue (v : resp)
| PEOS                (* clean end of stream before the first byte of a value: Go (nil, nil) *)
| PErr                (* Go error return *)
| PPanic              (* Go run-time panic (makeslice, index out of range) *)
| POutOfFuel.         (* artefact of the fuelled definition; proved unreachable with fuel > input length *)

Definition ALLOC_CAP : Z := 2 ^ 26.          (* an allocation request above this is a crash (makeslice / OOM) *)
Definition MAX_BULK : Z := 512 * 1024 * 1024. (* proto.maxBulkLength *)
Definition MAX_PREALLOC : Z := 1024.          (* proto.maxArrayPrealloc *)
Definition go_make_ok (n : Z) : bool := (0 <=? n) && (n <=? ALLOC_CAP).

(* exactly n bytes off the front of a flat string (None: fewer than n available) *)
Fixpoint split_at (n : N) (l : bytes) : option (bytes * bytes) :=
  if (n =? 0)%N then Some ([], l) else
  match l with
  | [] => None
  | x :: r => match split_at (N.pred n) r with
              | Some (a, b) => Some (x :: a, b)
              | None => None
              end
  end.

Fixpoint nth_byte (l : bytes) (n : N) : option N :=
  match l with
  | [] => None
  | x :: r => if (n =? 0)%N then Some x else nth_byte r (N.pred n)
  end.

Fixpoint take_n (l : bytes) (n : N) : bytes :=
  match l with
  | [] => []
  | x :: r => if (n =? 0)%N then [] else x :: take_n r (N.pred n)
  end.

Inductive lres (S : Type) : Type :=
| LOk (ln : bytes) (s : S)
| LErr
| LFuel.
Arguments LOk {S} ln s.
Arguments LErr {S}.
Arguments LFuel {S}.

Section Parser.
  Variable S : Type.
  Variable next1 : S -> option (N * S).            (* Read of one byte; None = end of stream *)
  Variable nextn : N -> S -> option (bytes * S).   (* exactly n bytes (io.CopyN); None = stream ended first *)

  (* nextLineBytes: bytes up to CR, then LF required; end of stream before any CR: the partial line *)
  Fixpoint read_line (f : nat) (s : S) (acc : bytes) : lres S :=
    match f with
    | O => LFuel
    | Datatypes.S f' =>
      match next1 s with
      | None => LOk (rev acc) s
      | Some (b, s') =>
        if (b =? CR)%N then
          match next1 s' with
          | Some (c, s'') => if (c =? LF)%N then LOk (rev acc) s'' else LErr
          | None => LErr
          end
        else read_line f' s' (b :: acc)
      end
    end.

  (* nextBulkMessage after the type byte *)
  Definition parse_bulk (f : nat) (s : S) : pres * S :=
    match read_line f s [] with
    | LFuel => (POutOfFuel, s)
    | LErr => (PErr, s)
    | LOk ln s1 =>
      match atoi ln with
      | None => (PErr, s1)
      | Some n =>
        if n <? 0 then (PValue (RBulk None), s1)
        else if MAX_BULK <? n then (PErr, s1)
        else
          match nextn (Z.to_N (n + 2)) s1 with
          | None => (PErr, s1)
          | Some (b, s2) =>
            (* b[num] and b[num+1]: index expressions, a panic if out of range *)
            match nth_byte b (Z.to_N n), nth_byte b (Z.to_N (n + 1)) with
            | Some c, Some d =>
              if (c =? CR)%N && (d =? LF)%N then (PValue (RBulk (Some (take_n b (Z.to_N n)))), s2)
              else (PErr, s2)
            | _, _ => (PPanic, s2)
            end
          end
      end
    end.

  (* Parser.Next / newArrayWithParser *)
  Fixpoint parse_gen (f : nat) (s : S) : pres * S :=
    match f with
    | O => (POutOfFuel, s)
    | Datatypes.S f' =>
      match next1 s with
      | None => (PEOS, s)
      | Some (t, s1) =>
        if (t =? ch_star)%N then
          match read_line f' s1 [] with
          | LFuel => (POutOfFuel, s1)
          | LErr => (PErr, s1)
          | LOk ln s2 =>
            match atoi ln with
            | None => (PErr, s2)
            | Some n =>
              if n <? 0 then (PValue (RArr []), s2)
              else if go_make_ok (Z.min n MAX_PREALLOC) then parse_elems f' n s2 []
              else (PPanic, s2)
            end
          end
        else if (t =? ch_dollar)%N then parse_bulk f' s1
        else if (t =? ch_plus)%N then
          match read_line f' s1 [] with
          | LFuel => (POutOfFuel, s1) | LErr => (PErr, s1) | LOk ln s2 => (PValue (RStatus ln), s2) end
        else if (t =? ch_minus)%N then
          match read_line f' s1 [] with
          | LFuel => (POutOfFuel, s1) | LErr => (PErr, s1) | LOk ln s2 => (PValue (RError ln), s2) end
        else if (t =? ch_colon)%N then
          match read_line f' s1 [] with
          | LFuel => (POutOfFuel, s1) | LErr => (PErr, s1) | LOk ln s2 => (PValue (RInt ln), s2) end
        else (PErr, s1)
      end
    end
  with parse_elems (f : nat) (n : Z) (s : S) (acc : list resp) : pres * S :=
    match f with
    | O => (POutOfFuel, s)
    | Datatypes.S f' =>
      if n <=? 0 then (PValue (RArr (rev acc)), s)
      else
        match parse_gen f' s with
        | (PValue v, s') => parse_elems f' (n - 1) s' (v :: acc)
        | (PEOS, s') => (PErr, s')          (* end of stream inside an array *)
        | (r, s') => (r, s')
        end
    end.
End Parser.

(* ---------- instance 1: a flat byte string ---------- *)
Definition flat_next1 (s : bytes) : option (N * bytes) :=
  match s with [] => None | b :: r => Some (b, r) end.
Definition flat_nextn (n : N) (s : bytes) : option (bytes * bytes) := split_at n s.

Definition parse_fuel (f : nat) (s : bytes) : pres * bytes := parse_gen bytes flat_next1 flat_nextn f s.
(* proto.NewParserWithBytes(s).Next() *)
Definition parse (s : bytes) : pres * bytes := parse_fuel (Datatypes.S (length s)) s.

(* ---------- instance 2: a chunked transport ----------
   reader = the chunks successive Read calls will deliver, then end of stream. A Read(p) returns
   min(len p, len chunk) bytes of the current chunk. Empty chunks are not reads and are skipped. *)
Definition reader := list bytes.

Fixpoint rd_next1 (r : reader) : option (N * reader) :=
  match r with
  | [] => None
  | [] :: r' => rd_next1 r'
  | (b :: c) :: r' => Some (b, c :: r')
  end.

(* the accumulate-until-n loop: each Read takes what the current chunk offers, up to what is still missing *)
Fixpoint rd_nextn (n : N) (r : reader) : option (bytes * reader) :=
  if (n =? 0)%N then Some ([], r) else
  match r with
  | [] => None
  | c :: r' =>
    let k := N.of_nat (length c) in
    if (k <=? n)%N then
      match rd_nextn (n - k) r' with
      | Some (a, r'') => Some (c ++ a, r'')
      | None => None
      end
    else Some (take_n c n, skipn (N.to_nat n) c :: r')
  end.

Definition parse_rd_fuel (f : nat) (r : reader) : pres * reader := parse_gen reader rd_next1 rd_nextn f r.
Definition rd_flat (r : reader) : bytes := concat r.
(* proto.NewParserWithReader(r).Next() *)
Definition parse_rd (r : reader) : pres * reader := parse_rd_fuel (Datatypes.S (length (rd_flat r))) r.

(* repeated Next() until end of stream or error: values, final status, and what is left *)
Fixpoint parse_all (f : nat) (s : bytes) : list resp * pres :=
  match f with
  | O => ([], POutOfFuel)
  | Datatypes.S f' =>
    match parse s with
    | (PValue v, s') => let (vs, e) := parse_all f' s' in (v :: vs, e)
    | (r, _) => ([], r)
    end
  end.

Fixpoint parse_all_rd (f : nat) (r : reader) : list resp * pres :=
  match f with
  | O => ([], POutOfFuel)
  | Datatypes.S f' =>
    match parse_rd r with
    | (PValue v, r') => let (vs, e) := parse_all_rd f' r' in (v :: vs, e)
    | (x, _) => ([], x)
    end
  end.

(* ---------- well-formedness and the canonical grammar (independent of encode) ---------- *)
Definition no_crlf (s : bytes) : bool := forallb (fun b => negb ((b =? CR)%N || (b =? LF)%N)) s.

Fixpoint wf (v : resp) : bool :=
  match v with
  | RStatus s | RError s | RInt s => no_crlf s
  | RBulk _ => true
  | RArr l => forallb wf l
  end.

Fixpoint size_ok (v : resp) : bool :=     (* what the parser accepts: bulk payloads up to 512 MiB *)
  match v with
  | RBulk (Some p) => lenZ p <=? MAX_BULK
  | RArr l => (lenZ l <=? max64) && forallb size_ok l
  | _ => true
  end.

(* RESP2 canonical encodings, as a grammar over byte strings *)
Inductive canon : bytes -> Prop :=
| canon_status s : no_crlf s = true -> canon (ch_plus :: s ++ CRLF)
| canon_error s : no_crlf s = true -> canon (ch_minus :: s ++ CRLF)
| canon_int s : no_crlf s = true -> canon (ch_colon :: s ++ CRLF)
| canon_null : canon (ch_dollar :: ch_minus :: 49%N :: CRLF)
| canon_bulk p : lenZ p <= MAX_BULK -> canon (ch_dollar :: itoa (lenZ p) ++ CRLF ++ p ++ CRLF)
| canon_arr xs : lenZ xs <= max64 -> Forall canon xs -> canon (ch_star :: itoa (lenZ xs) ++ CRLF ++ concat xs).

(* strict frame well-formedness of a reply value (C04): line payloads free of CR/LF *)
Definition frame_ok (v : resp) : bool := wf v.

(* client requests: non-empty arrays of non-null bulk strings (C11) *)
Definition is_bulk_some (v : resp) : bool := match v with RBulk (Some _) => true | _ => false end.
Definition is_request (v : resp) : bool :=
  match v with RArr (x :: l) => forallb is_bulk_some (x :: l) | _ => false end.
