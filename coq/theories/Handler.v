(* Handler.v — the boundary between the framework and the application: request-argument cursor
   (proto.Array Next/NextMessage/NextString/NextInteger), numeric tokens, option records (redis/options.go),
   one constructor per UserCommandHandler method (redis/handler.go) and what a handler may return. *)
From GR Require Import Base Resp.
From Coq Require Import QArith String.
Open Scope Z_scope.

(* ---------- argument cursor ---------- *)
Definition args := list resp.

Inductive aerr := AEOM | AOther.        (* proto.ErrEOM (also when wrapped with %w) vs. any other error *)

(* Message.String(): status or non-null bulk *)
Definition msg_string (m : resp) : option bytes :=
  match m with
  | RStatus s => Some s
  | RBulk (Some s) => Some s
  | _ => None
  end.

(* Message.Integer(): strconv.Atoi over the raw bytes of integer / status / bulk (null bulk: Atoi("") fails) *)
Definition msg_integer (m : resp) : option Z :=
  match m with
  | RInt s | RStatus s | RBulk (Some s) => atoi s
  | RBulk None => None
  | _ => None
  end.

Definition msg_is_nil (m : option resp) : bool :=      (* Message.IsNil(), nil receiver included *)
  match m with None => true | Some (RBulk None) => true | _ => false end.

(* Array.NextString(): the cursor advances whenever a message was there *)
Definition next_string (a : args) : (bytes + aerr) * args :=
  match a with
  | [] => (inr AEOM, [])
  | m :: r => match msg_string m with Some s => (inl s, r) | None => (inr AOther, r) end
  end.

Definition next_integer (a : args) : (Z + aerr) * args :=
  match a with
  | [] => (inr AEOM, [])
  | m :: r => match msg_integer m with Some z => (inl z, r) | None => (inr AOther, r) end
  end.

(* ---------- floats: exact rationals on the lexical class [+-]digits[.digits] | [+-]inf[inity] ----------
   strconv.ParseFloat is NOT modelled beyond this class (exponent, hex and underscore forms: outside). *)
Inductive fl := FNum (q : Q) | FInf (neg : bool).

Fixpoint digits_val (ds : bytes) (acc : Z) : option Z :=
  match ds with
  | [] => Some acc
  | d :: r => if is_digit d then digits_val r (acc * 10 + Z.of_N (d - 48)) else None
  end.

Fixpoint split_dot (s : bytes) : bytes * option bytes :=
  match s with
  | [] => ([], None)
  | c :: r => if (c =? 46)%N then ([], Some r)
              else let (a, b) := split_dot r in (c :: a, b)
  end.

Definition lower_byte (b : N) : N := if (65 <=? b)%N && (b <=? 90)%N then (b + 32)%N else b.

Definition parse_ufloat (s : bytes) : option Q :=
  let (ip, fp) := split_dot s in
  let fpd := match fp with Some f => f | None => [] end in
  match ip, fpd with
  | [], [] => None
  | _, _ =>
    match digits_val ip 0, digits_val fpd 0 with
    | Some i, Some f => Some (Qred (Qmake (i * 10 ^ Z.of_nat (Datatypes.length fpd) + f) (Z.to_pos (10 ^ Z.of_nat (Datatypes.length fpd)))))
    | _, _ => None
    end
  end.

Definition parse_float (s : bytes) : option fl :=
  let (neg, r) := match s with
                  | c :: r => if (c =? ch_minus)%N then (true, r) else if (c =? ch_plus)%N then (false, r) else (false, s)
                  | [] => (false, [])
                  end in
  let lr := map lower_byte r in
  if bytes_eqb lr [105; 110; 102]%N || bytes_eqb lr [105; 110; 102; 105; 110; 105; 116; 121]%N then Some (FInf neg)
  else match parse_ufloat r with
       | Some q => Some (FNum (if neg then Qopp q else q))
       | None => None
       end.

(* parseRangeScoreIndex: optional '(' then a float *)
Definition parse_range_score (s : bytes) : option (fl * bool) :=
  match s with
  | c :: r => if (c =? 40)%N then option_map (fun x => (x, true)) (parse_float r)
              else option_map (fun x => (x, false)) (parse_float s)
  | [] => None
  end.

(* ---------- option records ---------- *)
Record set_opt := { so_ex : Z;              (* nanoseconds, 0 = unset *)
                    so_px : Z;              (* nanoseconds *)
                    so_exat : option Z;     (* unix milliseconds *)
                    so_pxat : option Z;     (* unix milliseconds *)
                    so_nx : bool; so_xx : bool; so_keepttl : bool; so_get : bool }.
Definition default_set_opt : set_opt :=
  {| so_ex := 0; so_px := 0; so_exat := None; so_pxat := None; so_nx := false; so_xx := false; so_keepttl := false; so_get := false |}.

Record zadd_opt := { za_xx : bool; za_nx : bool; za_lt : bool; za_gt : bool; za_ch : bool; za_incr : bool }.
Definition default_zadd_opt : zadd_opt := {| za_xx := false; za_nx := false; za_lt := false; za_gt := false; za_ch := false; za_incr := false |}.

Record zrange_opt := { zr_byscore : bool; zr_bylex : bool; zr_rev : bool; zr_withscores : bool;
                       zr_minex : bool; zr_maxex : bool; zr_offset : Z; zr_count : Z }.
Definition default_zrange_opt : zrange_opt :=
  {| zr_byscore := false; zr_bylex := false; zr_rev := false; zr_withscores := false;
     zr_minex := false; zr_maxex := false; zr_offset := 0; zr_count := -1 |}.

Inductive exp_time := ExpRel (seconds : Z) | ExpAbs (unix_seconds : Z).
Record expire_opt := { ex_time : exp_time; ex_nx : bool; ex_xx : bool; ex_gt : bool; ex_lt : bool }.

Record scan_opt := { sc_match : bytes;   (* source text of the compiled expression *)
                     sc_count : Z; sc_type : Z }.

(* ---------- handler calls: one constructor per UserCommandHandler method ---------- *)
Inductive hcall :=
| HDel (keys : list bytes)
| HExists (keys : list bytes)
| HExpire (key : bytes) (o : expire_opt)
| HKeys (pattern : bytes)
| HRename (key newkey : bytes) (nx : bool)
| HType (key : bytes)
| HTTL (key : bytes)
| HScan (cursor : Z) (o : scan_opt)
| HSet (key val : bytes) (o : set_opt)
| HGet (key : bytes)
| HHDel (key : bytes) (fields : list bytes)
| HHSet (key field val : bytes) (nx : bool)
| HHGet (key field : bytes)
| HHGetAll (key : bytes)
| HLPush (key : bytes) (elems : list bytes) (x : bool)
| HRPush (key : bytes) (elems : list bytes) (x : bool)
| HLPop (key : bytes) (count : Z)
| HRPop (key : bytes) (count : Z)
| HLRange (key : bytes) (start stop : Z)
| HLIndex (key : bytes) (index : Z)
| HLLen (key : bytes)
| HSAdd (key : bytes) (members : list bytes)
| HSMembers (key : bytes)
| HSRem (key : bytes) (members : list bytes)
| HZAdd (key : bytes) (members : list (fl * bytes)) (o : zadd_opt)
| HZRange (key : bytes) (start stop : Z) (o : zrange_opt)
| HZRangeByScore (key : bytes) (min max : fl) (o : zrange_opt)
| HZRem (key : bytes) (members : list bytes)
| HZScore (key member : bytes)
| HZIncBy (key : bytes) (inc : fl) (member : bytes).

(* what a handler may return: the Go pair (message, error) *)
Inductive herr := HEQuit | HEText (txt : bytes).
Record hresult := { hr_msg : option resp; hr_err : option herr }.
Definition hr_ok (m : resp) : hresult := {| hr_msg := Some m; hr_err := None |}.

(* method name and primary key of a call: the handler double of the correspondence harness answers by these *)
Definition hcall_name (c : hcall) : bytes :=
  match c with
  | HDel _ => B"Del" | HExists _ => B"Exists" | HExpire _ _ => B"Expire" | HKeys _ => B"Keys"
  | HRename _ _ _ => B"Rename" | HType _ => B"Type" | HTTL _ => B"TTL" | HScan _ _ => B"Scan"
  | HSet _ _ _ => B"Set" | HGet _ => B"Get" | HHDel _ _ => B"HDel" | HHSet _ _ _ _ => B"HSet"
  | HHGet _ _ => B"HGet" | HHGetAll _ => B"HGetAll" | HLPush _ _ _ => B"LPush" | HRPush _ _ _ => B"RPush"
  | HLPop _ _ => B"LPop" | HRPop _ _ => B"RPop" | HLRange _ _ _ => B"LRange" | HLIndex _ _ => B"LIndex"
  | HLLen _ => B"LLen" | HSAdd _ _ => B"SAdd" | HSMembers _ => B"SMembers" | HSRem _ _ => B"SRem"
  | HZAdd _ _ _ => B"ZAdd" | HZRange _ _ _ _ => B"ZRange" | HZRangeByScore _ _ _ _ => B"ZRangeByScore"
  | HZRem _ _ => B"ZRem" | HZScore _ _ => B"ZScore" | HZIncBy _ _ _ => B"ZIncBy"
  end.

Definition hcall_key (c : hcall) : bytes :=
  match c with
  | HDel ks | HExists ks => match ks with k :: _ => k | [] => [] end
  | HExpire k _ | HKeys k | HRename k _ _ | HType k | HTTL k | HSet k _ _ | HGet k | HHDel k _
  | HHSet k _ _ _ | HHGet k _ | HHGetAll k | HLPush k _ _ | HRPush k _ _ | HLPop k _ | HRPop k _
  | HLRange k _ _ | HLIndex k _ | HLLen k | HSAdd k _ | HSMembers k | HSRem k _ | HZAdd k _ _
  | HZRange k _ _ _ | HZRangeByScore k _ _ _ | HZRem k _ | HZScore k _ | HZIncBy k _ _ => k
  | HScan _ _ => []
  end.
