(* StoreScan.v — SCAN of the example store (C17, last clause: KEYS and SCAN MATCH agree on which keys a pattern selects).
   A single SCAN reply depends on how the cursor is encoded, so SCAN is specified the way a client uses it: call SCAN 0,
   then SCAN <returned cursor> until the cursor comes back as 0, and collect the keys.  For every database, pattern and
   COUNT — 1, the default 10, anything — that iteration terminates after at most (number of keys + 1) calls and has
   collected exactly the keys KEYS selects, each once.
   The second half records the code as found (cursor = index of the last key visited, end test `lastCursor == len(keys)`):
   there the iteration either stops early or never stops — `scan_as_found_*` are the witnesses. *)
From Coq Require Import String Lia Permutation.
From GR Require Import Base Resp Handler Exec Glob GlobFacts Redis Store.
Open Scope Z_scope.

(* the client's loop; None = fuel exhausted (the cursor did not come back to 0 within `fuel` calls) *)
Fixpoint scan_iter (fuel : nat) (keys : list bytes) (cur count : Z) (src : bytes) : option (list bytes) :=
  match fuel with
  | O => None
  | S f => let (nx, ks) := scan_call keys cur count src in
           if nx =? 0 then Some ks
           else match scan_iter f keys nx count src with Some r => Some (ks ++ r) | None => None end
  end.

Lemma skipn_add {A} : forall (a b : nat) (l : list A), skipn (a + b) l = skipn b (skipn a l).
Proof.
  induction a as [|a IH]; intros b l; [reflexivity|]. destruct l as [|x l]; [cbn [Nat.add skipn]; rewrite skipn_nil; reflexivity|].
  cbn [Nat.add skipn]. apply IH.
Qed.

Section Scan.
  Variables (count : Z) (src : bytes).
  Notation m := (scan_match src).

  (* the loop from position n on the remaining keys: it skips up to the cursor, then collects matches until COUNT *)
  Lemma g_scan_loop_spec cursor : forall suf n acc, 0 <= n ->
    let sk := Z.to_nat (cursor - n) in
    let rest := skipn sk suf in
    let '(nx, ks) := g_scan_loop suf n cursor count src acc in
    (nx = 0 /\ ks = acc ++ filter m rest) \/
    (exists j, (0 < j <= length rest)%nat /\ nx = n + Z.of_nat sk + Z.of_nat j /\ ks = acc ++ filter m (firstn j rest)).
  Proof.
    induction suf as [|k r IH]; intros n acc Hn; cbv zeta.
    - cbn [g_scan_loop]. left. rewrite skipn_nil. cbn [filter]. rewrite app_nil_r. auto.
    - cbn [g_scan_loop]. destruct (n <? cursor) eqn:Lt.
      + apply Z.ltb_lt in Lt. specialize (IH (n + 1) acc ltac:(lia)). cbv zeta in IH.
        replace (Z.to_nat (cursor - n)) with (S (Z.to_nat (cursor - (n + 1)))) by lia. cbn [skipn].
        destruct (g_scan_loop r (n + 1) cursor count src acc) as [nx ks].
        destruct IH as [IH|(j & Hj & Hnx & Hks)]; [left; exact IH|right]. exists j. repeat split; try lia. exact Hks.
      + apply Z.ltb_ge in Lt. replace (Z.to_nat (cursor - n)) with 0%nat by lia. cbn [skipn].
        assert (S0 : Z.to_nat (cursor - (n + 1)) = 0%nat) by lia.
        destruct (m k) eqn:Mk; cbn [negb].
        * destruct (count <=? Z.of_nat (length (acc ++ [k]))).
          -- right. exists 1%nat. cbn [length firstn filter]. rewrite Mk. repeat split; try lia.
          -- specialize (IH (n + 1) (acc ++ [k]) ltac:(lia)). cbv zeta in IH. rewrite S0 in IH. cbn [skipn] in IH.
             destruct (g_scan_loop r (n + 1) cursor count src (acc ++ [k])) as [nx ks].
             destruct IH as [(E1 & E2)|(j & Hj & Hnx & Hks)].
             ++ left. split; [exact E1|]. cbn [filter]. rewrite Mk, E2, <- app_assoc. reflexivity.
             ++ right. exists (S j). cbn [length firstn filter]. rewrite Mk. repeat split; try lia.
                rewrite Hks, <- app_assoc. reflexivity.
        * specialize (IH (n + 1) acc ltac:(lia)). cbv zeta in IH. rewrite S0 in IH. cbn [skipn] in IH.
          destruct (g_scan_loop r (n + 1) cursor count src acc) as [nx ks].
          destruct IH as [(E1 & E2)|(j & Hj & Hnx & Hks)].
          -- left. split; [exact E1|]. cbn [filter]. rewrite Mk. exact E2.
          -- right. exists (S j). cbn [length firstn filter]. rewrite Mk. repeat split; try lia. exact Hks.
  Qed.

  (* one call: it returns 0 with every remaining match, or a cursor strictly further on with the matches in between *)
  Lemma scan_call_spec keys cursor :
    let cn := Z.to_nat cursor in
    let '(nx, ks) := scan_call keys cursor count src in
    (nx = 0 /\ ks = filter m (skipn cn keys)) \/
    (exists j, (0 < j)%nat /\ (cn + j < length keys)%nat /\ nx = Z.of_nat (cn + j) /\ ks = filter m (firstn j (skipn cn keys))).
  Proof.
    cbv zeta. unfold scan_call. pose proof (g_scan_loop_spec cursor keys 0 [] ltac:(lia)) as H. cbv zeta in H.
    replace (cursor - 0) with cursor in H by lia.
    destruct (g_scan_loop keys 0 cursor count src []) as [nx ks]. cbn [app] in H.
    destruct H as [(E1 & E2)|(j & Hj & Hnx & Hks)].
    - left. subst nx. destruct (Z.of_nat (length keys) <=? 0); auto.
    - pose proof (skipn_length (Z.to_nat cursor) keys) as SL.
      destruct (Z.of_nat (length keys) <=? nx) eqn:Le.
      + apply Z.leb_le in Le. left. split; [reflexivity|]. rewrite Hks. f_equal. apply firstn_all2. lia.
      + apply Z.leb_gt in Le. right. exists j. repeat split; try lia. exact Hks.
  Qed.

  (* the iteration from any position the server can have returned *)
  Lemma scan_iter_from keys : forall fuel cn, (length keys - cn < fuel)%nat ->
    scan_iter fuel keys (Z.of_nat cn) count src = Some (filter m (skipn cn keys)).
  Proof.
    induction fuel as [|f IH]; intros cn Hf; [lia|]. cbn [scan_iter].
    pose proof (scan_call_spec keys (Z.of_nat cn)) as H. cbv zeta in H. rewrite Nat2Z.id in H.
    destruct (scan_call keys (Z.of_nat cn) count src) as [nx ks].
    destruct H as [(E1 & E2)|(j & Hj & Hlt & Hnx & Hks)].
    - subst nx. cbn [Z.eqb]. rewrite E2. reflexivity.
    - assert (Nz : (nx =? 0) = false) by (apply Z.eqb_neq; lia). rewrite Nz, Hnx, IH by lia.
      rewrite Hks, skipn_add, <- filter_app, firstn_skipn. reflexivity.
  Qed.

  (* SCAN 0, then SCAN <cursor> until 0: at most (number of keys + 1) calls, and exactly the matching keys in key order *)
  Theorem scan_iteration_complete keys : scan_iter (S (length keys)) keys 0 count src = Some (filter m keys).
  Proof. exact (scan_iter_from keys (S (length keys)) 0 ltac:(lia)). Qed.
End Scan.

(* ---------- the sorted key list is the key set ---------- *)
Lemma insert_key_perm k l : Permutation (insert_key k l) (k :: l).
Proof.
  induction l as [|x r IH]; [apply Permutation_refl|]. cbn [insert_key]. destruct (bytes_lt x k); [|apply Permutation_refl].
  eapply Permutation_trans; [apply perm_skip; exact IH|apply perm_swap].
Qed.

Lemma sort_keys_perm l : Permutation (sort_keys l) l.
Proof.
  induction l as [|x r IH]; [apply Permutation_refl|]. cbn [sort_keys fold_right]. fold (sort_keys r).
  eapply Permutation_trans; [apply insert_key_perm|apply perm_skip; exact IH].
Qed.

Lemma filter_perm {A} (f : A -> bool) l l' : Permutation l l' -> Permutation (filter f l) (filter f l').
Proof.
  induction 1 as [|x l l' _ IH|x y l|l l' l'' _ IH1 _ IH2]; cbn [filter].
  - apply Permutation_refl.
  - destruct (f x); [apply perm_skip|]; exact IH.
  - destruct (f x), (f y); try apply Permutation_refl. apply perm_swap.
  - eapply Permutation_trans; eauto.
Qed.

Lemma scan_match_glob p k : scan_match (regexp_from_glob p) k = glob_match p k.
Proof. unfold scan_match. destruct (glob_regexp_correct p k) as (r & E & M). rewrite E. exact M. Qed.

(* C17, last clause, for the example store: for every database, every glob pattern and every COUNT, the client's SCAN
   iteration with MATCH p terminates within (number of keys + 1) calls, and the keys it has collected are exactly the keys
   of the KEYS p reply — a permutation of it, so the same keys and each as often (once: record keys are unique) *)
Theorem scan_iteration_agrees_with_keys (d : db) (p : bytes) (count : Z) :
  exists ks, scan_iter (S (length d)) (sort_keys (map fst d)) 0 count (regexp_from_glob p) = Some ks /\
             Permutation ks (filter (fun k => glob_match p k) (map fst d)).
Proof.
  exists (filter (scan_match (regexp_from_glob p)) (sort_keys (map fst d))). split.
  - pose proof (scan_iteration_complete count (regexp_from_glob p) (sort_keys (map fst d))) as H.
    rewrite (Permutation_length (sort_keys_perm (map fst d))), map_length in H. exact H.
  - rewrite (filter_ext _ _ (scan_match_glob p)). apply filter_perm, sort_keys_perm.
Qed.

(* what sprim answers to SCAN is that call, printed *)
Lemma sprim_scan d cur o :
  sprim d (HScan cur o) =
  (d, let (nx, ks) := scan_call (sort_keys (map fst d)) cur (sc_count o) (sc_match o) in ok (RArr [bulk (itoa nx); RArr (map bulk ks)])).
Proof. cbn [sprim]. unfold g_scan. destruct (scan_call _ _ _ _); reflexivity. Qed.

Example scan_ex :
  let d : db := [(B"b", VStr (B"1")); (B"a.c", VStr (B"2")); (B"abc", VStr (B"3")); (B"a", VStr (B"4"))] in
  scan_iter 5 (sort_keys (map fst d)) 0 1 (regexp_from_glob (B"a*")) = Some [B"a"; B"a.c"; B"abc"] /\
  scan_call (sort_keys (map fst d)) 0 2 (regexp_from_glob (B"*")) = (2, [B"a"; B"a.c"]) /\
  scan_call (sort_keys (map fst d)) 2 2 (regexp_from_glob (B"*")) = (0, [B"abc"; B"b"]).
Proof. vm_compute. auto. Qed.

(* ---------- the code as found (before the repair recorded in DESIGN 5.1) ---------- *)
(* lastCursor := 0
   for n, key := range keys { lastCursor = n; if 0 < cursor && n <= cursor { continue }; if !match { continue }
                              append; if opt.Count <= size { break } }
   if lastCursor == len(keys) { lastCursor = 0 } *)
Fixpoint g_scan_loop0 (keys : list bytes) (n cursor count : Z) (src : bytes) (acc : list bytes) (last : Z) : Z * list bytes :=
  match keys with
  | [] => (last, acc)
  | k :: r =>
    if (0 <? cursor) && (n <=? cursor) then g_scan_loop0 r (n + 1) cursor count src acc n
    else if negb (scan_match src k) then g_scan_loop0 r (n + 1) cursor count src acc n
    else let acc' := acc ++ [k] in
         if count <=? Z.of_nat (length acc') then (n, acc') else g_scan_loop0 r (n + 1) cursor count src acc' n
  end.
Definition scan_call0 (keys : list bytes) (cursor count : Z) (src : bytes) : Z * list bytes :=
  let (lc, ks) := g_scan_loop0 keys 0 cursor count src [] 0 in ((if lc =? Z.of_nat (length keys) then 0 else lc), ks).
Fixpoint scan_iter0 (fuel : nat) (keys : list bytes) (cur count : Z) (src : bytes) : option (list bytes) :=
  match fuel with
  | O => None
  | S f => let (nx, ks) := scan_call0 keys cur count src in
           if nx =? 0 then Some ks
           else match scan_iter0 f keys nx count src with Some r => Some (ks ++ r) | None => None end
  end.

(* with COUNT 1 the first call answers cursor 0 — "iteration complete" — after one key *)
Theorem scan_as_found_stops_early :
  exists keys src, forall fuel, scan_iter0 (S fuel) keys 0 1 src = Some [B"a"] /\ filter (scan_match src) keys = [B"a"; B"b"; B"c"].
Proof. exists [B"a"; B"b"; B"c"], (regexp_from_glob (B"*")). intros fuel. split; vm_compute; reflexivity. Qed.

(* with COUNT 2 the cursor reaches the last index and stays there: the client's loop never ends *)
Theorem scan_as_found_never_ends :
  exists keys src, forall fuel, scan_iter0 fuel keys 0 2 src = None.
Proof.
  exists [B"a"; B"b"; B"c"], (regexp_from_glob (B"*")).
  assert (Fix : forall fuel, scan_iter0 fuel [B"a"; B"b"; B"c"] 2 2 (regexp_from_glob (B"*")) = None).
  { induction fuel as [|f IH]; [reflexivity|]. cbn [scan_iter0].
    replace (scan_call0 [B"a"; B"b"; B"c"] 2 2 (regexp_from_glob (B"*"))) with (2, @nil bytes) by (vm_compute; reflexivity).
    cbn [Z.eqb]. rewrite IH. reflexivity. }
  intros [|[|f]]; [reflexivity|reflexivity|]. cbn [scan_iter0].
  replace (scan_call0 [B"a"; B"b"; B"c"] 0 2 (regexp_from_glob (B"*"))) with (1, [B"a"; B"b"]) by (vm_compute; reflexivity).
  cbn [Z.eqb].
  replace (scan_call0 [B"a"; B"b"; B"c"] 1 2 (regexp_from_glob (B"*"))) with (2, [B"c"]) by (vm_compute; reflexivity).
  cbn [Z.eqb]. rewrite Fix. reflexivity.
Qed.

(* every matching key exactly once: with the keys of the record table distinct (they are: wf_db), the collected keys are distinct,
   and a key is collected iff it is in the table and the pattern selects it *)
Theorem scan_iteration_each_key_once (d : db) (p : bytes) (count : Z) : NoDup (map fst d) ->
  exists ks, scan_iter (S (length d)) (sort_keys (map fst d)) 0 count (regexp_from_glob p) = Some ks /\
             NoDup ks /\ forall k, In k ks <-> (In k (map fst d) /\ glob_match p k = true).
Proof.
  intros Nd. destruct (scan_iteration_agrees_with_keys d p count) as (ks & E & P). exists ks. split; [exact E|]. split.
  - apply (Permutation_NoDup (Permutation_sym P)). apply NoDup_filter. exact Nd.
  - intros k. rewrite <- filter_In. split; intros H.
    + eapply Permutation_in; [exact P|exact H].
    + eapply Permutation_in; [apply Permutation_sym; exact P|exact H].
Qed.
