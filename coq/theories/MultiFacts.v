(* MultiFacts.v — several connections over one server and one application state: the password gate (C08),
   connection-scoped state (C13) and isolation between connections (C07), for EVERY application handler. *)
From Coq Require Import String Lia.
From GR Require Import Base BaseFacts Resp RespFacts Handler Exec Conn Multi GrammarFacts ConnFacts LoopFacts.
Open Scope Z_scope.

(* ---------- the AUTH command ---------- *)
(* the credentials an AUTH request carries: AUTH <password>  or  AUTH <user> <password> (further arguments ignored) *)
Definition auth_creds (a : args) : option (bytes * bytes) :=
  match next_string a with
  | (inl p1, r) =>
    match r with
    | [] => Some ([], p1)
    | m :: _ => match msg_string m with Some tok => Some (p1, tok) | None => None end
    end
  | _ => None
  end.

Lemma x_AUTH_spec ss c a :
  x_AUTH ss c a =
  match auth_creds a with
  | None => (x_fw, c)
  | Some (u, p) => let c1 := set_cred c u p in
                   if authenticate ss c1 then (x_ok ok_msg, set_auth c1 true) else (x_fw, c1)
  end.
Proof.
  unfold x_AUTH, auth_creds. destruct (next_string a) as [[p1|e] r]; [|reflexivity].
  destruct r as [|m r']; [reflexivity|]. destruct (msg_string m); reflexivity.
Qed.

(* the server as Start configures it when a password is required: one clear-text authenticator, user "" *)
Definition pw_server (ss : sstate) (pw : bytes) : Prop := ss_auths ss = [AClear [] pw].

Lemma authenticate_pw ss pw c u p : pw_server ss pw ->
  authenticate ss (set_cred c u p) = (match u with [] => true | _ => false end) && bytes_eqb p pw.
Proof.
  intros H. unfold authenticate. rewrite H. cbn [forallb authr_ok set_cred cs_user cs_pass]. rewrite andb_true_r.
  destruct u as [|x u]; [reflexivity|]. cbn [bytes_eqb]. reflexivity.
Qed.

(* AUTH succeeds exactly when it carries the configured password, byte for byte, under the empty (default) user *)
Theorem auth_exact ss pw c a : pw_server ss pw ->
  fst (x_AUTH ss c a) = x_ok ok_msg <-> (auth_creds a = Some ([], pw)).
Proof.
  intros H. rewrite x_AUTH_spec. destruct (auth_creds a) as [[u p]|].
  - cbn zeta. rewrite (authenticate_pw ss pw c u p H). destruct u as [|x u]; cbn [andb].
    + destruct (bytes_eqb p pw) eqn:E; cbn [fst].
      * apply bytes_eqb_eq in E. subst. split; reflexivity.
      * split; [discriminate|]. intros X. inversion X; subst. rewrite bytes_eqb_refl in E. discriminate.
    + cbn [fst]. split; [discriminate|]. intros X. inversion X.
  - cbn [fst]. split; discriminate.
Qed.

(* an AUTH that is refused leaves the authorization of the connection as it was; one that succeeds sets it *)
Theorem auth_effect ss c a :
  (fst (x_AUTH ss c a) = x_ok ok_msg /\ cs_auth (snd (x_AUTH ss c a)) = true) \/
  (fst (x_AUTH ss c a) = x_fw /\ cs_auth (snd (x_AUTH ss c a)) = cs_auth c /\ cs_db (snd (x_AUTH ss c a)) = cs_db c).
Proof.
  rewrite x_AUTH_spec. destruct (auth_creds a) as [[u p]|]; [|right; repeat split; reflexivity].
  cbn zeta. destruct (authenticate ss (set_cred c u p)); [left|right]; repeat split; reflexivity.
Qed.

Section Multi.
  Variable hstate : Type.
  Variable handle : hstate -> Z -> hcall -> hstate * hresult.
  Variable regexp_src : bytes -> bytes.
  Variable fw_text : bytes -> args -> bytes.
  Notation world := (world hstate).
  Notation execute_command := (execute_command hstate handle regexp_src).
  Notation handle_array := (handle_array hstate handle regexp_src).
  Notation handle_message := (handle_message hstate handle regexp_src).
  Notation step := (step hstate handle regexp_src fw_text).
  Notation emit := (Exec.emit hstate).

  (* ---------- how one command changes the connection state: a function of the authenticator list, the state and
     the request alone — not of the handler, its state, the configuration, or any other connection ---------- *)
  Definition cs_cmd (auths : list authr) (c : cstate) (cmd : bytes) (a : args) : cstate :=
    let up := upper cmd in
    if bytes_eqb up (B"AUTH") then snd (x_AUTH {| ss_config := []; ss_auths := auths; ss_app := [] |} c a)
    else if negb (cs_auth c) then c
    else if bytes_eqb up (B"SELECT") then snd (x_SELECT c a)
    else c.

  Fixpoint cs_array (fuel : nat) (auths : list authr) (c : cstate) (a : args) : cstate :=
    match a with
    | [] => c
    | first :: rest =>
      match first with
      | RArr nested => match fuel with O => c | S f => cs_array f auths c nested end
      | _ => match msg_string first with Some cmd => cs_cmd auths c cmd rest | None => c end
      end
    end.

  Definition cs_step (auths : list authr) (c : cstate) (req : resp) : cstate :=
    match req with RArr a => cs_array (depth req) auths c a | _ => c end.

  Lemma x_AUTH_auths ss1 ss2 c a : ss_auths ss1 = ss_auths ss2 -> x_AUTH ss1 c a = x_AUTH ss2 c a.
  Proof. intros H. rewrite !x_AUTH_spec. unfold authenticate. rewrite H. reflexivity. Qed.

  Lemma x_CONFIG_auths ss a : ss_auths (snd (x_CONFIG ss a)) = ss_auths ss.
  Proof.
    unfold x_CONFIG. destruct a as [|m r]; [reflexivity|]. destruct (msg_string m) as [o|]; [|reflexivity].
    destruct (kw o "SET"); [destruct (next_map1 r) as [[d|e] r']; reflexivity|].
    destruct (kw o "GET"); [destruct (strs1 r); reflexivity|reflexivity].
  Qed.

  Lemma is_sys_name up n : In n sys_names -> bytes_eqb up (bytes_of_string n) = true -> is_sys up = true.
  Proof.
    intros Hin E. unfold is_sys. apply existsb_exists. exists n. split; assumption.
  Qed.

  Lemma execute_command_cs (w : world) cmd a r w' :
    execute_command w cmd a = Ok (r, w') ->
    w_cs _ w' = cs_cmd (ss_auths (w_ss _ w)) (w_cs _ w) cmd a /\ ss_auths (w_ss _ w') = ss_auths (w_ss _ w).
  Proof.
    unfold Conn.execute_command, cs_cmd. set (up := upper cmd). set (c := w_cs _ w). set (ss := w_ss _ w).
    destruct (is_sys up) eqn:Sys.
    - cbn [orb negb].
      destruct (bytes_eqb up (B"AUTH")) eqn:EA.
      + rewrite andb_false_r.
        rewrite (x_AUTH_auths ss {| ss_config := []; ss_auths := ss_auths ss; ss_app := [] |} c a eq_refl).
        destruct (x_AUTH _ c a) as [r0 c']. intros H; inversion H; subst. split; reflexivity.
      + rewrite andb_true_r. destruct (cs_auth c) eqn:Au; cbn [negb].
        * destruct (bytes_eqb up (B"PING")) eqn:EP.
          { intros H; inversion H; subst. cbn [w_cs w_ss]. destruct (bytes_eqb up (B"SELECT")) eqn:ES; [|split; reflexivity].
            apply bytes_eqb_eq in EP, ES. rewrite EP in ES. vm_compute in ES. discriminate. }
          destruct (bytes_eqb up (B"ECHO")) eqn:EE.
          { intros H; inversion H; subst. cbn [w_cs w_ss]. destruct (bytes_eqb up (B"SELECT")) eqn:ES; [|split; reflexivity].
            apply bytes_eqb_eq in EE, ES. rewrite EE in ES. vm_compute in ES. discriminate. }
          destruct (bytes_eqb up (B"SELECT")) eqn:ES.
          { destruct (x_SELECT c a) as [r0 c']. intros H; inversion H; subst. split; reflexivity. }
          destruct (bytes_eqb up (B"QUIT")); [intros H; inversion H; subst; split; reflexivity|].
          destruct (bytes_eqb up (B"CONFIG")).
          { pose proof (x_CONFIG_auths ss a) as HA. destruct (x_CONFIG ss a) as [r0 ss']. intros H; inversion H; subst. split; [reflexivity|exact HA]. }
          destruct (lookup_cmd hstate up _) as [[x|x]|].
          -- destruct (x c a _) as [r0 s']. intros H; inversion H; subst. split; reflexivity.
          -- destruct (x c a _) as [[r0 s']|]; [|discriminate]. intros H; inversion H; subst. split; reflexivity.
          -- intros H; inversion H; subst. split; reflexivity.
        * intros H; inversion H; subst. split; reflexivity.
    - (* not a system command: AUTH / SELECT tests are false *)
      assert (EA : bytes_eqb up (B"AUTH") = false).
      { destruct (bytes_eqb up (B"AUTH")) eqn:E; [|reflexivity]. rewrite (is_sys_name up "AUTH") in Sys; [discriminate|cbn; auto|exact E]. }
      assert (ES : bytes_eqb up (B"SELECT") = false).
      { destruct (bytes_eqb up (B"SELECT")) eqn:E; [|reflexivity]. rewrite (is_sys_name up "SELECT") in Sys; [discriminate|cbn; auto 6|exact E]. }
      rewrite EA, ES. cbn [orb].
      match goal with |- context [negb ?f] => destruct f end; cbn [negb].
      + rewrite andb_true_r. destruct (cs_auth c) eqn:Au; cbn [negb].
        * assert (EP : bytes_eqb up (B"PING") = false) by (destruct (bytes_eqb up (B"PING")) eqn:E; [rewrite (is_sys_name up "PING") in Sys; [discriminate|cbn; auto|exact E]|reflexivity]).
          assert (EE : bytes_eqb up (B"ECHO") = false) by (destruct (bytes_eqb up (B"ECHO")) eqn:E; [rewrite (is_sys_name up "ECHO") in Sys; [discriminate|cbn; auto|exact E]|reflexivity]).
          assert (EQ : bytes_eqb up (B"QUIT") = false) by (destruct (bytes_eqb up (B"QUIT")) eqn:E; [rewrite (is_sys_name up "QUIT") in Sys; [discriminate|cbn; auto 6|exact E]|reflexivity]).
          assert (EC : bytes_eqb up (B"CONFIG") = false) by (destruct (bytes_eqb up (B"CONFIG")) eqn:E; [rewrite (is_sys_name up "CONFIG") in Sys; [discriminate|cbn; auto 7|exact E]|reflexivity]).
          rewrite EP, EE, EQ, EC.
          destruct (lookup_cmd hstate up _) as [[x|x]|].
          -- destruct (x c a _) as [r0 s']. intros H; inversion H; subst. split; reflexivity.
          -- destruct (x c a _) as [[r0 s']|]; [|discriminate]. intros H; inversion H; subst. split; reflexivity.
          -- intros H; inversion H; subst. split; reflexivity.
        * intros H; inversion H; subst. split; reflexivity.
      + intros H; inversion H; subst. destruct (negb (cs_auth c)); split; reflexivity.
  Qed.

  Lemma handle_array_cs fuel : forall (w : world) a r w',
    handle_array fuel w a = Ok (r, w') ->
    w_cs _ w' = cs_array fuel (ss_auths (w_ss _ w)) (w_cs _ w) a /\ ss_auths (w_ss _ w') = ss_auths (w_ss _ w).
  Proof.
    induction fuel as [|f IH]; intros w a r w' H; destruct a as [|first rest]; cbn [Conn.handle_array cs_array] in *;
      try (inversion H; subst; split; reflexivity).
    - destruct first; try (destruct (msg_string _); [apply execute_command_cs in H; exact H|]); inversion H; subst; split; reflexivity.
    - destruct first; try (destruct (msg_string _); [apply execute_command_cs in H; exact H|]); try (inversion H; subst; split; reflexivity).
      apply IH in H. exact H.
  Qed.

  (* C13 core: the connection state after a request is cs_step of the state before; the authenticator list is constant *)
  Theorem step_cs (w : world) req q w' :
    step w req = Ok (q, w') ->
    w_cs _ w' = cs_step (ss_auths (w_ss _ w)) (w_cs _ w) req /\ ss_auths (w_ss _ w') = ss_auths (w_ss _ w).
  Proof.
    unfold Conn.step, cs_step. destruct (handle_message w req) as [[r w1]|] eqn:E; [|discriminate].
    intros H; inversion H; subst; clear H. cbn [w_cs w_ss].
    destruct req; cbn [Conn.handle_message] in E; try (inversion E; subst; split; reflexivity).
    apply handle_array_cs in E. exact E.
  Qed.

  (* ---------- the gate: an unauthorized connection reaches no handler ---------- *)
  Lemma execute_command_gate (w : world) cmd a r w' :
    cs_auth (w_cs _ w) = false -> execute_command w cmd a = Ok (r, w') ->
    exists l, e_evs _ (w_est _ w') = rev l ++ e_evs _ (w_est _ w) /\ ev_calls l = [].
  Proof.
    intros Au. unfold Conn.execute_command. rewrite Au. cbn [negb andb].
    match goal with |- context [negb ?f] => destruct f end; cbn [negb].
    - destruct (bytes_eqb (upper cmd) (B"AUTH")) eqn:EA; cbn [negb].
      + destruct (x_AUTH _ _ a) as [r0 c']. intros H; inversion H; subst. cbn [w_est Exec.emit e_evs].
        exists [EvSpanStart (upper cmd); EvSpanFinish]. split; reflexivity.
      + intros H; inversion H; subst. cbn [w_est Exec.emit e_evs].
        exists [EvSpanStart (upper cmd); EvSpanFinish]. split; reflexivity.
    - intros H; inversion H; subst. exists []. split; reflexivity.
  Qed.

  Lemma handle_array_gate fuel : forall (w : world) a r w',
    cs_auth (w_cs _ w) = false -> handle_array fuel w a = Ok (r, w') ->
    exists l, e_evs _ (w_est _ w') = rev l ++ e_evs _ (w_est _ w) /\ ev_calls l = [].
  Proof.
    induction fuel as [|f IH]; intros w a r w' Au H; destruct a as [|first rest]; cbn [Conn.handle_array] in H;
      try (inversion H; subst; exists []; split; reflexivity).
    - destruct first; try (destruct (msg_string _); [eapply execute_command_gate; eauto|]); inversion H; subst; exists []; split; reflexivity.
    - destruct first; try (destruct (msg_string _); [eapply execute_command_gate; eauto|]); try (inversion H; subst; exists []; split; reflexivity).
      eapply IH; eauto.
  Qed.

  (* C08 core: while the connection is not authorized, a request produces no handler call and no application call *)
  Theorem step_gate (w : world) req q w' :
    cs_auth (w_cs _ w) = false -> step w req = Ok (q, w') ->
    exists l, e_evs _ (w_est _ w') = rev l ++ e_evs _ (w_est _ w) /\ ev_calls l = [].
  Proof.
    intros Au. unfold Conn.step. destruct (handle_message w req) as [[r w1]|] eqn:E; [|discriminate].
    intros H; inversion H; subst; clear H. cbn [w_est Exec.emit e_evs].
    assert (G : exists l, e_evs _ (w_est _ w1) = rev l ++ e_evs _ (w_est _ w) /\ ev_calls l = []).
    { destruct req; cbn [Conn.handle_message] in E; try (inversion E; subst; exists []; split; reflexivity).
      eapply handle_array_gate; eauto. }
    destruct G as (l & El & Cl).
    exists (l ++ iter_tail (encode (reply_of fw_text req r))). split.
    - rewrite El. unfold iter_tail. rewrite rev_app_distr. cbn [rev app]. reflexivity.
    - rewrite ev_calls_app, Cl. reflexivity.
  Qed.

  (* and becoming authorized takes an AUTH command whose credentials the authenticators accept *)
  Theorem cs_cmd_auth auths c cmd a :
    cs_auth c = false -> cs_auth (cs_cmd auths c cmd a) = true ->
    upper cmd = B"AUTH" /\ fst (x_AUTH {| ss_config := []; ss_auths := auths; ss_app := [] |} c a) = x_ok ok_msg.
  Proof.
    intros Au. unfold cs_cmd. destruct (bytes_eqb (upper cmd) (B"AUTH")) eqn:EA.
    - intros H. split; [apply bytes_eqb_eq; exact EA|].
      destruct (auth_effect {| ss_config := []; ss_auths := auths; ss_app := [] |} c a) as [[E _]|[_ [E _]]]; [exact E|congruence].
    - rewrite Au. cbn [negb]. congruence.
  Qed.

  (* ---------- several connections ---------- *)
  Notation msys := (msys hstate).
  Notation mstep := (mstep hstate handle regexp_src fw_text).
  Notation mrun := (mrun hstate handle regexp_src fw_text).

  Definition op_conn (o : mop) : nat := match o with MReq i _ => i | MEnd i => i end.

  Lemma nth_set_nth_other {A} (l : list A) : forall i j x, i <> j -> nth_error (set_nth l i x) j = nth_error l j.
  Proof.
    induction l as [|y l IH]; intros i j x Hij; [destruct i; reflexivity|].
    destruct i as [|i], j as [|j]; cbn [set_nth nth_error]; try reflexivity; try congruence. apply IH; congruence.
  Qed.

  Lemma set_nth_length {A} (l : list A) : forall i x, length (set_nth l i x) = length l.
  Proof. induction l as [|y l IH]; intros [|i] x; cbn [set_nth length]; try reflexivity. rewrite IH. reflexivity. Qed.

  Lemma nth_set_nth_same {A} (l : list A) : forall i x y, nth_error l i = Some y -> nth_error (set_nth l i x) i = Some x.
  Proof.
    induction l as [|z l IH]; intros i x y H; destruct i; cbn [set_nth nth_error] in *; try discriminate; [reflexivity|]. eapply IH; eauto.
  Qed.

  (* frame (C07 isolation, C08 (4), C13): a step of connection i leaves every other connection exactly as it was —
     state, liveness and everything it was sent or wrote *)
  Theorem mstep_frame (m : msys) o j : op_conn o <> j -> nth_error (ms_conns _ (mstep m o)) j = nth_error (ms_conns _ m) j.
  Proof.
    intros Hj. destruct o as [i req|i]; cbn [op_conn] in Hj; cbn [Multi.mstep].
    - destruct (nth_error (ms_conns _ m) i) as [c|]; [|reflexivity]. destruct (negb (mc_live c)); [reflexivity|].
      destruct (Conn.step _ _ _ _ _ _) as [[q w']|]; [|reflexivity]. cbn [ms_conns]. apply nth_set_nth_other; exact Hj.
    - destruct (nth_error (ms_conns _ m) i) as [c|]; [|reflexivity]. destruct (negb (mc_live c)); [reflexivity|].
      cbn [ms_conns]. apply nth_set_nth_other; exact Hj.
  Qed.

  (* and no step of any connection makes the system panic (C07 (1) lifted) *)
  Theorem mstep_no_panic (m : msys) o : ms_panic _ (mstep m o) = ms_panic _ m.
  Proof.
    destruct o as [i req|i]; cbn [Multi.mstep].
    - destruct (nth_error (ms_conns _ m) i) as [c|]; [|reflexivity]. destruct (negb (mc_live c)); [reflexivity|].
      match goal with |- context [Conn.step ?a ?b ?c ?d ?w ?r] => destruct (step_ok a b c d w r) as (q & w' & r0 & inner & E & _) end.
      rewrite E. reflexivity.
    - destruct (nth_error (ms_conns _ m) i) as [c|]; [|reflexivity]. destruct (negb (mc_live c)); reflexivity.
  Qed.

  (* what a request of a live connection i does to connection i: its state moves by cs_step; the events it appends
     carry, in every handler call, the database and authorization of connection i itself before the request *)
  Theorem mstep_own (m : msys) i req c :
    nth_error (ms_conns _ m) i = Some c -> mc_live c = true ->
    exists c' l,
      nth_error (ms_conns _ (mstep m (MReq i req))) i = Some c' /\
      mc_cs c' = cs_step (ss_auths (ms_ss _ m)) (mc_cs c) req /\
      ss_auths (ms_ss _ (mstep m (MReq i req))) = ss_auths (ms_ss _ m) /\
      mc_evs c' = rev l ++ mc_evs c /\
      Forall (call_of (mc_cs c)) l /\
      (cs_auth (mc_cs c) = false -> ev_calls l = []).
  Proof.
    intros Hn Hl. cbn [Multi.mstep]. rewrite Hn, Hl. cbn [negb].
    set (w := {| w_cs := mc_cs c; w_ss := ms_ss _ m; w_est := {| e_hs := ms_hs _ m; e_evs := parse_evs ++ mc_evs c |} |}).
    destruct (step_ok hstate handle regexp_src fw_text w req) as (q & w' & r0 & inner & E & Eq & Ev & G & F).
    rewrite E. destruct (step_cs w req q w' E) as [Ecs Eau]. cbn [w_cs w_ss w] in Ecs, Eau.
    assert (Gate : cs_auth (mc_cs c) = false -> ev_calls (inner ++ iter_tail (encode (reply_of fw_text req r0))) = []).
    { intros Au. destruct (step_gate w req q w' Au E) as (l & El & Cl). rewrite Ev in El.
      apply app_inv_tail in El. apply (f_equal (@rev ev)) in El. rewrite !rev_involutive in El. rewrite El. exact Cl. }
    cbn [w_est e_evs w] in Ev.
    assert (Fc : Forall (call_of (mc_cs c)) (rev parse_evs ++ inner ++ iter_tail (encode (reply_of fw_text req r0)))).
    { apply Forall_app. split; [repeat constructor|]. apply Forall_app. split; [exact F|]. repeat constructor. }
    destruct q.
    - eexists. exists (rev parse_evs ++ inner ++ iter_tail (encode (reply_of fw_text req r0)) ++ [EvDeregister; EvClose]).
      cbn [ms_conns ms_ss]. split; [eapply nth_set_nth_same; eauto|]. cbn [mc_cs mc_evs]. split; [exact Ecs|]. split; [exact Eau|]. split; [|split].
      + rewrite Ev. rewrite !rev_app_distr. cbn [rev app]. rewrite rev_involutive, <- !app_assoc. reflexivity.
      + rewrite !app_assoc. apply Forall_app. split; [rewrite <- !app_assoc; exact Fc|repeat constructor].
      + intros Au. pose proof (Gate Au) as Gt. rewrite ev_calls_app in Gt. apply app_eq_nil in Gt. destruct Gt as [G1 G2].
        rewrite !ev_calls_app, G1, G2. reflexivity.
    - eexists. exists (rev parse_evs ++ inner ++ iter_tail (encode (reply_of fw_text req r0))).
      cbn [ms_conns ms_ss]. split; [eapply nth_set_nth_same; eauto|]. cbn [mc_cs mc_evs]. split; [exact Ecs|]. split; [exact Eau|]. split; [|split].
      + rewrite Ev. rewrite !rev_app_distr. rewrite rev_involutive, <- !app_assoc. reflexivity.
      + exact Fc.
      + intros Au. pose proof (Gate Au) as Gt. rewrite ev_calls_app in Gt. apply app_eq_nil in Gt. destruct Gt as [G1 G2].
        rewrite !ev_calls_app, G1, G2. reflexivity.
  Qed.

  (* ---------- histories ---------- *)
  Definition live (m : msys) (i : nat) : bool := match nth_error (ms_conns _ m) i with Some c => mc_live c | None => false end.

  (* the requests of connection i that the system actually processes in the run of `ops` from m: those issued while
     connection i is alive (not yet ended, not yet closed by QUIT) *)
  Fixpoint proc (m : msys) (ops : list mop) (i : nat) : list resp :=
    match ops with
    | [] => []
    | o :: r => (match o with MReq j req => if Nat.eqb j i && live m i then [req] else [] | MEnd _ => [] end) ++ proc (mstep m o) r i
    end.

  Lemma mstep_auths (m : msys) o : ss_auths (ms_ss _ (mstep m o)) = ss_auths (ms_ss _ m).
  Proof.
    destruct o as [i req|i]; cbn [Multi.mstep].
    - destruct (nth_error (ms_conns _ m) i) as [c|] eqn:Hn; [|reflexivity]. destruct (mc_live c) eqn:Hl; [|reflexivity].
      destruct (mstep_own m i req c Hn Hl) as (c' & l & _ & _ & H & _). cbn [Multi.mstep] in H. rewrite Hn, Hl in H. exact H.
    - destruct (nth_error (ms_conns _ m) i) as [c|]; [|reflexivity]. destruct (negb (mc_live c)); reflexivity.
  Qed.

  (* C13: under EVERY interleaving, the state of connection i is the fold of cs_step over connection i's own processed
     requests — nothing any other connection does enters it *)
  Theorem mrun_cs : forall ops (m : msys) i c, nth_error (ms_conns _ m) i = Some c ->
    exists c', nth_error (ms_conns _ (mrun m ops)) i = Some c' /\
               mc_cs c' = fold_left (cs_step (ss_auths (ms_ss _ m))) (proc m ops i) (mc_cs c).
  Proof.
    induction ops as [|o ops IH]; intros m i c Hn; [exists c; split; [exact Hn|reflexivity]|].
    cbn [Multi.mrun fold_left proc]. change (fold_left mstep ops (mstep m o)) with (mrun (mstep m o) ops).
    destruct o as [j req|j].
    - destruct (Nat.eqb_spec j i) as [->|Hji]; cbn [andb].
      + unfold live at 1. rewrite Hn. destruct (mc_live c) eqn:Hl.
        * destruct (mstep_own m i req c Hn Hl) as (c1 & l & Hn1 & Ecs & Eau & _).
          destruct (IH (mstep m (MReq i req)) i c1 Hn1) as (c' & Hn' & Ec'). exists c'. split; [exact Hn'|].
          rewrite Ec', Eau, Ecs. cbn [app fold_left]. reflexivity.
        * assert (E : mstep m (MReq i req) = m) by (cbn [Multi.mstep]; rewrite Hn, Hl; reflexivity).
          rewrite E. cbn [app]. apply IH; exact Hn.
      + cbn [app]. assert (Hn1 : nth_error (ms_conns _ (mstep m (MReq j req))) i = Some c) by (rewrite mstep_frame; [exact Hn|exact Hji]).
        destruct (IH _ i c Hn1) as (c' & Hn' & Ec'). exists c'. split; [exact Hn'|]. rewrite Ec', mstep_auths. reflexivity.
    - cbn [app]. destruct (Nat.eqb_spec j i) as [->|Hji].
      + cbn [Multi.mstep]. rewrite Hn. destruct (mc_live c) eqn:Hl; cbn [negb].
        * set (c1 := {| mc_cs := mc_cs c; mc_live := false; mc_evs := _ |}).
          set (m1 := {| ms_ss := ms_ss _ m; ms_hs := ms_hs _ m; ms_conns := set_nth (ms_conns _ m) i c1; ms_panic := ms_panic _ m |}).
          assert (Hn1 : nth_error (ms_conns _ m1) i = Some c1) by (eapply nth_set_nth_same; eauto).
          destruct (IH m1 i c1 Hn1) as (c' & Hn' & Ec'). exists c'. split; [exact Hn'|exact Ec'].
        * apply IH; exact Hn.
      + assert (Hn1 : nth_error (ms_conns _ (mstep m (MEnd j))) i = Some c) by (rewrite mstep_frame; [exact Hn|exact Hji]).
        destruct (IH _ i c Hn1) as (c' & Hn' & Ec'). exists c'. split; [exact Hn'|]. rewrite Ec', mstep_auths. reflexivity.
  Qed.

  (* authorization is never lost *)
  Lemma cs_cmd_mono auths c cmd a : cs_auth c = true -> cs_auth (cs_cmd auths c cmd a) = true.
  Proof.
    intros Au. unfold cs_cmd. destruct (bytes_eqb (upper cmd) (B"AUTH")).
    - destruct (auth_effect {| ss_config := []; ss_auths := auths; ss_app := [] |} c a) as [[_ E]|[_ [E _]]]; rewrite E; [reflexivity|exact Au].
    - rewrite Au. cbn [negb]. destruct (bytes_eqb (upper cmd) (B"SELECT")); [|exact Au].
      unfold x_SELECT. destruct (int1 a) as [[id r]|]; exact Au.
  Qed.

  Lemma cs_array_mono fuel auths : forall c a, cs_auth c = true -> cs_auth (cs_array fuel auths c a) = true.
  Proof.
    induction fuel as [|f IH]; intros c a Au; destruct a as [|first rest]; cbn [cs_array]; try exact Au;
      destruct first; try (destruct (msg_string _); [apply cs_cmd_mono; exact Au|exact Au]); try exact Au.
    apply IH; exact Au.
  Qed.

  Lemma cs_step_mono auths c req : cs_auth c = true -> cs_auth (cs_step auths c req) = true.
  Proof. intros Au. destruct req; cbn [cs_step]; try exact Au. apply cs_array_mono; exact Au. Qed.

  (* the command a request array denotes: the first element, looking through nested arrays as handleArrayMessage does *)
  Fixpoint leaf_cmd (fuel : nat) (a : args) : option (bytes * args) :=
    match a with
    | [] => None
    | first :: rest =>
      match first with
      | RArr nested => match fuel with O => None | S f => leaf_cmd f nested end
      | _ => match msg_string first with Some cmd => Some (cmd, rest) | None => None end
      end
    end.

  Definition exact_auth (pw : bytes) (req : resp) : Prop :=
    match req with
    | RArr a => exists cmd args, leaf_cmd (depth req) a = Some (cmd, args) /\ upper cmd = B"AUTH" /\ auth_creds args = Some ([], pw)
    | _ => False
    end.

  Lemma cs_array_flip fuel pw : forall c a, cs_auth c = false -> cs_auth (cs_array fuel [AClear [] pw] c a) = true ->
    exists cmd args, leaf_cmd fuel a = Some (cmd, args) /\ upper cmd = B"AUTH" /\ auth_creds args = Some ([], pw).
  Proof.
    induction fuel as [|f IH]; intros c a Au H; destruct a as [|first rest]; cbn [cs_array leaf_cmd] in *; try congruence.
    - destruct first; try congruence;
        (destruct (msg_string _) as [cmd|] eqn:Em; [|congruence]; apply cs_cmd_auth in H; [|exact Au]; destruct H as [Hu Hx];
         exists cmd, rest; split; [reflexivity|]; split; [exact Hu|]; apply (auth_exact {| ss_config := []; ss_auths := [AClear [] pw]; ss_app := [] |} pw c rest (eq_refl : pw_server {| ss_config := []; ss_auths := [AClear [] pw]; ss_app := [] |} pw)); exact Hx).
    - destruct first; try congruence;
        try (destruct (msg_string _) as [cmd|] eqn:Em; [|congruence]; apply cs_cmd_auth in H; [|exact Au]; destruct H as [Hu Hx];
             exists cmd, rest; split; [reflexivity|]; split; [exact Hu|]; apply (auth_exact {| ss_config := []; ss_auths := [AClear [] pw]; ss_app := [] |} pw c rest (eq_refl : pw_server {| ss_config := []; ss_auths := [AClear [] pw]; ss_app := [] |} pw)); exact Hx).
      eapply IH; eauto.
  Qed.

  Lemma fold_flip pw : forall l c, cs_auth c = false -> cs_auth (fold_left (cs_step [AClear [] pw]) l c) = true ->
    exists req, In req l /\ exact_auth pw req.
  Proof.
    induction l as [|req l IH]; intros c Au H; cbn [fold_left] in H; [congruence|].
    destruct (cs_auth (cs_step [AClear [] pw] c req)) eqn:E.
    - exists req. split; [left; reflexivity|]. destruct req; cbn [cs_step] in E; try congruence.
      cbn [exact_auth]. eapply cs_array_flip; eauto.
    - destruct (IH _ E H) as (r & Hin & Hex). exists r. split; [right; exact Hin|exact Hex].
  Qed.

  (* invariant: a connection whose log holds a handler call (or an application-executor call) is authorized *)
  Definition calls_imply_auth (m : msys) : Prop :=
    forall i c, nth_error (ms_conns _ m) i = Some c -> ev_calls (rev (mc_evs c)) <> [] -> cs_auth (mc_cs c) = true.

  Lemma calls_imply_auth_step (m : msys) o : calls_imply_auth m -> calls_imply_auth (mstep m o).
  Proof.
    intros Inv i c' Hn' Hc.
    destruct (Nat.eq_dec (op_conn o) i) as [Heq|Hne].
    2:{ rewrite mstep_frame in Hn' by exact Hne. eapply Inv; eauto. }
    destruct o as [j req|j]; cbn [op_conn] in Heq; subst j.
    - cbn [Multi.mstep] in Hn'. destruct (nth_error (ms_conns _ m) i) as [c|] eqn:Hn; [|rewrite Hn in Hn'; discriminate].
      destruct (mc_live c) eqn:Hl.
      + destruct (mstep_own m i req c Hn Hl) as (c1 & l & Hn1 & Ecs & _ & Ev & _ & Gate).
        cbn [Multi.mstep] in Hn1. rewrite Hn, Hl in Hn1. cbn [negb] in Hn1, Hn'. rewrite Hn1 in Hn'. inversion Hn'; subst c'.
        destruct (cs_auth (mc_cs c)) eqn:Au.
        * rewrite Ecs. apply cs_step_mono; exact Au.
        * exfalso. rewrite Ev, rev_app_distr, rev_involutive, ev_calls_app, (Gate eq_refl), app_nil_r in Hc.
          pose proof (Inv i c Hn Hc) as X. congruence.
      + cbn [negb] in Hn'. rewrite Hn in Hn'. inversion Hn'; subst c'. eapply Inv; eauto.
    - cbn [Multi.mstep] in Hn'. destruct (nth_error (ms_conns _ m) i) as [c|] eqn:Hn; [|rewrite Hn in Hn'; discriminate].
      destruct (mc_live c) eqn:Hl; cbn [negb] in Hn'.
      + cbn [ms_conns] in Hn'. rewrite (nth_set_nth_same _ _ _ _ Hn) in Hn'. inversion Hn'; subst c'. cbn [mc_cs mc_evs] in *.
        apply (Inv i c Hn). intros X. apply Hc. cbn [rev]. rewrite !ev_calls_app, X. reflexivity.
      + rewrite Hn in Hn'. inversion Hn'; subst c'. eapply Inv; eauto.
  Qed.

  Lemma calls_imply_auth_run : forall ops (m : msys), calls_imply_auth m -> calls_imply_auth (mrun m ops).
  Proof.
    induction ops as [|o ops IH]; intros m Inv; [exact Inv|]. cbn [Multi.mrun fold_left].
    apply (IH (mstep m o)). apply calls_imply_auth_step; exact Inv.
  Qed.

  (* C08: on a server that requires password pw, under EVERY interleaving of the requests of n connections: a
     connection on which any handler (or application executor) was invoked has, among its OWN processed requests, an
     AUTH carrying exactly pw under the default user.  (Applied to a prefix of the run: the AUTH precedes the call.) *)
  Theorem password_gate ss hs n pw ops i c' :
    pw_server ss pw -> cs_auth (initial_cstate ss None) = false ->
    nth_error (ms_conns _ (mrun (msys_init hstate ss hs n) ops)) i = Some c' ->
    ev_calls (rev (mc_evs c')) <> [] ->
    exists req, In req (proc (msys_init hstate ss hs n) ops i) /\ exact_auth pw req.
  Proof.
    intros Hpw Hinit Hn' Hc.
    assert (Inv0 : calls_imply_auth (msys_init hstate ss hs n)).
    { intros j c Hj Hcalls. unfold msys_init in Hj. cbn [ms_conns] in Hj. apply nth_error_In in Hj. apply repeat_spec in Hj. subst c.
      exfalso. apply Hcalls. reflexivity. }
    pose proof (calls_imply_auth_run ops _ Inv0 i c' Hn' Hc) as Au.
    assert (Hi : nth_error (ms_conns _ (msys_init hstate ss hs n)) i = Some (new_conn ss)).
    { destruct (nth_error (ms_conns _ (msys_init hstate ss hs n)) i) as [c|] eqn:E.
      - unfold msys_init in E. cbn [ms_conns] in E. apply nth_error_In in E. apply repeat_spec in E. subst c. reflexivity.
      - exfalso. destruct (nth_error_None (ms_conns _ (msys_init hstate ss hs n)) i) as [L _]. specialize (L E).
        assert (nth_error (ms_conns _ (mrun (msys_init hstate ss hs n) ops)) i = None).
        { clear -L. revert L. generalize (msys_init hstate ss hs n). induction ops as [|o ops IH]; intros m L; [apply nth_error_None; exact L|].
          cbn [Multi.mrun fold_left]. apply (IH (mstep m o)).
          destruct o as [j req|j]; cbn [Multi.mstep]; destruct (nth_error (ms_conns _ m) j) as [c|] eqn:Ej; try exact L;
            destruct (negb (mc_live c)); try exact L; try (destruct (Conn.step _ _ _ _ _ _) as [[q w']|]; try exact L);
            cbn [ms_conns]; rewrite set_nth_length; exact L. }
        congruence. }
    destruct (mrun_cs ops _ i _ Hi) as (c2 & Hn2 & Ecs). rewrite Hn' in Hn2. inversion Hn2; subst c2.
    cbn [msys_init ms_ss new_conn mc_cs] in Ecs. rewrite Hpw in Ecs. rewrite Ecs in Au.
    eapply fold_flip; eauto.
  Qed.
End Multi.
