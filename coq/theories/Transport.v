(* Transport.v - what an io.Reader may do at the end of a stream, and the adapter the parser reads through
   (redis/proto/parser.go dataFirstReader, fix df93189).

   io.Reader allows a Read to return n > 0 bytes TOGETHER with an error (io.EOF in particular: crypto/tls does so when the
   peer's close_notify is already buffered).  Resp.reader models a transport by the chunks its successive Reads deliver and
   reports the end by itself, after the last chunk.  This file closes the gap: a transport is a list of Read outcomes, the
   adapter turns it into a Resp.reader, and nothing of what the transport delivered is lost. *)
From Coq Require Import List NArith Lia.
Import ListNotations.
From GR Require Import Base Resp RespFacts.

(* one Read of the transport *)
Inductive tread : Type :=
| TData (b : bytes)        (* n > 0 (or 0) bytes, nil error *)
| TDataErr (b : bytes)     (* bytes and an error in the same call (n > 0, io.EOF) *)
| TErr.                    (* no bytes, an error (the end of the stream reported by itself) *)

(* everything the transport handed over before its first error, the bytes of an error-carrying Read included *)
Fixpoint delivered (t : list tread) : bytes :=
  match t with
  | [] => []
  | TData b :: t' => b ++ delivered t'
  | TDataErr b :: _ => b
  | TErr :: _ => []
  end.

(* dataFirstReader: the bytes of a Read that also reported an error are handed out first, the error on the following call;
   what the parser sees is a reader that reports the end by itself *)
Fixpoint data_first (t : list tread) : reader :=
  match t with
  | [] => []
  | TData b :: t' => b :: data_first t'
  | TDataErr b :: _ => [b]
  | TErr :: _ => []
  end.

(* the line reader of the pinned tree looked at the error first: the bytes of an error-carrying Read never reached it *)
Fixpoint error_first (t : list tread) : reader :=
  match t with
  | [] => []
  | TData b :: t' => b :: error_first t'
  | TDataErr _ :: _ => []
  | TErr :: _ => []
  end.

Lemma data_first_flat : forall t, rd_flat (data_first t) = delivered t.
Proof.
  induction t as [|e t IH]; [reflexivity|].
  destruct e as [b|b|]; cbn [data_first delivered]; unfold rd_flat in *; cbn [concat].
  - rewrite IH. reflexivity.
  - rewrite app_nil_r. reflexivity.
  - reflexivity.
Qed.

(* whatever the transport does at the end of the stream, the parser behind the adapter returns what the flat parser returns
   on the bytes that were delivered *)
Theorem data_first_parse : forall t,
  fst (parse_rd (data_first t)) = fst (parse (delivered t)).
Proof. intros t. rewrite <- data_first_flat. apply parse_rd_flat. Qed.

Theorem data_first_stream : forall vs t,
  forallb wf vs = true -> forallb size_ok vs = true ->
  delivered t = flat_map encode vs ->
  parse_all_rd (S (length vs)) (data_first t) = (vs, PEOS).
Proof. intros vs t W Z D. apply parse_all_chunking; [exact W|exact Z|]. rewrite data_first_flat. exact D. Qed.

(* the pinned behaviour loses the last value of a stream whose last Read carries the end with it *)
Definition ok_crlf : bytes := [43; 79; 75; 13; 10]%N.      (* +OK CR LF *)
Example error_first_loses_the_last_value :
  parse_all_rd 2 (error_first [TDataErr ok_crlf]) = ([], PEOS) /\
  parse_all_rd 2 (data_first [TDataErr ok_crlf]) = ([RStatus [79; 75]%N], PEOS).
Proof. split; vm_compute; reflexivity. Qed.
