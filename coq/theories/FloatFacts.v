(* FloatFacts.v - the float grammar of command arguments has no digit separators (fix 9df90cc).
   Go's strconv.ParseFloat accepts "1_0" as 10; on the wire that token is not a number.  In the model's grammar
   ([+-]digits[.digits] | [+-]inf[inity], Handler.parse_float) a token that contains an underscore - or any byte that is
   neither a digit, a dot, a sign nor a letter of "infinity" - is not a float, with or without the exclusive-bound marker. *)
From Coq Require Import List NArith Bool Lia QArith.
Import ListNotations.
From GR Require Import Base Resp Handler GrammarFacts.

Lemma digits_val_reject x : is_digit x = false -> forall ds acc, In x ds -> digits_val ds acc = None.
Proof.
  intros Hx ds. induction ds as [|d r IH]; intros acc Hin; [destruct Hin|].
  cbn [digits_val]. destruct Hin as [E|Hin].
  - subst d. rewrite Hx. reflexivity.
  - destruct (is_digit d); [apply IH; exact Hin|reflexivity].
Qed.

Lemma split_dot_in x : x <> 46%N -> forall s, In x s ->
  In x (fst (split_dot s)) \/ exists f, snd (split_dot s) = Some f /\ In x f.
Proof.
  intros Hx s. induction s as [|c r IH]; intros Hin; [destruct Hin|].
  cbn [split_dot]. destruct (N.eqb_spec c 46) as [E|E].
  - destruct Hin as [E2|Hin]; [subst; contradiction|]. right. exists r. split; [reflexivity|exact Hin].
  - destruct (split_dot r) as [a b] eqn:S. cbn [fst snd] in *. destruct Hin as [E2|Hin].
    + left. left. exact E2.
    + destruct (IH Hin) as [H|[f [H1 H2]]]; [left; right; exact H|right; exists f; split; assumption].
Qed.

Lemma parse_ufloat_reject x : is_digit x = false -> x <> 46%N -> forall s, In x s -> parse_ufloat s = None.
Proof.
  intros Hd Hx s Hin. unfold parse_ufloat. destruct (split_dot s) as [ip fp] eqn:S.
  destruct (split_dot_in x Hx s Hin) as [H|[f [H1 H2]]]; rewrite S in *; cbn [fst snd] in *.
  - rewrite (digits_val_reject x Hd ip 0 H). destruct ip as [|i0 ip']; [destruct H|]. destruct fp; reflexivity.
  - subst fp. rewrite (digits_val_reject x Hd f 0 H2). destruct ip; destruct f as [|f0 f']; try reflexivity; try (destruct H2);
    destruct (digits_val _ 0); reflexivity.
Qed.

(* the underscore *)
Definition us : N := 95%N.

Lemma lower_us : lower_byte us = us. Proof. reflexivity. Qed.

Lemma not_in_inf l : In us (map lower_byte l) ->
  bytes_eqb (map lower_byte l) [105; 110; 102]%N || bytes_eqb (map lower_byte l) [105; 110; 102; 105; 110; 105; 116; 121]%N = false.
Proof.
  intros Hin. apply orb_false_iff. split.
  - destruct (bytes_eqb (map lower_byte l) [105; 110; 102]%N) eqn:E; [|reflexivity].
    apply bytes_eqb_eq in E. rewrite E in Hin. cbn in Hin. unfold us in Hin. repeat (destruct Hin as [Hin|Hin]; [discriminate|]). destruct Hin.
  - destruct (bytes_eqb (map lower_byte l) [105; 110; 102; 105; 110; 105; 116; 121]%N) eqn:E; [|reflexivity].
    apply bytes_eqb_eq in E. rewrite E in Hin. cbn in Hin. unfold us in Hin. repeat (destruct Hin as [Hin|Hin]; [discriminate|]). destruct Hin.
Qed.

Lemma in_map_us l : In us l -> In us (map lower_byte l).
Proof. intros H. rewrite <- lower_us. apply in_map. exact H. Qed.

Theorem parse_float_no_digit_separator : forall s, In us s -> parse_float s = None.
Proof.
  intros s Hin. unfold parse_float.
  assert (Hr : forall r, In us r ->
     (if bytes_eqb (map lower_byte r) [105; 110; 102]%N || bytes_eqb (map lower_byte r) [105; 110; 102; 105; 110; 105; 116; 121]%N
      then @None fl else match parse_ufloat r with Some _ => None | None => None end) = None).
  { intros r Hr. rewrite (not_in_inf r (in_map_us r Hr)). rewrite (parse_ufloat_reject us eq_refl ltac:(discriminate) r Hr). reflexivity. }
  destruct s as [|c r]; [destruct Hin|].
  destruct (N.eqb_spec c ch_minus) as [E1|E1].
  - destruct Hin as [E|Hin]; [subst c; discriminate|].
    rewrite (not_in_inf r (in_map_us r Hin)). rewrite (parse_ufloat_reject us eq_refl ltac:(discriminate) r Hin). reflexivity.
  - destruct (N.eqb_spec c ch_plus) as [E2|E2].
    + destruct Hin as [E|Hin]; [subst c; discriminate|].
      rewrite (not_in_inf r (in_map_us r Hin)). rewrite (parse_ufloat_reject us eq_refl ltac:(discriminate) r Hin). reflexivity.
    + rewrite (not_in_inf (c :: r) (in_map_us (c :: r) Hin)). rewrite (parse_ufloat_reject us eq_refl ltac:(discriminate) (c :: r) Hin). reflexivity.
Qed.

Theorem parse_range_score_no_digit_separator : forall s, In us s -> parse_range_score s = None.
Proof.
  intros s Hin. unfold parse_range_score. destruct s as [|c r]; [reflexivity|].
  destruct (N.eqb_spec c 40) as [E|E].
  - destruct Hin as [E2|Hin]; [subst c; discriminate|]. rewrite (parse_float_no_digit_separator r Hin). reflexivity.
  - rewrite (parse_float_no_digit_separator (c :: r) Hin). reflexivity.
Qed.

Example digit_separator_tokens :
  parse_float [49; 95; 48]%N = None /\ parse_range_score [40; 49; 95; 48]%N = None /\ parse_float [49; 48]%N = Some (FNum (10 # 1)).
Proof. vm_compute. auto. Qed.
