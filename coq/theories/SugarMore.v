(* SugarMore.v — C12, the derived commands SugarFacts.v leaves without a general theorem: MSET, HMSET, HMGET.
   Same setting: the model's executors (Exec.v) over the Redis reference primitives (Redis.dprim), for ALL databases
   and argument values. *)
From Coq Require Import String QArith Lia.
From GR Require Import Base BaseFacts Resp Handler Exec Conn Redis Grammar GrammarFacts SugarFacts.
Open Scope Z_scope.

Lemma next_pairs_flat (pairs : list (bytes * bytes)) :
  next_pairs (flat_map (fun kv => [bulk (fst kv); bulk (snd kv)]) pairs) = (inl pairs, []).
Proof.
  induction pairs as [|[k v] l IH]; [reflexivity|].
  cbn [flat_map app fst snd]. unfold bulk at 1 2. cbn [next_pairs msg_string]. fold (bulk k) (bulk v).
  rewrite IH. reflexivity.
Qed.

Lemma next_map1_flat (pairs : list (bytes * bytes)) : pairs <> [] ->
  next_map1 (flat_map (fun kv => [bulk (fst kv); bulk (snd kv)]) pairs) = (inl (map_of_pairs pairs), []).
Proof. intros H. unfold next_map1. rewrite next_pairs_flat. destruct pairs; [congruence|reflexivity]. Qed.

Lemma aset_aset_same {V} (m : list (bytes * V)) k v w : aset (aset m k v) k w = aset m k w.
Proof.
  induction m as [|[k' v'] m IH]; cbn [aset].
  - rewrite bytes_eqb_refl. reflexivity.
  - destruct (bytes_eqb k k') eqn:E; cbn [aset]; rewrite E; [reflexivity|]. rewrite IH. reflexivity.
Qed.

Lemma aset_same {V} (m : list (bytes * V)) k v : aget m k = Some v -> aset m k v = m.
Proof.
  induction m as [|[k' v'] m IH]; cbn [aget aset]; [discriminate|].
  destruct (bytes_eqb k k'); [intros H; injection H as ->; reflexivity|]. intros H. rewrite (IH H). reflexivity.
Qed.

Section SugarMore.
  Variable c : cstate.
  Hypothesis Hau : cs_auth c = true.
  Notation X x := (x db dhandle).

  (* ---------- MSET: every key holds the LAST value given for it, whatever it held before; reply OK ---------- *)
  Lemma set_each_plain : forall (l : list (bytes * bytes)) (d : db) evs,
    exists evs', set_each db dhandle c (fun k v => HSet k v default_set_opt) l {| e_hs := d; e_evs := evs |} =
                 (None, {| e_hs := fold_left (fun m kv => aset m (fst kv) (VStr (snd kv))) l d; e_evs := evs' |}).
  Proof.
    induction l as [|[k v] l IH]; intros d evs; [eexists; reflexivity|].
    cbn [set_each]. unfold Exec.call, dhandle. cbn [e_hs e_evs dprim default_set_opt so_nx so_xx so_get andb negb].
    cbn [hr_err r_ok ok hr_ok fold_left fst snd]. apply IH.
  Qed.

  Theorem mset_spec (d : db) (pairs : list (bytes * bytes)) : pairs <> [] ->
    run (X x_MSET) c (flat_map (fun kv => [bulk (fst kv); bulk (snd kv)]) pairs) d =
    (fold_left (fun dd kv => aset dd (fst kv) (VStr (snd kv))) (map_of_pairs pairs) d, x_ok ok_msg).
  Proof.
    intros Hne. unfold run, x_MSET. rewrite (next_map1_flat pairs Hne).
    destruct (set_each_plain (map_of_pairs pairs) d []) as (evs & ->). reflexivity.
  Qed.

  (* ---------- HMSET: the fields are set in the hash (created when missing), last value wins; reply OK;
     a key of another type: error, nothing stored ---------- *)
  Lemma hset_each : forall (l : list (bytes * bytes)) (d : db) h hh evs, aget d h = Some (VHash hh) ->
    exists evs', set_each db dhandle c (fun f v => HHSet h f v false) l {| e_hs := d; e_evs := evs |} =
                 (None, {| e_hs := aset d h (VHash (fold_left (fun m kv => aset m (fst kv) (snd kv)) l hh)); e_evs := evs' |}).
  Proof.
    induction l as [|[f v] l IH]; intros d h hh evs Hh.
    - exists evs. cbn [set_each fold_left]. rewrite (aset_same d h (VHash hh) Hh). reflexivity.
    - cbn [set_each]. unfold Exec.call, dhandle. cbn [e_hs e_evs dprim]. rewrite Hh.
      assert (Hnext : aget (aset d h (VHash (aset hh f v))) h = Some (VHash (aset hh f v))) by apply aget_aset_same.
      destruct (ahas hh f); cbn [hr_err r_int ok hr_ok];
        match goal with |- context [set_each _ _ _ _ l {| e_hs := _; e_evs := ?e |}] =>
          destruct (IH (aset d h (VHash (aset hh f v))) h (aset hh f v) e Hnext) as (evs' & E) end;
        exists evs'; (etransitivity; [exact E|]); rewrite aset_aset_same; reflexivity.
  Qed.

  Definition hash_of (d : db) (h : bytes) : option (list (bytes * bytes)) :=
    match aget d h with Some (VHash hh) => Some hh | None => Some [] | Some _ => None end.

  Theorem hmset_spec (d : db) h (pairs : list (bytes * bytes)) : pairs <> [] ->
    run (X x_HMSET) c (bulk h :: flat_map (fun kv => [bulk (fst kv); bulk (snd kv)]) pairs) d =
    match hash_of d h with
    | Some hh => (aset d h (VHash (fold_left (fun m kv => aset m (fst kv) (snd kv)) (map_of_pairs pairs) hh)), x_ok ok_msg)
    | None => (d, {| x_msg := None; x_err := x_err (x_of wrongtype) |})
    end.
  Proof.
    intros Hne. unfold run, x_HMSET. rewrite key1_bulk, (next_map1_flat pairs Hne).
    assert (Hm : map_of_pairs pairs <> []).
    { destruct pairs as [|[k v] l]; [congruence|]. unfold map_of_pairs. cbn [fold_left map_set fst snd].
      assert (G : forall (l : list (bytes * bytes)) m, m <> [] -> fold_left (fun m kv => map_set m (fst kv) (snd kv)) l m <> []).
      { induction l0 as [|[k2 v2] l0 IH]; intros m Hm0; [exact Hm0|]. cbn [fold_left]. apply IH. destruct m as [|[k3 v3] m]; [congruence|].
        cbn [map_set fst snd]. destruct (bytes_eqb k2 k3); discriminate. }
      apply G. discriminate. }
    unfold hash_of. destruct (aget d h) as [[v|hh|l|s|z]|] eqn:Eh.
    1,3,4,5: destruct (map_of_pairs pairs) as [|[f v0] m]; [congruence|]; cbn [set_each]; unfold Exec.call, dhandle; cbn [e_hs e_evs dprim]; rewrite Eh;
             cbn [hr_err wrongtype err]; reflexivity.
    - destruct (hset_each (map_of_pairs pairs) d h hh [] Eh) as (evs & ->). reflexivity.
    - destruct (map_of_pairs pairs) as [|[f v0] m] eqn:Em; [congruence|].
      cbn [set_each]. unfold Exec.call, dhandle. cbn [e_hs e_evs dprim]. rewrite Eh. cbn [hr_err r_int ok hr_ok]. fold dhandle.
      assert (Hnext : aget (aset d h (VHash [(f, v0)])) h = Some (VHash [(f, v0)])) by apply aget_aset_same.
      match goal with |- context [set_each _ _ _ _ m {| e_hs := _; e_evs := ?e |}] =>
        destruct (hset_each m (aset d h (VHash [(f, v0)])) h [(f, v0)] e Hnext) as (evs & ->) end.
      rewrite aset_aset_same. reflexivity.
  Qed.

  (* ---------- HMGET: one reply element per requested field, in request order: the value or nil ---------- *)
  Lemma get_each_fields (d : db) h hh : aget d h = Some (VHash hh) -> forall fields acc evs,
    exists evs', get_each db dhandle c (HHGet h) fields {| e_hs := d; e_evs := evs |} acc =
      (inr (rev acc ++ map (fun f => Some (match aget hh f with Some v => bulk v | None => nil_msg end)) fields), {| e_hs := d; e_evs := evs' |}).
  Proof.
    intros Hh. induction fields as [|f fields IH]; intros acc evs.
    - eexists. cbn [get_each map]. rewrite app_nil_r. reflexivity.
    - cbn [get_each map]. unfold Exec.call, dhandle. cbn [e_hs e_evs dprim]. rewrite Hh.
      destruct (aget hh f) as [v|]; cbn [hr_err hr_msg r_bulk r_nil ok hr_ok]; fold dhandle;
        match goal with |- context [get_each _ _ _ _ fields {| e_hs := _; e_evs := ?e |} ?a] => destruct (IH a e) as (evs' & E) end;
        exists evs'; (etransitivity; [exact E|]); cbn [rev map]; rewrite <- app_assoc; reflexivity.
  Qed.

  Lemma get_each_missing (d : db) h : aget d h = None -> forall fields acc evs,
    exists evs', get_each db dhandle c (HHGet h) fields {| e_hs := d; e_evs := evs |} acc =
      (inr (rev acc ++ map (fun _ => Some nil_msg) fields), {| e_hs := d; e_evs := evs' |}).
  Proof.
    intros Hh. induction fields as [|f fields IH]; intros acc evs.
    - eexists. cbn [get_each map]. rewrite app_nil_r. reflexivity.
    - cbn [get_each]. unfold Exec.call, dhandle. cbn [e_hs e_evs dprim]. rewrite Hh. cbn [hr_err hr_msg r_nil ok hr_ok]. fold dhandle.
      match goal with |- context [get_each _ _ _ _ fields {| e_hs := _; e_evs := ?e |} ?a] => destruct (IH a e) as (evs' & E) end.
      exists evs'. etransitivity; [exact E|]. cbn [rev map]. rewrite <- app_assoc. reflexivity.
  Qed.

  Theorem hmget_spec (d : db) h (fields : list bytes) : fields <> [] ->
    run (X x_HMGET) c (bulk h :: map bulk fields) d =
    match hash_of d h with
    | Some hh => (d, x_ok (RArr (map (fun f => match aget hh f with Some v => bulk v | None => nil_msg end) fields)))
    | None => (d, {| x_msg := None; x_err := x_err (x_of wrongtype) |})
    end.
  Proof.
    intros Hne. unfold run, x_HMGET. rewrite key1_bulk, strs1_bulks by (destruct fields; [congruence|reflexivity]).
    unfold hash_of. destruct (aget d h) as [[v|hh|l|s|z]|] eqn:Eh.
    1,3,4,5: destruct fields as [|f fields]; [congruence|]; cbn [get_each]; unfold Exec.call, dhandle; cbn [e_hs e_evs dprim]; rewrite Eh;
             cbn [hr_err wrongtype err collect]; reflexivity.
    - destruct (get_each_fields d h hh Eh fields [] []) as (evs & ->). cbn [rev app collect].
      rewrite <- map_map with (g := Some). rewrite all_some_somes. reflexivity.
    - destruct (get_each_missing d h Eh fields [] []) as (evs & ->). cbn [rev app collect aget].
      rewrite <- map_map with (f := fun _ : bytes => nil_msg) (g := Some). rewrite all_some_somes. reflexivity.
  Qed.

  (* ---------- ZREVRANGEBYSCORE key max min [WITHSCORES] [LIMIT offset count]:
     the members with min <= score <= max (bounds optionally exclusive) in DESCENDING order, then offset/count ---------- *)
  Lemma select_groups_shift {A} : forall (gs : list (list A)) n off cnt,
    select_groups gs (n + 1) (off + 1) cnt = select_groups gs n off cnt.
  Proof.
    induction gs as [|g r IH]; intros n off cnt; [reflexivity|]. cbn [select_groups].
    replace (off + 1 <=? n + 1) with (off <=? n) by (destruct (Z.leb_spec off n), (Z.leb_spec (off + 1) (n + 1)); lia || reflexivity).
    replace (n + 1 - (off + 1)) with (n - off) by lia. rewrite IH. reflexivity.
  Qed.

  Lemma select_groups_skip {A B0} (f : A -> list B0) cnt : forall (k : nat) (l : list A),
    select_groups (map f l) 0 (Z.of_nat k) cnt = select_groups (map f (skipn k l)) 0 0 cnt.
  Proof.
    induction k as [|k IH]; intros l; [reflexivity|].
    destruct l as [|x r]; [reflexivity|]. cbn [map select_groups skipn].
    replace (Z.of_nat (S k) <=? 0) with false by (symmetry; apply Z.leb_gt; lia). cbn [andb app].
    replace (Z.of_nat (S k)) with (Z.of_nat k + 1) by lia. rewrite (select_groups_shift (map f r) 0 (Z.of_nat k) cnt). apply IH.
  Qed.

  Lemma select_groups_take {A B0} (f : A -> list B0) cnt : forall (l : list A) m, 0 <= m ->
    select_groups (map f l) m 0 cnt = flat_map f (if cnt <? 0 then l else firstn (Z.to_nat (cnt - m)) l).
  Proof.
    induction l as [|x r IH]; intros m Hm.
    - destruct (cnt <? 0); [reflexivity|]. rewrite firstn_nil. reflexivity.
    - cbn [map select_groups]. replace (0 <=? m) with true by (symmetry; apply Z.leb_le; lia). rewrite Z.sub_0_r. cbn [andb].
      rewrite (IH (m + 1)) by lia. destruct (Z.ltb_spec cnt 0) as [Hc|Hc]; cbn [orb]; [reflexivity|].
      destruct (Z.ltb_spec m cnt) as [Hmc|Hmc].
      + replace (Z.to_nat (cnt - m)) with (S (Z.to_nat (cnt - (m + 1)))) by lia. reflexivity.
      + replace (Z.to_nat (cnt - m)) with 0%nat by lia. replace (Z.to_nat (cnt - (m + 1))) with 0%nat by lia. reflexivity.
  Qed.

  Lemma limit_by_flat {A B0} (f : A -> list B0) step : (0 < step)%nat -> (forall x, length (f x) = step) ->
    forall off cnt (l : list A), limit_by step off cnt (flat_map f l) = flat_map f (limit off cnt l).
  Proof.
    intros Hs Hf off cnt l. unfold limit_by, limit. destruct step as [|st]; [lia|].
    destruct (Z.ltb_spec off 0) as [Ho|Ho]; [reflexivity|].
    rewrite (groups_flat c Hau f (S st) Hs Hf l (length (flat_map f l)) (Nat.le_refl _)).
    rewrite <- (Z2Nat.id off Ho) at 1. rewrite (select_groups_skip f cnt (Z.to_nat off) l).
    rewrite (select_groups_take f cnt (skipn (Z.to_nat off) l) 0 (Z.le_refl 0)). rewrite Z.sub_0_r.
    assert (Sk : skipn (Z.to_nat (Z.min off (lenZ l))) l = skipn (Z.to_nat off) l).
    { unfold lenZ. destruct (Z.le_gt_cases off (Z.of_nat (length l))) as [H|H].
      - rewrite Z.min_l by lia. reflexivity.
      - rewrite Z.min_r by lia. rewrite Nat2Z.id. rewrite skipn_all. rewrite skipn_all2 by lia. reflexivity. }
    rewrite Sk. destruct (Z.ltb_spec cnt 0) as [Hc|Hc]; [reflexivity|].
    f_equal. unfold lenZ. destruct (Z.le_gt_cases cnt (Z.of_nat (length l))) as [H|H].
    - rewrite Z.min_l by lia. reflexivity.
    - rewrite Z.min_r by lia. rewrite Nat2Z.id.
      rewrite !firstn_all2; [reflexivity| |]; rewrite skipn_length; lia.
  Qed.

  Definition zfmt (ws : bool) (e : bytes * fl) : list resp := if ws then [bulk (fst e); bulk (fl_text (snd e))] else [bulk (fst e)].

  Theorem zrevrangebyscore_spec (d : db) k (mx mn : rstok) (ws : list zr_word) z :
    rstok_ok mx = true -> rstok_ok mn = true -> forallb zr_word_ok ws = true -> aget d k = Some (VZSet z) ->
    let o := zr_opt_of ws in
    run (X x_ZREVRANGEBYSCORE) c (map bulk ([k; rstok_txt mx; rstok_txt mn] ++ flat_map print_zr_word ws)) d =
    (d, x_ok (RArr (flat_map (zfmt (zr_withscores o))
                      (limit (zr_offset o) (zr_count o)
                         (rev (filter (fun e => in_score_range (ft_val (rs_tok mn)) (ft_val (rs_tok mx)) (rs_ex mn) (rs_ex mx) (snd e)) z)))))).
  Proof.
    intros Hx Hn Hws Hk o. unfold run, x_ZREVRANGEBYSCORE. rewrite map_app. cbn [map app].
    rewrite key1_bulk. unfold rscore1, next_string, bulk at 1, msg_string. rewrite (rstok_range mx Hx).
    unfold bulk at 1. rewrite (rstok_range mn Hn).
    rewrite (range_opts_print ws default_zrange_opt Hws). fold (zr_opt_of ws). fold o.
    unfold Exec.call, dhandle. cbn [e_hs e_evs dprim]. rewrite Hk.
    cbn [with_limit with_ex zr_withscores zr_offset zr_count zr_minex zr_maxex]. rewrite (limit_all c Hau).
    unfold rev_reply, zreply. cbn [hr_err hr_msg ok hr_ok e_hs x_of x_msg x_err].
    destruct (zr_withscores o) eqn:W.
    - rewrite (reverse_by_flat c Hau (fun e : bytes * fl => [bulk (fst e); bulk (fl_text (snd e))]) 2) by (auto; lia).
      rewrite (limit_by_flat (fun e : bytes * fl => [bulk (fst e); bulk (fl_text (snd e))]) 2) by (auto; lia). reflexivity.
    - rewrite (reverse_by_flat c Hau (fun e : bytes * fl => [bulk (fst e)]) 1) by (auto; lia).
      rewrite (limit_by_flat (fun e : bytes * fl => [bulk (fst e)]) 1) by (auto; lia). reflexivity.
  Qed.
End SugarMore.
