(* ConnFacts.v — facts about the connection model that hold for EVERY application handler:
   - every executor terminates normally (no Go panic) and emits only handler-call, application-executor and
     properly nested command-span events (no write, no root span, no registration event)
   - every handler call records the database and authorization of the connection that executes it
   - one loop iteration = one root span, one parse span, the command's events, one response span with exactly
     one write of one encoded RESP value, root finished last
   - the receive loop over the bytes of a request sequence (+ an incomplete tail) is the fold of `step` over
     the requests.
   Used by props/C03 C04 C07 C08 C11 C13 C19 C20. *)
From Coq Require Import String Lia.
From GR Require Import Base BaseFacts Resp RespFacts Handler Exec Conn.
Open Scope Z_scope.

(* ---------- chronological event lists ---------- *)
(* depth scan: Some d' = the list contains only call / application / command-span events and never closes a
   span it did not open *)
Fixpoint scan (l : list ev) (d : nat) : option nat :=
  match l with
  | [] => Some d
  | EvSpanStart _ :: r => scan r (S d)
  | EvSpanFinish :: r => match d with O => None | S d' => scan r d' end
  | EvCall _ _ _ _ :: r => scan r d
  | EvApp _ _ :: r => scan r d
  | _ => None
  end.

Lemma scan_app l1 : forall l2 d, scan (l1 ++ l2) d = match scan l1 d with Some d' => scan l2 d' | None => None end.
Proof.
  induction l1 as [|e l1 IH]; intros l2 d; [reflexivity|].
  destruct e; cbn [scan app]; try reflexivity; try apply IH.
  destruct d; [reflexivity|apply IH].
Qed.

Lemma scan_shift l : forall d d' k, scan l d = Some d' -> scan l (d + k)%nat = Some (d' + k)%nat.
Proof.
  induction l as [|e l IH]; intros d d' k H; cbn [scan] in *.
  - inversion H; reflexivity.
  - destruct e; try discriminate.
    + apply (IH (S d) d' k H).
    + destruct d as [|d0]; [discriminate|]. cbn [Nat.add]. apply (IH d0 d' k H).
    + apply (IH d d' k H).
    + apply (IH d d' k H).
Qed.

Definition good (l : list ev) : Prop := scan l 0%nat = Some 0%nat.

Lemma good_nil : good []. Proof. reflexivity. Qed.
Lemma good_app l1 l2 : good l1 -> good l2 -> good (l1 ++ l2).
Proof. unfold good; intros H1 H2. rewrite scan_app, H1. exact H2. Qed.
Lemma good_wrap n l : good l -> good (EvSpanStart n :: l ++ [EvSpanFinish]).
Proof.
  unfold good; intros H. cbn [scan]. rewrite scan_app.
  pose proof (scan_shift l 0 0 1 H) as H1. cbn [Nat.add] in H1. rewrite H1. reflexivity.
Qed.

Definition call_of (c : cstate) (e : ev) : Prop :=
  match e with EvCall db au _ _ => db = cs_db c /\ au = cs_auth c | _ => True end.

Section Facts.
  Variable hstate : Type.
  Variable handle : hstate -> Z -> hcall -> hstate * hresult.
  Variable regexp_src : bytes -> bytes.
  Variable fw_text : bytes -> args -> bytes.
  Notation est := (est hstate).
  Notation emit := (emit hstate).
  Notation call := (call hstate handle).
  Notation pass := (pass hstate handle).

  (* s' extends s by a good chronological list of events all of which belong to connection state c *)
  Definition ext (c : cstate) (s s' : est) : Prop :=
    exists l, e_evs _ s' = rev l ++ e_evs _ s /\ good l /\ Forall (call_of c) l.

  Lemma ext_refl c s : ext c s s.
  Proof. exists []. split; [reflexivity|split; [apply good_nil|constructor]]. Qed.

  Lemma ext_trans c s1 s2 s3 : ext c s1 s2 -> ext c s2 s3 -> ext c s1 s3.
  Proof.
    intros (l1 & E1 & G1 & F1) (l2 & E2 & G2 & F2). exists (l1 ++ l2). split; [|split].
    - rewrite E2, E1, rev_app_distr, app_assoc. reflexivity.
    - apply good_app; assumption.
    - apply Forall_app; split; assumption.
  Qed.

  Lemma ext_call c h s r s1 : call c h s = (r, s1) -> ext c s s1.
  Proof.
    unfold Exec.call. intros E. destruct (handle (e_hs _ s) (cs_db c) h) as [hs' r0]. inversion E; subst.
    exists [EvCall (cs_db c) (cs_auth c) h r]. split; [reflexivity|split; [reflexivity|]].
    constructor; [split; reflexivity|constructor].
  Qed.

  Lemma ext_wrap c n s s' : ext c (emit (EvSpanStart n) s) s' -> ext c s (emit EvSpanFinish s').
  Proof.
    intros (l & E & G & F). exists (EvSpanStart n :: l ++ [EvSpanFinish]). split; [|split].
    - cbn [Exec.emit e_evs] in *. rewrite E. cbn [rev]. rewrite rev_app_distr. cbn [rev app].
      rewrite <- !app_assoc. reflexivity.
    - apply good_wrap; exact G.
    - constructor; [exact I|]. apply Forall_app; split; [exact F|]. constructor; [exact I|constructor].
  Qed.

  Lemma ext_app_ev c n a s : ext c s (emit (EvApp n a) s).
  Proof. exists [EvApp n a]. split; [reflexivity|split; [reflexivity|]]. constructor; [exact I|constructor]. Qed.

  Lemma ext_pass c h s : ext c s (snd (pass c h s)).
  Proof.
    unfold Exec.pass. destruct (Exec.call hstate handle c h s) as [r s1] eqn:E. apply ext_call in E. exact E.
  Qed.

  (* ----- a tactic that walks through an executor ----- *)
  Ltac solve_ext :=
    cbn [snd fst];
    first [ assumption | apply ext_refl | apply ext_pass | solve [auto with exth]
          | eapply ext_trans; [eassumption|solve_ext] ].

  Ltac xstep :=
    match goal with
    | |- context [match Exec.call _ _ ?c ?h ?s with _ => _ end] =>
        let r := fresh "r" in let s1 := fresh "s" in let E := fresh "E" in
        destruct (Exec.call hstate handle c h s) as [r s1] eqn:E; apply ext_call in E
    | |- context [match ?x with _ => _ end] => destruct x eqn:?
    end.

  Ltac xsolve := cbv zeta; repeat xstep; solve_ext.

  Lemma ext_key_only mk c a s : ext c s (snd (x_key_only hstate handle mk c a s)).
  Proof. unfold x_key_only. xsolve. Qed.
  Lemma ext_keys mk c a s : ext c s (snd (x_keys hstate handle mk c a s)).
  Proof. unfold x_keys. xsolve. Qed.
  Lemma ext_key_strs mk c a s : ext c s (snd (x_key_strs hstate handle mk c a s)).
  Proof. unfold x_key_strs. xsolve. Qed.
  Lemma ext_key_str mk c a s : ext c s (snd (x_key_str hstate handle mk c a s)).
  Proof. unfold x_key_str. xsolve. Qed.
  Lemma ext_key_int mk c a s : ext c s (snd (x_key_int hstate handle mk c a s)).
  Proof. unfold x_key_int. xsolve. Qed.
  Lemma ext_pop mk c a s : ext c s (snd (x_pop hstate handle mk c a s)).
  Proof. unfold x_pop. xsolve. Qed.
  Lemma ext_hset nx c a s : ext c s (snd (x_hset hstate handle nx c a s)).
  Proof. unfold x_hset. xsolve. Qed.

  Lemma ext_EXPIRE c a s : ext c s (snd (x_EXPIRE hstate handle c a s)).
  Proof. unfold x_EXPIRE. xsolve. Qed.
  Lemma ext_EXPIREAT c a s : ext c s (snd (x_EXPIREAT hstate handle c a s)).
  Proof. unfold x_EXPIREAT. xsolve. Qed.
  Lemma ext_SCAN c a s : ext c s (snd (x_SCAN hstate handle regexp_src c a s)).
  Proof. unfold x_SCAN. xsolve. Qed.
  Lemma ext_SET c a s : ext c s (snd (x_SET hstate handle c a s)).
  Proof. unfold x_SET. xsolve. Qed.
  Lemma ext_SETEX c a s : ext c s (snd (x_SETEX hstate handle c a s)).
  Proof. unfold x_SETEX. xsolve. Qed.
  Lemma ext_LRANGE c a s : ext c s (snd (x_LRANGE hstate handle c a s)).
  Proof. unfold x_LRANGE. xsolve. Qed.
  Lemma ext_ZADD c a s : ext c s (snd (x_ZADD hstate handle c a s)).
  Proof. unfold x_ZADD. xsolve. Qed.
  Lemma ext_ZINCRBY c a s : ext c s (snd (x_ZINCRBY hstate handle c a s)).
  Proof. unfold x_ZINCRBY. xsolve. Qed.
  Lemma ext_ZRANGE c a s : ext c s (snd (x_ZRANGE hstate handle c a s)).
  Proof. unfold x_ZRANGE. xsolve. Qed.
  Lemma ext_ZRANGEBYSCORE c a s : ext c s (snd (x_ZRANGEBYSCORE hstate handle c a s)).
  Proof. unfold x_ZRANGEBYSCORE. xsolve. Qed.

  Lemma ext_set_each c mk l : forall s, ext c s (snd (set_each hstate handle c mk l s)).
  Proof.
    induction l as [|[k v] l IH]; intros s; cbn [set_each]; [apply ext_refl|].
    destruct (Exec.call hstate handle c (mk k v) s) as [res s1] eqn:E. apply ext_call in E.
    destruct (hr_err res); cbn [snd]; [exact E|]. eapply ext_trans; [exact E|apply IH].
  Qed.

  Lemma ext_msetnx_probe c l : forall s, ext c s (snd (msetnx_probe hstate handle c l s)).
  Proof.
    induction l as [|[k v] l IH]; intros s; cbn [msetnx_probe]; [apply ext_refl|].
    destruct (Exec.call hstate handle c (HGet k) s) as [res s1] eqn:E. apply ext_call in E.
    destruct (hr_err res); cbn [snd]; [exact E|].
    destruct (msg_is_nil (hr_msg res)); cbn [snd]; [|exact E]. eapply ext_trans; [exact E|apply IH].
  Qed.

  Lemma ext_get_each c mk l : forall s acc, ext c s (snd (get_each hstate handle c mk l s acc)).
  Proof.
    induction l as [|k l IH]; intros s acc; cbn [get_each]; [apply ext_refl|].
    destruct (Exec.call hstate handle c (mk k) s) as [res s1] eqn:E. apply ext_call in E.
    destruct (hr_err res); cbn [snd]; [exact E|]. eapply ext_trans; [exact E|apply IH].
  Qed.

  Lemma ext_collect c s r : ext c s (snd r) -> ext c s (snd (collect hstate r)).
  Proof. destruct r as [[e|ms] s']; cbn [collect snd]; [auto|]. destruct (all_some ms); auto. Qed.

  Lemma ext_MSET c a s : ext c s (snd (x_MSET hstate handle c a s)).
  Proof.
    unfold x_MSET. destruct (next_map1 a) as [[d|e] r]; [|apply ext_refl].
    pose proof (ext_set_each c (fun k v => HSet k v default_set_opt) d s) as H.
    destruct (set_each hstate handle c _ d s) as [[e|] s']; exact H.
  Qed.

  Lemma ext_MSETNX c a s : ext c s (snd (x_MSETNX hstate handle c a s)).
  Proof.
    unfold x_MSETNX. destruct (next_map1 a) as [[d|e] r]; [|apply ext_refl].
    pose proof (ext_msetnx_probe c d s) as H.
    destruct (msetnx_probe hstate handle c d s) as [[r0|] s']; [exact H|]. cbn [snd] in H.
    pose proof (ext_set_each c (fun k v => HSet k v (with_flags true false 0)) d s') as H2.
    destruct (set_each hstate handle c _ d s') as [[e|] s'']; cbn [snd] in *; eapply ext_trans; eauto.
  Qed.

  Lemma ext_MGET c a s : ext c s (snd (x_MGET hstate handle c a s)).
  Proof. unfold x_MGET. destruct (strs1 a); [|apply ext_refl]. apply ext_collect, ext_get_each. Qed.

  Lemma ext_HMSET c a s : ext c s (snd (x_HMSET hstate handle c a s)).
  Proof.
    unfold x_HMSET. destruct (key1 a) as [[h r]|]; [|apply ext_refl].
    destruct (next_map1 r) as [[d|e] r']; [|apply ext_refl].
    pose proof (ext_set_each c (fun f v => HHSet h f v false) d s) as H.
    destruct (set_each hstate handle c _ d s) as [[e|] s']; exact H.
  Qed.

  Lemma ext_HMGET c a s : ext c s (snd (x_HMGET hstate handle c a s)).
  Proof.
    unfold x_HMGET. destruct (key1 a) as [[h r]|]; [|apply ext_refl].
    destruct (strs1 r); [|apply ext_refl]. apply ext_collect, ext_get_each.
  Qed.

  Lemma ext_ZREVRANGE c a s : ext c s (snd (x_ZREVRANGE hstate handle c a s)).
  Proof. unfold x_ZREVRANGE. xsolve. Qed.
  Lemma ext_ZREVRANGEBYSCORE c a s : ext c s (snd (x_ZREVRANGEBYSCORE hstate handle c a s)).
  Proof. unfold x_ZREVRANGEBYSCORE. xsolve. Qed.

  Lemma ext_incdec c k d s : ext c s (snd (incdec hstate handle c k d s)).
  Proof. unfold incdec. xsolve. Qed.
  Hint Resolve ext_incdec : exth.
  Lemma ext_INCR c a s : ext c s (snd (x_INCR hstate handle c a s)).
  Proof. unfold x_INCR. xsolve. Qed.
  Lemma ext_DECR c a s : ext c s (snd (x_DECR hstate handle c a s)).
  Proof. unfold x_DECR. xsolve. Qed.
  Lemma ext_INCRBY c a s : ext c s (snd (x_INCRBY hstate handle c a s)).
  Proof. unfold x_INCRBY. xsolve. Qed.
  Lemma ext_DECRBY c a s : ext c s (snd (x_DECRBY hstate handle c a s)).
  Proof. unfold x_DECRBY. xsolve. Qed.
  Lemma ext_APPEND c a s : ext c s (snd (x_APPEND hstate handle c a s)).
  Proof. unfold x_APPEND. xsolve. Qed.

  (* GETRANGE: the slice bounds computed by the clamping are always inside the string *)
  Lemma getrange_bounds_ok len st en lo hi :
    0 <= len -> getrange_bounds len st en = Some (lo, hi) -> 0 <= lo /\ lo <= hi /\ hi <= len.
  Proof.
    unfold getrange_bounds. intros Hl.
    destruct ((st <? 0) && (en <? 0) && (en <? st)); [discriminate|].
    set (st1 := if st <? 0 then len + st else st).
    set (en1 := if en <? 0 then len + en else en).
    set (st2 := if st1 <? 0 then 0 else st1).
    set (en2 := if en1 <? 0 then 0 else en1).
    set (en3 := if len <=? en2 then len - 1 else en2).
    destruct ((len =? 0) || (en3 <? st2)) eqn:E; [discriminate|].
    intros H; inversion H; subst; clear H.
    apply orb_false_elim in E. destruct E as [E0 E1].
    apply Z.eqb_neq in E0. apply Z.ltb_ge in E1.
    assert (0 <= st2) by (unfold st2; destruct (Z.ltb_spec st1 0); lia).
    assert (en3 <= len - 1).
    { unfold en3. destruct (Z.leb_spec len en2); lia. }
    lia.
  Qed.

  Lemma go_slice_ok {A} (l : list A) lo hi : 0 <= lo -> lo <= hi -> hi <= lenZ l -> exists r, go_slice l lo hi = Ok r.
  Proof.
    intros H1 H2 H3. unfold go_slice, lenZ in *.
    destruct (Z.leb_spec 0 lo); [|lia]. destruct (Z.leb_spec lo hi); [|lia].
    destruct (Z.leb_spec hi (Z.of_nat (length l))); [|lia]. cbn [andb]. eauto.
  Qed.

  Lemma ext_GETRANGE c a s : exists r s', x_GETRANGE hstate handle c a s = Ok (r, s') /\ ext c s s'.
  Proof.
    unfold x_GETRANGE.
    destruct (key1 a) as [[k r]|]; [|eexists; eexists; split; [reflexivity|apply ext_refl]].
    destruct (int1 r) as [[st r']|]; [|eexists; eexists; split; [reflexivity|apply ext_refl]].
    destruct (int1 r') as [[en r'']|]; [|eexists; eexists; split; [reflexivity|apply ext_refl]].
    destruct (Exec.call hstate handle c (HGet k) s) as [g s1] eqn:E. apply ext_call in E.
    destruct (hr_err g); [eexists; eexists; split; [reflexivity|exact E]|].
    match goal with |- context [match ?sv with Some _ => _ | None => _ end] => destruct sv as [v|] eqn:Ev end;
      [|eexists; eexists; split; [reflexivity|exact E]].
    destruct (getrange_bounds (lenZ v) st en) as [[lo hi]|] eqn:Eb; [|eexists; eexists; split; [reflexivity|exact E]].
    apply getrange_bounds_ok in Eb; [|unfold lenZ; lia]. destruct Eb as (B1 & B2 & B3).
    destruct (go_slice_ok v lo hi B1 B2 B3) as [sl Hs]. rewrite Hs. cbn [obind].
    eexists; eexists; split; [reflexivity|exact E].
  Qed.

  Lemma ext_nested name x c a s :
    (forall c a s, ext c s (snd (x c a s))) -> ext c s (snd (nested hstate name x c a s)).
  Proof.
    intros Hx. unfold nested. destruct (cs_auth c).
    - pose proof (Hx c a (emit (EvSpanStart (bytes_of_string name)) s)) as H.
      destruct (x c a (emit (EvSpanStart (bytes_of_string name)) s)) as [r s']. cbn [snd] in *.
      eapply ext_wrap; exact H.
    - cbn [snd]. eapply ext_wrap. apply ext_refl.
  Qed.

  Lemma ext_GET c a s : ext c s (snd (x_GET hstate handle c a s)). Proof. apply ext_key_only. Qed.
  Lemma ext_HGET c a s : ext c s (snd (x_HGET hstate handle c a s)). Proof. apply ext_key_str. Qed.
  Lemma ext_HGETALL c a s : ext c s (snd (x_HGETALL hstate handle c a s)). Proof. apply ext_key_only. Qed.

  Ltac nsolve lem :=
    match goal with
    | |- context [nested _ ?n ?x ?c ?a ?s] =>
        let H := fresh "H" in
        pose proof (ext_nested n x c a s lem) as H;
        destruct (nested hstate n x c a s) as [? ?]; cbn [snd] in H; xsolve
    end.

  Lemma ext_STRLEN c a s : ext c s (snd (x_STRLEN hstate handle c a s)).
  Proof. unfold x_STRLEN. nsolve ext_GET. Qed.
  Lemma ext_HEXISTS c a s : ext c s (snd (x_HEXISTS hstate handle c a s)).
  Proof. unfold x_HEXISTS. nsolve ext_HGET. Qed.
  Lemma ext_HSTRLEN c a s : ext c s (snd (x_HSTRLEN hstate handle c a s)).
  Proof. unfold x_HSTRLEN. nsolve ext_HGET. Qed.
  Lemma ext_hgetall_map f c a s : ext c s (snd (hgetall_map hstate handle f c a s)).
  Proof. unfold hgetall_map. nsolve ext_HGETALL. Qed.
  Lemma ext_HKEYS c a s : ext c s (snd (x_HKEYS hstate handle c a s)). Proof. apply ext_hgetall_map. Qed.
  Lemma ext_HLEN c a s : ext c s (snd (x_HLEN hstate handle c a s)).
  Proof. unfold x_HLEN. nsolve ext_HKEYS. Qed.
  Lemma ext_SCARD c a s : ext c s (snd (x_SCARD hstate handle c a s)).
  Proof. unfold x_SCARD. xsolve. Qed.
  Lemma ext_ZCARD c a s : ext c s (snd (x_ZCARD hstate handle c a s)).
  Proof. unfold x_ZCARD. xsolve. Qed.
  Lemma ext_SISMEMBER c a s : ext c s (snd (x_SISMEMBER hstate handle c a s)).
  Proof. unfold x_SISMEMBER. xsolve. Qed.

  (* ----- the whole table ----- *)
  Definition kind_ok (k : cmd_kind hstate) : Prop :=
    match k with
    | KUser _ x => forall c a s, ext c s (snd (x c a s))
    | KUserP _ x => forall c a s, exists r s', x c a s = Ok (r, s') /\ ext c s s'
    end.

  Lemma table_ok : Forall (fun nk => kind_ok (snd nk)) (user_table hstate handle regexp_src).
  Proof.
    unfold user_table.
    repeat (apply Forall_cons;
            [cbn [snd kind_ok]; intros c a s;
             first [ apply ext_keys | apply ext_key_only | apply ext_key_str | apply ext_key_strs | apply ext_key_int
                   | apply ext_pop | apply ext_hset | apply ext_EXPIRE | apply ext_EXPIREAT | apply ext_SCAN | apply ext_SET
                   | apply ext_SETEX | apply ext_MSET | apply ext_MSETNX | apply ext_MGET | apply ext_HMSET | apply ext_HMGET
                   | apply ext_LRANGE | apply ext_ZADD | apply ext_ZINCRBY | apply ext_ZRANGE | apply ext_ZREVRANGE
                   | apply ext_ZRANGEBYSCORE | apply ext_ZREVRANGEBYSCORE | apply ext_APPEND | apply ext_DECR | apply ext_DECRBY
                   | apply ext_INCR | apply ext_INCRBY | apply ext_STRLEN | apply ext_HEXISTS | apply ext_hgetall_map
                   | apply ext_HLEN | apply ext_HSTRLEN | apply ext_SCARD | apply ext_SISMEMBER | apply ext_ZCARD
                   | apply ext_GETRANGE | idtac ] |]).
    2: apply Forall_nil.
    (* SUBSTR: GETRANGE inside a nested span *)
    destruct (ext_GETRANGE c a (emit (EvSpanStart (B"GETRANGE")) s)) as (r & s' & E & X).
    rewrite E. eexists; eexists; split; [reflexivity|]. eapply ext_wrap; exact X.
  Qed.

  Lemma lookup_ok name : forall t k, Forall (fun nk => kind_ok (snd nk)) t -> lookup_cmd hstate name t = Some k -> kind_ok k.
  Proof.
    induction t as [|[n k0] t IH]; intros k F H; cbn [lookup_cmd] in H; [discriminate|].
    inversion F as [|? ? Hk Ft]; subst. destruct (bytes_eqb name (bytes_of_string n)).
    - inversion H; subst. exact Hk.
    - apply IH; assumption.
  Qed.

  (* ---------- executeCommand / handleArrayMessage / handleMessage ---------- *)
  Notation world := (world hstate).
  Notation execute_command := (execute_command hstate handle regexp_src).
  Notation handle_array := (handle_array hstate handle regexp_src).
  Notation handle_message := (handle_message hstate handle regexp_src).
  Notation step := (step hstate handle regexp_src fw_text).
  Notation serve_loop := (serve_loop hstate handle regexp_src fw_text).
  Notation serve := (serve hstate handle regexp_src fw_text).

  Definition wext (w w' : world) : Prop := ext (w_cs _ w) (w_est _ w) (w_est _ w').

  Lemma wext_refl w : wext w w. Proof. apply ext_refl. Qed.

  Lemma execute_command_ok w cmd a : exists r w', execute_command w cmd a = Ok (r, w') /\ wext w w'.
  Proof.
    unfold Conn.execute_command, wext.
    set (up := upper cmd). set (c := w_cs _ w). set (ss := w_ss _ w). set (s := w_est _ w).
    match goal with |- context [negb ?f] => destruct f end; cbn [negb];
      [|eexists; eexists; split; [reflexivity|apply ext_refl]].
    assert (W0 : forall s', ext c (emit (EvSpanStart up) s) s' -> ext c s (emit EvSpanFinish s')) by (intros; eapply ext_wrap; eauto).
    destruct (negb (cs_auth c) && negb (bytes_eqb up (B"AUTH"))).
    { eexists; eexists; split; [reflexivity|]. cbn [w_est]. apply W0, ext_refl. }
    destruct (bytes_eqb up (B"AUTH")).
    { destruct (x_AUTH ss c a) as [r c']. eexists; eexists; split; [reflexivity|]. cbn [w_est]. apply W0, ext_refl. }
    destruct (bytes_eqb up (B"PING")); [eexists; eexists; split; [reflexivity|]; cbn [w_est]; apply W0, ext_refl|].
    destruct (bytes_eqb up (B"ECHO")); [eexists; eexists; split; [reflexivity|]; cbn [w_est]; apply W0, ext_refl|].
    destruct (bytes_eqb up (B"SELECT")).
    { destruct (x_SELECT c a) as [r c']. eexists; eexists; split; [reflexivity|]. cbn [w_est]. apply W0, ext_refl. }
    destruct (bytes_eqb up (B"QUIT")); [eexists; eexists; split; [reflexivity|]; cbn [w_est]; apply W0, ext_refl|].
    destruct (bytes_eqb up (B"CONFIG")).
    { destruct (x_CONFIG ss a) as [r ss']. eexists; eexists; split; [reflexivity|]. cbn [w_est]. apply W0, ext_refl. }
    destruct (lookup_cmd hstate up (user_table hstate handle regexp_src)) as [k|] eqn:L.
    - pose proof (lookup_ok up _ k table_ok L) as K. destruct k as [x|x]; cbn [kind_ok] in K.
      + specialize (K c a (emit (EvSpanStart up) s)). destruct (x c a (emit (EvSpanStart up) s)) as [r s'].
        eexists; eexists; split; [reflexivity|]. cbn [w_est snd] in *. apply W0, K.
      + destruct (K c a (emit (EvSpanStart up) s)) as (r & s' & E & X). rewrite E.
        eexists; eexists; split; [reflexivity|]. cbn [w_est]. apply W0, X.
    - eexists; eexists; split; [reflexivity|]. cbn [w_est]. apply W0, ext_app_ev.
  Qed.

  Lemma handle_array_ok fuel : forall w a, exists r w', handle_array fuel w a = Ok (r, w') /\ wext w w'.
  Proof.
    induction fuel as [|f IH]; intros w a; destruct a as [|first rest]; cbn [Conn.handle_array];
      try (eexists; eexists; split; [reflexivity|apply wext_refl]).
    - destruct first; try (destruct (msg_string _); [apply execute_command_ok|]);
        eexists; eexists; split; try reflexivity; apply wext_refl.
    - destruct first; try (destruct (msg_string _); [apply execute_command_ok|]);
        try (eexists; eexists; split; [reflexivity|apply wext_refl]).
      apply IH.
  Qed.

  Lemma handle_message_ok w req : exists r w', handle_message w req = Ok (r, w') /\ wext w w'.
  Proof.
    destruct req; cbn [Conn.handle_message]; try (eexists; eexists; split; [reflexivity|apply wext_refl]).
    apply handle_array_ok.
  Qed.

  (* ---------- one loop iteration ---------- *)
  Definition iter_tail (b : bytes) : list ev := [EvSpanStart (B"response"); EvWrite b; EvSpanFinish; EvRootFinish].
  Definition iter_head : list ev := [EvRootStart; EvSpanStart (B"parse"); EvSpanFinish].
  Definition iter_evs (inner : list ev) (b : bytes) : list ev := iter_head ++ inner ++ iter_tail b.

  (* C07 (1): a loop iteration never panics, whatever the request and whatever the handler returns *)
  Lemma step_ok w req : exists q w' r inner,
    step w req = Ok (q, w') /\ q = is_quit r /\
    e_evs _ (w_est _ w') = rev (inner ++ iter_tail (encode (reply_of fw_text req r))) ++ e_evs _ (w_est _ w) /\
    good inner /\ Forall (call_of (w_cs _ w)) inner.
  Proof.
    unfold Conn.step. destruct (handle_message_ok w req) as (r & w1 & E & (inner & Ev & G & F)). rewrite E.
    exists (is_quit r), {| w_cs := w_cs _ w1; w_ss := w_ss _ w1;
                           w_est := emit EvRootFinish (emit EvSpanFinish (emit (EvWrite (encode (reply_of fw_text req r)))
                                      (emit (EvSpanStart (B"response")) (w_est _ w1)))) |}, r, inner.
    split; [reflexivity|]. split; [reflexivity|]. split; [|split; assumption].
    cbn [w_est Exec.emit e_evs]. rewrite Ev. unfold iter_tail. rewrite rev_app_distr. cbn [rev app]. reflexivity.
  Qed.

  (* ---------- the receive loop ---------- *)
  Definition loop_closing : list ev := iter_head ++ [EvRootFinish].

  (* the events a loop adds: complete iterations (inner events, reply value), then either nothing (QUIT) or the
     closing of the iteration that met end of stream / a protocol error *)
  Definition loop_evs (its : list (list ev * resp)) (closing : list ev) : list ev :=
    flat_map (fun it => iter_evs (fst it) (encode (snd it))) its ++ closing.

  Definition its_good (its : list (list ev * resp)) : Prop := Forall (fun it => good (fst it)) its.

  Lemma iter_rev inner b tl :
    rev (iter_evs inner b) ++ tl = rev (inner ++ iter_tail b) ++ EvSpanFinish :: EvSpanStart (B"parse") :: EvRootStart :: tl.
  Proof. unfold iter_evs, iter_head. rewrite rev_app_distr. cbn [rev app]. rewrite <- !app_assoc. reflexivity. Qed.

  Lemma loop_evs_cons it its cl tl :
    rev (loop_evs (it :: its) cl) ++ tl = rev (loop_evs its cl) ++ rev (iter_evs (fst it) (encode (snd it))) ++ tl.
  Proof. unfold loop_evs. cbn [flat_map]. rewrite <- app_assoc, rev_app_distr, <- app_assoc. reflexivity. Qed.

  (* (G) for EVERY input byte string: with fuel above the input length the loop ends by end of stream, protocol
     error or QUIT - never by a panic or by running out of fuel - and what it emits is a sequence of complete
     iterations *)
  Lemma serve_loop_any f : forall w input, (length input < f)%nat ->
    exists its closing,
      e_evs _ (w_est _ (snd (serve_loop f w input))) = rev (loop_evs its closing) ++ e_evs _ (w_est _ w) /\
      its_good its /\
      ((fst (serve_loop f w input) = EndQuit /\ closing = [] /\ its <> []) \/
       ((fst (serve_loop f w input) = EndEOS \/ fst (serve_loop f w input) = EndProtoErr) /\ closing = loop_closing)).
  Proof.
    induction f as [|f IH]; intros w input Hf; [lia|].
    cbn [Conn.serve_loop].
    set (w0 := {| w_cs := w_cs _ w; w_ss := w_ss _ w;
                  w_est := emit EvSpanFinish (emit (EvSpanStart (B"parse")) (emit EvRootStart (w_est _ w))) |}).
    pose proof (parse_total input) as PT.
    destruct (parse input) as [pr rest] eqn:EP. cbn [fst] in PT.
    destruct pr as [req| | | |]; try contradiction.
    - (* a value *)
      destruct (step_ok w0 req) as (q & w1 & r & inner & ES & Eq & Ev & G & _). rewrite ES.
      assert (Hrest : (length rest < f)%nat).
      { unfold parse in EP. apply parse_fuel_consumes in EP. destruct EP as (c & Hc & ->).
        rewrite app_length in Hf. destruct c; [congruence|]. cbn [length] in Hf. lia. }
      destruct q.
      + exists [(inner, reply_of fw_text req r)], []. cbn [fst snd]. split; [|split].
        * rewrite Ev, loop_evs_cons. cbn [fst snd]. rewrite iter_rev. reflexivity.
        * constructor; [exact G|constructor].
        * left. repeat split. discriminate.
      + destruct (IH w1 rest Hrest) as (its & closing & Ev2 & G2 & Hend).
        exists ((inner, reply_of fw_text req r) :: its), closing. split; [|split].
        * rewrite Ev2, Ev, loop_evs_cons. cbn [fst snd]. rewrite iter_rev. reflexivity.
        * constructor; [exact G|exact G2].
        * destruct Hend as [(E1 & E2 & E3)|(E1 & E2)]; [left|right]; repeat split; try assumption. discriminate.
    - exists [], loop_closing. cbn [fst snd w_est Exec.emit e_evs]. split; [reflexivity|]. split; [constructor|]. right. split; [left; reflexivity|reflexivity].
    - exists [], loop_closing. cbn [fst snd w_est Exec.emit e_evs]. split; [reflexivity|]. split; [constructor|]. right. split; [right; reflexivity|reflexivity].
  Qed.

  (* (R) the loop over the bytes of a request sequence is the fold of `step` over the requests *)
  Definition open_iter (w : world) : world :=
    {| w_cs := w_cs _ w; w_ss := w_ss _ w;
       w_est := emit EvSpanFinish (emit (EvSpanStart (B"parse")) (emit EvRootStart (w_est _ w))) |}.
  Definition close_iter (w : world) : world :=
    {| w_cs := w_cs _ w; w_ss := w_ss _ w; w_est := emit EvRootFinish (w_est _ (open_iter w)) |}.

  Fixpoint run_body (w : world) (reqs : list resp) : option ending * world :=
    match reqs with
    | [] => (None, w)
    | req :: rest =>
      match step (open_iter w) req with
      | Panic => (Some EndPanic, open_iter w)
      | Ok (true, w') => (Some EndQuit, w')
      | Ok (false, w') => run_body w' rest
      end
    end.

  Definition run_reqs (w : world) (reqs : list resp) (tail_err : bool) : ending * world :=
    match run_body w reqs with
    | (Some e, w') => (e, w')
    | (None, w') => (if tail_err then EndProtoErr else EndEOS, close_iter w')
    end.

  Definition is_nil {A} (l : list A) : bool := match l with [] => true | _ => false end.

  Lemma serve_loop_run : forall reqs w tail f,
    forallb wf reqs = true -> forallb size_ok reqs = true ->
    (tail = [] \/ fst (parse tail) = PErr) ->
    (length reqs < f)%nat ->
    serve_loop f w (flat_map encode reqs ++ tail) = run_reqs w reqs (negb (is_nil tail)).
  Proof.
    induction reqs as [|v reqs IH]; intros w tail f Hwf Hsz Htail Hf.
    - destruct f as [|f]; [cbn [length] in Hf; lia|]. cbn [flat_map app Conn.serve_loop]. unfold run_reqs. cbn [run_body].
      destruct Htail as [->|Ht].
      + cbn. reflexivity.
      + destruct tail as [|b t]; [vm_compute in Ht; discriminate|].
        destruct (parse (b :: t)) as [pr rest]. cbn [fst] in Ht. subst pr. reflexivity.
    - destruct f as [|f]; [cbn [length] in Hf; lia|].
      cbn [forallb] in Hwf, Hsz. apply andb_prop in Hwf, Hsz. destruct Hwf as [Hw1 Hw2], Hsz as [Hs1 Hs2].
      cbn [flat_map]. rewrite <- app_assoc. cbn [Conn.serve_loop]. rewrite (parse_encode v _ Hw1 Hs1).
      unfold run_reqs. cbn [run_body]. fold (open_iter w).
      destruct (step (open_iter w) v) as [[[|] w']|]; try reflexivity.
      rewrite (IH w' tail f Hw2 Hs2 Htail) by (cbn [length] in Hf; lia). reflexivity.
  Qed.

  Lemma run_body_app : forall l1 l2 w,
    run_body w (l1 ++ l2) = match run_body w l1 with
                            | (Some e, w') => (Some e, w')
                            | (None, w') => run_body w' l2
                            end.
  Proof.
    induction l1 as [|v l1 IH]; intros l2 w; [reflexivity|].
    cbn [app run_body]. destruct (step (open_iter w) v) as [[[|] w']|]; try reflexivity. apply IH.
  Qed.

  (* what run_body emits: one complete iteration per processed request, in order; it stops after the first
     request whose result is the QUIT sentinel *)
  Lemma run_body_spec : forall reqs w,
    exists its,
      e_evs _ (w_est _ (snd (run_body w reqs))) = rev (loop_evs its []) ++ e_evs _ (w_est _ w) /\
      its_good its /\
      Forall2 (fun it req => exists r, snd it = reply_of fw_text req r) its (firstn (length its) reqs) /\
      (length its <= length reqs)%nat /\
      (fst (run_body w reqs) = None /\ length its = length reqs \/
       fst (run_body w reqs) = Some EndQuit /\ its <> []).
  Proof.
    induction reqs as [|v reqs IH]; intros w.
    - exists []. cbn [run_body fst snd length firstn]. split; [reflexivity|]. split; [constructor|]. split; [constructor|].
      split; [lia|]. left; split; reflexivity.
    - cbn [run_body]. destruct (step_ok (open_iter w) v) as (q & w1 & r & inner & ES & Eq & Ev & G & _). rewrite ES.
      destruct q.
      + exists [(inner, reply_of fw_text v r)]. cbn [fst snd length firstn]. split; [|split; [|split; [|split]]].
        * rewrite Ev, loop_evs_cons. cbn [fst snd]. rewrite iter_rev. reflexivity.
        * constructor; [exact G|constructor].
        * constructor; [exists r; reflexivity|constructor].
        * lia.
        * right. split; [reflexivity|discriminate].
      + destruct (IH w1) as (its & Ev2 & G2 & F2 & L2 & Hend).
        exists ((inner, reply_of fw_text v r) :: its). cbn [fst snd length firstn]. split; [|split; [|split; [|split]]].
        * rewrite Ev2, Ev, loop_evs_cons. cbn [fst snd]. rewrite iter_rev. reflexivity.
        * constructor; [exact G|exact G2].
        * constructor; [exists r; reflexivity|exact F2].
        * lia.
        * destruct Hend as [(E1 & E2)|(E1 & E2)]; [left|right]; split; try assumption; [lia|discriminate].
  Qed.
End Facts.
